#!/bin/sh
# mut.sh <patch-or-sed-script.sh> <property>... : apply a change to /repo, run the checks, always revert.
P="$1"; shift
cd /repo || exit 2
if [ -n "$(git status --porcelain)" ]; then echo "mut.sh: /repo not clean" >&2; exit 2; fi
case "$P" in
  *.sh) sh "$P" ;;
  *) git apply "$P" ;;
esac || { git checkout -- .; echo "mut.sh: change does not apply" >&2; exit 2; }
(cd /repo && GOFLAGS=-mod=mod GOPROXY=off go build -tags sqlite ./... 2>&1 | head -5)
for id in "$@"; do
  /verif/check.sh "$id" quick 2>&1 | grep -v "^WARNING conda" | cut -c1-420 | grep -E "VIOLATION|VIOLATED|UNDECIDED|KNOWN|ketosa:" | head -12
  echo "== $id exit=$?"
done
git -C /repo checkout -- . ; git -C /repo clean -fdq
