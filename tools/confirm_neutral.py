#!/usr/bin/env python3
"""confirm_neutral.py [ids...]: applies each /verif/neutral/<id>/patch.diff in a scratch worktree of /repo, builds, and runs
the tests of the touched packages (-short -tags sqlite) plus the check/expand/relationtuple/e2e-free core packages; records
the outcome in meta.json (confirmed: true/false). The worktree is removed at the end."""
import json, os, subprocess, sys, re
WT = os.environ.get('CONFIRM_WT', '/tmp/confirm-neutral-wt')
env = dict(os.environ, GOFLAGS='-mod=mod', GOPROXY='off'); env.pop('GOWORK', None)
def sh(cmd, cwd=WT, t=1800):
    r = subprocess.run(cmd, shell=True, cwd=cwd, env=env, capture_output=True, text=True, timeout=t)
    return r.returncode, (r.stdout + r.stderr)
ids = sys.argv[1:] or sorted(d for d in os.listdir('/verif/neutral') if d.startswith('C') and os.path.isdir('/verif/neutral/' + d))
subprocess.run(f'git -C /repo worktree remove --force {WT}; git -C /repo worktree prune; git -C /repo worktree add --detach {WT} HEAD', shell=True, capture_output=True)
try:
    for n in ids:
        d = f'/verif/neutral/{n}'
        meta = json.load(open(d + '/meta.json'))
        sh('git checkout -q -- . && git clean -fdq')
        rc, out = sh(f'git apply {d}/patch.diff')
        if rc: meta.update(confirmed=False, confirm_note='patch does not apply: ' + out[-300:]); print(n, 'NOAPPLY'); json.dump(meta, open(d + '/meta.json', 'w'), indent=1); continue
        files = re.findall(r'^\+\+\+ b/(\S+)', open(d + '/patch.diff').read(), re.M)
        pkgs = sorted({'./' + os.path.dirname(f) + '/...' for f in files if f.endswith('.go')})
        rc, out = sh('go build ./... 2>&1 | tail -20')
        if 'error' in out.lower() or rc: meta.update(confirmed=False, confirm_note='build: ' + out[-300:]); print(n, 'NOBUILD', out[-200:]); json.dump(meta, open(d + '/meta.json', 'w'), indent=1); continue
        cmd = 'go test -short -count=1 -tags sqlite ' + ' '.join(pkgs) + ' 2>&1 | grep -v "no test files" | tail -30'
        rc, out = sh(cmd)
        ok = 'FAIL' not in out
        meta.update(confirmed=ok, confirm_note=('tests pass: ' if ok else 'TESTS FAIL: ') + cmd.split(' 2>&1')[0] + ('' if ok else ' :: ' + out[-400:]))
        print(n, 'OK' if ok else 'TESTFAIL', pkgs, '' if ok else out[-300:])
        json.dump(meta, open(d + '/meta.json', 'w'), indent=1)
finally:
    subprocess.run(f'git -C /repo worktree remove --force {WT}; git -C /repo worktree prune', shell=True, capture_output=True)
