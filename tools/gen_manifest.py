#!/usr/bin/env python3
"""Regenerates MANIFEST.json from the table below (kept in one place so the
claimed set, the not_applicable list and the techniques stay consistent)."""
import json, os
HERE = os.path.dirname(os.path.dirname(os.path.abspath(__file__)))

TRUST = ("Trusted base: go/types, go/ssa (x/tools v0.29.0), the keto call graph construction described in DESIGN.md §3 (library code calls back "
         "into keto only through values handed to it on that path), popx.Transaction commit/rollback, pop emitting the fragments it is given, "
         "herodot's status mapping, protobuf-go decoding invariants; the loader's two normalisations (renamed declarations mapped back through "
         "/verif/symbols.json, go/ssa's result spilling in functions with defers undone: DESIGN.md §9.7, §9.9). The rules are necessary conditions of the "
         "property, not a proof of the behaviour; they follow logic into helpers (parameters stand for arguments, results for returns) and judge what holds "
         "on a path rather than how it is tested, and were exercised against 131 seeded defects and 114 behaviour-preserving refactorings written by agents "
         "that saw only the property texts (DESIGN.md §9.5, §9.9).")

# id -> (design section, technique, text)
CLAIMED = {}
NOT_APPLICABLE = {}

def claim(pid, technique, text):
    CLAIMED[pid] = (technique, text)

def na(pid, reason):
    NOT_APPLICABLE[pid] = reason

def extend(pid, more_technique, more_text=""):
    t, x = CLAIMED[pid]
    CLAIMED[pid] = (t + "; " + more_technique, (x + " " + more_text).strip())

exec(open(os.path.join(HERE, "tools", "claims.py")).read())

checks = []
for pid in sorted(CLAIMED):
    technique, text = CLAIMED[pid]
    checks.append({
        "property_id": pid,
        "quick_cmd": f"./check.sh {pid} quick",
        "thorough_cmd": f"./check.sh {pid} thorough",
        "evidence_file": f"evidence/{pid}.json",
        "engine": "ketosa",
        "level_claimed": {"category": "other", "text": text, "design_ref": f"DESIGN.md §4 {pid}, §9.8"},
        "level_note": TRUST,
        "technique": technique,
    })
manifest = {
    "version": 1,
    "setup_cmd": "mkdir -p bin && cd sa && env -u GOWORK -u GOTOOLCHAIN -u GOSUMDB GOFLAGS=-mod=mod GOPROXY=off go build -o ../bin/ketosa ./cmd/ketosa",
    "hooks": {
        "guard": "verif",
        "enable": "no hooks or instrumentation are needed: the checks read /repo's source (go/packages, build tag sqlite as the shipped binary) and never run it",
        "baseline_off_cmd": "cd /repo && go test -mod=mod -json -vet=off -count=1 -timeout 25m ./... ; cd /repo/proto && go test -mod=mod -json -vet=off -count=1 -timeout 25m ./...",
        "source_commits": [],
        "add_only": True,
    },
    "engines": [{
        "name": "ketosa",
        "path": "sa/",
        "serves_properties": sorted(CLAIMED),
        "kind_free_text": "repository-specific static analyser over go/packages + go/types + go/ssa: CFG path counting, finite-domain abstract interpretation, call-graph reachability, SQL construction analysis, table agreement",
    }],
    "checks": checks,
    "notes": "Static analysis only. Every claimed property is claimed at level 'other': the check decides structural necessary conditions (listed in each evidence file's coverage.explanation and in DESIGN.md §4) and states what it does not decide. undecided obligations (anchor moved, idiom not recognised) fail the check.",
    "not_applicable": [{"property_id": p, "reason": NOT_APPLICABLE[p]} for p in sorted(NOT_APPLICABLE)],
}
json.dump(manifest, open(os.path.join(HERE, "MANIFEST.json"), "w"), indent=1)
print("claimed:", " ".join(sorted(CLAIMED)))
print("not applicable:", " ".join(sorted(NOT_APPLICABLE)))
