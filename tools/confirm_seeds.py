#!/usr/bin/env python3
"""Confirms every seeded change in a scratch worktree of /repo (never in /repo itself):
patch applies, tree builds, the 187 baseline tests still pass, the sqlite-tagged suites still pass,
the demonstration fails with the change and passes without it. Writes /tmp/confirm-results.jsonl."""
import json, os, subprocess, sys, shutil
ENV = dict(os.environ, GOFLAGS="-mod=mod", GOPROXY="off")
ENV.pop("GOWORK", None)
WT = os.environ.get("CONFIRM_WT", "/tmp/confirm-wt")
S = "-tags sqlite"
T = [
 ("C01","a","a/demo_test.go","internal/check/seed_demo_a_test.go",f"{S} -run TestSeedDemoIntersectionSharedGroup ./internal/check/"),
 ("C01","b","b/demo_test.go","internal/check/seed_demo_b_test.go",f"{S} -run TestSeedDemoTraverseManyParents ./internal/check/"),
 ("C02","a","a/seed_a_demo_test.go","internal/check/seed_a_demo_test.go",f"{S} -run TestSeedDemoNegatedCutOffFailsClosed ./internal/check/"),
 ("C02","b","b/seed_b_demo_test.go","internal/check/seed_b_demo_test.go",f"{S} -run TestSeedDemoBatchCheckDepthCannotExceedGlobal ./internal/check/"),
 ("C03","a","a/seed_a_demo_test.go","internal/check/seed_a_demo_test.go",f"{S} -run TestSeedAStorageFaultNeverAllows ./internal/check/"),
 ("C03","b","b/seed_b_demo_test.go","internal/check/seed_b_demo_test.go",f"{S} -run TestSeedBBatchEntryWithErrorNeverAllowed ./internal/check/"),
 ("C04","a","a/seed_a_demo_test.go","internal/relationtuple/seed_a_demo_test.go",f"{S} -run TestSeedDemoRolledBackCreateThenRetry ./internal/relationtuple/"),
 ("C04","b","b/seed_b_demo_test.go","internal/driver/seed_b_demo_test.go",f"{S} -run TestSeedDemoTenantNetworkDelete ./internal/driver/"),
 ("C05","a","a/seed_a_demo_test.go","internal/relationtuple/seed_a_demo_test.go",f"{S} -run TestSeedDemoA ./internal/relationtuple/"),
 ("C05","b","b/seed_b_demo_test.go","internal/relationtuple/seed_b_demo_test.go",f"{S} -run TestSeedDemoB ./internal/relationtuple/"),
 ("C06","a","a/demo_test.go","internal/persistence/sql/seed_a_demo_test.go",f"{S} -run TestSeedDemoTraverserNetworkIsolation ./internal/persistence/sql/"),
 ("C06","b","b/demo_test.go","internal/persistence/sql/seed_b_demo_test.go",f"{S} -run TestSeedDemoContextualizedNetworkIsolation ./internal/persistence/sql/"),
 ("C07","a","a/seed_demo_a_test.go","internal/relationtuple/seed_demo_a_test.go",f"{S} -run TestSeedDemoLargePageSize ./internal/relationtuple/"),
 ("C07","b","b/seed_demo_b_test.go","internal/check/seed_demo_b_test.go",f"{S} -run TestSeedDemoTupleToSubjectSetPaging ./internal/check/"),
 ("C08","a","a/demo_test.go","internal/check/seed_a_demo_test.go",f"{S} -run TestSeedBatchEntriesAgreeWithSingleCheck ./internal/check/"),
 ("C08","b","b/demo_test.go","internal/check/seed_b_demo_test.go",f"{S} -run TestSeedPostCheckSequenceAgreesWithOtherTransports ./internal/check/"),
 ("C09","a","a/demo_test.go","internal/expand/seed_demo_test.go",f"{S} -run TestSeedDemoExpandLargeFanOut ./internal/expand/"),
 ("C09","b","b/demo_test.go","internal/expand/seed_demo_test.go",f"{S} -run TestSeedDemoExpandSameObjectNameAcrossNamespaces ./internal/expand/"),
 ("C11","a","a/seed_a_demo_test.go","internal/check/seed_a_demo_test.go",f"{S} -run TestSeedDemoUnionTraverse ./internal/check/"),
 ("C11","b","b/seed_b_demo_test.go","internal/check/seed_b_demo_test.go",f"{S} -run TestSeedDemoPermitsBeforeRelated ./internal/check/"),
 ("C12","a","a/demo_test.go","internal/schema/seed_demo_test.go","-run TestSeedDemoBracketRunTerminates ./internal/schema/"),
 ("C12","b","b/demo_test.go","internal/schema/seed_demo_test.go",f"{S} -run TestSeedDemoSyntaxCheckEndpointsAgree ./internal/schema/"),
 ("C13","a","a/seed_c13_a_demo_test.go","internal/relationtuple/seed_c13_a_demo_test.go",f"{S} -run TestSeedC13DeleteUnknownNamespaceIsClientError ./internal/relationtuple/"),
 ("C13","b","b/seed_c13_b_demo_test.go","internal/schema/seed_c13_b_demo_test.go","-run TestSeedC13SyntaxCheckSurvivesRecursiveSubjectSets ./internal/schema/"),
 ("C14","a","a/demo_test.go","internal/check/seed_demo_a_test.go",f"{S} -run TestSeedBatchItemsAreIndependent ./internal/check/"),
 ("C14","b","b/demo_test.go","internal/driver/seed_demo_b_test.go",f"-race {S} -run TestSeedTenantConfigIsolation ./internal/driver/"),
 ("C15","a","a/demo_test.go","internal/check/seed_demo_test.go",f"{S} -run TestSeedDemoNegatedTraversalCycle ./internal/check/"),
 ("C15","b","b/demo_test.go","internal/check/seed_demo_test.go",f"{S} -run TestSeedDemoCancelBetweenStorageCalls ./internal/check/"),
 ("C16","a","a/seed_a_demo_test.go","internal/relationtuple/seed_a_demo_test.go",f"{S} -run TestSeedC16AStoredMappingAfterRollback ./internal/relationtuple/"),
 ("C16","b","b/seed_b_demo_test.go","internal/relationtuple/seed_b_demo_test.go",f"{S} -run TestSeedC16BBatchWithDoubleSubject ./internal/relationtuple/"),
 ("C17","a","a/demo_test.go","internal/expand/seed_demo_test.go",f"{S} -run TestSeedDemo ./internal/expand/"),
 ("C17","b","b/demo_test.go","internal/relationtuple/seed_demo_test.go",f"{S} -run TestSeedDemo ./internal/relationtuple/"),
 ("C18","a","a/seed_parse_demo_test.go","cmd/relationtuple/seed_parse_demo_test.go","-run TestSeedParseRoundTripsPrintedTuples ./cmd/relationtuple/"),
 ("C18","b","b/seed_proto_query_demo_test.go","ketoapi/seed_proto_query_demo_test.go","-run TestSeedRelationQueryProtoRoundTrip ./ketoapi/"),
 ("C19","a","a/seed_demo_a_test.go","internal/driver/config/seed_demo_a_test.go","-run TestSeedOPLReloadShowsExactlyOneVersion ./internal/driver/config/"),
 ("C19","b","b/seed_demo_b_test.go","internal/driver/config/seed_demo_b_test.go","-run TestSeedKeepLastGoodAcrossConfigReload ./internal/driver/config/"),
]
SUITES = "./internal/check/... ./internal/expand/... ./internal/relationtuple/... ./internal/driver/... ./internal/schema/... ./ketoapi/... ./internal/x/graph/..."
stable = set(json.load(open("/root/.vp/BASELINE.json"))["stable_pass"])

def sh(cmd, cwd=WT, timeout=1800):
    p = subprocess.run(cmd, shell=True, cwd=cwd, env=ENV, capture_output=True, text=True, timeout=timeout)
    return p.returncode, p.stdout + p.stderr

def baseline():
    rc, out = sh("go test -json -vet=off -count=1 -timeout 25m ./... 2>/dev/null; cd proto && go test -mod=mod -json -vet=off -count=1 ./... 2>/dev/null")
    res = {}
    for l in out.splitlines():
        try: e = json.loads(l)
        except Exception: continue
        if e.get("Action") in ("pass","fail","skip") and e.get("Test"):
            res[e["Package"]+"::"+e["Test"]] = e["Action"]
    return sorted(t for t in stable if res.get(t) != "pass")

# round 2 (and later) seeds: tools/seeds_round2.json, entries [property, variant-dir, demo, dest, cmd, srcdir, id]
T = [t + (f"/tmp/seed-{t[0]}-out", t[0] + t[1]) for t in T]
if os.path.exists("/verif/tools/seeds_round2.json"):
    T += [tuple(e) for e in json.load(open("/verif/tools/seeds_round2.json"))]
only = set(sys.argv[1:])
subprocess.run("git -C /repo worktree remove --force %s 2>/dev/null; git -C /repo worktree add --detach %s HEAD -q" % (WT, WT), shell=True)
out = open("/tmp/confirm-results.jsonl", "a")
for pid, v, demo, dest, cmd, src, key in T:
    if only and key not in only: continue
    r = {"id": key, "property": pid}
    sh("git checkout -q -- . && git clean -fdq")
    rc, o = sh(f"git apply {src}/{v}/patch.diff")
    r["applies"] = rc == 0
    if rc != 0:
        r["error"] = o[-400:]; out.write(json.dumps(r)+"\n"); out.flush(); print(r); continue
    rc, o = sh("go build ./...")
    r["builds"] = rc == 0
    shutil.copy(f"{src}/{demo}", f"{WT}/{dest}")
    rc, o = sh(f"go test -count=1 {cmd}", timeout=900)
    r["demo_with_change"] = "fail" if rc != 0 else "pass"
    r["demo_tail"] = o[-300:]
    os.remove(f"{WT}/{dest}")
    missing = baseline()
    r["baseline_not_passing"] = missing
    rc, o = sh(f"go test -tags sqlite -count=1 {SUITES} 2>&1 | grep -E '^(FAIL|---)' | head -5")
    r["sqlite_suites_failures"] = o.strip()
    sh(f"git apply -R {src}/{v}/patch.diff")
    shutil.copy(f"{src}/{demo}", f"{WT}/{dest}")
    rc, o = sh(f"go test -count=1 {cmd}", timeout=900)
    r["demo_without_change"] = "pass" if rc == 0 else "fail"
    if rc != 0: r["demo_without_tail"] = o[-300:]
    os.remove(f"{WT}/{dest}")
    r["confirmed"] = bool(r["builds"] and r["demo_with_change"]=="fail" and r["demo_without_change"]=="pass" and not missing and not r["sqlite_suites_failures"])
    out.write(json.dumps(r)+"\n"); out.flush()
    print(key, "confirmed" if r["confirmed"] else "NOT CONFIRMED", {k:r[k] for k in ("demo_with_change","demo_without_change")}, len(missing), r["sqlite_suites_failures"][:80])
subprocess.run("git -C /repo worktree remove --force %s" % WT, shell=True)
