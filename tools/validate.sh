#!/bin/sh
# validates MANIFEST.json and every evidence file against the harness schemas
cd "$(dirname "$0")/.." && python3-vt - <<'PY'
import json,jsonschema,glob
jsonschema.validate(json.load(open('MANIFEST.json')), json.load(open('/root/.vp/MANIFEST.schema.json')))
for f in sorted(glob.glob('evidence/*.json')):
    jsonschema.validate(json.load(open(f)), json.load(open('/root/.vp/EVIDENCE.schema.json')))
print('manifest and evidence valid')
PY
