# edited as checks are built; consumed by gen_manifest.py
NOTBUILT = "claimed in DESIGN.md through structural rules, but the rules are not built yet in this tree; not claimed until the check exists and is silent on correct code"

claim("C17",
      "who-may-call: reachability in a keto-specific call graph (static + class-hierarchy invokes + traced function values) from the derived read/syntax entry table to the derived set of write-statement sites, with edges guarded by Mapper.ReadOnly==false removed after proving the flag is fixed by construction",
      "Decides that no write statement is reachable from any read or syntax entry point, for every registered route and gRPC method; does not decide side effects inside the driver. Right level: the property is a who-may-call fact visible in the call graph.")

claim("C15",
      "CFG path counting of result deliveries per CheckFunc (exactly one on every return path); channel capacity vs abandonable receivers; counted-drain idiom check on the checkgroup consumer; classification of every blocking channel operation; lexicographic (guarded depth, AST descent) termination certificates for every recursive SCC of the engine's static call graph",
      "Decides delivery, channel-capacity, drain, cancellability-class and termination-certificate obligations for every CheckFunc, channel and recursive cycle of the check engine; does not decide the numeric bound on storage operations or wall-clock promptness. Right level: goroutine leaks, hangs and unbounded recursion here are path/shape facts of the code.")

claim("C03",
      "error-discipline dataflow (every non-nil path of every storage/mapping error in check and expand reaches an escape, by CFG must-pass counting); abstract execution of every Result combinator over the six-point domain {Unknown,IsMember,NotMember}x{nil,err} with a contract table per role; producer/consumer audit of Membership vs Err",
      "Decides that no storage error is dropped by the engines, that no producer or combinator can pair IsMember with an error, and that consumers of Membership are covered; does not decide equality with the fault-free answer. Right level: dropped errors and flipped error results are shape facts of each function.")

claim("C02",
      "finite-domain evaluation of the depth clamp over every ordering of (request depth, 0, global limit) at every entry into the engine, followed through callers; dominance check of the depth guards; out-of-band cut-off marker typestate (every cut-off site marks, every negation reads the flag before inverting and installs it on both context routes); schema-backed range check of the width truncation; Unknown-row of every combinator's decision table",
      "Decides the clamp, the guards, that a cut-off always reaches every negation before it may answer IsMember, and the truncation bound; does not decide equivalence with a server configured at the effective depth. Right level: these are shape facts (which value is passed, which branch dominates which call).")

claim("C01",
      "exhaustiveness tables (parser-constructed AST node kinds and operators vs the engine's dispatch switches); abstract execution of every Result combinator against its truth-table contract; dataflow of the context handed to each operand of an intersection/negation back to a per-operand fresh visited set; exhaustive evaluation of checkIsAllowed's branch conditions over all 24 consistent mode valuations against the documented table; def-use check that skipDirect=true only follows a tested traversal result",
      "Decides five structural necessary conditions of check correctness (dispatch exhaustive, combinator truth tables, visited-set scope, mode table, skipDirect justification); does not decide equality with the reference semantics over all stores. Right level: each is visible in the shape of the engine code on every path.")

claim("C08",
      "call-graph reachability of the one engine entry from every check entry point; def-use tracing of every value stored into an Allowed response field back to the engine's decision; dominance of the 200/403 writes by the decision; loop-iteration identity of batch slot index and tuple; freshness of JSON decode targets",
      "Decides that every check transport funnels into Engine.CheckRelationTuple, reads the decision the same way, mirrors it in the status code, and keeps batch entries index-aligned and independent; does not decide equality of decoded inputs across encodings. Right level: these are wiring facts of the handlers.")

claim("C06",
      "symbolic evaluation of every SQL builder (Sprintf/Join/Builder/per-case fragments) into statement templates, instantiation, parsing, and a WHERE-tree check that nid = ? is a top-level conjunct bound to NetworkID(ctx) of the context in scope (sub-selects correlated); receiver-chain analysis that every pop statement on the relationship table is rooted at queryWithNetwork; who-may-execute-statements; statelessness of NetworkID",
      "Decides that every statement on the relationship table is scoped by the request's network id and that names are hashed per network; does not decide contextualizer implementations or the database. Right level: network scoping is a shape fact of each statement's text and bindings.")

claim("C04",
      "table agreement between the write map (FromInternal/insertSubject), the read map (ToInternal) and db tags; symbolic evaluation + parsing of the INSERT/DELETE/SELECT builders and pop Where fragments with a per-placeholder check that the bound Go expression is the internal field stored in that column; guard check of whereQuery; def-use check that write handlers pass only Mapper().FromTuple results to the store and that FromTuple validates before appending; audit that persistence/sql keeps no process-local mutable state",
      "Decides column-level write/read/match agreement, validated-input-only writes and the absence of process-local caches in the storage layer; does not decide database semantics or the multiset behaviour over histories. Right level: which Go field is bound to which column placeholder is a static fact of the builders.")

claim("C07",
      "agreement check over the evaluated query chain of GetRelationTuples (ORDER BY column = strict '>' cursor column = db tag of the token field; LIMIT = has-more threshold + 1; truncate-then-token order) and over the parsed traversal SELECT; finite-domain evaluation of the page-size normalisation; status-code resolution of every error returned for malformed pagination input; def-use check that internal consumers feed the returned token into the next call and loop to the empty token",
      "Decides that the keyset mechanics are self-consistent, that malformed tokens/sizes are client errors and that internal consumers read all pages; does not decide behaviour under concurrent writes beyond what a strict '>' on a unique key implies. Right level: cursor/limit/token agreement is a relation between code sites.")

claim("C05",
      "lexical/closure containment of every write statement in a Transaction literal; dataflow of contexts and connections inside the literal back to the literal's own ctx parameter; error-discipline must-pass analysis inside transaction literals; co-location of mapping and write in handler literals; single-literal rule for functions with several write operations",
      "Decides that the transaction envelope is structurally complete (statements inside, on the transaction's connection and context, errors returned, one literal per multi-write function); does not decide isolation, popx commit/rollback or database crash behaviour. Right level: whether a statement runs inside/outside a transaction closure and on which connection is a static scoping fact.")

claim("C09",
      "termination certificate for the expand recursion; dominance of the listing by the not-visited branch of the visited gate and context threading; field-read analysis of the visited key (reads namespace, object, relation on the subject-set path); def-use of every tree node's subject back to the listing; token-feeding check of the page loop; clamp evaluation; level-count arithmetic from the decrement and leaf guard",
      "Decides termination, at-most-once expansion, edges-from-listed-tuples, page completeness, the clamp and the level bound of expand; does not decide completeness of the leaves or equality with check. Right level: each clause is a dominance/def-use fact of buildTreeRecursive and the visited gate.")

claim("C11",
      "exhaustiveness tables (parser-constructed AST node kinds vs engine dispatch); must-pass/dominance check that every AST literal with a name field is accompanied by the registration of its deferred type check on the same token; guard check that parse runs all deferred checks on the error-free path; no-early-exit check of for-all loops in the type checks; append-only typestate of the class's relation list",
      "Decides that parsed configurations cannot reach 'not implemented', that every name the engine consumes has its deferred check registered, that all checks run and quantify over all types, and that no declared relation is dropped from the AST; does not decide that the type checker's traversal rule equals the engine's evaluation (F14). Right level: registration and exhaustiveness are shape facts of parser and engine.")
claim("C12",
      "type-set check of every value reaching match's type switch (through the any-typed forwarder) and case-set dominance of setOperation's call sites; CFG path counting and cycle check of item emissions per lexer state against the channel capacity; prefix-guard dominance of lexer position writes; no-progress-cycle search in every unbounded parser loop; termination certificates for every recursive SCC of package schema; length-guard check of row indexing; source agreement of the REST/gRPC error mappers and whole-content parsing in both handlers",
      "Decides the absence of the structural ways to panic or hang (explicit panics unreachable, bounded emissions, guarded position writes, loop progress, bounded recursion, guarded indexing) and REST/gRPC agreement of the syntax endpoints; does not decide linear running time. Right level: each is a path/shape fact of lexer, parser and handlers.")

claim("C13",
      "interprocedural forward taint of client-nullable pointers (JSON null elements / absent pointer fields, absent protobuf sub-messages and unset oneofs) from every entry point through calls, closures, variadic packing, append and internal holder structs, with dominance-based nil-test kills (same value, same field path, closure-creation site, validating loops), goroutine severity; herodot status resolution of every error returned/written on the failure branch of request-text parsers and of re-wrapped mapper errors; finite-domain evaluation of page-size normalisation; termination certificates for request-driven recursions",
      "Decides the absence of request-controlled nil dereferences, 4xx classification of parse and mapping failures, page-size normalisation and bounded recursion on request input; does not decide state-unchanged-on-4xx or exhaustion. Right level: whether a nullable pointer is tested before use and which status an error value carries are dataflow facts.")

claim("C14",
      "inferred lock discipline (fields written under a mutex must always be accessed under it, caller-holds and constructor exemptions, re-entrancy); reachability-based audit of unsynchronised lazy getters against the sequential set-up of the first server; per-iteration-index check of goroutine closure writes; doneCh-dominance of result reads; escape-then-write reachability for objects handed to sub-checks; placement of visited-set installers below a single check; fresh decode targets",
      "Decides lock discipline and the sharing shapes that keep per-request state private (visited sets, result slots, handed-over tuples, decode targets); does not decide general data-race freedom or result equality under concurrency. Right level: which lock dominates which access and which object escapes where are static scoping facts.")

claim("C19",
      "dominance of the publish (set) by the empty-error-list branch with def-use of every parse error into that list; branch-shape check of the legacy watcher's keep-last-good update; type walk of the manager structs for stored one-shot streams; inferred lock discipline and re-entrancy in driver/config; fresh-map check of the publish; agreement table between each namespace-configuration kind's value() type and the type its manager's ShouldReload compares against",
      "Decides the gate, the keep-last-good branch shapes, the stored-stream hazard, lock hygiene, whole-set replacement and that unrelated configuration changes do not tear managers down; does not decide eventual delivery of file events. Right level: these are shape and table-agreement facts of the watcher code.")

claim("C16",
      "per-valuation interpretation of the batch loops of Mapper.FromTuple/ToTuple (subject kind in {id,set,both,none}, Validate evaluated) counting appends, readers and their 2*i+j indices and roles; capture-position check of the single-item mappers; index agreement of MapStringsToUUIDsReadOnly and of batchFromUUIDs' scatter; must-pass check that ToInternal always sets a subject; no process-local mapping cache",
      "Decides positional and role agreement between what the mappers append to a batch and what their deferred readers index, for every feasible subject kind; does not decide UUIDv5 injectivity or the SQL round trip. Right level: stride and index agreement is a counting fact over the loop body's paths.")

claim("C18",
      "table agreement between writer and reader of each encoding: (URL key, field) sets of ToURLQuery/FromURLQuery, (message field, struct field) tables and oneof-presence discrimination of the protobuf decoders, separator sequences of String/FromString, unmodified line hand-off in the tuple file parser, JSON name uniqueness",
      "Decides that both directions of each relationship encoding refer to the same keys, fields and separators and that the subject kind is decided by presence; does not decide round-trip equality over all strings or escaping. Right level: writer/reader table agreement is a static comparison of two functions.")

claim("C10",
      "branch-separation analysis over the expression parser's tests of the binary-operator token (is there any control or precedence-table decision that tells '&&' from '||' apart, outside the token-to-label mapping); argument/dominance check of the calls that parse the operand of '!' and a parenthesised group (closing token ')'); dominance of the flattening pass's merge by an equality test of the two operators",
      "Decides three structural necessary conditions of 'boolean structure follows TypeScript' (the tree shape depends on the operator read; '!' takes one operand; parentheses delimit and flattening merges only equal operators). It does not decide which spellings the parser accepts, which of the two operators binds tighter, or equality of truth tables: those quantify over all programs and would need the parser to be executed or modelled. Right level: the one clause that is visible in the shape of the code on every path is decided; it is thin, and it is the clause on which the unrepaired tree was wrong (a || b && c was read as (a || b) && c).")

# ---- rules added after the first version of each check (DESIGN.md §9.5 says which seeded change motivated which)
extend("C01", "who-may-install check for visited sets (only below a single check); write-after-hand-over check on objects given to running sub-checks; CFG search for loop iterations that add no sub-check outside the enumerated skip edges; the C07 paging-agreement rules run on the listings the engine evaluates over; read-only check of the shared namespace configuration (stores and in-place reorders through aliases)",
       "Also decides sub-check fan-out completeness, listing completeness and that evaluation leaves the configuration untouched.")
extend("C02", "who-may-read check on the width limit (only where the cut-off is marked); must-pass check that the exhausted side of every comparison of the remaining depth answers with the cut-off result")
extend("C03", "the same error-discipline analysis over the storage-layer functions live below a check (sources = calls from which a database-library call is reachable; named-result cells followed along kill-free paths only)")
extend("C04", "tiling check on sub-slices of the input tuples; pagination-consumer discipline for every caller of the paginated listing; control-dependence of each collected delta tuple on that delta's action; extra-condition detection on query predicates",
       "Also decides that multi-tuple writes cover their input and that nothing acts on the first page of a listing only.")
extend("C05", "loop position of the Transaction call that encloses the writes; tiling check on chunked input")
extend("C06", "statement-kind rule for the UUID mapping table (shared by all networks: only id-keyed statements); field-type and write-site audit of the request-serving singletons (no caching/coalescing state)")
extend("C07", "loop-exit classification of page loops (token, error, empty page, group done, or page-invariant); stride-equals-chunk check of the id look-up that maps a page back to strings")
extend("C08", "visited-set install scope (batch entries independent); the C18 encoder/decoder agreement rules run for the check transports")
extend("C09", "the C04 predicate/guard rules run on the listing query behind expand")
extend("C11", "immediate-dominator check that nothing but 'no syntax error' decides whether the deferred checks run; read/write audit of the deferred checks against the parser fields that parsing overwrites")
extend("C12", "lower-bound check (constant, len, max, dominating comparison) on every count handed to strings.Repeat / make in package schema")
extend("C13", "URL-query decoders as taint seeds; structure of the gRPC interceptor chains (recovery first, append-only); data-dependence of allocation sizes on request integers")
extend("C14", "audit of singleton state; lock-pairing must-pass analysis (every lock released on every path to a return); read-only check of the shared namespace configuration")
extend("C15", "lock-pairing must-pass analysis on the check path; unbuffered-send-versus-leaving-receiver classification")
extend("C16", "every-store check on the forward mapping (NewV5(network, name) and nothing else); stride-equals-chunk and bound-invariance checks on the chunked reverse look-up")
extend("C18", "guard classification of every URL key write (presence tests only)")
extend("C19", "must-pass check that the failed-parse branch restores or removes the staged entry on every path; CFG search for event-loop iterations that reach no handler")

# ---- round 3
extend("C01", "field-type and package-variable audit of the request-serving singletons (no cache in the engines)")
extend("C02", "must-pass check that a negation marks the enclosing negation also when its child comes back undetermined")
extend("C03", "error clause of the pass-through contract (a stage that rebuilds the Result must carry Err)")
extend("C04", "strict-parse requirement on REST write entries that read the URL query; presence-only guards in the query mappers; the C16 forward-mapping rules")
extend("C05", "who-may-call rule for case-folding functions in the write handlers; error-discipline analysis of every ketoapi decoder/validator call in the relationship handlers")
extend("C06", "data-dependence of every returned http.Handler on the negroni stack built in the same function")
extend("C07", "guard classification of the page-token option (token value and error returns only); statement count per page of GetRelationTuples; select-list check for the traversal's cursor column")
extend("C09", "the C03 error-discipline rules run on the expand engine")
extend("C10", "sibling cross-check of every dispatch of the parser: arms that go on parsing agree on accepting the optional ',' separator")
extend("C11", "typed-nil check on every pointer-to-AST-interface conversion in the parser; must-pass check that nil results of the expression parser follow a recorded error; error on the exhausted side of depth budgets; who-may-call rule for case-folding functions")
extend("C12", "format-verb analysis: token text enters messages through %q only")
extend("C13", "format-verb analysis of OPL messages; presence-only guards in the query mappers; strict-parse requirement on write entries")
extend("C15", "the C07 paging-agreement rules run on the storage page loops")
extend("C16", "statement-kind rule on the mapping table; write-through-parameter summary for the input strings")
extend("C18", "allocation-site check: the receiver of a ketoapi decoder inside a loop is allocated in that loop")
extend("C19", "write audit of the error-event handlers; source check of io.ReadAll in the change handlers")
