#!/usr/bin/env python3
"""mkseeded.py: materialises /verif/seeded/<id>/ (patch.diff, demonstration, notes.md, meta.json) for every seed that
tools/confirm_seeds.py confirmed (/tmp/confirm-results.jsonl). One-off tool; the agents' outputs live under /tmp."""
import json, os, re, shutil
src = open("/verif/tools/confirm_seeds.py").read()
ns = {}
exec(src[src.index('S = "-tags sqlite"'):src.index("SUITES =")], ns)
T = [t + (f"/tmp/seed-{t[0]}-out", t[0] + t[1]) for t in ns["T"]]
if os.path.exists("/verif/tools/seeds_round2.json"):
    T += [tuple(e) for e in json.load(open("/verif/tools/seeds_round2.json"))]
conf = {}
for l in open("/tmp/confirm-results.jsonl"):
    r = json.loads(l); conf[r["id"]] = r
n = 0
for pid, v, demo, dest, cmd, sdir0, sid in T:
    r = conf.get(sid)
    if not r or not r.get("confirmed"):
        continue
    d = f"/verif/seeded/{sid}"
    keep = {}
    if os.path.exists(d + "/meta.json"):
        old = json.load(open(d + "/meta.json"))
        keep = {k: old[k] for k in ("caught_by", "caught_by_own_property_check") if k in old}
    os.makedirs(d, exist_ok=True)
    sdir = f"{sdir0}/{v}"
    shutil.copy(f"{sdir}/patch.diff", f"{d}/patch.diff")
    shutil.copy(f"{sdir}/notes.md", f"{d}/notes.md")
    demo_name = os.path.basename(dest)
    shutil.copy(f"{sdir0}/{demo}", f"{d}/{demo_name}")
    notes = open(f"{sdir}/notes.md").read()
    m = re.search(r"##+ *(?:What is needed|What it needs|Needed|Trigger)[^\n]*\n(.*?)(?=\n##+ |\Z)", notes, re.S | re.I)
    needs = m.group(1).strip() if m else ""
    title = notes.splitlines()[0].lstrip("# ").strip()
    meta = {
        "id": sid, "property": pid, "round": 4 if sdir0.startswith("/tmp/seed4-") else 3 if sdir0.startswith("/tmp/seed3-") else (2 if sdir0.startswith("/tmp/seed2-") else 1), "title": title,
        "breaks": f"{pid} (see notes.md)",
        "needs_to_manifest": needs,
        "demonstration": {"file": demo_name, "copy_to": dest, "command": f"GOFLAGS=-mod=mod GOPROXY=off go test -count=1 {cmd}"},
        "origin": "written by a fresh sub-agent that saw only the property text and its own scratch worktree of /repo; nothing from /verif",
        "confirmed": {
            "where": "scratch worktree /tmp/confirm-wt of /repo at e632c0f (removed afterwards)",
            "ran": ["git apply patch.diff", "go build ./...", "demonstration with the change -> " + r["demo_with_change"],
                    "pinned baseline (187 tests, command of /root/.vp/BASELINE.json) with the change -> not passing: " + json.dumps(r["baseline_not_passing"]),
                    "go test -tags sqlite ./internal/check/... ./internal/expand/... ./internal/relationtuple/... ./internal/driver/... ./internal/schema/... ./ketoapi/... ./internal/x/graph/... with the change -> " + ("pass" if not r["sqlite_suites_failures"] else r["sqlite_suites_failures"]),
                    "demonstration without the change -> " + r["demo_without_change"]],
            "demo_failure_tail": r["demo_tail"][-600:],
        },
    }
    meta.update(keep)
    json.dump(meta, open(f"{d}/meta.json", "w"), indent=1)
    n += 1
print(n, "seed directories written")
