import json,sys
R='/repo/'
C=[]
def add(props,name,positive,rule,*edits):
    es=[]
    for i in range(0,len(edits),3):
        f,old,new=edits[i:i+3]
        src=open(R+f).read()
        assert src.count(old)>=1,(name,f,old[:50])
        es.append((f,old,new))
    C.append((props,name,positive,rule,es))
E='internal/check/engine.go'; RW='internal/check/rewrites.go'; B='internal/check/binop.go'
add(["C01","C03","C15"],"neg-checkdirect-if-form",False,"",E,
"""		switch {
		case err != nil:
			e.d.Logger().
				WithField("method", "checkDirect").
				WithError(err).
				Error("failed to look up direct access in db")
			resultCh <- checkgroup.Result{Err: errors.WithStack(err)}

		case found:
			resultCh <- checkgroup.Result{
				Membership: checkgroup.IsMember,
				Tree: &ketoapi.Tree[*relationtuple.RelationTuple]{
					Type:  ketoapi.TreeNodeLeaf,
					Tuple: r,
				},
			}

		default:
			resultCh <- checkgroup.Result{
				Membership: checkgroup.NotMember,
			}
		}
""","""		if err != nil {
			e.d.Logger().
				WithField("method", "checkDirect").
				WithError(err).
				Error("failed to look up direct access in db")
			resultCh <- checkgroup.Result{Err: errors.WithStack(err)}
			return
		}
		if !found {
			resultCh <- checkgroup.Result{
				Membership: checkgroup.NotMember,
			}
			return
		}
		resultCh <- checkgroup.Result{
			Membership: checkgroup.IsMember,
			Tree: &ketoapi.Tree[*relationtuple.RelationTuple]{
				Type:  ketoapi.TreeNodeLeaf,
				Tuple: r,
			},
		}
""")
add(["C01","C02","C15","C13"],"neg-next-depth-hoisted",False,"",E,
"""	if hasRewrite {
		g.Add(e.checkSubjectSetRewrite(ctx, r, relation.SubjectSetRewrite, restDepth))
	}
	if (!strictMode || !hasRewrite) && !skipDirect {
		// In strict mode, add a direct check only if there is no subject set rewrite for this relation.
		// Rewrites are added as 'permits'.
		g.Add(e.checkDirect(r, restDepth-1))
	}
	if canHaveSubjectSets {
		g.Add(e.checkExpandSubject(r, restDepth-1))
	}
""","""	next := restDepth - 1
	if hasRewrite {
		g.Add(e.checkSubjectSetRewrite(ctx, r, relation.SubjectSetRewrite, restDepth))
	}
	if (!strictMode || !hasRewrite) && !skipDirect {
		g.Add(e.checkDirect(r, next))
	}
	if canHaveSubjectSets {
		g.Add(e.checkExpandSubject(r, next))
	}
""")
add(["C01"],"neg-mode-table-de-morgan",False,"",E,"if (!strictMode || !hasRewrite) && !skipDirect {","if !skipDirect && !(strictMode && hasRewrite) {")
add(["C01","C03","C15","C02"],"neg-and-index-loop",False,"",B,
"""	for _, check := range checks {
		check(graph.ResetVisited(ctx), resultCh)""","""	for i := range checks {
		check := checks[i]
		check(graph.ResetVisited(ctx), resultCh)""")
add(["C01","C14"],"neg-and-operand-ctx-local",False,"",B,
"""		check(graph.ResetVisited(ctx), resultCh)""","""		opCtx := graph.ResetVisited(ctx)
		check(opCtx, resultCh)""")
add(["C02","C03","C01"],"neg-inverter-branches-swapped",False,"",RW,
"""				if cutOff.Load() {
					// The negated check did not run to completion, so "not a
					// member" is not established. Tell the enclosing negation.
					checkgroup.MarkCutOff(ctx)
					result.Membership = checkgroup.MembershipUnknown
				} else {
					result.Membership = checkgroup.IsMember
				}""","""				if !cutOff.Load() {
					result.Membership = checkgroup.IsMember
				} else {
					checkgroup.MarkCutOff(ctx)
					result.Membership = checkgroup.MembershipUnknown
				}""")
add(["C03","C15","C02"],"neg-inverter-err-local",False,"",RW,
"""			if result.Err != nil {
				resultCh <- checkgroup.Result{Err: result.Err}
				return
			}""","""			if err := result.Err; err != nil {
				resultCh <- checkgroup.Result{Err: err}
				return
			}""")
add(["C01","C14","C15","C07"],"neg-traverse-tuple-local",False,"",RW,
"""					g.Add(e.checkIsAllowed(ctx, &relationTuple{
						Namespace: subSet.Namespace,
						Object:    subSet.Object,
						Relation:  subjectSet.ComputedSubjectSetRelation,
						Subject:   tuple.Subject,
					}, restDepth-1, false))
""","""					next := &relationTuple{
						Namespace: subSet.Namespace,
						Object:    subSet.Object,
						Relation:  subjectSet.ComputedSubjectSetRelation,
						Subject:   tuple.Subject,
					}
					g.Add(e.checkIsAllowed(ctx, next, restDepth-1, false))
""")
add(["C15","C02","C08"],"neg-root-check-in-local",False,"",E,
"""	go e.checkIsAllowed(ctx, r, restDepth, false)(ctx, resultCh)""","""	check := e.checkIsAllowed(ctx, r, restDepth, false)
	go check(ctx, resultCh)""")
add(["C06","C04","C17"],"neg-nid-hoisted",False,"","internal/persistence/sql/persister.go",
"""	return p.Connection(ctx).Where("nid = ?", p.NetworkID(ctx))""","""	nid := p.NetworkID(ctx)
	return p.Connection(ctx).Where("nid = ?", nid)""")
add(["C07"],"neg-truncate-to-page-size",False,"","internal/persistence/sql/relationtuples.go",
"""		res = res[:len(res)-1]
		nextPageToken = pagination.encodeNextPageToken(res[len(res)-1].ID)""","""		res = res[:pagination.PerPage]
		nextPageToken = pagination.encodeNextPageToken(res[len(res)-1].ID)""")
add(["C08","C03"],"neg-batch-allowed-local",False,"","internal/check/handler.go",
"""		responses[i] = &CheckPermissionResultWithError{
			Allowed: result.Membership == checkgroup.IsMember,
			Error:   errMsg,
		}""","""		allowed := result.Membership == checkgroup.IsMember
		responses[i] = &CheckPermissionResultWithError{
			Allowed: allowed,
			Error:   errMsg,
		}""")
add(["C18"],"neg-url-adds-reordered",False,"","ketoapi/enc_url_query.go",
"""		v.Add(SubjectSetNamespaceKey, q.SubjectSet.Namespace)
		v.Add(SubjectSetObjectKey, q.SubjectSet.Object)
		v.Add(SubjectSetRelationKey, q.SubjectSet.Relation)
	}

	return v""","""		v.Add(SubjectSetRelationKey, q.SubjectSet.Relation)
		v.Add(SubjectSetObjectKey, q.SubjectSet.Object)
		v.Add(SubjectSetNamespaceKey, q.SubjectSet.Namespace)
	}

	return v""")
add(["C19"],"neg-publish-gate-inverted",False,"","internal/driver/config/opl_config_namespace_watcher.go",
"""	if len(errs) > 0 {
		for _, err := range errs {
			nw.logger.
				WithError(err).
				Errorf("Failed to parse OPL config files at target %s.",
					nw.target)
		}
		return false
	}
	nw.set(namespaces)
	return true""","""	if len(errs) == 0 {
		nw.set(namespaces)
		return true
	}
	for _, err := range errs {
		nw.logger.
			WithError(err).
			Errorf("Failed to parse OPL config files at target %s.",
				nw.target)
	}
	return false""")
add(["C17","C08","C13"],"neg-readonly-mapper-local",False,"","internal/check/handler.go",
"""it, err := h.d.ReadOnlyMapper().FromTuple(ctx, tuple)""","""m := h.d.ReadOnlyMapper()
	it, err := m.FromTuple(ctx, tuple)""")
add(["C11"],"neg-check-in-local",False,"","internal/schema/parser.go",
"""	p.addCheck(checkCurrentNamespaceHasRelation(&p.namespace, relation))
	return &ast.ComputedSubjectSet{Relation: relation.Val}""","""	chk := checkCurrentNamespaceHasRelation(&p.namespace, relation)
	p.addCheck(chk)
	return &ast.ComputedSubjectSet{Relation: relation.Val}""")
add(["C13","C08"],"neg-nil-test-yoda",False,"","internal/relationtuple/transact_server.go","		if d == nil {","		if nil == d {")
add(["C14","C09","C01"],"neg-visited-explicit-unlock",False,"","internal/x/graph/graph_utils.go",
"""	s.l.Lock()
	defer s.l.Unlock()

	if _, found := s.m[el.String()]; found {
		return true
	}
	s.m[el.String()] = struct{}{}
	return false""","""	key := el.String()
	s.l.Lock()
	_, found := s.m[key]
	if !found {
		s.m[key] = struct{}{}
	}
	s.l.Unlock()
	return found""")
add(["C09","C02"],"neg-expand-children-appended",False,"","internal/expand/engine.go",
"""		children := make([]*relationtuple.Tree, len(rels))
		for ri, r := range rels {""","""		children := make([]*relationtuple.Tree, len(rels))
		for ri := range rels {
			r := rels[ri]""")
add(["C09"],"neg-expand-gate-negated",False,"","internal/expand/engine.go",
"""	ctx, wasAlreadyVisited := graph.CheckAndAddVisited(ctx, subject)
	if wasAlreadyVisited {
		return nil, nil
	}
""","""	ctx, wasAlreadyVisited := graph.CheckAndAddVisited(ctx, subject)
	if fresh := !wasAlreadyVisited; !fresh {
		return nil, nil
	}
""")
add(["C05","C04","C16"],"neg-tx-closure-in-local",False,"","internal/persistence/sql/relationtuples.go",
"""	return p.Transaction(ctx, func(ctx context.Context) error {
		sqlQuery := p.queryWithNetwork(ctx)
		err := p.whereQuery(ctx, sqlQuery, query)
		if err != nil {
			return err
		}

		var res relationTuples
		return sqlQuery.Delete(&res)
	})""","""	del := func(ctx context.Context) error {
		sqlQuery := p.queryWithNetwork(ctx)
		err := p.whereQuery(ctx, sqlQuery, query)
		if err != nil {
			return err
		}

		var res relationTuples
		return sqlQuery.Delete(&res)
	}
	return p.Transaction(ctx, del)""")
# ---- more positive ones
add(["C09"],"expand-children-of-first-tuple",True,"R09.3","internal/expand/engine.go","child, err := e.buildTreeRecursive(ctx, r.Subject, restDepth-1)","child, err := e.buildTreeRecursive(ctx, rels[0].Subject, restDepth-1)")
add(["C09","C07"],"expand-paging-restarts",True,"","internal/expand/engine.go","			x.WithToken(nextPage),\n		)\n		if err != nil {\n			return nil, err\n		} else if len(rels) == 0 {","			x.WithToken(\"\"),\n		)\n		if err != nil {\n			return nil, err\n		} else if len(rels) == 0 {")
add(["C08","C03"],"batch-allowed-ignores-membership",True,"","internal/check/handler.go",
"""		responses[i] = &CheckPermissionResultWithError{
			Allowed: result.Membership == checkgroup.IsMember,""","""		responses[i] = &CheckPermissionResultWithError{
			Allowed: result.Err == nil,""")

RT='internal/persistence/sql/relationtuples.go'
OLD_DEL="""		for chunk := range slices.Chunk(rs, chunkSizeDeleteTuple) {
			q, args, err := buildDelete(p.NetworkID(ctx), chunk)
			if err != nil {
				return err
			}
			if q == "" {
				continue
			}
			if err := p.Connection(ctx).RawQuery(q, args...).Exec(); err != nil {
				return sqlcon.HandleError(err)
			}
		}
		return nil
	})
}

func (p *Persister) DeleteAllRelationTuples"""
def NEW_DEL(step): return """		nid := p.NetworkID(ctx)
		for start := 0; start < len(rs); {
			end := min(start+chunkSizeDeleteTuple, len(rs))
			q, args, err := buildDelete(nid, rs[start:end])
			if err != nil {
				return err
			}
			if err := p.Connection(ctx).RawQuery(q, args...).Exec(); err != nil {
				return sqlcon.HandleError(err)
			}
			start = %s
		}
		_ = slices.Chunk[[]int]
		return nil
	})
}

func (p *Persister) DeleteAllRelationTuples""" % step
add(["C05","C04"],"delete-chunks-skip-seams",True,"",RT,OLD_DEL,NEW_DEL("end + 1"))
add(["C05","C04","C06"],"neg-delete-index-tiling",False,"",RT,OLD_DEL,NEW_DEL("end"))
add(["C05"],"transaction-per-chunk",True,"R05.5",RT,
"""	return p.Transaction(ctx, func(ctx context.Context) error {
		for chunk := range slices.Chunk(rs, chunkSizeInsertTuple) {
			q, args, err := buildInsert(commitTime, p.NetworkID(ctx), chunk)
			if err != nil {
				return err
			}
			if err := p.Connection(ctx).RawQuery(q, args...).Exec(); err != nil {
				return sqlcon.HandleError(err)
			}
		}
		return nil
	})""","""	nid := p.NetworkID(ctx)
	for chunk := range slices.Chunk(rs, chunkSizeInsertTuple) {
		q, args, err := buildInsert(commitTime, nid, chunk)
		if err != nil {
			return err
		}
		if err := p.Transaction(ctx, func(ctx context.Context) error {
			return sqlcon.HandleError(p.Connection(ctx).RawQuery(q, args...).Exec())
		}); err != nil {
			return err
		}
	}
	return nil""")

PA='internal/schema/parser.go'
add(["C10"],"operators-treated-alike",True,"R10.1",PA,
"""			switch op := setOperation(item.Typ); {
			case op == ast.OperatorAnd && tailIsOr:
				// a || b && ...: the conjunction starts at b.
				last := len(tail.Children) - 1
				and := &ast.SubjectSetRewrite{
					Operation: ast.OperatorAnd,
					Children:  []ast.Child{tail.Children[last]},
				}
				tail.Children[last] = and
				tail, tailIsOr = and, false
			case op == ast.OperatorAnd && tail != root:
				// a || b && c && ...: still inside that conjunction.
			default:
				newRoot := &ast.SubjectSetRewrite{
					Operation: op,
					Children:  []ast.Child{root},
				}
				root, tail = newRoot, newRoot
				tailIsOr = op == ast.OperatorOr
			}
""","""			{
				op := setOperation(item.Typ)
				newRoot := &ast.SubjectSetRewrite{
					Operation: op,
					Children:  []ast.Child{root},
				}
				root, tail = newRoot, newRoot
				_ = tailIsOr
			}
""")
add(["C10"],"not-takes-whole-expression",True,"R10.2",PA,
"""	} else {
		child = p.parsePermissionExpression()
	}
	if child == nil {
		return nil
	}
	return &ast.InvertResult{Child: child}""","""	} else {
		child = p.parsePermissionExpressions(itemBraceRight, depth-1)
	}
	if child == nil {
		return nil
	}
	return &ast.InvertResult{Child: child}""")
add(["C10"],"flatten-ignores-operator",True,"R10.3",PA,
"""if ch, ok := child.(*ast.SubjectSetRewrite); ok && ch != nil && ch.Operation == root.Operation {""",
"""if ch, ok := child.(*ast.SubjectSetRewrite); ok && ch != nil {""")
add(["C10"],"neg-operator-test-on-token",False,"",PA,
"""			case op == ast.OperatorAnd && tailIsOr:""","""			case item.Typ == itemOperatorAnd && tailIsOr:""")

add(["C10","C12"],"neg-precedence-table",False,"",PA,
"""			switch op := setOperation(item.Typ); {
			case op == ast.OperatorAnd && tailIsOr:""","""			prec := map[ast.Operator]int{ast.OperatorOr: 1, ast.OperatorAnd: 2}
			switch op := setOperation(item.Typ); {
			case prec[op] > prec[ast.OperatorOr] && tailIsOr:""",
PA,"""			case op == ast.OperatorAnd && tail != root:""","""			case prec[op] > prec[ast.OperatorOr] && tail != root:""")

add(["C10"],"array-arm-without-separator",True,"R10.4",PA,
"""				types = append(types, p.parseTypeUnion(itemAngledRight)...)
				p.match(optional(","))
""","""				types = append(types, p.parseTypeUnion(itemAngledRight)...)
""")
add(["C10","C11"],"neg-separator-after-switch",False,"",PA,
"""				types = append(types, p.parseTypeUnion(itemAngledRight)...)
				p.match(optional(","))
			case item.Val == "SubjectSet":
				types = append(types, p.matchSubjectSet())
				p.match("[", "]", optional(","))
			case item.Typ == itemParenLeft:
				types = append(types, p.parseTypeUnion(itemParenRight)...)
				p.match("[", "]", optional(","))
			default:
				types = append(types, ast.RelationType{Namespace: item.Val})
				p.addCheck(checkNamespaceExists(item))
				p.match("[", "]", optional(","))
			}
""","""				types = append(types, p.parseTypeUnion(itemAngledRight)...)
			case item.Val == "SubjectSet":
				types = append(types, p.matchSubjectSet())
				p.match("[", "]")
			case item.Typ == itemParenLeft:
				types = append(types, p.parseTypeUnion(itemParenRight)...)
				p.match("[", "]")
			default:
				types = append(types, ast.RelationType{Namespace: item.Val})
				p.addCheck(checkNamespaceExists(item))
				p.match("[", "]")
			}
			p.match(optional(","))
""")
add(["C19"],"legacy-watcher-drops-last-good",True,"R19.2","internal/driver/config/namespace_watcher.go","","") if False else None
out=[]
for props,name,pos,rule,es in C:
    out.append({"props":props,"name":name,"positive":pos,"rule":rule,"edits":[{"file":f,"old":o,"new":n} for f,o,n in es]})
json.dump(out,open('/verif/sa/internal/rules/controls2.json','w'),indent=1)
print(len(out))
