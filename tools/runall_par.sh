#!/bin/bash
# runall_par.sh [tier] [jobs]: runs every claimed check in parallel (default thorough, 3 at a time) and prints one line per property
cd "$(dirname "$0")/.."
TIER="${1:-thorough}"; J="${2:-3}"
python3 -c "import json;print('\n'.join(c['property_id'] for c in json.load(open('MANIFEST.json'))['checks']))" | xargs -P "$J" -I{} sh -c 'out=$(./check.sh {} '"$TIER"' 2>&1); rc=$?; echo "{} exit=$rc $(echo "$out" | grep -cE "VIOLATED|UNDECIDED") new $(echo "$out" | grep -c "^KNOWN-FINDING") known $(echo "$out" | grep -c "^CONTROL-FAILED") control-failed; $(echo "$out" | grep "^property=" | cut -c1-90)"; echo "$out" | grep -E "VIOLATED|UNDECIDED|CONTROL-FAILED|ketosa:" | cut -c1-300 | head -5'
