#!/bin/bash
# selftest.sh [ketosa-binary]: runs every overlay control (hand-written, seed-derived) and every metamorphic
# transformation for every property against /repo, in parallel, and prints only the anomalies:
#   MISS   a positive control that did not fire      NOISY  a negative control / transformation that fired
#   ERR    the overlay did not load                  SKIP   the control's locator does not apply to this tree
export GOFLAGS=-mod=mod GOPROXY=off; unset GOWORK
K=${1:-/verif/bin/ketosa}
export KETOSA_SYMBOLS=${KETOSA_SYMBOLS:-/verif/symbols.json}
T=$(mktemp -d /tmp/selftest-XXXXXX)
for p in $($K -list); do $K -property $p -control list; done > $T/list.txt 2>/dev/null
for p in $($K -list); do for k in commute ifelse rename parens swtoif derange elseafter renamefn renamety renamefld renamevar renameexp adddefer addcall revdecl revcases tmpreturn; do echo "$p metamorph-$k negative -"; done; done >> $T/list.txt
cat $T/list.txt | xargs -P ${JOBS:-5} -L 1 sh -c '
  case "$1" in metamorph-*) out=$('$K' -property $0 -metamorph ${1#metamorph-} 2>&1 | tail -1);; *) out=$('$K' -property $0 -control $1 2>&1 | tail -1);; esac
  echo "$0 $1 $2 ${3:--} :: $out"' > $T/out.txt 2>&1
python3 - $T/out.txt <<'PY'
import sys, json, re
n = bad = 0
for l in open(sys.argv[1]):
    m = re.match(r'(C\d+) (\S+) (\S+) (\S+) :: (.*)', l.rstrip('\n'))
    if not m: print("??", l[:160]); bad += 1; continue
    p, name, kind, rule, js = m.groups(); n += 1
    try: j = json.loads(js)
    except Exception: print("BADOUT", p, name, js[:160]); bad += 1; continue
    fired = j.get('fired') or []
    if j.get('error'): print("ERR", p, name, j['error'][:200].replace('\n', ' ')); bad += 1; continue
    if not j.get('applied'): print("SKIP", p, name); continue
    if kind == 'positive' and rule == 'known-miss': print("KNOWN-MISS", p, name, "(fired)" if fired else ""); continue
    if kind == 'negative' and rule == 'known-false-alarm': print("KNOWN-FALSE-ALARM", p, name, "(silent)" if not fired else ""); continue
    if kind == 'positive' and not fired: print("MISS", p, name, rule); bad += 1
    elif kind == 'positive' and rule not in ('-', '') and not any((': ' + rule + ' / ') in f for f in fired): print("WRONGRULE", p, name, rule, fired[:2])
    elif kind == 'negative' and fired: print("NOISY", p, name, fired[:3]); bad += 1
print(f"selftest: {n} runs, {bad} problems")
PY
rm -rf $T
