#!/usr/bin/env python3
"""neutral_matrix.py [ketosa] [only-own] (env NEUTRAL_IDS / NEUTRAL_PROPS: regex filters, results merged into the existing matrix): runs every behaviour-preserving refactoring of /verif/neutral (as an overlay,
`ketosa -property P -control neutral-<id>`) against every property's rules and writes /verif/neutral/MATRIX.json:
for each refactoring the properties whose check raised an alarm on it (every one of them is a false alarm)."""
import json, os, subprocess, sys, concurrent.futures as cf
K = sys.argv[1] if len(sys.argv) > 1 else '/verif/bin/ketosa'
own = len(sys.argv) > 2 and sys.argv[2] == 'only-own'
env = dict(os.environ, GOFLAGS='-mod=mod', GOPROXY='off', KETOSA_SYMBOLS='/verif/symbols.json'); env.pop('GOWORK', None)
props = subprocess.run([K, '-list'], capture_output=True, text=True, env=env).stdout.split()
import re
PF = os.environ.get('NEUTRAL_PROPS')
if PF: props = [p for p in props if re.search(PF, p)]
ids = sorted(d for d in os.listdir('/verif/neutral') if d.startswith('C') and os.path.isdir('/verif/neutral/' + d) and re.search(os.environ.get('NEUTRAL_IDS', '.'), d))
jobs = [(n, p) for n in ids for p in props if not own or p == json.load(open(f'/verif/neutral/{n}/meta.json'))['property']]
def run(job):
    n, p = job
    r = subprocess.run([K, '-property', p, '-control', 'neutral-' + n], capture_output=True, text=True, env=env)
    try: j = json.loads(r.stdout.strip().split('\n')[-1])
    except Exception: return n, p, {'error': (r.stdout + r.stderr)[-400:]}
    return n, p, j
res = {n: {'alarms': {}, 'not_applied': [], 'errors': {}} for n in ids}
with cf.ThreadPoolExecutor(int(os.environ.get('JOBS', '6'))) as ex:
    for n, p, j in ex.map(run, jobs):
        if j.get('error'): res[n]['errors'][p] = j['error'][:300]
        elif not j.get('applied'): res[n]['not_applied'].append(p)
        elif j.get('fired'): res[n]['alarms'][p] = j['fired']
old = {}
if (own or PF or os.environ.get('NEUTRAL_IDS')) and os.path.exists('/verif/neutral/MATRIX.json'): old = json.load(open('/verif/neutral/MATRIX.json'))
if PF and not own:
    for n in ids:
        o = old.get(n, {'alarms': {}, 'not_applied': [], 'errors': {}})
        for k in ('alarms', 'errors'):
            for q in props: o[k].pop(q, None)
            o[k].update(res[n][k])
        res[n] = o
if os.environ.get('NEUTRAL_IDS') and not own:
    for n, v in old.items():
        if n not in res: res[n] = v
if own:
    for n in ids:
        o = old.get(n, {'alarms': {}, 'not_applied': [], 'errors': {}})
        p = json.load(open(f'/verif/neutral/{n}/meta.json'))['property']
        for k in ('alarms', 'errors'): o[k].pop(p, None); o[k].update(res[n][k])
        res[n] = o
json.dump(res, open('/verif/neutral/MATRIX.json', 'w'), indent=1, sort_keys=True)
bad = 0
for n in ids:
    for p, f in sorted(res[n]['alarms'].items()):
        bad += 1; print('ALARM', n, p, len(f)); [print('     ', x[:240]) for x in f[:5]]
    for p, e in sorted(res[n]['errors'].items()): bad += 1; print('ERR', n, p, e.replace('\n', ' ')[:240])
print(f'{len(jobs)} runs, {bad} (refactoring, property) pairs with an alarm or error')
