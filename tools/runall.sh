#!/bin/sh
# runs every claimed check (quick tier by default) and prints one line per property
cd "$(dirname "$0")/.."
TIER="${1:-quick}"
for id in $(python3 -c "import json;print(' '.join(c['property_id'] for c in json.load(open('MANIFEST.json'))['checks']))"); do
  out=$(./check.sh $id $TIER 2>&1); rc=$?
  echo "$id exit=$rc $(echo "$out" | grep -c '^KNOWN-FINDING') known, $(echo "$out" | grep -cE 'VIOLATED|UNDECIDED') new; $(echo "$out" | head -1 | cut -c1-80)"
  [ $rc -ne 0 ] && echo "$out" | grep -E "VIOLATED|UNDECIDED|ketosa:" | cut -c1-300 | head -5
done
