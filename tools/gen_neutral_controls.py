#!/usr/bin/env python3
"""Turns every behaviour-preserving refactoring under <dir>/<id>/patch.diff (default /verif/neutral) into a negative
overlay control (sa/internal/rules/controls_neutral.json): per hunk the old text (context + removed lines) and the
new text (context + added lines). The thorough tier applies them in memory and requires the check to stay silent."""
import json, glob, os, sys
src = sys.argv[1] if len(sys.argv) > 1 else '/verif/neutral'
out = []
kfa = {}
if os.path.exists('/verif/neutral/KNOWN_FALSE_ALARMS.json'):
    kfa = {k for k in json.load(open('/verif/neutral/KNOWN_FALSE_ALARMS.json')) if ':' in k}
for d in sorted(glob.glob(src + '/C*')):
    nid = os.path.basename(d)
    meta = json.load(open(d + '/meta.json'))
    edits, cur, newfile = [], None, False
    for line in open(d + '/patch.diff').read().split('\n'):
        if line.startswith('diff --git'):
            cur = None
        elif line.startswith('--- '):
            newfile = line[4:].strip() == '/dev/null'
        elif line.startswith('+++ '):
            path = line[4:].strip()
            cur = path[2:] if path.startswith('b/') else path
        elif line.startswith('@@') and cur:
            edits.append({'file': cur, 'old': [], 'new': [], 'create': newfile})
        elif cur and edits and line[:1] in (' ', '+', '-'):
            e = edits[-1]
            if line[0] in ' -': e['old'].append(line[1:])
            if line[0] in ' +': e['new'].append(line[1:])
        elif cur and edits and line.startswith('\\'):
            pass
    es = [{'file': e['file'], 'old': '\n'.join(e['old']), 'new': '\n'.join(e['new']) + ('\n' if e['create'] else ''), 'create': e['create']} for e in edits]
    # a documented false alarm on the own property (DESIGN.md 9.9) stays registered but is not counted as a failed control
    rule = 'known-false-alarm' if (nid + ':' + meta['property']) in kfa else ''
    out.append({'props': [meta['property']], 'name': 'neutral-' + nid, 'positive': False, 'rule': rule, 'edits': es})
json.dump(out, open('/verif/sa/internal/rules/controls_neutral.json', 'w'), indent=1)
print(len(out), 'neutral controls')
