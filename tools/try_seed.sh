#!/bin/sh
# try_seed.sh <patch.diff> <property>... : apply a patch in a fresh scratch worktree of /repo (never /repo
# itself), run the given checks against it with $KETOSA (default /verif/bin/ketosa), remove the worktree.
P="$1"; shift
K="${KETOSA:-/verif/bin/ketosa}"
export GOFLAGS=-mod=mod GOPROXY=off; unset GOWORK
WT=$(mktemp -d /tmp/try-XXXXXX); rmdir "$WT"
git -C /repo worktree add --detach "$WT" HEAD -q || exit 2
git -C "$WT" apply "$P" || { git -C /repo worktree remove --force "$WT"; echo "patch does not apply"; exit 2; }
for id in "$@"; do
  "$K" -property "$id" -repo "$WT" -out "$WT.out" > "$WT.log" 2>&1; rc=$?
  grep -E "VIOLATED|UNDECIDED|KNOWN|ketosa:|fatal error|panic" "$WT.log" | cut -c1-380 | head -8
  echo "== $id exit=$rc"
done
git -C /repo worktree remove --force "$WT"; rm -rf "$WT.out" "$WT.log"
