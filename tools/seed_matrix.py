#!/usr/bin/env python3
"""seed_matrix.py [seed-id ...]: for every seeded change under /verif/seeded, make a scratch worktree
of /repo under /tmp, apply the patch there, run every property's quick check against that worktree
(ketosa -repo), remove the worktree, and write /verif/seeded/MATRIX.json (+ caught_by in each meta.json).
/repo itself is never touched."""
import json, os, subprocess, sys, glob, concurrent.futures as cf
ENV = dict(os.environ, GOFLAGS="-mod=mod", GOPROXY="off"); ENV.pop("GOWORK", None)
PROPS = [l.split()[0] for l in subprocess.run(["/verif/bin/ketosa","-list"],capture_output=True,text=True,env=ENV).stdout.splitlines() if l.startswith("C")]
seeds = sorted(os.path.basename(d) for d in glob.glob("/verif/seeded/C*") if os.path.isdir(d))
if sys.argv[1:]: seeds = [s for s in seeds if s in sys.argv[1:]]
def run_seed(s):
    wt = f"/tmp/sw-{s}"; out = f"/tmp/sw-out-{s}"
    subprocess.run(f"git -C /repo worktree remove --force {wt} 2>/dev/null; git -C /repo worktree add --detach {wt} HEAD -q && git -C {wt} apply /verif/seeded/{s}/patch.diff", shell=True, check=True)
    res = {}
    try:
        for p in PROPS:
            r = subprocess.run(["/verif/bin/ketosa","-property",p,"-repo",wt,"-out",out], capture_output=True, text=True, env=ENV)
            fired = sorted({l.split(":")[1].split()[0]+"("+l.split(":")[0].strip().lower()+")" for l in r.stdout.splitlines() if l.startswith("  VIOLATED") or l.startswith("  UNDECIDED")})
            res[p] = {"exit": r.returncode, "rules": fired}
            if r.returncode not in (0,1): res[p]["stderr"] = r.stderr[-300:]
    finally:
        subprocess.run(f"git -C /repo worktree remove --force {wt}; rm -rf {out}", shell=True)
    return s, res
matrix = {}
if os.path.exists("/verif/seeded/MATRIX.json"): matrix = json.load(open("/verif/seeded/MATRIX.json"))
with cf.ThreadPoolExecutor(max_workers=5) as ex:
    for s, res in ex.map(run_seed, seeds):
        matrix[s] = {p: v for p, v in res.items() if v["exit"] != 0}
        print(s, {p: v["rules"] for p, v in matrix[s].items()}, flush=True)
        mp = f"/verif/seeded/{s}/meta.json"
        m = json.load(open(mp)); own = m["property"]
        m["caught_by"] = {p: v["rules"] for p, v in matrix[s].items()}
        m["caught_by_own_property_check"] = own in matrix[s] and matrix[s][own]["exit"] == 1
        json.dump(m, open(mp, "w"), indent=1)
json.dump(matrix, open("/verif/seeded/MATRIX.json","w"), indent=1, sort_keys=True)
