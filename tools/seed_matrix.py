#!/usr/bin/env python3
"""seed_matrix.py [seed-id ...]: runs every property's quick rules against every seeded change of /verif/seeded,
applied in memory as a go/packages overlay on /repo's current tree (`ketosa -property P -control seed-<id>`;
/repo itself is never modified), and writes /verif/seeded/MATRIX.json plus caught_by in each meta.json.
A seed whose patch no longer applies to the current tree is recorded as "skipped"."""
import json, os, subprocess, sys, glob, concurrent.futures as cf
ENV = dict(os.environ, GOFLAGS="-mod=mod", GOPROXY="off"); ENV.pop("GOWORK", None)
K = os.environ.get("KETOSA", "/verif/bin/ketosa")
PROPS = [l.strip() for l in subprocess.run([K, "-list"], capture_output=True, text=True, env=ENV).stdout.splitlines() if l.startswith("C")]
seeds = sorted(os.path.basename(d) for d in glob.glob("/verif/seeded/C*") if os.path.isdir(d))
if sys.argv[1:]: seeds = [s for s in seeds if s in sys.argv[1:]]
def one(job):
    s, p = job
    r = subprocess.run([K, "-property", p, "-control", "seed-" + s], capture_output=True, text=True, env=ENV)
    line = (r.stdout.strip().splitlines() or ["{}"])[-1]
    try: j = json.loads(line)
    except Exception: j = {"error": (r.stderr or r.stdout)[-300:]}
    return s, p, j
matrix = {}
if os.path.exists("/verif/seeded/MATRIX.json"): matrix = json.load(open("/verif/seeded/MATRIX.json"))
for s in seeds: matrix[s] = {}
jobs = [(s, p) for s in seeds for p in PROPS]
with cf.ThreadPoolExecutor(max_workers=int(os.environ.get("JOBS", "6"))) as ex:
    for s, p, j in ex.map(one, jobs):
        if j.get("error"):
            matrix[s][p] = {"error": j["error"][:200]}
        elif not j.get("applied"):
            matrix[s][p] = {"skipped": True}
        elif j.get("fired"):
            rules = sorted({f.split(": ", 1)[1].split(" / ")[0] + "(" + f.split(":")[0] + ")" for f in j["fired"]})
            matrix[s][p] = {"rules": rules}
for s in seeds:
    mp = f"/verif/seeded/{s}/meta.json"
    m = json.load(open(mp)); own = m["property"]
    m["caught_by"] = {p: v["rules"] for p, v in matrix[s].items() if "rules" in v}
    m["caught_by_own_property_check"] = own in m["caught_by"]
    json.dump(m, open(mp, "w"), indent=1)
    print(s, m["caught_by"], flush=True)
json.dump(matrix, open("/verif/seeded/MATRIX.json", "w"), indent=1, sort_keys=True)
