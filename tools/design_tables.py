#!/usr/bin/env python3
"""Regenerates the generated blocks of DESIGN.md (between <!-- BEGIN x --> and <!-- END x -->):
seed table from seeded/*/meta.json + seeded/MATRIX.json, controls table from the thorough evidence."""
import json, glob, os, re
def seed_table():
    rows = ["| seed | round | what it changes | caught by its property's check (rules) | also reported by |", "|---|---|---|---|---|"]
    for f in sorted(glob.glob('/verif/seeded/C*/meta.json')):
        m = json.load(open(f))
        cb = m.get('caught_by', {})
        own = cb.get(m['property'], [])
        others = {p: r for p, r in cb.items() if p != m['property']}
        title = re.sub(r'^Seed2? *C?\d*[-/ ]*[a-dA-D]?[ :—–-]*', '', m['title']).strip()
        rows.append(f"| {m['id']} | {m.get('round',1)} | {title[:150]} | {', '.join(own) if own else '**not caught**'} | {'; '.join(p+': '+', '.join(r) for p, r in sorted(others.items()))} |")
    return "\n".join(rows)
def controls_table():
    rows = ["| property | controls run | positive fired | negative silent | skipped | failed |", "|---|---|---|---|---|---|"]
    for f in sorted(glob.glob('/verif/evidence/C*.json')):
        e = json.load(open(f))
        ctl = (e.get('coverage', {}).get('slots', {}) or {}).get('controls') or e.get('coverage', {}).get('controls') or []
        if not ctl:
            continue
        pos = [c for c in ctl if c['positive'] and c['applied']]
        neg = [c for c in ctl if not c['positive'] and c['applied']]
        rows.append(f"| {e['property_id']} | {len(ctl)} | {sum(1 for c in pos if c['ok'])}/{len(pos)} | {sum(1 for c in neg if c['ok'])}/{len(neg)} | {sum(1 for c in ctl if not c['applied'])} | {', '.join(c['name'] for c in ctl if not c['ok']) or '—'} |")
    return "\n".join(rows)
def rules_block():
    out = []
    for f in sorted(glob.glob('/verif/evidence/C*.json')):
        e = json.load(open(f))
        c = e['coverage']
        per = c.get('per_rule', {})
        out.append(f"**{e['property_id']}** ({c.get('obligations', '?')} obligations, {c.get('functions_analysed', '?')} functions on the last run). {c['explanation']}\n")
        if per:
            out.append("Obligations per rule: " + ", ".join(f"{k} {v.get('discharged', v) if isinstance(v, dict) else v}" for k, v in sorted(per.items())) + ".\n")
    return "\n".join(out)
s = open('/verif/DESIGN.md').read()
for name, fn in (("seeds", seed_table), ("controls", controls_table), ("rules", rules_block)):
    b, e = f"<!-- BEGIN {name} -->", f"<!-- END {name} -->"
    if b in s and e in s:
        s = s[:s.index(b) + len(b)] + "\n" + fn() + "\n" + s[s.index(e):]
open('/verif/DESIGN.md', 'w').write(s)
