#!/usr/bin/env python3
"""Turns every seeded change under /verif/seeded/<id>/patch.diff into a positive overlay control
(sa/internal/rules/controls_seeds.json): per hunk the old text (context + removed lines) and the new text
(context + added lines). The thorough tier applies them in memory and requires the property's check to fire."""
import json, glob, os, re
out = []
misses = json.load(open('/verif/seeded/KNOWN_MISSES.json'))
for d in sorted(glob.glob('/verif/seeded/C*')):
    sid = os.path.basename(d)
    known_miss = sid in misses  # documented gap (DESIGN.md 9.5): kept for the matrix, never counted as a failed control
    meta = json.load(open(d + '/meta.json'))
    edits = []
    cur = None
    for line in open(d + '/patch.diff').read().split('\n'):
        if line.startswith('diff --git'):
            cur = None
        elif line.startswith('+++ '):
            path = line[4:].strip()
            cur = path[2:] if path.startswith('b/') else path
        elif line.startswith('--- '):
            newfile = line[4:].strip() == '/dev/null'
        elif line.startswith('@@') and cur:
            edits.append({'file': cur, 'old': [], 'new': [], 'create': newfile})
        elif cur and edits and (line[:1] in (' ', '+', '-')) and not line.startswith('+++') and not line.startswith('---'):
            e = edits[-1]
            if line[0] in ' -': e['old'].append(line[1:])
            if line[0] in ' +': e['new'].append(line[1:])
        elif cur and edits and line == '' :
            pass
    es = []
    for e in edits:
        es.append({'file': e['file'], 'old': '\n'.join(e['old']), 'new': '\n'.join(e['new']), 'create': e['create']})
    out.append({'props': [meta['property']], 'name': 'seed-' + sid, 'positive': True, 'rule': 'known-miss' if known_miss else '', 'edits': es})
json.dump(out, open('/verif/sa/internal/rules/controls_seeds.json', 'w'), indent=1)
print(len(out), 'seed controls')
