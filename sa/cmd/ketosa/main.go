// ketosa decides structural necessary conditions of the keto properties from
// /repo's source. It never runs keto code.
package main

import (
	"encoding/json"
	"flag"
	"fmt"
	"os"
	"os/exec"
	"path/filepath"
	"runtime/debug"
	"sort"
	"strconv"
	"strings"
	"sync"
	"time"

	"ketosa/internal/core"
	"ketosa/internal/rules"
)

func main() {
	var (
		prop    = flag.String("property", "", "property id (C01..C19)")
		tier    = flag.String("tier", "quick", "quick | thorough")
		repo    = flag.String("repo", "/repo", "repository root")
		outDir  = flag.String("out", "/verif/evidence", "evidence directory")
		known   = flag.String("known", "/verif/known_findings.json", "known findings file")
		tags    = flag.String("tags", "sqlite", "build tags (comma separated; 'none' for no tags)")
		goarch  = flag.String("goarch", "", "GOARCH override")
		tests   = flag.Bool("tests", false, "include test variants")
		useCHA  = flag.Bool("cha", false, "use the CHA call graph")
		control = flag.String("control", "", "run one control (overlay) and print its result as JSON")
		sub     = flag.Bool("sub", false, "sub-run: print obligations as JSON, write no evidence")
		list    = flag.Bool("list", false, "list registered properties")
		symbols = flag.String("symbols", "", "symbol table used to map renamed declarations back (default: ../symbols.json beside the binary; 'off' disables)")
		genSyms = flag.String("gen-symbols", "", "write the symbol table of the tree (union over the build configurations) to this file and exit")
		dumpFn  = flag.String("dumpfn", "", "debug: print the SSA of the named function as the rules see it (with -metamorph: on the transformed tree)")
		mm      = flag.String("metamorph", "", "run on an overlay in which all keto sources are rewritten by a behaviour-preserving transformation (commute|ifelse|rename|parens); prints the obligations that are not discharged")
	)
	flag.Parse()
	if *list {
		for _, id := range rules.IDs() {
			fmt.Println(id)
		}
		return
	}
	if *genSyms != "" {
		if err := genSymbols(*repo, *genSyms); err != nil {
			fmt.Fprintf(os.Stderr, "ketosa: %v\n", err)
			os.Exit(2)
		}
		return
	}
	switch {
	case *symbols == "off":
		symbolsPath = ""
	case *symbols != "":
		symbolsPath = *symbols
	case os.Getenv("KETOSA_SYMBOLS") != "":
		symbolsPath = os.Getenv("KETOSA_SYMBOLS")
	default:
		if self, err := os.Executable(); err == nil {
			symbolsPath = filepath.Join(filepath.Dir(self), "..", "symbols.json")
		}
	}
	pr := rules.Get(*prop)
	if pr == nil {
		fmt.Fprintf(os.Stderr, "ketosa: no rules registered for property %q\n", *prop)
		os.Exit(2)
	}
	defer func() {
		if r := recover(); r != nil {
			fmt.Fprintf(os.Stderr, "ketosa: checker panic (nothing from this run is to be believed): %v\n%s\n", r, debug.Stack())
			os.Exit(2)
		}
	}()
	start := time.Now()
	seed := 0
	if s := os.Getenv("VERIF_SEED"); s != "" {
		seed, _ = strconv.Atoi(s)
	}
	lc := core.LoadConfig{Dir: *repo, GOARCH: *goarch, Tests: *tests}
	if *tags == "none" {
		lc.Tags = []string{}
	} else {
		lc.Tags = strings.Split(*tags, ",")
	}

	if *dumpFn != "" {
		if *control != "" {
			for _, id := range rules.IDs() {
				for _, c := range rules.Get(id).Controls {
					if c.Name == *control && lc.Overlay == nil {
						if ov, ok := c.Edit(*repo); ok {
							lc.Overlay = ov
						}
					}
				}
			}
		} else if *mm != "" {
			ov, _, err := core.Metamorph(*repo, lc.Tags, *mm)
			if err != nil {
				fmt.Fprintln(os.Stderr, err)
				os.Exit(2)
			}
			lc.Overlay = ov
		}
		p, err := core.LoadNormalised(lc, symbolsPath)
		if err != nil {
			fmt.Fprintln(os.Stderr, err)
			os.Exit(2)
		}
		fn := p.Func(*dumpFn)
		if fn == nil {
			fmt.Fprintln(os.Stderr, "no such function")
			os.Exit(2)
		}
		for _, f := range core.Closures(fn) {
			f.WriteTo(os.Stdout)
		}
		return
	}
	if *control == "list" {
		for _, c := range pr.Controls {
			kind := "negative"
			if c.Positive {
				kind = "positive"
			}
			rule := c.Rule
			if rule == "" {
				rule = "-"
			}
			fmt.Printf("%s %s %s %s\n", pr.ID, c.Name, kind, rule)
		}
		return
	}
	if *control != "" {
		runControl(pr, *control, lc, *repo, *mm)
		return
	}
	if *mm != "" {
		runMetamorph(pr, *mm, lc, *repo)
		return
	}

	rep, err := analyse(pr, lc, *tier, *useCHA)
	if err != nil {
		fmt.Fprintf(os.Stderr, "ketosa: %v\n", err)
		os.Exit(2)
	}
	if *sub {
		b, _ := json.Marshal(rep.Obls)
		fmt.Println(string(b))
		return
	}
	kf, err := core.LoadKnown(*known)
	if err != nil {
		fmt.Fprintf(os.Stderr, "ketosa: %v\n", err)
		os.Exit(2)
	}
	extra := map[string]any{}
	if len(renamedBack) > 0 {
		extra["renamed_declarations_mapped_back"] = renamedBack
		for _, r := range renamedBack {
			fmt.Printf("NOTE: analysed with %s\n", r)
		}
	}
	if *tier == "thorough" {
		thorough(pr, rep, *repo, extra)
	}
	out := rep.Match(kf)
	replay, err := rep.WriteEvidence(*outDir, *tier, seed, pr.Explanation, pr.Assumptions, extra, out, start)
	if err != nil {
		fmt.Fprintf(os.Stderr, "ketosa: %v\n", err)
		os.Exit(2)
	}
	perRule := map[string][3]int{}
	for _, o := range rep.Obls {
		c := perRule[o.Rule]
		switch o.Status {
		case core.Discharged:
			c[0]++
		case core.Violated:
			c[1]++
		default:
			c[2]++
		}
		perRule[o.Rule] = c
	}
	var rs []string
	for r := range perRule {
		rs = append(rs, r)
	}
	sort.Strings(rs)
	fmt.Printf("property=%s tier=%s obligations=%d functions=%d wall=%.1fs\n", pr.ID, *tier, len(rep.Obls), len(rep.Funcs), time.Since(start).Seconds())
	for _, r := range rs {
		c := perRule[r]
		fmt.Printf("  %-8s discharged=%d violated=%d undecided=%d\n", r, c[0], c[1], c[2])
	}
	for _, o := range out.Known {
		fmt.Printf("KNOWN-FINDING: property=%s %s %s %s (%s) %s\n", pr.ID, o.Rule, o.Func, o.Construct, o.Pos, o.Detail)
	}
	for _, o := range out.New {
		fmt.Printf("  %s: %s %s [%s] %s: %s\n", strings.ToUpper(string(o.Status)), o.Rule, o.Func, o.Construct, o.Pos, o.Detail)
	}
	if len(out.New) > 0 {
		fmt.Printf("VIOLATION property=%s replay=%s\n", pr.ID, replay)
		os.Exit(1)
	}
	if v, ok := extra["control_failures"].([]string); ok && len(v) > 0 {
		// recorded in the evidence; not a verdict about /repo, so not an alarm
		fmt.Printf("CONTROL-FAILED property=%s %v (the checker's self-test on an edited overlay; see evidence)\n", pr.ID, v)
	}
}

// symbolsPath is the table LoadNormalised compares the tree's declarations with.
var symbolsPath string

// renamedBack is what the last analyse mapped back (for the evidence).
var renamedBack []string

func analyse(pr *rules.Property, lc core.LoadConfig, tier string, useCHA bool) (*core.Report, error) {
	p, err := core.LoadNormalised(lc, symbolsPath)
	if err != nil {
		return nil, err
	}
	renamedBack = p.Renamed
	rep := core.NewReport(pr.ID)
	pr.Run(&rules.Ctx{P: p, R: rep, Tier: tier, UseCHA: useCHA})
	rep.Finish()
	return rep, nil
}

// runControl applies one overlay and prints {"applied":bool,"fired":[keys]}.
func runControl(pr *rules.Property, name string, lc core.LoadConfig, repo string, alsoRename string) {
	ctls := pr.Controls
	if strings.HasPrefix(name, "seed-") || strings.HasPrefix(name, "neutral-") {
		// a seeded change can be tried against any property's rules
		for _, id := range rules.IDs() {
			if q := rules.Get(id); q != nil && q != pr {
				ctls = append(append([]rules.Control{}, ctls...), q.Controls...)
			}
		}
	}
	for _, c := range ctls {
		if c.Name != name {
			continue
		}
		ov, ok := c.Edit(repo)
		res := map[string]any{"name": name, "applied": ok}
		if ok && alsoRename != "" {
			// the edit and, on top of it, a renaming of declarations: a seeded change must
			// still be reported when the tree it is made in has been renamed
			ov2, _, err := core.MetamorphDecl(repo, lc.Tags, alsoRename, ov)
			if err != nil {
				res["error"] = err.Error()
				ok = false
			} else {
				ov = ov2
			}
		}
		if ok {
			lc.Overlay = ov
			rep, err := analyse(pr, lc, "quick", false)
			if err != nil {
				res["error"] = err.Error()
			} else {
				var fired []string
				for _, o := range rep.Obls {
					if o.Status != core.Discharged {
						k := string(o.Status) + ": " + o.Key()
						if os.Getenv("KETOSA_DETAIL") != "" {
							k += " @ " + o.Pos + " :: " + o.Detail
						}
						fired = append(fired, k)
					}
				}
				res["fired"] = fired
			}
		}
		b, _ := json.Marshal(res)
		fmt.Println(string(b))
		return
	}
	fmt.Fprintf(os.Stderr, "ketosa: unknown control %q\n", name)
	os.Exit(2)
}

// runMetamorph rewrites all keto sources by one behaviour-preserving
// transformation (overlay only) and prints {"applied":n,"fired":[...]}.
func runMetamorph(pr *rules.Property, kind string, lc core.LoadConfig, repo string) {
	var (
		ov  map[string][]byte
		n   int
		err error
	)
	if strings.HasPrefix(kind, "rename") && kind != "rename" {
		ov, n, err = core.MetamorphDecl(repo, lc.Tags, kind, nil)
	} else {
		ov, n, err = core.Metamorph(repo, lc.Tags, kind)
	}
	res := map[string]any{"name": "metamorph-" + kind, "applied": n > 0, "rewrites": n, "files": len(ov)}
	if err != nil {
		res["error"] = err.Error()
	} else {
		lc.Overlay = ov
		rep, err := analyse(pr, lc, "quick", false)
		if err != nil {
			res["error"] = err.Error()
		} else {
			var fired []string
			for _, o := range rep.Obls {
				if o.Status != core.Discharged {
					fired = append(fired, string(o.Status)+": "+o.Key()+" @ "+o.Pos+" :: "+o.Detail)
				}
			}
			res["fired"] = fired
			res["obligations"] = len(rep.Obls)
			res["mapped_back"] = len(renamedBack)
		}
	}
	b, _ := json.Marshal(res)
	fmt.Println(string(b))
}

type subCfg struct {
	name string
	args []string
}

// thorough re-runs the rules under the build-configuration matrix and with the
// CHA call graph, and runs the controls; every sub-run is its own process.
func thorough(pr *rules.Property, base *core.Report, repo string, extra map[string]any) {
	self, _ := os.Executable()
	cfgs := []subCfg{
		{"tags=none", []string{"-tags", "none"}},
		{"tags=sqlite,nomysql,nopostgres,nocockroach", []string{"-tags", "sqlite,nomysql,nopostgres,nocockroach"}},
		{"goarch=386", []string{"-tags", "none", "-goarch", "386"}},
	}
	baseKeys := map[string]core.Status{}
	for _, o := range base.Obls {
		baseKeys[o.Key()] = o.Status
	}
	type cfgRes struct {
		Name        string   `json:"config"`
		Obligations int      `json:"obligations"`
		Differences []string `json:"differences"`
		Error       string   `json:"error,omitempty"`
	}
	var (
		mu      sync.Mutex
		results []cfgRes
		wg      sync.WaitGroup
		sem     = make(chan struct{}, 3)
	)
	for _, c := range cfgs {
		wg.Add(1)
		go func(c subCfg) {
			defer wg.Done()
			sem <- struct{}{}
			defer func() { <-sem }()
			args := append([]string{"-property", pr.ID, "-repo", repo, "-sub"}, c.args...)
			cmd := exec.Command(self, args...)
			cmd.Stderr = nil
			outb, err := cmd.Output()
			r := cfgRes{Name: c.name}
			if err != nil {
				r.Error = err.Error()
				if ee, ok := err.(*exec.ExitError); ok {
					r.Error += ": " + strings.TrimSpace(string(ee.Stderr))
				}
			} else {
				var obls []*core.Obligation
				if e := json.Unmarshal(lastLine(outb), &obls); e != nil {
					r.Error = "bad sub-run output: " + e.Error()
				}
				r.Obligations = len(obls)
				seen := map[string]bool{}
				for _, o := range obls {
					seen[o.Key()] = true
					if st, ok := baseKeys[o.Key()]; !ok {
						if o.Status != core.Discharged {
							r.Differences = append(r.Differences, "only in "+c.name+": "+string(o.Status)+" "+o.Key())
						}
					} else if st != o.Status {
						r.Differences = append(r.Differences, fmt.Sprintf("%s: %s here, %s in default build", o.Key(), o.Status, st))
					}
				}
				for k, st := range baseKeys {
					if !seen[k] && st == core.Discharged {
						// an obligation that disappears under another configuration is fine
						// (file not built there); nothing to report
						_ = k
					}
				}
			}
			mu.Lock()
			results = append(results, r)
			mu.Unlock()
		}(c)
	}
	wg.Wait()
	sort.Slice(results, func(i, j int) bool { return results[i].Name < results[j].Name })
	extra["build_matrix"] = results
	for _, r := range results {
		if r.Error != "" {
			base.Undecide("matrix", "", r.Name, "", "sub-run failed: "+r.Error)
		}
		for _, d := range r.Differences {
			base.Undecide("matrix", "", r.Name+": "+d, "", "obligation status differs between build configurations / call graphs")
		}
	}

	// controls
	type ctlRes struct {
		Name     string   `json:"name"`
		Positive bool     `json:"positive"`
		Applied  bool     `json:"applied"`
		Fired    []string `json:"fired"`
		OK       bool     `json:"ok"`
		Error    string   `json:"error,omitempty"`
	}
	var ctl []ctlRes
	var failures []string
	sem2 := make(chan struct{}, 4)
	for _, c := range pr.Controls {
		wg.Add(1)
		go func(c rules.Control) {
			defer wg.Done()
			sem2 <- struct{}{}
			defer func() { <-sem2 }()
			cmd := exec.Command(self, "-property", pr.ID, "-repo", repo, "-control", c.Name)
			outb, err := cmd.Output()
			r := ctlRes{Name: c.Name, Positive: c.Positive}
			var parsed struct {
				Applied bool     `json:"applied"`
				Fired   []string `json:"fired"`
				Error   string   `json:"error"`
			}
			if err != nil {
				r.Error = err.Error()
			} else if e := json.Unmarshal(lastLine(outb), &parsed); e != nil {
				r.Error = e.Error()
			} else {
				r.Applied, r.Fired, r.Error = parsed.Applied, parsed.Fired, parsed.Error
			}
			// fired beyond what the unchanged tree already reports
			var newFired []string
			for _, f := range r.Fired {
				key := f[strings.Index(f, ": ")+2:]
				if st, ok := baseKeys[key]; ok && st != core.Discharged {
					continue
				}
				newFired = append(newFired, f)
			}
			r.Fired = newFired
			switch {
			case r.Error != "" && !(c.Positive && strings.Contains(r.Error, "load/type errors")):
				r.OK = false
			case !r.Applied:
				r.OK = true // skipped: locator does not apply to this tree
			case c.Positive && c.Rule == "known-miss":
				r.OK = true // a seeded change the rules are known not to report (seeded/KNOWN_MISSES.json)
			case !c.Positive && c.Rule == "known-false-alarm":
				r.OK = true // a refactoring the rules are known to misjudge (neutral/KNOWN_FALSE_ALARMS.json)
			case c.Positive:
				r.OK = false
				for _, f := range newFired {
					if c.Rule == "" || strings.Contains(f, ": "+c.Rule+" / ") {
						r.OK = true
					}
				}
			default:
				r.OK = len(newFired) == 0
			}
			mu.Lock()
			ctl = append(ctl, r)
			if !r.OK {
				failures = append(failures, c.Name)
			}
			mu.Unlock()
		}(c)
	}
	// metamorphic negative controls: the whole tree rewritten by a behaviour-preserving transformation
	for _, kind := range []string{"commute", "ifelse", "rename", "parens", "swtoif", "derange", "elseafter", "renamefn", "renamety", "renamefld", "renamevar", "renameexp", "adddefer", "addcall", "revdecl", "revcases", "tmpreturn"} {
		wg.Add(1)
		go func(kind string) {
			defer wg.Done()
			sem2 <- struct{}{}
			defer func() { <-sem2 }()
			cmd := exec.Command(self, "-property", pr.ID, "-repo", repo, "-metamorph", kind)
			outb, err := cmd.Output()
			r := ctlRes{Name: "metamorph-" + kind, Positive: false}
			var parsed struct {
				Applied bool     `json:"applied"`
				Fired   []string `json:"fired"`
				Error   string   `json:"error"`
			}
			if err != nil {
				r.Error = err.Error()
			} else if e := json.Unmarshal(lastLine(outb), &parsed); e != nil {
				r.Error = e.Error()
			} else {
				r.Applied, r.Fired, r.Error = parsed.Applied, parsed.Fired, parsed.Error
			}
			var newFired []string
			for _, f := range r.Fired {
				key := f[strings.Index(f, ": ")+2:]
				if i := strings.Index(key, " @ "); i >= 0 {
					key = key[:i]
				}
				if st, ok := baseKeys[key]; ok && st != core.Discharged {
					continue
				}
				newFired = append(newFired, f)
			}
			r.Fired = newFired
			// a transformation that does not type-check on this tree is skipped, not failed
			r.OK = (r.Error == "" && len(newFired) == 0) || strings.Contains(r.Error, "load/type errors")
			mu.Lock()
			ctl = append(ctl, r)
			if !r.OK {
				failures = append(failures, r.Name)
			}
			mu.Unlock()
		}(kind)
	}
	wg.Wait()
	sort.Slice(ctl, func(i, j int) bool { return ctl[i].Name < ctl[j].Name })
	extra["controls"] = ctl
	sort.Strings(failures)
	extra["control_failures"] = failures
	_ = filepath.Join
}

func lastLine(b []byte) []byte {
	s := strings.TrimSpace(string(b))
	if i := strings.LastIndexByte(s, '\n'); i >= 0 {
		s = s[i+1:]
	}
	return []byte(s)
}

// genSymbols writes the union of the declared symbols under the build
// configurations the thorough tier analyses.
func genSymbols(repo, path string) error {
	cfgs := []struct {
		name string
		lc   core.LoadConfig
	}{
		{"tags=sqlite", core.LoadConfig{Dir: repo, NoSSA: true}},
		{"tags=none", core.LoadConfig{Dir: repo, Tags: []string{}, NoSSA: true}},
		{"tags=sqlite,nomysql,nopostgres,nocockroach", core.LoadConfig{Dir: repo, Tags: []string{"sqlite", "nomysql", "nopostgres", "nocockroach"}, NoSSA: true}},
		{"goarch=386", core.LoadConfig{Dir: repo, Tags: []string{}, GOARCH: "386", NoSSA: true}},
	}
	tab := core.SymbolTable{Note: "declared symbols of ory/keto (non-test, non-generated files) at the tree the rules were confirmed on; used only to recognise renames (sa/internal/core/normalize.go); regenerate with `ketosa -gen-symbols` after a fix: commit"}
	seen := map[string]bool{}
	for _, c := range cfgs {
		p, err := core.Load(c.lc)
		if err != nil {
			return err
		}
		tab.Configs = append(tab.Configs, c.name)
		for _, s := range core.Symbols(p) {
			k := s.Kind + "|" + s.Pkg + "|" + s.Owner + "|" + s.Name
			if !seen[k] {
				seen[k] = true
				tab.Symbols = append(tab.Symbols, s)
			}
		}
	}
	b, err := json.MarshalIndent(tab, "", " ")
	if err != nil {
		return err
	}
	return os.WriteFile(path, append(b, '\n'), 0o644)
}
