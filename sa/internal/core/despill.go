package core

import (
	"go/types"

	"golang.org/x/tools/go/ssa"
)

// go/ssa keeps the results of a function that has a defer statement in memory
// cells: `return x` becomes `*res = x; rundefers; t = *res; return t`, and a
// "recover" block returning the cells is added, whether or not anything can
// recover. Adding `defer span.End()` to a function - a change that has nothing
// to do with what it returns - would therefore change the shape every rule
// that looks at returned values sees. despill undoes this where it is exact:
//
//   - an unnamed result cell can only be written by a return statement, so the
//     value a Return loads from it after rundefers is the value stored to it
//     in the same block before rundefers: the Return is made to use that value;
//     when nothing else reads the cell, the store, the load and the cell go;
//   - the recover block is reachable only if a deferred call recovers, and
//     recover() only works when called directly by the deferred function; when
//     every deferred callee of the function is known and none calls recover()
//     itself, the block is removed.
//
// Named results are left alone (a deferred closure may assign them).
func despill(prog *ssa.Program, fns map[*ssa.Function]bool) (nRet, nRecover int) {
	for fn := range fns {
		if fn.Blocks == nil || fn.Recover == nil {
			continue
		}
		sig := fn.Signature
		unnamed := func(a *ssa.Alloc) bool {
			if a.Heap || a.Comment != "" {
				return false
			}
			for i := 0; i < sig.Results().Len(); i++ {
				if n := sig.Results().At(i).Name(); n != "" && n != "_" {
					return false // one named result means all are named
				}
			}
			return true
		}
		for _, b := range fn.Blocks {
			if b == fn.Recover || len(b.Instrs) == 0 {
				continue
			}
			ret, ok := b.Instrs[len(b.Instrs)-1].(*ssa.Return)
			if !ok {
				continue
			}
			for i, rv := range ret.Results {
				ld, ok := rv.(*ssa.UnOp)
				if !ok || ld.Block() != b {
					continue
				}
				cell, ok := ld.X.(*ssa.Alloc)
				if !ok || !unnamed(cell) || !types.Identical(deref(cell.Type()), sig.Results().At(i).Type()) {
					continue
				}
				// the last store to the cell in this block, before the load
				var st *ssa.Store
				for _, ins := range b.Instrs {
					if ins == ssa.Instruction(ld) {
						break
					}
					if s, ok := ins.(*ssa.Store); ok && s.Addr == ssa.Value(cell) {
						st = s
					}
				}
				if st == nil {
					continue
				}
				ret.Results[i] = st.Val
				dropRef(ld, ret)
				addRef(st.Val, ret)
				nRet++
				if len(*ld.Referrers()) == 0 {
					removeInstr(b, ld)
				}
			}
		}
		// `return x, nil` with a named result x stores the cell's own value back:
		// t = *x; ...; *x = t with nothing in between that could write x
		for _, b := range fn.Blocks {
			for _, ins := range append([]ssa.Instruction{}, b.Instrs...) {
				st, ok := ins.(*ssa.Store)
				if !ok {
					continue
				}
				ld, ok := st.Val.(*ssa.UnOp)
				if !ok || ld.X != st.Addr || ld.Block() != b {
					continue
				}
				if _, isCell := st.Addr.(*ssa.Alloc); !isCell {
					continue
				}
				between, clean := false, true
				for _, x := range b.Instrs {
					if x == ssa.Instruction(ld) {
						between = true
						continue
					}
					if x == ins {
						break
					}
					if !between {
						continue
					}
					switch y := x.(type) {
					case *ssa.Store:
						if y.Addr == st.Addr {
							clean = false
						}
					case ssa.CallInstruction:
						clean = false
					}
				}
				if !between || !clean {
					continue
				}
				removeInstr(b, st)
				if len(*ld.Referrers()) == 0 {
					removeInstr(b, ld)
				}
				nRet++
			}
		}
		// is the recover block dead?
		dead := true
		for _, b := range fn.Blocks {
			for _, ins := range b.Instrs {
				d, ok := ins.(*ssa.Defer)
				if !ok {
					continue
				}
				var callee *ssa.Function
				switch v := d.Call.Value.(type) {
				case *ssa.Function:
					callee = v
				case *ssa.MakeClosure:
					callee, _ = v.Fn.(*ssa.Function)
				}
				if d.Call.IsInvoke() || callee == nil || callee.Blocks == nil || callsRecover(callee) {
					dead = false
				}
			}
		}
		if dead && len(fn.Recover.Preds) == 0 {
			rb := fn.Recover
			for len(rb.Instrs) > 0 {
				removeInstr(rb, rb.Instrs[len(rb.Instrs)-1])
			}
			k := -1
			for i, b := range fn.Blocks {
				if b == rb {
					k = i
				}
			}
			if k > 0 {
				fn.Blocks = append(fn.Blocks[:k], fn.Blocks[k+1:]...)
				for i, b := range fn.Blocks {
					b.Index = i
				}
				fn.Recover = nil
				nRecover++
			}
		}
		// cells that are now only written
		for _, b := range fn.Blocks {
			for _, ins := range append([]ssa.Instruction{}, b.Instrs...) {
				cell, ok := ins.(*ssa.Alloc)
				if !ok || !unnamed(cell) {
					continue
				}
				onlyStores := true
				for _, r := range *cell.Referrers() {
					if s, ok := r.(*ssa.Store); !ok || s.Addr != ssa.Value(cell) {
						onlyStores = false
					}
				}
				if !onlyStores {
					continue
				}
				for _, r := range append([]ssa.Instruction{}, *cell.Referrers()...) {
					removeInstr(r.Block(), r)
				}
				removeInstr(b, cell)
				for i, l := range fn.Locals {
					if l == cell {
						fn.Locals = append(fn.Locals[:i], fn.Locals[i+1:]...)
						break
					}
				}
			}
		}
	}
	return
}

func deref(t types.Type) types.Type {
	if p, ok := t.Underlying().(*types.Pointer); ok {
		return p.Elem()
	}
	return t
}

func callsRecover(fn *ssa.Function) bool {
	for _, b := range fn.Blocks {
		for _, ins := range b.Instrs {
			if c, ok := ins.(ssa.CallInstruction); ok {
				if bi, ok := c.Common().Value.(*ssa.Builtin); ok && bi.Name() == "recover" {
					return true
				}
			}
		}
	}
	return false
}

func dropRef(v ssa.Value, user ssa.Instruction) {
	refs := v.Referrers()
	if refs == nil {
		return
	}
	for i, r := range *refs {
		if r == user {
			*refs = append((*refs)[:i], (*refs)[i+1:]...)
			return
		}
	}
}

func addRef(v ssa.Value, user ssa.Instruction) {
	if refs := v.Referrers(); refs != nil {
		*refs = append(*refs, user)
	}
}

// removeInstr deletes ins from its block and from the referrers of its operands.
func removeInstr(b *ssa.BasicBlock, ins ssa.Instruction) {
	for i, x := range b.Instrs {
		if x == ins {
			b.Instrs = append(b.Instrs[:i], b.Instrs[i+1:]...)
			break
		}
	}
	var ops []*ssa.Value
	for _, op := range ins.Operands(ops) {
		if op != nil && *op != nil {
			dropRef(*op, ins)
		}
	}
}
