package core

import (
	"strings"

	"golang.org/x/tools/go/callgraph"
	"golang.org/x/tools/go/ssa"
)

// Reach is the result of a call-graph reachability query (A9).
type Reach struct {
	Parent map[*ssa.Function]*callgraph.Edge // nil for roots
}

// Reachable computes the functions reachable from roots in g, skipping edges
// for which skip returns true. Closures are reached through the MakeClosure
// in their parent (an edge the call graph does not have) as well.
func Reachable(g *callgraph.Graph, roots []*ssa.Function, skip func(*callgraph.Edge) bool) *Reach {
	r := &Reach{Parent: map[*ssa.Function]*callgraph.Edge{}}
	var work []*ssa.Function
	for _, f := range roots {
		if f == nil {
			continue
		}
		if _, ok := r.Parent[f]; !ok {
			r.Parent[f] = nil
			work = append(work, f)
		}
	}
	for len(work) > 0 {
		f := work[0]
		work = work[1:]
		n := g.Nodes[f]
		if n != nil {
			for _, e := range n.Out {
				if skip != nil && skip(e) {
					continue
				}
				c := e.Callee.Func
				if _, ok := r.Parent[c]; !ok {
					r.Parent[c] = e
					work = append(work, c)
				}
			}
		}
		// closures created here may be invoked by code the graph does not model
		// precisely; treat creation as a call (sound over-approximation)
		for _, a := range f.AnonFuncs {
			if _, ok := r.Parent[a]; !ok {
				r.Parent[a] = &callgraph.Edge{Caller: &callgraph.Node{Func: f}, Callee: &callgraph.Node{Func: a}}
				work = append(work, a)
			}
		}
	}
	return r
}

func (r *Reach) Has(f *ssa.Function) bool { _, ok := r.Parent[f]; return ok }

// Path renders the call chain from a root to f.
func (r *Reach) Path(f *ssa.Function) string {
	var parts []string
	for i := 0; f != nil && i < 64; i++ {
		parts = append([]string{FuncName(f)}, parts...)
		e := r.Parent[f]
		if e == nil {
			break
		}
		f = e.Caller.Func
	}
	return strings.Join(parts, " -> ")
}
