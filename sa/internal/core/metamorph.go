package core

import (
	"bytes"
	"fmt"
	"go/ast"
	"go/printer"
	"go/token"
	"go/types"
	"path/filepath"
	"strings"

	"golang.org/x/tools/go/packages"
)

// Metamorph produces an overlay in which every non-generated, non-test keto
// source file has been rewritten by a behaviour-preserving transformation.
// The checker must give the same verdict on the overlay as on the tree: this
// is the generic negative control of every rule (thorough tier).
//
//	commute  a == b  ->  b == a   (also != < <= > >=), for every comparison
//	ifelse   if c {A} else {B}  ->  if !(c) {B} else {A}   (plain else blocks)
//	rename   every function-local variable and parameter x -> x_mm
//	parens   every binary expression is parenthesised
//	swtoif   switch { case a: A; case b: B; default: D }  ->  if a {A} else if b {B} else {D}   (tagless, no fallthrough/break)
//	derange  for _, x := range xs {B}  ->  for i := range xs { x := xs[i]; B }   (slices)
//	elseafter  if c {A; return}; B  ->  if c {A; return} else {B}
//	adddefer   every function starts with `defer func() {}()` (a deferred call, a recover block in SSA)
//	addcall    every function starts with a call of a no-op function and calls it before every return (logging/tracing)
//	revdecl    the function declarations of every file in reverse order
//	revcases   the clauses of switches over constants and of type switches over concrete types in reverse order
//	tmpreturn  return f(x)  ->  t0, t1 := f(x); return t0, t1
func Metamorph(repo string, tags []string, kind string) (map[string][]byte, int, error) {
	p, err := Load(LoadConfig{Dir: repo, Tags: tags, NoSSA: true})
	if err != nil {
		return nil, 0, err
	}
	overlay := map[string][]byte{}
	nopFor := map[string]string{}
	changed := 0
	for _, pk := range p.KetoPackages() {
		if skipMetamorphPkg(pk.PkgPath) {
			continue
		}
		for i, f := range pk.Syntax {
			name := pk.CompiledGoFiles[i]
			if !strings.HasSuffix(name, ".go") || strings.HasSuffix(name, "_test.go") || ast.IsGenerated(f) {
				continue
			}
			skip := false
			var keep []*ast.CommentGroup
			for _, cg := range f.Comments {
				for _, cm := range cg.List {
					if strings.HasPrefix(cm.Text, "//go:embed") || strings.HasPrefix(cm.Text, "//go:generate") || strings.HasPrefix(cm.Text, "//go:linkname") {
						skip = true
					}
				}
				if cg.End() < f.Package {
					keep = append(keep, cg) // build constraints, licence header
				}
			}
			for _, im := range f.Imports {
				if im.Path.Value == `"C"` {
					skip = true
				}
			}
			if skip {
				continue
			}
			f.Comments = keep // moved nodes must not drag comments into expressions
			n := 0
			switch kind {
			case "commute":
				n = mmCommute(f, pk)
			case "ifelse":
				n = mmIfElse(f)
			case "rename":
				n = mmRename(f, pk)
			case "parens":
				n = mmParens(f)
			case "swtoif":
				n = mmSwitchToIf(f)
			case "derange":
				n = mmDerange(f, pk)
			case "elseafter":
				n = mmElseAfter(f)
			case "adddefer":
				n = mmAddDefer(f)
			case "addcall":
				n = mmAddCall(f)
				if n > 0 {
					nopFor[filepath.Dir(name)] = f.Name.Name
				}
			case "revdecl":
				n = mmReverseDecls(f)
			case "revcases":
				n = mmReverseCases(f, pk)
			case "tmpreturn":
				n = mmTmpReturn(f, pk)
			default:
				return nil, 0, fmt.Errorf("unknown transformation %q", kind)
			}
			if n == 0 {
				continue
			}
			var buf bytes.Buffer
			if err := (&printer.Config{Mode: printer.UseSpaces | printer.TabIndent, Tabwidth: 8}).Fprint(&buf, p.Fset, f); err != nil {
				return nil, 0, err
			}
			overlay[name] = buf.Bytes()
			changed += n
		}
	}
	for dir, pkgName := range nopFor {
		overlay[filepath.Join(dir, "zz_mm_nop.go")] = []byte("package " + pkgName + "\n\n// mmNop stands for a logging / tracing / metrics call.\nfunc mmNop(args ...interface{}) {}\n")
	}
	return overlay, changed, nil
}

func skipMetamorphPkg(path string) bool {
	rel := RelPath(path)
	switch {
	case strings.HasPrefix(rel, "proto"), strings.HasPrefix(rel, "internal/httpclient"), strings.HasPrefix(rel, "internal/e2e"),
		strings.HasPrefix(rel, "internal/testhelpers"), strings.HasPrefix(rel, "contrib"), strings.HasPrefix(rel, "cmd"):
		return true
	}
	return false
}

func flipCmp(op token.Token) (token.Token, bool) {
	switch op {
	case token.EQL, token.NEQ:
		return op, true
	case token.LSS:
		return token.GTR, true
	case token.GTR:
		return token.LSS, true
	case token.LEQ:
		return token.GEQ, true
	case token.GEQ:
		return token.LEQ, true
	}
	return op, false
}

func pure(e ast.Expr) bool {
	ok := true
	ast.Inspect(e, func(n ast.Node) bool {
		switch x := n.(type) {
		case *ast.CallExpr, *ast.FuncLit:
			ok = false
		case *ast.UnaryExpr:
			if x.Op == token.ARROW {
				ok = false
			}
		}
		return ok
	})
	return ok
}

func mmCommute(f *ast.File, pk *packages.Package) int {
	n := 0
	ast.Inspect(f, func(nd ast.Node) bool {
		be, ok := nd.(*ast.BinaryExpr)
		if !ok {
			return true
		}
		op, isCmp := flipCmp(be.Op)
		if !isCmp || !pure(be.X) || !pure(be.Y) {
			return true // evaluation order of calls is kept
		}
		// untyped nil / constant on the right becomes "yoda" on the left: still valid Go
		be.X, be.Y, be.Op = be.Y, be.X, op
		n++
		return true
	})
	return n
}

func mmIfElse(f *ast.File) int {
	n := 0
	ast.Inspect(f, func(nd ast.Node) bool {
		is, ok := nd.(*ast.IfStmt)
		if !ok {
			return true
		}
		eb, ok := is.Else.(*ast.BlockStmt)
		if !ok || is.Body == nil {
			return true
		}
		is.Cond = &ast.UnaryExpr{Op: token.NOT, X: &ast.ParenExpr{X: is.Cond}}
		is.Body, is.Else = eb, is.Body
		n++
		return true
	})
	return n
}

func mmParens(f *ast.File) int {
	n := 0
	var wrap func(e ast.Expr) ast.Expr
	wrap = func(e ast.Expr) ast.Expr {
		if be, ok := e.(*ast.BinaryExpr); ok {
			n++
			return &ast.ParenExpr{X: be}
		}
		return e
	}
	ast.Inspect(f, func(nd ast.Node) bool {
		switch x := nd.(type) {
		case *ast.BinaryExpr:
			x.X, x.Y = wrap(x.X), wrap(x.Y)
		case *ast.CallExpr:
			for i := range x.Args {
				x.Args[i] = wrap(x.Args[i])
			}
		case *ast.IfStmt:
			x.Cond = wrap(x.Cond)
		case *ast.ReturnStmt:
			for i := range x.Results {
				x.Results[i] = wrap(x.Results[i])
			}
		case *ast.AssignStmt:
			for i := range x.Rhs {
				x.Rhs[i] = wrap(x.Rhs[i])
			}
		}
		return true
	})
	return n
}

func mmRename(f *ast.File, pk *packages.Package) int {
	info := pk.TypesInfo
	n := 0
	local := func(o types.Object) bool {
		v, ok := o.(*types.Var)
		if !ok || v.IsField() || v.Pkg() == nil || o.Name() == "_" || o.Name() == "" {
			return false
		}
		// function scope: the parent scope is not the package scope
		return v.Parent() != nil && v.Parent() != v.Pkg().Scope() && v.Parent() != types.Universe
	}
	ast.Inspect(f, func(nd ast.Node) bool {
		if ts, ok := nd.(*ast.TypeSwitchStmt); ok {
			// `switch x := v.(type)`: x has no object of its own (one implicit object per clause)
			if as, ok := ts.Assign.(*ast.AssignStmt); ok && len(as.Lhs) == 1 {
				if id, ok := as.Lhs[0].(*ast.Ident); ok && id.Name != "_" && info.Defs[id] == nil {
					id.Name += "_mm"
					n++
				}
			}
			return true
		}
		id, ok := nd.(*ast.Ident)
		if !ok {
			return true
		}
		var o types.Object
		if d := info.Defs[id]; d != nil {
			o = d
		} else if u := info.Uses[id]; u != nil {
			o = u
		}
		if o == nil || !local(o) {
			return true
		}
		id.Name = id.Name + "_mm"
		n++
		return true
	})
	// struct-literal keys `Field: v` are Idents resolved to fields (not renamed);
	// named results used by bare returns keep working because uses are renamed too
	return n
}

func hasBreakOrFallthrough(list []ast.Stmt) bool {
	found := false
	for _, st := range list {
		ast.Inspect(st, func(n ast.Node) bool {
			switch x := n.(type) {
			case *ast.BranchStmt:
				if x.Tok == token.FALLTHROUGH || (x.Tok == token.BREAK && x.Label == nil) {
					found = true
				}
			case *ast.ForStmt, *ast.RangeStmt, *ast.SwitchStmt, *ast.TypeSwitchStmt, *ast.SelectStmt, *ast.FuncLit:
				return false // an inner construct owns its breaks
			}
			return !found
		})
	}
	return found
}

// mmSwitchToIf rewrites tagless switches without init into if/else-if chains.
func mmSwitchToIf(f *ast.File) int {
	n := 0
	rewrite := func(list []ast.Stmt) {
		for i, st := range list {
			sw, ok := st.(*ast.SwitchStmt)
			if !ok || sw.Tag != nil || sw.Init != nil || len(sw.Body.List) == 0 {
				continue
			}
			okAll := true
			var def *ast.CaseClause
			var cases []*ast.CaseClause
			for _, c := range sw.Body.List {
				cc := c.(*ast.CaseClause)
				if hasBreakOrFallthrough(cc.Body) {
					okAll = false
				}
				if cc.List == nil {
					def = cc
				} else {
					cases = append(cases, cc)
				}
			}
			if !okAll || len(cases) == 0 {
				continue
			}
			// default must be last in evaluation order: it is, semantically, whatever its position
			var head, cur *ast.IfStmt
			for _, cc := range cases {
				var cond ast.Expr = cc.List[0]
				for _, e := range cc.List[1:] {
					cond = &ast.BinaryExpr{X: cond, Op: token.LOR, Y: e}
				}
				is := &ast.IfStmt{Cond: cond, Body: &ast.BlockStmt{List: cc.Body}}
				if head == nil {
					head = is
				} else {
					cur.Else = is
				}
				cur = is
			}
			if def != nil {
				cur.Else = &ast.BlockStmt{List: def.Body}
			}
			list[i] = head
			n++
		}
	}
	ast.Inspect(f, func(nd ast.Node) bool {
		switch x := nd.(type) {
		case *ast.BlockStmt:
			rewrite(x.List)
		case *ast.CaseClause:
			rewrite(x.Body)
		case *ast.CommClause:
			rewrite(x.Body)
		}
		return true
	})
	return n
}

// mmDerange rewrites value ranges over slices into index ranges.
func mmDerange(f *ast.File, pk *packages.Package) int {
	info := pk.TypesInfo
	n := 0
	ast.Inspect(f, func(nd ast.Node) bool {
		rs, ok := nd.(*ast.RangeStmt)
		if !ok || rs.Tok != token.DEFINE || rs.Value == nil {
			return true
		}
		v, ok := rs.Value.(*ast.Ident)
		if !ok || v.Name == "_" {
			return true
		}
		if t := info.TypeOf(rs.X); t == nil {
			return true
		} else if _, isSlice := t.Underlying().(*types.Slice); !isSlice {
			return true
		}
		if !pure(rs.X) {
			return true // the range expression is evaluated once
		}
		redecl := false
		for _, st := range rs.Body.List {
			if as, ok := st.(*ast.AssignStmt); ok && as.Tok == token.DEFINE {
				for _, l := range as.Lhs {
					if id, ok := l.(*ast.Ident); ok && id.Name == v.Name {
						redecl = true // `x := x` alias copies would clash with the new definition
					}
				}
			}
		}
		if redecl {
			return true
		}
		var key *ast.Ident
		if k, ok := rs.Key.(*ast.Ident); ok && k.Name != "_" {
			key = k
		} else {
			key = ast.NewIdent(fmt.Sprintf("mmI%d", n))
		}
		def := &ast.AssignStmt{Lhs: []ast.Expr{ast.NewIdent(v.Name)}, Tok: token.DEFINE, Rhs: []ast.Expr{&ast.IndexExpr{X: rs.X, Index: ast.NewIdent(key.Name)}}}
		rs.Key, rs.Value = key, nil
		rs.Body.List = append([]ast.Stmt{def}, rs.Body.List...)
		n++
		return true
	})
	return n
}

func terminates(list []ast.Stmt) bool {
	if len(list) == 0 {
		return false
	}
	switch x := list[len(list)-1].(type) {
	case *ast.ReturnStmt:
		return true
	case *ast.BranchStmt:
		return x.Tok == token.CONTINUE || x.Tok == token.BREAK || x.Tok == token.GOTO
	}
	return false
}

// mmElseAfter moves the statements after a terminating if into its else.
func mmElseAfter(f *ast.File) int {
	n := 0
	declares := func(list []ast.Stmt) bool {
		// a := / var at the top level of the moved statements is fine (they move together);
		// labels are not moved
		for _, st := range list {
			if _, ok := st.(*ast.LabeledStmt); ok {
				return true
			}
		}
		return false
	}
	var fix func(list []ast.Stmt) []ast.Stmt
	fix = func(list []ast.Stmt) []ast.Stmt {
		for i, st := range list {
			is, ok := st.(*ast.IfStmt)
			if !ok || is.Else != nil || !terminates(is.Body.List) || i == len(list)-1 || declares(list[i+1:]) {
				continue
			}
			rest := append([]ast.Stmt{}, list[i+1:]...)
			is.Else = &ast.BlockStmt{List: fix(rest)}
			n++
			return list[:i+1]
		}
		return list
	}
	ast.Inspect(f, func(nd ast.Node) bool {
		switch x := nd.(type) {
		case *ast.FuncDecl:
			if x.Body != nil && x.Type.Results == nil {
				x.Body.List = fix(x.Body.List)
			}
		case *ast.ForStmt:
			x.Body.List = fix(x.Body.List)
		case *ast.RangeStmt:
			x.Body.List = fix(x.Body.List)
		}
		return true
	})
	return n
}

func mmAddDefer(f *ast.File) int {
	n := 0
	for _, d := range f.Decls {
		fd, ok := d.(*ast.FuncDecl)
		if !ok || fd.Body == nil {
			continue
		}
		st := &ast.DeferStmt{Call: &ast.CallExpr{Fun: &ast.FuncLit{Type: &ast.FuncType{Params: &ast.FieldList{}}, Body: &ast.BlockStmt{}}}}
		fd.Body.List = append([]ast.Stmt{st}, fd.Body.List...)
		n++
	}
	return n
}

// eachList calls fix on every statement list of the file (bodies, blocks, clauses).
func eachList(f *ast.File, fix func([]ast.Stmt) []ast.Stmt) {
	ast.Inspect(f, func(nd ast.Node) bool {
		switch x := nd.(type) {
		case *ast.BlockStmt:
			x.List = fix(x.List)
		case *ast.CaseClause:
			x.Body = fix(x.Body)
		case *ast.CommClause:
			x.Body = fix(x.Body)
		}
		return true
	})
}

func mmAddCall(f *ast.File) int {
	n := 0
	call := func() ast.Stmt {
		return &ast.ExprStmt{X: &ast.CallExpr{Fun: ast.NewIdent("mmNop")}}
	}
	eachList(f, func(list []ast.Stmt) []ast.Stmt {
		var out []ast.Stmt
		for _, st := range list {
			if _, ok := st.(*ast.ReturnStmt); ok {
				out = append(out, call())
				n++
			}
			out = append(out, st)
		}
		return out
	})
	for _, d := range f.Decls {
		if fd, ok := d.(*ast.FuncDecl); ok && fd.Body != nil {
			fd.Body.List = append([]ast.Stmt{call()}, fd.Body.List...)
			n++
		}
	}
	return n
}

func mmReverseDecls(f *ast.File) int {
	var idx []int
	for i, d := range f.Decls {
		if fd, ok := d.(*ast.FuncDecl); ok && !(fd.Recv == nil && fd.Name.Name == "init") {
			idx = append(idx, i)
		}
	}
	if len(idx) < 2 {
		return 0
	}
	fns := make([]ast.Decl, len(idx))
	for k, i := range idx {
		fns[len(idx)-1-k] = f.Decls[i]
	}
	for k, i := range idx {
		f.Decls[i] = fns[k]
	}
	return len(idx)
}

func mmReverseCases(f *ast.File, pk *packages.Package) int {
	info := pk.TypesInfo
	n := 0
	rev := func(body *ast.BlockStmt) {
		for i, j := 0, len(body.List)-1; i < j; i, j = i+1, j-1 {
			body.List[i], body.List[j] = body.List[j], body.List[i]
		}
		n++
	}
	ast.Inspect(f, func(nd ast.Node) bool {
		switch x := nd.(type) {
		case *ast.SwitchStmt:
			if x.Tag == nil || len(x.Body.List) < 2 {
				return true
			}
			for _, c := range x.Body.List {
				cc := c.(*ast.CaseClause)
				if hasBreakOrFallthrough(cc.Body) {
					return true
				}
				for _, e := range cc.List {
					if tv, ok := info.Types[e]; !ok || tv.Value == nil {
						return true // not a constant: evaluation order could matter
					}
				}
			}
			rev(x.Body)
		case *ast.TypeSwitchStmt:
			if len(x.Body.List) < 2 {
				return true
			}
			for _, c := range x.Body.List {
				cc := c.(*ast.CaseClause)
				if hasBreakOrFallthrough(cc.Body) {
					return true
				}
				for _, e := range cc.List {
					tv, ok := info.Types[e]
					if !ok || tv.Type == nil {
						return true
					}
					if tv.IsNil() {
						continue
					}
					if _, isIface := tv.Type.Underlying().(*types.Interface); isIface {
						return true // interface cases can overlap: first match wins
					}
				}
			}
			rev(x.Body)
		}
		return true
	})
	return n
}

func mmTmpReturn(f *ast.File, pk *packages.Package) int {
	info := pk.TypesInfo
	n := 0
	eachList(f, func(list []ast.Stmt) []ast.Stmt {
		var out []ast.Stmt
		for _, st := range list {
			rs, ok := st.(*ast.ReturnStmt)
			if !ok || len(rs.Results) != 1 {
				out = append(out, st)
				continue
			}
			call, ok := unparenExpr(rs.Results[0]).(*ast.CallExpr)
			if !ok {
				out = append(out, st)
				continue
			}
			tv, ok := info.Types[call]
			if !ok || tv.Type == nil || tv.IsType() {
				out = append(out, st)
				continue
			}
			if ftv, ok := info.Types[call.Fun]; ok && ftv.IsType() {
				out = append(out, st) // a conversion
				continue
			}
			k := 1
			if tup, ok := tv.Type.(*types.Tuple); ok {
				k = tup.Len()
			}
			if k == 0 {
				out = append(out, st)
				continue
			}
			var lhs, res []ast.Expr
			for i := 0; i < k; i++ {
				name := fmt.Sprintf("mmR%d_%d", n, i)
				lhs = append(lhs, ast.NewIdent(name))
				res = append(res, ast.NewIdent(name))
			}
			out = append(out, &ast.AssignStmt{Lhs: lhs, Tok: token.DEFINE, Rhs: []ast.Expr{call}}, &ast.ReturnStmt{Results: res})
			n++
		}
		return out
	})
	return n
}

func unparenExpr(e ast.Expr) ast.Expr {
	for {
		p, ok := e.(*ast.ParenExpr)
		if !ok {
			return e
		}
		e = p.X
	}
}
