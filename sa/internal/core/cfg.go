package core

import (
	"go/token"

	"golang.org/x/tools/go/ssa"
)

// ---- A2: path event counting on the SSA CFG -----------------------------------

// Interval is a saturating count interval over {0,1,2}; 2 means "2 or more".
type Interval struct{ Lo, Hi int }

type pcState struct {
	set      bool
	lo, hi   int // events so far
	plo, phi int // pending deferred events
}

func sat(n int) int {
	if n > 2 {
		return 2
	}
	return n
}

func (a pcState) join(b pcState) pcState {
	if !a.set {
		return b
	}
	if !b.set {
		return a
	}
	r := a
	if b.lo < r.lo {
		r.lo = b.lo
	}
	if b.hi > r.hi {
		r.hi = b.hi
	}
	if b.plo < r.plo {
		r.plo = b.plo
	}
	if b.phi > r.phi {
		r.phi = b.phi
	}
	return r
}

// PathCount computes, for every Return of fn, the interval of the number of
// events on any entry->return path. event gives the number of events an
// instruction performs directly (0,1,2; 2 = many); deferred gives the number
// of events a Defer instruction schedules for function exit.
// Blocks for which skipEdge(from,to) is true are treated as infeasible edges.
func PathCount(fn *ssa.Function, event func(ssa.Instruction) int, deferred func(*ssa.Defer) int, skipEdge func(from, to *ssa.BasicBlock) bool) map[*ssa.Return]Interval {
	if len(fn.Blocks) == 0 {
		return map[*ssa.Return]Interval{}
	}
	return PathCountFrom(fn, fn.Blocks[0], 0, event, deferred, skipEdge)
}

// PathCountFrom is PathCount for the paths that start at instruction index
// startIdx of block start (events before it are not counted; Defers before it
// are not pending).
func PathCountFrom(fn *ssa.Function, start *ssa.BasicBlock, startIdx int, event func(ssa.Instruction) int, deferred func(*ssa.Defer) int, skipEdge func(from, to *ssa.BasicBlock) bool) map[*ssa.Return]Interval {
	in := make([]pcState, len(fn.Blocks))
	res := map[*ssa.Return]Interval{}
	if len(fn.Blocks) == 0 {
		return res
	}
	// the start block may be re-entered through a loop from its top; model the
	// partial first visit separately
	first := true
	work := []*ssa.BasicBlock{start}
	inWork := map[int]bool{start.Index: true}
	run := func(b *ssa.BasicBlock, st pcState, from int) pcState {
		for _, ins := range b.Instrs[from:] {
			switch x := ins.(type) {
			case *ssa.Defer:
				if deferred != nil {
					n := deferred(x)
					st.plo = sat(st.plo + n)
					st.phi = sat(st.phi + n)
				}
			case *ssa.RunDefers:
				st.lo = sat(st.lo + st.plo)
				st.hi = sat(st.hi + st.phi)
				st.plo, st.phi = 0, 0
			case *ssa.Return:
				n := event(ins)
				iv := Interval{sat(st.lo + n), sat(st.hi + n)}
				if old, ok := res[x]; ok {
					if old.Lo < iv.Lo {
						iv.Lo = old.Lo
					}
					if old.Hi > iv.Hi {
						iv.Hi = old.Hi
					}
				}
				res[x] = iv
			default:
				n := event(ins)
				st.lo = sat(st.lo + n)
				st.hi = sat(st.hi + n)
			}
		}
		return st
	}
	propagate := func(b *ssa.BasicBlock, st pcState) {
		for _, s := range b.Succs {
			if skipEdge != nil && skipEdge(b, s) {
				continue
			}
			n := in[s.Index].join(st)
			if n != in[s.Index] {
				in[s.Index] = n
				if !inWork[s.Index] {
					inWork[s.Index] = true
					work = append(work, s)
				}
			}
		}
	}
	for len(work) > 0 {
		b := work[0]
		work = work[1:]
		inWork[b.Index] = false
		if first {
			first = false
			st := run(b, pcState{set: true}, startIdx)
			propagate(b, st)
			continue
		}
		st := in[b.Index]
		if !st.set {
			continue
		}
		propagate(b, run(b, st, 0))
	}
	return res
}

// ---- dominance helpers -------------------------------------------------------------

// EdgeDominates reports whether every path from entry to t passes through the
// CFG edge from->from.Succs[k].
func EdgeDominates(from *ssa.BasicBlock, k int, t *ssa.BasicBlock) bool {
	s := from.Succs[k]
	if !s.Dominates(t) {
		return false
	}
	// the other successor must not be s as well
	for j, o := range from.Succs {
		if j != k && o == s {
			return false
		}
	}
	for _, p := range s.Preds {
		if p == from {
			continue
		}
		if !s.Dominates(p) {
			return false
		}
	}
	return true
}

// Cond is a branch condition known to hold (True) or not to hold at a block.
type Cond struct {
	V    ssa.Value
	True bool
	At   *ssa.BasicBlock // the block whose If established it
}

// CondsAt returns the branch conditions that hold on every path to b.
func CondsAt(b *ssa.BasicBlock) []Cond {
	var out []Cond
	for d := b; d != nil; d = d.Idom() {
		// conditions are established by the If terminating a dominator of b
		// (other than b's own terminator) when one of its edges dominates b
		p := d
		if p == b {
			continue
		}
		if len(p.Instrs) == 0 {
			continue
		}
		ifi, ok := p.Instrs[len(p.Instrs)-1].(*ssa.If)
		if !ok {
			continue
		}
		if EdgeDominates(p, 0, b) {
			out = append(out, Cond{ifi.Cond, true, p})
		} else if EdgeDominates(p, 1, b) {
			out = append(out, Cond{ifi.Cond, false, p})
		}
	}
	if condsNesting > 3 {
		return out
	}
	condsNesting++
	defer func() { condsNesting-- }()
	return expandBoolPhis(out, 0)
}

// condsNesting bounds the mutual recursion CondsAt -> expandBoolPhis -> CondsOnEdge -> CondsAt.
var condsNesting int

// expandBoolPhis: ok := a != nil && b != nil; if !ok { return } - the condition that holds is a
// phi of the short-circuit evaluation. When the phi is known to be T and all its edges but one are
// the constant !T, it got its value on that one edge: the edge's value is T, and what holds on
// that edge (the earlier operands of the && / ||) holds too.
func expandBoolPhis(conds []Cond, depth int) []Cond {
	if depth > 3 {
		return conds
	}
	out := conds
	for _, c := range conds {
		v, truth := c.V, c.True
		for {
			u, isNot := v.(*ssa.UnOp)
			if !isNot || u.Op != token.NOT {
				break
			}
			v, truth = u.X, !truth
		}
		ph, ok := v.(*ssa.Phi)
		if !ok || !BoolType(ph.Type()) {
			continue
		}
		live := -1
		for i, e := range ph.Edges {
			if k, isK := e.(*ssa.Const); isK && k.Value != nil && (k.Value.String() == "true") != truth {
				continue // this edge gives !T
			}
			if live >= 0 {
				live = -2
				break
			}
			live = i
		}
		if live < 0 || live >= len(ph.Block().Preds) {
			continue
		}
		pred := ph.Block().Preds[live]
		extra := []Cond{{ph.Edges[live], truth, pred}}
		extra = append(extra, CondsOnEdge(pred, ph.Block())...)
		out = append(out, expandBoolPhis(extra, depth+1)...)
	}
	return out
}

// CondsOnEdge returns the conditions holding when control flows from->to
// (those at from, plus from's own If).
func CondsOnEdge(from, to *ssa.BasicBlock) []Cond {
	out := CondsAt(from)
	if len(from.Instrs) > 0 {
		if ifi, ok := from.Instrs[len(from.Instrs)-1].(*ssa.If); ok && from.Succs[0] != from.Succs[1] {
			if from.Succs[0] == to {
				out = append(out, Cond{ifi.Cond, true, from})
			} else if from.Succs[1] == to {
				out = append(out, Cond{ifi.Cond, false, from})
			}
		}
	}
	return out
}

// PostDom computes the post-dominator relation of fn: pd[a][b] == true iff
// every path from a to a function exit passes through b. Exits are Return and
// Panic blocks.
type PostDom struct {
	fn  *ssa.Function
	set [][]bool
}

func NewPostDom(fn *ssa.Function) *PostDom {
	n := len(fn.Blocks)
	pd := &PostDom{fn: fn, set: make([][]bool, n)}
	isExit := make([]bool, n)
	for i, b := range fn.Blocks {
		pd.set[i] = make([]bool, n)
		if len(b.Succs) == 0 {
			isExit[i] = true
			pd.set[i][i] = true
		} else {
			for j := range pd.set[i] {
				pd.set[i][j] = true
			}
		}
	}
	for changed := true; changed; {
		changed = false
		for i := n - 1; i >= 0; i-- {
			if isExit[i] {
				continue
			}
			b := fn.Blocks[i]
			nw := make([]bool, n)
			for j := range nw {
				nw[j] = true
			}
			for _, s := range b.Succs {
				for j := range nw {
					nw[j] = nw[j] && pd.set[s.Index][j]
				}
			}
			nw[i] = true
			for j := range nw {
				if nw[j] != pd.set[i][j] {
					changed = true
				}
			}
			pd.set[i] = nw
		}
	}
	return pd
}

// PostDominates reports whether b post-dominates a.
func (pd *PostDom) PostDominates(b, a *ssa.BasicBlock) bool { return pd.set[a.Index][b.Index] }

// InstrDominates: does instruction a dominate instruction b (same function)?
func InstrDominates(a, b ssa.Instruction) bool {
	ba, bb := a.Block(), b.Block()
	if ba != bb {
		return ba.Dominates(bb)
	}
	for _, ins := range ba.Instrs {
		if ins == a {
			return true
		}
		if ins == b {
			return false
		}
	}
	return false
}

// Reachable blocks from b (inclusive) following successor edges.
func ReachableFrom(b *ssa.BasicBlock) map[*ssa.BasicBlock]bool {
	seen := map[*ssa.BasicBlock]bool{}
	var walk func(*ssa.BasicBlock)
	walk = func(x *ssa.BasicBlock) {
		if seen[x] {
			return
		}
		seen[x] = true
		for _, s := range x.Succs {
			walk(s)
		}
	}
	walk(b)
	return seen
}

// InLoop reports whether block b lies on a CFG cycle.
func InLoop(b *ssa.BasicBlock) bool {
	for _, s := range b.Succs {
		if ReachableFrom(s)[b] {
			return true
		}
	}
	return false
}

// BinCmp decodes v as a comparison.
func BinCmp(v ssa.Value) (op token.Token, x, y ssa.Value, ok bool) {
	b, isb := v.(*ssa.BinOp)
	if !isb {
		return
	}
	switch b.Op {
	case token.EQL, token.NEQ, token.LSS, token.LEQ, token.GTR, token.GEQ:
		// canonical operand order: a constant on the left (`nil == x`, `0 >= d`)
		// is moved to the right
		if _, lc := b.X.(*ssa.Const); lc {
			if _, rc := b.Y.(*ssa.Const); !rc {
				op := b.Op
				switch op {
				case token.LSS:
					op = token.GTR
				case token.LEQ:
					op = token.GEQ
				case token.GTR:
					op = token.LSS
				case token.GEQ:
					op = token.LEQ
				}
				return op, b.Y, b.X, true
			}
		}
		return b.Op, b.X, b.Y, true
	}
	return
}

// Holds returns the comparison that is known to hold given the branch
// condition c: the comparison itself on the true edge, its negation on the
// false edge (`if len(x) <= w { return }` establishes len(x) > w afterwards),
// looking through `!`.
func (c Cond) Holds() (op token.Token, x, y ssa.Value, ok bool) {
	v, truth := c.V, c.True
	for {
		u, isNot := v.(*ssa.UnOp)
		if !isNot || u.Op != token.NOT {
			break
		}
		v, truth = u.X, !truth
	}
	op, x, y, ok = BinCmp(v)
	if !ok || truth {
		return
	}
	switch op {
	case token.EQL:
		op = token.NEQ
	case token.NEQ:
		op = token.EQL
	case token.LSS:
		op = token.GEQ
	case token.LEQ:
		op = token.GTR
	case token.GTR:
		op = token.LEQ
	case token.GEQ:
		op = token.LSS
	}
	return
}

// IsNilConst reports whether v is the nil constant.
func IsNilConst(v ssa.Value) bool {
	c, ok := v.(*ssa.Const)
	return ok && c.IsNil()
}

// IntConst returns the integer value of a constant.
func IntConst(v ssa.Value) (int64, bool) {
	c, ok := v.(*ssa.Const)
	if !ok || c.Value == nil {
		return 0, false
	}
	if c.Value.Kind().String() != "Int" {
		return 0, false
	}
	return c.Int64(), true
}

// Unwrap strips ChangeType/ChangeInterface/MakeInterface/Convert wrappers.
func Unwrap(v ssa.Value) ssa.Value {
	for {
		switch x := v.(type) {
		case *ssa.ChangeType:
			v = x.X
		case *ssa.ChangeInterface:
			v = x.X
		case *ssa.MakeInterface:
			v = x.X
		case *ssa.Convert:
			v = x.X
		default:
			return v
		}
	}
}
