package core

import (
	"go/token"
	"go/types"
	"sort"
	"strings"

	"golang.org/x/tools/go/ssa"
)

// KGraph is a call graph over keto's own functions, built for "what can this
// entry point reach" questions. Whole-program VTA/CHA merge every func()-typed
// slice element and every sync.Once callback in the program, which connects
// each handler to the migration code; this graph instead resolves
//   - static calls exactly,
//   - interface invokes by class hierarchy over keto's named types,
//   - calls of function values by tracing the value to its creation sites
//     through parameters, captured variables, struct fields, globals, slices
//     built with append, and function results (a small flow analysis over
//     keto code); only when the trace is lost does it fall back to every
//     address-taken keto function of the same signature,
//   - function values and keto objects handed to library code as callees of
//     the handing function (the library may call them back).
//
// Library bodies are not traversed: the assumption, stated in every evidence
// file that relies on this graph, is that library code running on a request
// path calls back into keto only through values handed to it on that path.
type KGraph struct {
	p      *Program
	Fns    []*ssa.Function
	isKeto map[*ssa.Function]bool
	Out    map[*ssa.Function][]*KEdge
	In     map[*ssa.Function][]*KEdge

	fieldStores  map[*types.Var][]ssa.Value
	globalStores map[*ssa.Global][]ssa.Value
	callSites    map[*ssa.Function][]ssa.CallInstruction
	invokeSites  map[string][]ssa.CallInstruction
	mkClosure    map[*ssa.Function][]*ssa.MakeClosure
	addrTaken    map[*ssa.Function]bool
	namedTypes   []types.Type
	implCache    map[*types.Func][]*ssa.Function

	Fallbacks []string // dynamic call sites resolved by signature only

	liveTypes map[*types.Named]bool
	liveFns   map[*ssa.Function]bool
}

type KEdge struct {
	Caller, Callee *ssa.Function
	Site           ssa.Instruction
	Kind           string // static | invoke | dynamic | dynamic-sig | ref | lib-callback
}

func origin(fn *ssa.Function) *ssa.Function {
	if o := fn.Origin(); o != nil {
		return o
	}
	return fn
}

// KG builds (once) the keto call graph.
func (p *Program) KG() *KGraph {
	if p.kg != nil {
		return p.kg
	}
	g := &KGraph{p: p, isKeto: map[*ssa.Function]bool{}, Out: map[*ssa.Function][]*KEdge{}, In: map[*ssa.Function][]*KEdge{},
		fieldStores: map[*types.Var][]ssa.Value{}, globalStores: map[*ssa.Global][]ssa.Value{},
		callSites: map[*ssa.Function][]ssa.CallInstruction{}, invokeSites: map[string][]ssa.CallInstruction{},
		mkClosure: map[*ssa.Function][]*ssa.MakeClosure{}, addrTaken: map[*ssa.Function]bool{}, implCache: map[*types.Func][]*ssa.Function{}}
	p.kg = g
	for fn := range p.AllFunctions() {
		if fn.Blocks == nil {
			continue
		}
		pk := FuncPkg(fn)
		if pk == nil || !IsKeto(pk) || p.IsTestFile(fn.Pos()) {
			continue
		}
		if fn.Synthetic != "" && !strings.Contains(fn.Synthetic, "instance of") && !strings.Contains(fn.Synthetic, "package initializer") && !strings.Contains(fn.Synthetic, "range-over-func") {
			continue
		}
		g.Fns = append(g.Fns, fn)
		g.isKeto[fn] = true
	}
	sort.Slice(g.Fns, func(i, j int) bool { return g.Fns[i].String() < g.Fns[j].String() })
	for _, pk := range p.KetoPackages() {
		if pk.Types == nil {
			continue
		}
		sc := pk.Types.Scope()
		for _, n := range sc.Names() {
			if tn, ok := sc.Lookup(n).(*types.TypeName); ok && !tn.IsAlias() {
				if _, isIface := tn.Type().Underlying().(*types.Interface); isIface {
					continue
				}
				if nt, ok := tn.Type().(*types.Named); ok && nt.TypeParams().Len() > 0 {
					continue
				}
				g.namedTypes = append(g.namedTypes, tn.Type(), types.NewPointer(tn.Type()))
			}
		}
	}
	// index
	for _, fn := range g.Fns {
		Instrs(fn, func(_ *ssa.BasicBlock, _ int, ins ssa.Instruction) {
			switch x := ins.(type) {
			case *ssa.Store:
				switch a := x.Addr.(type) {
				case *ssa.FieldAddr:
					if f := fieldVar(a.X.Type(), a.Field); f != nil {
						g.fieldStores[f] = append(g.fieldStores[f], x.Val)
					}
				case *ssa.Global:
					g.globalStores[a] = append(g.globalStores[a], x.Val)
				}
			case *ssa.MakeClosure:
				cf := x.Fn.(*ssa.Function)
				g.mkClosure[cf] = append(g.mkClosure[cf], x)
			}
			if c, ok := ins.(ssa.CallInstruction); ok {
				cc := c.Common()
				if cc.IsInvoke() {
					g.invokeSites[cc.Method.Name()] = append(g.invokeSites[cc.Method.Name()], c)
				} else if sc := cc.StaticCallee(); sc != nil {
					g.callSites[origin(sc)] = append(g.callSites[origin(sc)], c)
				}
			}
			// address-taken: a function value used other than as the callee of a call
			for _, op := range ins.Operands(nil) {
				if *op == nil {
					continue
				}
				var f *ssa.Function
				switch v := (*op).(type) {
				case *ssa.Function:
					f = v
				case *ssa.MakeClosure:
					f = v.Fn.(*ssa.Function)
				}
				if f == nil {
					continue
				}
				if c, ok := ins.(ssa.CallInstruction); ok && c.Common().Value == *op {
					continue
				}
				g.addrTaken[origin(f)] = true
			}
		})
	}
	for _, fn := range g.Fns {
		g.buildEdges(fn)
	}
	sort.Strings(g.Fallbacks)
	return g
}

func fieldVar(t types.Type, idx int) *types.Var {
	if p, ok := t.Underlying().(*types.Pointer); ok {
		t = p.Elem()
	}
	st, ok := t.Underlying().(*types.Struct)
	if !ok || idx >= st.NumFields() {
		return nil
	}
	return st.Field(idx)
}

func (g *KGraph) addEdge(from, to *ssa.Function, site ssa.Instruction, kind string) {
	if to == nil || to.Blocks == nil {
		return
	}
	if !g.isKeto[to] {
		// instantiations/wrappers: accept anything whose package is keto
		pk := FuncPkg(to)
		if pk == nil || !IsKeto(pk) || g.p.IsTestFile(to.Pos()) {
			return
		}
	}
	e := &KEdge{Caller: from, Callee: to, Site: site, Kind: kind}
	g.Out[from] = append(g.Out[from], e)
	g.In[to] = append(g.In[to], e)
}

// Implementers returns keto's concrete methods that an interface method call
// can dispatch to (class hierarchy over keto's named types).
func (g *KGraph) Implementers(m *types.Func) []*ssa.Function {
	if r, ok := g.implCache[m]; ok {
		return r
	}
	var out []*ssa.Function
	g.implCache[m] = nil // in progress: embedded-interface wrappers recurse
	sig := m.Type().(*types.Signature)
	var iface *types.Interface
	if sig.Recv() != nil {
		iface, _ = sig.Recv().Type().Underlying().(*types.Interface)
	}
	seen := map[*ssa.Function]bool{}
	for _, t := range g.namedTypes {
		if iface != nil && !types.Implements(t, iface) {
			continue
		}
		sel := types.NewMethodSet(t).Lookup(m.Pkg(), m.Name())
		if sel == nil {
			continue
		}
		if iface == nil && !types.Identical(sel.Type().(*types.Signature).Params(), sig.Params()) {
			continue
		}
		f := g.p.SSA.MethodValue(sel)
		if f == nil {
			continue
		}
		// promoted-method wrappers: follow to the real method
		if f.Synthetic != "" && f.Blocks != nil {
			for _, b := range f.Blocks {
				for _, ins := range b.Instrs {
					if c, ok := ins.(ssa.CallInstruction); ok {
						if sc := c.Common().StaticCallee(); sc != nil && sc.Name() == m.Name() {
							f = sc
						} else if c.Common().IsInvoke() && c.Common().Method.Name() == m.Name() {
							for _, ff := range g.Implementers(c.Common().Method) {
								if !seen[ff] {
									seen[ff] = true
									out = append(out, ff)
								}
							}
						}
					}
				}
			}
		}
		if !seen[f] {
			seen[f] = true
			out = append(out, f)
		}
	}
	g.implCache[m] = out
	return out
}

func (g *KGraph) buildEdges(fn *ssa.Function) {
	Instrs(fn, func(_ *ssa.BasicBlock, _ int, ins ssa.Instruction) {
		// references to function values created here
		for _, op := range ins.Operands(nil) {
			if *op == nil {
				continue
			}
			switch v := (*op).(type) {
			case *ssa.Function:
				if c, ok := ins.(ssa.CallInstruction); ok && c.Common().Value == v {
					continue
				}
				g.addEdge(fn, v, ins, "ref")
			case *ssa.MakeClosure:
				if c, ok := ins.(ssa.CallInstruction); ok && c.Common().Value == v {
					continue
				}
				for _, t := range g.resolveClosure(v) {
					g.addEdge(fn, t, ins, "ref")
				}
			}
		}
		if mi, ok := ins.(*ssa.MakeInterface); ok {
			// a keto object converted to a foreign interface type may be
			// called back by library code through that interface
			if n := NamedOf(mi.Type()); n == nil || n.Obj().Pkg() == nil || !IsKeto(n.Obj().Pkg()) {
				g.ifaceCallback(fn, ins, mi)
			}
		}
		c, ok := ins.(ssa.CallInstruction)
		if !ok {
			return
		}
		cc := c.Common()
		switch {
		case cc.IsInvoke():
			for _, t := range g.Implementers(cc.Method) {
				g.addEdge(fn, t, ins, "invoke")
			}
		case cc.StaticCallee() != nil:
			sc := cc.StaticCallee()
			if _, isClosure := cc.Value.(*ssa.MakeClosure); isClosure {
				for _, t := range g.resolveClosure(cc.Value.(*ssa.MakeClosure)) {
					g.addEdge(fn, t, ins, "static")
				}
			} else {
				g.addEdge(fn, sc, ins, "static")
			}
		default:
			if _, isBuiltin := cc.Value.(*ssa.Builtin); isBuiltin {
				return
			}
			ts, complete := g.TraceFunc(cc.Value)
			for _, t := range ts {
				g.addEdge(fn, t, ins, "dynamic")
			}
			if !complete {
				n := 0
				sig, _ := cc.Value.Type().Underlying().(*types.Signature)
				for f := range g.addrTaken {
					if sig != nil && types.Identical(f.Signature, sig) || sig != nil && sameParamsResults(f.Signature, sig) {
						g.addEdge(fn, f, ins, "dynamic-sig")
						n++
					}
				}
				g.Fallbacks = append(g.Fallbacks, FuncName(fn)+" @ "+g.p.Pos(ins.Pos())+" ("+cc.Value.Type().String()+")")
			}
		}
	})
}

func sameParamsResults(a, b *types.Signature) bool {
	return types.Identical(a.Params(), b.Params()) && types.Identical(a.Results(), b.Results()) && a.Variadic() == b.Variadic()
}

// resolveClosure maps a MakeClosure to the functions that run when it is
// called: the closure itself, or for bound-method wrappers the method(s).
func (g *KGraph) resolveClosure(mc *ssa.MakeClosure) []*ssa.Function {
	fn := mc.Fn.(*ssa.Function)
	if strings.Contains(fn.Synthetic, "bound method") {
		if obj, ok := fn.Object().(*types.Func); ok {
			if recv := obj.Type().(*types.Signature).Recv(); recv != nil {
				if _, isIface := recv.Type().Underlying().(*types.Interface); isIface {
					return g.Implementers(obj)
				}
			}
			if len(mc.Bindings) == 1 {
				if sel := types.NewMethodSet(mc.Bindings[0].Type()).Lookup(obj.Pkg(), obj.Name()); sel != nil {
					if m := g.p.SSA.MethodValue(sel); m != nil {
						return []*ssa.Function{m}
					}
				}
			}
			if f := g.p.SSA.FuncValue(obj); f != nil {
				return []*ssa.Function{f}
			}
		}
	}
	return []*ssa.Function{fn}
}

// libCallbacks: keto objects handed to a library function may be called back
// through the methods of the parameter's interface (all exported methods for
// an empty interface).
func (g *KGraph) libCallbacks(fn *ssa.Function, c ssa.CallInstruction) {
	cc := c.Common()
	for _, a := range cc.Args {
		mi, ok := a.(*ssa.MakeInterface)
		if !ok {
			// variadic ...any packed into a slice: look through stores
			continue
		}
		g.ifaceCallback(fn, c, mi)
	}
}

func (g *KGraph) ifaceCallback(fn *ssa.Function, site ssa.Instruction, mi *ssa.MakeInterface) {
	t := mi.X.Type()
	n := NamedOf(t)
	if n == nil || n.Obj().Pkg() == nil || !IsKeto(n.Obj().Pkg()) {
		return
	}
	ms := types.NewMethodSet(t)
	iface, _ := mi.Type().Underlying().(*types.Interface)
	for i := 0; i < ms.Len(); i++ {
		sel := ms.At(i)
		if !sel.Obj().Exported() {
			continue
		}
		if iface != nil && iface.NumMethods() > 0 {
			found := false
			for j := 0; j < iface.NumMethods(); j++ {
				if iface.Method(j).Name() == sel.Obj().Name() {
					found = true
				}
			}
			if !found {
				continue
			}
		}
		if m := g.p.SSA.MethodValue(sel); m != nil {
			g.addEdge(fn, m, site, "lib-callback")
		}
	}
}

// ---- function-value tracing --------------------------------------------------------

type tracer struct {
	g        *KGraph
	seen     map[ssa.Value]bool
	seenC    map[ssa.Value]bool
	out      map[*ssa.Function]bool
	complete bool
	budget   int
}

// TraceFunc returns the keto functions a function-typed value may denote and
// whether the trace is complete (false: some origin could not be followed).
func (g *KGraph) TraceFunc(v ssa.Value) ([]*ssa.Function, bool) {
	t := &tracer{g: g, seen: map[ssa.Value]bool{}, seenC: map[ssa.Value]bool{}, out: map[*ssa.Function]bool{}, complete: true, budget: 4000}
	t.val(v)
	var out []*ssa.Function
	for f := range t.out {
		out = append(out, f)
	}
	sort.Slice(out, func(i, j int) bool { return out[i].String() < out[j].String() })
	return out, t.complete
}

func (t *tracer) lost(why string) { t.complete = false }

func (t *tracer) val(v ssa.Value) {
	if v == nil || t.seen[v] {
		return
	}
	t.seen[v] = true
	t.budget--
	if t.budget < 0 {
		t.lost("budget")
		return
	}
	switch x := v.(type) {
	case *ssa.Function:
		t.out[x] = true
	case *ssa.MakeClosure:
		for _, f := range t.g.resolveClosure(x) {
			t.out[f] = true
		}
	case *ssa.Const:
		// nil func
	case *ssa.ChangeType:
		t.val(x.X)
	case *ssa.Convert:
		t.val(x.X)
	case *ssa.ChangeInterface:
		t.val(x.X)
	case *ssa.MakeInterface:
		t.val(x.X)
	case *ssa.TypeAssert:
		t.val(x.X)
	case *ssa.Phi:
		for _, e := range x.Edges {
			t.val(e)
		}
	case *ssa.Parameter:
		t.param(x)
	case *ssa.FreeVar:
		t.freeVar(x, false)
	case *ssa.UnOp:
		if x.Op == token.MUL {
			t.load(x.X, false)
		} else if x.Op == token.ARROW {
			t.lost("chan")
		} else {
			t.lost("unop")
		}
	case *ssa.Extract:
		t.extract(x, false)
	case *ssa.Call:
		t.callResult(x, 0, false)
	case *ssa.Index:
		t.container(x.X)
	case *ssa.Lookup:
		t.container(x.X)
	case *ssa.Field:
		// value struct field: follow the struct value if it is a load
		if u, ok := x.X.(*ssa.UnOp); ok && u.Op == token.MUL {
			if f := fieldVar(x.X.Type(), x.Field); f != nil {
				t.fieldStoresOf(f, false)
				return
			}
		}
		if f := fieldVar(x.X.Type(), x.Field); f != nil {
			t.fieldStoresOf(f, false)
			return
		}
		t.lost("field")
	default:
		t.lost("value")
	}
}

func (t *tracer) fieldStoresOf(f *types.Var, asContainer bool) {
	vals := t.g.fieldStores[f]
	// a field of a library struct holds what the library put there: not a
	// keto function unless keto handed it over (a "ref" edge at that site)
	for _, s := range vals {
		if asContainer {
			t.container(s)
		} else {
			t.val(s)
		}
	}
}

// load: the value stored at addr.
func (t *tracer) load(addr ssa.Value, asContainer bool) {
	next := func(v ssa.Value) {
		if asContainer {
			t.container(v)
		} else {
			t.val(v)
		}
	}
	switch a := addr.(type) {
	case *ssa.FieldAddr:
		if f := fieldVar(a.X.Type(), a.Field); f != nil {
			t.fieldStoresOf(f, asContainer)
			return
		}
		t.lost("fieldaddr")
	case *ssa.Global:
		if a.Pkg == nil || !IsKeto(a.Pkg.Pkg) {
			return // library global: see fieldStoresOf
		}
		for _, s := range t.g.globalStores[a] {
			next(s)
		}
	case *ssa.Alloc:
		t.cell(a, asContainer)
	case *ssa.FreeVar:
		t.freeVar(a, asContainer) // captured cell: binding is the Alloc
	case *ssa.IndexAddr:
		if asContainer {
			t.lost("nested container")
			return
		}
		t.container(a.X)
	case *ssa.Parameter, *ssa.Phi, *ssa.Call, *ssa.Extract, *ssa.UnOp:
		// pointer to a func cell passed around (e.g. *error style) - not modelled
		t.lost("indirect cell")
	default:
		t.lost("load")
	}
}

// cell: all stores to a local variable cell, in the allocating function and
// the closures that capture it.
func (t *tracer) cell(a *ssa.Alloc, asContainer bool) {
	var visit func(v ssa.Value, depth int)
	visit = func(v ssa.Value, depth int) {
		if depth > 6 {
			t.lost("cell depth")
			return
		}
		refs := v.Referrers()
		if refs == nil {
			return
		}
		for _, r := range *refs {
			switch x := r.(type) {
			case *ssa.Store:
				if x.Addr == v {
					if asContainer {
						t.container(x.Val)
					} else {
						t.val(x.Val)
					}
				}
			case *ssa.MakeClosure:
				cf := x.Fn.(*ssa.Function)
				for i, b := range x.Bindings {
					if b == v && i < len(cf.FreeVars) {
						visit(cf.FreeVars[i], depth+1)
					}
				}
			case *ssa.IndexAddr:
				// array cell used as slice backing: stores to its elements
				if asContainer && x.X == v {
					if rr := x.Referrers(); rr != nil {
						for _, s := range *rr {
							if st, ok := s.(*ssa.Store); ok && st.Addr == x {
								t.val(st.Val)
							}
						}
					}
				}
			case *ssa.Slice:
				// handled from the container side
			}
		}
	}
	visit(a, 0)
}

func (t *tracer) freeVar(fv *ssa.FreeVar, asContainer bool) {
	fn := fv.Parent()
	idx := -1
	for i, f := range fn.FreeVars {
		if f == fv {
			idx = i
		}
	}
	sites := t.g.mkClosure[fn]
	if idx < 0 || len(sites) == 0 {
		t.lost("freevar")
		return
	}
	for _, mc := range sites {
		if idx >= len(mc.Bindings) {
			continue
		}
		b := mc.Bindings[idx]
		// a captured variable is bound by address (Alloc or outer FreeVar);
		// when the FreeVar is itself the value (captured by value in SSA only
		// for immutable bindings), follow the value
		if _, isPtr := fv.Type().Underlying().(*types.Pointer); isPtr {
			if _, funcTyped := fv.Type().Underlying().(*types.Pointer).Elem().Underlying().(*types.Signature); funcTyped || asContainer || true {
				switch bb := b.(type) {
				case *ssa.Alloc:
					// the FreeVar is the cell's address: loads of it are handled by load();
					// if we are asked for the FreeVar's own value, it is an address - lost
					t.cell(bb, asContainer)
					continue
				case *ssa.FreeVar:
					t.freeVar(bb, asContainer)
					continue
				}
			}
		}
		if asContainer {
			t.container(b)
		} else {
			t.val(b)
		}
	}
}

func (t *tracer) param(p *ssa.Parameter) {
	fn := p.Parent()
	idx := -1
	for i, q := range fn.Params {
		if q == p {
			idx = i
		}
	}
	if idx < 0 {
		t.lost("param")
		return
	}
	t.paramArgs(fn, idx, func(v ssa.Value) { t.val(v) })
}

func (t *tracer) paramArgs(fn *ssa.Function, idx int, next func(ssa.Value)) {
	o := origin(fn)
	sites := t.g.callSites[o]
	found := false
	for _, c := range sites {
		args := c.Common().Args
		if idx < len(args) {
			found = true
			next(args[idx])
		}
	}
	// closures called dynamically / methods called through interfaces
	if fn.Signature.Recv() != nil {
		for _, c := range t.g.invokeSites[fn.Name()] {
			cc := c.Common()
			impl := false
			for _, f := range t.g.Implementers(cc.Method) {
				if origin(f) == o {
					impl = true
				}
			}
			if !impl {
				continue
			}
			// receiver is not in Args for invoke calls
			if idx == 0 {
				continue
			}
			if idx-1 < len(cc.Args) {
				found = true
				next(cc.Args[idx-1])
			}
		}
	}
	if t.g.addrTaken[o] || fn.Parent() != nil && len(sites) == 0 {
		// called through a function value: arguments unknown
		t.lost("param of address-taken function")
		return
	}
	if !found {
		// exported API never called inside keto, or an entry point
		t.lost("param without call sites")
	}
}

func (t *tracer) extract(x *ssa.Extract, asContainer bool) {
	switch tup := x.Tuple.(type) {
	case *ssa.Call:
		t.callResult(tup, x.Index, asContainer)
	case *ssa.Next:
		// range over map/string: value component
		if r, ok := tup.Iter.(*ssa.Range); ok && x.Index == 2 {
			if asContainer {
				t.lost("nested range")
				return
			}
			t.container(r.X)
			return
		}
		t.lost("next")
	case *ssa.TypeAssert:
		if asContainer {
			t.container(tup.X)
		} else {
			t.val(tup.X)
		}
	case *ssa.Lookup:
		if asContainer {
			t.lost("lookup container")
		} else {
			t.container(tup.X)
		}
	default:
		t.lost("extract")
	}
}

func (t *tracer) callResult(c *ssa.Call, idx int, asContainer bool) {
	cc := c.Common()
	var callees []*ssa.Function
	switch {
	case cc.IsInvoke():
		callees = t.g.Implementers(cc.Method)
		if len(callees) == 0 {
			t.lost("invoke result")
			return
		}
	case cc.StaticCallee() != nil:
		sc := cc.StaticCallee()
		if b, ok := cc.Value.(*ssa.Builtin); ok {
			_ = b
		}
		callees = []*ssa.Function{sc}
	default:
		if b, ok := cc.Value.(*ssa.Builtin); ok && b.Name() == "append" && asContainer {
			for _, a := range cc.Args {
				t.container(a)
			}
			return
		}
		sub := &tracer{g: t.g, seen: t.seen, seenC: t.seenC, out: map[*ssa.Function]bool{}, complete: true, budget: t.budget}
		sub.val(cc.Value)
		t.budget = sub.budget
		if !sub.complete {
			t.lost("dynamic result")
		}
		for f := range sub.out {
			callees = append(callees, f)
		}
	}
	for _, f := range callees {
		pk := FuncPkg(f)
		if pk == nil || !IsKeto(pk) {
			// a function value produced by library code (context.WithCancel's
			// cancel, sync.OnceFunc, ...) is library code; keto functions it
			// may call were handed over at a site that already has a ref edge
			continue
		}
		if f.Blocks == nil {
			t.lost("external keto function")
			continue
		}
		for _, b := range f.Blocks {
			for _, ins := range b.Instrs {
				if r, ok := ins.(*ssa.Return); ok && idx < len(r.Results) {
					if asContainer {
						t.container(r.Results[idx])
					} else {
						t.val(r.Results[idx])
					}
				}
			}
		}
	}
}

// container: function values that may be elements of a slice/array/map value.
func (t *tracer) container(v ssa.Value) {
	if v == nil || t.seenC[v] {
		return
	}
	t.seenC[v] = true
	t.budget--
	if t.budget < 0 {
		t.lost("budget")
		return
	}
	switch x := v.(type) {
	case *ssa.Const:
	case *ssa.Phi:
		for _, e := range x.Edges {
			t.container(e)
		}
	case *ssa.Slice:
		// slice of an array cell or of another slice
		if a, ok := x.X.(*ssa.Alloc); ok {
			t.cell(a, true)
			return
		}
		t.container(x.X)
	case *ssa.Call:
		cc := x.Common()
		if b, ok := cc.Value.(*ssa.Builtin); ok {
			if b.Name() == "append" {
				for _, a := range cc.Args {
					t.container(a)
				}
				return
			}
			t.lost("builtin container")
			return
		}
		t.callResult(x, 0, true)
	case *ssa.Extract:
		t.extract(x, true)
	case *ssa.UnOp:
		if x.Op == token.MUL {
			t.load(x.X, true)
		} else {
			t.lost("container unop")
		}
	case *ssa.Parameter:
		fn := x.Parent()
		idx := -1
		for i, q := range fn.Params {
			if q == x {
				idx = i
			}
		}
		if idx < 0 {
			t.lost("param")
			return
		}
		t.paramArgs(fn, idx, func(a ssa.Value) { t.container(a) })
	case *ssa.FreeVar:
		t.freeVar(x, true)
	case *ssa.MakeSlice, *ssa.MakeMap:
		// elements arrive through IndexAddr stores / MapUpdate on this value
		if refs := v.Referrers(); refs != nil {
			for _, r := range *refs {
				switch y := r.(type) {
				case *ssa.IndexAddr:
					if rr := y.Referrers(); rr != nil {
						for _, s := range *rr {
							if st, ok := s.(*ssa.Store); ok && st.Addr == y {
								t.val(st.Val)
							}
						}
					}
				case *ssa.MapUpdate:
					t.val(y.Value)
				}
			}
		}
	case *ssa.Alloc:
		t.cell(x, true)
	case *ssa.ChangeType:
		t.container(x.X)
	case *ssa.Convert:
		t.container(x.X)
	default:
		t.lost("container")
	}
}

// ---- reachability -------------------------------------------------------------------

type KReach struct {
	Parent map[*ssa.Function]*KEdge
}

// Reach computes the keto functions reachable from roots, skipping edges for
// which skip returns true.
func (g *KGraph) Reach(roots []*ssa.Function, skip func(*KEdge) bool) *KReach {
	r := &KReach{Parent: map[*ssa.Function]*KEdge{}}
	var work []*ssa.Function
	for _, f := range roots {
		if f == nil {
			continue
		}
		if _, ok := r.Parent[f]; !ok {
			r.Parent[f] = nil
			work = append(work, f)
		}
	}
	for len(work) > 0 {
		f := work[0]
		work = work[1:]
		for _, e := range g.Out[f] {
			if skip != nil && skip(e) {
				continue
			}
			if _, ok := r.Parent[e.Callee]; !ok {
				r.Parent[e.Callee] = e
				work = append(work, e.Callee)
			}
		}
	}
	return r
}

func (r *KReach) Has(f *ssa.Function) bool { _, ok := r.Parent[f]; return ok }

func (r *KReach) Path(f *ssa.Function) string {
	var parts []string
	for i := 0; f != nil && i < 64; i++ {
		e := r.Parent[f]
		if e == nil {
			parts = append([]string{FuncName(f)}, parts...)
			break
		}
		parts = append([]string{"-[" + e.Kind + "]-> " + FuncName(f)}, parts...)
		f = e.Caller
	}
	return strings.Join(parts, " ")
}

// ---- liveness (rapid type analysis over keto code) -------------------------------------

// Live computes the functions reachable from the program's main functions and
// package initialisers, resolving interface calls only to types that are
// instantiated in live code (a fixpoint, as in rapid type analysis). Test
// helpers that live in non-test files but are only used by tests drop out.
func (g *KGraph) Live() (map[*ssa.Function]bool, map[*types.Named]bool) {
	if g.liveFns != nil {
		return g.liveFns, g.liveTypes
	}
	var roots []*ssa.Function
	for _, fn := range g.Fns {
		if fn.Parent() != nil {
			continue
		}
		if fn.Name() == "main" && fn.Pkg != nil && fn.Pkg.Pkg.Name() == "main" {
			roots = append(roots, fn)
		}
		if fn.Name() == "init" || strings.HasPrefix(fn.Name(), "init#") {
			roots = append(roots, fn)
		}
	}
	types_ := map[*types.Named]bool{}
	live := map[*ssa.Function]bool{}
	for iter := 0; iter < 20; iter++ {
		reach := g.reachFiltered(roots, nil, types_)
		changed := len(reach.Parent) != len(live)
		live = map[*ssa.Function]bool{}
		for f := range reach.Parent {
			live[f] = true
		}
		n0 := len(types_)
		for f := range live {
			Instrs(f, func(_ *ssa.BasicBlock, _ int, ins ssa.Instruction) {
				var t types.Type
				switch x := ins.(type) {
				case *ssa.Alloc:
					t = x.Type().(*types.Pointer).Elem()
				case *ssa.MakeInterface:
					t = x.X.Type()
				case *ssa.ChangeType:
					t = x.Type()
				case *ssa.Convert:
					t = x.Type()
				case *ssa.MakeSlice, *ssa.MakeMap, *ssa.MakeChan:
					t = ins.(ssa.Value).Type()
				}
				if n := NamedOf(t); n != nil && n.Obj().Pkg() != nil && IsKeto(n.Obj().Pkg()) {
					types_[n.Origin()] = true
				}
			})
		}
		// package-level variables of keto types
		for _, pk := range g.p.SSA.AllPackages() {
			if !IsKeto(pk.Pkg) {
				continue
			}
			for _, m := range pk.Members {
				if gl, ok := m.(*ssa.Global); ok && !g.p.IsTestFile(gl.Pos()) {
					if n := NamedOf(gl.Type().(*types.Pointer).Elem()); n != nil && n.Obj().Pkg() != nil && IsKeto(n.Obj().Pkg()) {
						types_[n.Origin()] = true
					}
				}
			}
		}
		if !changed && len(types_) == n0 {
			break
		}
	}
	g.liveFns, g.liveTypes = live, types_
	return live, types_
}

func (g *KGraph) reachFiltered(roots []*ssa.Function, skip func(*KEdge) bool, liveTypes map[*types.Named]bool) *KReach {
	r := &KReach{Parent: map[*ssa.Function]*KEdge{}}
	var work []*ssa.Function
	for _, f := range roots {
		if f == nil {
			continue
		}
		if _, ok := r.Parent[f]; !ok {
			r.Parent[f] = nil
			work = append(work, f)
		}
	}
	for len(work) > 0 {
		f := work[0]
		work = work[1:]
		for _, e := range g.Out[f] {
			if skip != nil && skip(e) {
				continue
			}
			if liveTypes != nil && (e.Kind == "invoke" || e.Kind == "lib-callback") {
				if recv := e.Callee.Signature.Recv(); recv != nil {
					if n := NamedOf(recv.Type()); n != nil && n.Obj().Pkg() != nil && IsKeto(n.Obj().Pkg()) && !liveTypes[n.Origin()] {
						continue
					}
				}
			}
			if _, ok := r.Parent[e.Callee]; !ok {
				r.Parent[e.Callee] = e
				work = append(work, e.Callee)
			}
		}
	}
	return r
}

// ReachLive is Reach restricted to receiver types instantiated in live code.
func (g *KGraph) ReachLive(roots []*ssa.Function, skip func(*KEdge) bool) *KReach {
	_, lt := g.Live()
	return g.reachFiltered(roots, skip, lt)
}

// TraceFuncOf resolves a closure value to the functions it runs.
func (g *KGraph) TraceFuncOf(mc *ssa.MakeClosure) []*ssa.Function { return g.resolveClosure(mc) }
