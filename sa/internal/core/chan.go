package core

import (
	"go/token"
	"go/types"

	"golang.org/x/tools/go/ssa"
)

// ValueOrigin follows a value back through the forms go/ssa uses for local
// variables: conversions, loads of single-assignment cells, captured variables
// (FreeVar -> the binding at the unique MakeClosure site). It returns the
// origin value (Parameter, MakeChan, Alloc cell with several stores, Call, ...).
func ValueOrigin(v ssa.Value) ssa.Value {
	for i := 0; i < 32; i++ {
		switch x := v.(type) {
		case *ssa.ChangeType:
			v = x.X
		case *ssa.Convert:
			v = x.X
		case *ssa.MakeInterface:
			v = x.X
		case *ssa.UnOp:
			if x.Op != token.MUL {
				return v
			}
			addr := ValueOrigin(x.X)
			a, ok := addr.(*ssa.Alloc)
			if !ok {
				return v
			}
			st := CellStores(a)
			if len(st) == 1 {
				v = st[0].Val
				continue
			}
			return a
		case *ssa.FreeVar:
			b := FreeVarBinding(x)
			if b == nil {
				return v
			}
			v = b
		default:
			return v
		}
	}
	return v
}

// FreeVarBinding returns the value bound to fv at the (unique) MakeClosure of
// its function, or nil.
func FreeVarBinding(fv *ssa.FreeVar) ssa.Value {
	fn := fv.Parent()
	par := fn.Parent()
	if par == nil {
		return nil
	}
	idx := -1
	for i, f := range fn.FreeVars {
		if f == fv {
			idx = i
		}
	}
	var found ssa.Value
	n := 0
	Instrs(par, func(_ *ssa.BasicBlock, _ int, ins ssa.Instruction) {
		if mc, ok := ins.(*ssa.MakeClosure); ok && mc.Fn == fn && idx >= 0 && idx < len(mc.Bindings) {
			found = mc.Bindings[idx]
			n++
		}
	})
	if n != 1 {
		return nil
	}
	return found
}

// CellStores lists the stores to a local cell, including those made inside
// closures that capture it.
func CellStores(a *ssa.Alloc) []*ssa.Store {
	var out []*ssa.Store
	var visit func(v ssa.Value, depth int)
	visit = func(v ssa.Value, depth int) {
		if depth > 6 || v.Referrers() == nil {
			return
		}
		for _, r := range *v.Referrers() {
			switch x := r.(type) {
			case *ssa.Store:
				if x.Addr == v {
					out = append(out, x)
				}
			case *ssa.MakeClosure:
				cf := x.Fn.(*ssa.Function)
				for i, b := range x.Bindings {
					if b == v && i < len(cf.FreeVars) {
						visit(cf.FreeVars[i], depth+1)
					}
				}
			}
		}
	}
	visit(a, 0)
	return out
}

// CellUses lists every instruction (in the allocating function and capturing
// closures) that loads the cell, paired with the loaded value.
func CellLoads(a *ssa.Alloc) []*ssa.UnOp {
	var out []*ssa.UnOp
	var visit func(v ssa.Value, depth int)
	visit = func(v ssa.Value, depth int) {
		if depth > 6 || v.Referrers() == nil {
			return
		}
		for _, r := range *v.Referrers() {
			switch x := r.(type) {
			case *ssa.UnOp:
				if x.Op == token.MUL && x.X == v {
					out = append(out, x)
				}
			case *ssa.MakeClosure:
				cf := x.Fn.(*ssa.Function)
				for i, b := range x.Bindings {
					if b == v && i < len(cf.FreeVars) {
						visit(cf.FreeVars[i], depth+1)
					}
				}
			}
		}
	}
	visit(a, 0)
	return out
}

// IsCtxDone reports whether v is the result of calling Done() on a
// context.Context value.
func IsCtxDone(v ssa.Value) bool {
	c, ok := ValueOrigin(v).(*ssa.Call)
	if !ok {
		return false
	}
	cc := c.Common()
	var name string
	var recv types.Type
	if cc.IsInvoke() {
		name = cc.Method.Name()
		recv = cc.Value.Type()
	} else if f := cc.StaticCallee(); f != nil && f.Signature.Recv() != nil {
		name = f.Name()
		recv = f.Signature.Recv().Type()
	}
	return name == "Done" && recv != nil && IsNamed(recv, "context", "Context")
}

// SigIdentical compares two signatures ignoring receivers.
func SigIdentical(a, b *types.Signature) bool {
	return types.Identical(a.Params(), b.Params()) && types.Identical(a.Results(), b.Results()) && a.Variadic() == b.Variadic()
}
