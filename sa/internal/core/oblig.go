package core

import (
	"encoding/json"
	"fmt"
	"os"
	"path/filepath"
	"sort"
	"strings"
	"time"
)

// Status of an obligation.
type Status string

const (
	Discharged Status = "discharged"
	Violated   Status = "violated"
	Undecided  Status = "undecided"
)

// Obligation is one instance of a rule at one construct. Its identity is
// rule/func/construct -- never a line number.
type Obligation struct {
	Property  string   `json:"property"`
	Rule      string   `json:"rule"`
	Func      string   `json:"func"`
	Construct string   `json:"construct"`
	Status    Status   `json:"status"`
	Pos       string   `json:"pos,omitempty"`
	Detail    string   `json:"detail,omitempty"`
	Facts     []string `json:"facts,omitempty"`
	Known     bool     `json:"known_finding,omitempty"`
}

func (o *Obligation) Key() string { return o.Rule + " / " + o.Func + " / " + o.Construct }

// Report accumulates the obligations of one property run.
type Report struct {
	Property string
	Obls     []*Obligation
	floors   []floor
	Notes    map[string]any
	Funcs    map[string]bool // functions analysed
	Sites    int             // call sites / instructions inspected
	seen     map[string]int
}

type floor struct {
	rule string
	min  int
	why  string
}

func NewReport(prop string) *Report {
	return &Report{Property: prop, Notes: map[string]any{}, Funcs: map[string]bool{}, seen: map[string]int{}}
}

func (r *Report) add(st Status, rule, fn, construct, pos, detail string, facts []string) *Obligation {
	o := &Obligation{Property: r.Property, Rule: rule, Func: fn, Construct: construct, Status: st, Pos: pos, Detail: detail, Facts: facts}
	// make keys unique but stable: a repeated key gets an ordinal suffix
	k := o.Key()
	r.seen[k]++
	if n := r.seen[k]; n > 1 {
		o.Construct = fmt.Sprintf("%s #%d", construct, n)
	}
	r.Obls = append(r.Obls, o)
	if fn != "" {
		r.Funcs[fn] = true
	}
	return o
}

func (r *Report) Discharge(rule, fn, construct, pos, detail string, facts ...string) {
	r.add(Discharged, rule, fn, construct, pos, detail, facts)
}
func (r *Report) Violate(rule, fn, construct, pos, detail string, facts ...string) {
	r.add(Violated, rule, fn, construct, pos, detail, facts)
}
func (r *Report) Undecide(rule, fn, construct, pos, detail string, facts ...string) {
	r.add(Undecided, rule, fn, construct, pos, detail, facts)
}

// Check records discharged when ok, violated otherwise.
func (r *Report) Check(ok bool, rule, fn, construct, pos, okDetail, badDetail string, facts ...string) bool {
	if ok {
		r.Discharge(rule, fn, construct, pos, okDetail, facts...)
	} else {
		r.Violate(rule, fn, construct, pos, badDetail, facts...)
	}
	return ok
}

// Floor demands at least min obligations for the rule (a rule that matches
// nothing passes vacuously forever).
func (r *Report) Floor(rule string, min int, why string) {
	r.floors = append(r.floors, floor{rule, min, why})
}

func (r *Report) Note(k string, v any) { r.Notes[k] = v }

// SubRun runs another property's rules into this report and keeps only the
// rules named in rename, under their new names (floors included).
func (r *Report) SubRun(run func(), rename map[string]string) {
	nO, nF := len(r.Obls), len(r.floors)
	run()
	newObls := append([]*Obligation{}, r.Obls[nO:]...)
	newFloors := append([]floor{}, r.floors[nF:]...)
	r.Obls, r.floors = r.Obls[:nO], r.floors[:nF]
	count := map[string]int{}
	for _, o := range newObls {
		if to, ok := rename[o.Rule]; ok {
			count[o.Rule]++
			r.add(o.Status, to, o.Func, o.Construct, o.Pos, o.Detail, o.Facts)
		}
	}
	for _, f := range newFloors {
		if to, ok := rename[f.rule]; ok && count[f.rule] < f.min {
			r.Undecide(to, "", "instance-floor ("+f.rule+")", "", fmt.Sprintf("rule matched %d instance(s), confirmed floor is %d (%s)", count[f.rule], f.min, f.why))
		}
	}
}

// Count returns the number of obligations of a rule.
func (r *Report) Count(rule string) int {
	n := 0
	for _, o := range r.Obls {
		if o.Rule == rule {
			n++
		}
	}
	return n
}

// Finish applies the floors.
func (r *Report) Finish() {
	for _, f := range r.floors {
		if n := r.Count(f.rule); n < f.min {
			r.Undecide(f.rule, "", "instance-floor", "", fmt.Sprintf("rule matched %d instance(s), confirmed floor is %d (%s): anchors moved or the rule no longer recognises the code", n, f.min, f.why))
		}
	}
	sort.SliceStable(r.Obls, func(i, j int) bool { return r.Obls[i].Key() < r.Obls[j].Key() })
}

// ---- known findings ----------------------------------------------------------

type KnownFinding struct {
	Property  string `json:"property"`
	Rule      string `json:"rule"`
	Func      string `json:"func"`
	Construct string `json:"construct"`
	Status    string `json:"status"` // "known" | "fixed"
	Commit    string `json:"commit,omitempty"`
	Witness   string `json:"witness"`
}

func LoadKnown(path string) ([]KnownFinding, error) {
	b, err := os.ReadFile(path)
	if err != nil {
		if os.IsNotExist(err) {
			return nil, nil
		}
		return nil, err
	}
	var out []KnownFinding
	if err := json.Unmarshal(b, &out); err != nil {
		return nil, fmt.Errorf("%s: %w", path, err)
	}
	return out, nil
}

// ---- evidence -----------------------------------------------------------------

type Evidence struct {
	PropertyID  string         `json:"property_id"`
	Tier        string         `json:"tier"`
	Seed        int            `json:"seed"`
	Level       string         `json:"level"`
	Coverage    map[string]any `json:"coverage"`
	Assumptions []string       `json:"assumptions"`
	WallS       float64        `json:"wall_s"`
	Violations  int            `json:"violations"`
}

// Outcome of matching a report against the known findings.
type Outcome struct {
	New   []*Obligation // violated/undecided and not listed
	Known []*Obligation
}

func (r *Report) Match(known []KnownFinding) Outcome {
	var out Outcome
	for _, o := range r.Obls {
		if o.Status == Discharged {
			continue
		}
		matched := false
		for _, k := range known {
			if k.Status == "known" && k.Property == o.Property && k.Rule == o.Rule && k.Func == o.Func && k.Construct == o.Construct && o.Status == Violated {
				matched = true
				break
			}
		}
		if matched {
			o.Known = true
			out.Known = append(out.Known, o)
		} else {
			out.New = append(out.New, o)
		}
	}
	return out
}

// WriteEvidence writes evidence/<id>.json and, when there are new violations,
// a replay report; it returns the replay path ("" if none).
func (r *Report) WriteEvidence(dir, tier string, seed int, explanation string, assumptions []string, extra map[string]any, out Outcome, start time.Time) (string, error) {
	perRule := map[string]map[string]int{}
	disc := 0
	for _, o := range r.Obls {
		m := perRule[o.Rule]
		if m == nil {
			m = map[string]int{}
			perRule[o.Rule] = m
		}
		m[string(o.Status)]++
		if o.Status == Discharged {
			disc++
		}
	}
	// samples: up to 2 per rule, discharged first, plus every non-discharged
	var samples []any
	cnt := map[string]int{}
	for _, o := range r.Obls {
		if o.Status != Discharged {
			samples = append(samples, o)
			continue
		}
		if cnt[o.Rule] < 2 {
			cnt[o.Rule]++
			samples = append(samples, o)
		}
	}
	fns := make([]string, 0, len(r.Funcs))
	for f := range r.Funcs {
		fns = append(fns, f)
	}
	sort.Strings(fns)
	cov := map[string]any{
		"explanation":        explanation,
		"obligations":        len(r.Obls),
		"discharged":         disc,
		"per_rule":           perRule,
		"functions_analysed": len(fns),
		"functions":          fns,
		"sites_inspected":    r.Sites,
		"samples":            samples,
		"slots":              r.Notes,
		"known_findings":     len(out.Known),
		"new_violations":     len(out.New),
		"checker_cmd":        strings.Join(os.Args, " "),
		"exhaustive":         true,
	}
	for k, v := range extra {
		cov[k] = v
	}
	ev := Evidence{
		PropertyID:  r.Property,
		Tier:        tier,
		Seed:        seed,
		Level:       "other",
		Coverage:    cov,
		Assumptions: assumptions,
		WallS:       time.Since(start).Seconds(),
		Violations:  len(out.New),
	}
	if err := os.MkdirAll(dir, 0o755); err != nil {
		return "", err
	}
	b, _ := json.MarshalIndent(ev, "", " ")
	if err := os.WriteFile(filepath.Join(dir, r.Property+".json"), append(b, '\n'), 0o644); err != nil {
		return "", err
	}
	replay := ""
	if len(out.New) > 0 {
		rd := filepath.Join(dir, "reports")
		if err := os.MkdirAll(rd, 0o755); err != nil {
			return "", err
		}
		replay = filepath.Join(rd, fmt.Sprintf("%s.%s.violations.json", r.Property, tier))
		rb, _ := json.MarshalIndent(map[string]any{"property": r.Property, "tier": tier, "violations": out.New}, "", " ")
		if err := os.WriteFile(replay, append(rb, '\n'), 0o644); err != nil {
			return "", err
		}
	}
	return replay, nil
}
