package core

import (
	"fmt"
	"go/token"
	"go/types"
	"sort"
	"strings"

	"golang.org/x/tools/go/ssa"
)

// A5 -- the Result algebra. A checkgroup.Result is abstracted to
// (Membership in {U,I,N}) x (Err in {nil, non-nil}). A "transformer" is a
// function that receives a Result from a channel and produces one. For every
// abstract input the region of code after the receive is executed abstractly:
// branch conditions on the received value's Err / Membership are evaluated,
// every other condition forks. The outcome of each path is the abstract value
// it returns / sends / stores, or "continue" when it goes back for the next
// result. No path is handed to a solver: the domain has six points.

const (
	MU = 0 // MembershipUnknown
	MI = 1 // IsMember
	MN = 2 // NotMember
)

type AbsRes struct {
	M   int  // MU, MI, MN, or -1 (not a constant)
	Err bool // non-nil
}

func (a AbsRes) String() string {
	m := map[int]string{MU: "Unknown", MI: "IsMember", MN: "NotMember", -1: "?"}[a.M]
	e := "nil"
	if a.Err {
		e = "err"
	}
	return "(" + m + "," + e + ")"
}

// PathOutcome of one abstract path.
type PathOutcome struct {
	Kind string // return | send | store | continue | fallthrough
	Val  AbsRes
	Pass bool // the value is the received result passed through (possibly modified in place)
	Pos  token.Pos
}

func (o PathOutcome) String() string {
	if o.Kind == "continue" {
		return "continue"
	}
	p := ""
	if o.Pass {
		p = " pass-through"
	}
	return o.Kind + " " + o.Val.String() + p
}

// ResultInfo resolves the Result type's slots.
type ResultInfo struct {
	Type        types.Type
	Struct      *types.Struct
	MField      int
	EField      int
	ConstGlobal map[*ssa.Global]AbsRes // package-level Result vars with constant initialisers
	MemberVals  map[string]int64       // MembershipUnknown/IsMember/NotMember -> value
}

func (p *Program) ResultInfo(pkgPath string) (*ResultInfo, error) {
	t := p.LookupType(pkgPath, "Result")
	if t == nil {
		return nil, fmt.Errorf("type %s.Result not found", pkgPath)
	}
	st, ok := t.Underlying().(*types.Struct)
	if !ok {
		return nil, fmt.Errorf("Result is not a struct")
	}
	ri := &ResultInfo{Type: t, Struct: st, MField: -1, EField: -1, ConstGlobal: map[*ssa.Global]AbsRes{}, MemberVals: map[string]int64{}}
	for i := 0; i < st.NumFields(); i++ {
		f := st.Field(i)
		if IsNamed(f.Type(), pkgPath, "Membership") {
			ri.MField = i
		}
		if types.Identical(f.Type(), types.Universe.Lookup("error").Type()) {
			ri.EField = i
		}
	}
	if ri.MField < 0 || ri.EField < 0 {
		return nil, fmt.Errorf("Result has no Membership/error fields")
	}
	for _, n := range []string{"MembershipUnknown", "IsMember", "NotMember"} {
		c, ok := p.LookupObj(pkgPath, n).(*types.Const)
		if !ok {
			return nil, fmt.Errorf("constant %s not found", n)
		}
		v, _ := constInt(c)
		ri.MemberVals[n] = v
	}
	if ri.MemberVals["MembershipUnknown"] != 0 {
		return nil, fmt.Errorf("MembershipUnknown is not the zero value: a Result{Err: e} literal would no longer be Unknown")
	}
	// constant globals: scan the package initialiser
	sp := p.SSAPkg[pkgPath]
	if sp != nil {
		if init := sp.Func("init"); init != nil {
			vals := map[*ssa.Global]*AbsRes{}
			Instrs(init, func(_ *ssa.BasicBlock, _ int, ins ssa.Instruction) {
				st, ok := ins.(*ssa.Store)
				if !ok {
					return
				}
				fa, ok := st.Addr.(*ssa.FieldAddr)
				if !ok {
					return
				}
				g, ok := fa.X.(*ssa.Global)
				if !ok || !types.Identical(g.Type().(*types.Pointer).Elem(), t) {
					return
				}
				a := vals[g]
				if a == nil {
					a = &AbsRes{}
					vals[g] = a
				}
				switch fa.Field {
				case ri.MField:
					if k, ok := IntConst(st.Val); ok {
						a.M = ri.abs(k)
					} else {
						a.M = -1
					}
				case ri.EField:
					a.Err = !IsNilConst(st.Val)
				}
			})
			for g, a := range vals {
				ri.ConstGlobal[g] = *a
			}
			// globals of type Result never written with fields are zero values
			for _, m := range sp.Members {
				if g, ok := m.(*ssa.Global); ok && types.Identical(g.Type().(*types.Pointer).Elem(), t) {
					if _, ok := ri.ConstGlobal[g]; !ok {
						ri.ConstGlobal[g] = AbsRes{M: MU}
					}
				}
			}
		}
	}
	return ri, nil
}

func constInt(c *types.Const) (int64, bool) {
	v := c.Val()
	if v.Kind().String() != "Int" {
		return 0, false
	}
	var n int64
	_, err := fmt.Sscan(v.ExactString(), &n)
	return n, err == nil
}

func (ri *ResultInfo) abs(k int64) int {
	switch k {
	case ri.MemberVals["MembershipUnknown"]:
		return MU
	case ri.MemberVals["IsMember"]:
		return MI
	case ri.MemberVals["NotMember"]:
		return MN
	}
	return -1
}

func (ri *ResultInfo) IsResult(t types.Type) bool { return types.Identical(t, ri.Type) }

// GlobalsWritten reports stores to the constant Result globals outside init.
func (ri *ResultInfo) IsResultPtr(t types.Type) bool {
	p, ok := t.Underlying().(*types.Pointer)
	return ok && ri.IsResult(p.Elem())
}

// Receive is a point where a Result is received from a channel.
type Receive struct {
	Fn    *ssa.Function
	Value ssa.Value       // the received Result (Extract of a Select, or UnOp ARROW)
	Start *ssa.BasicBlock // first block executed with the value available
	Head  *ssa.BasicBlock // block containing the receive (loop head for "continue")
	Sel   *ssa.Select     // nil for a plain receive
	Arm   int
	Chan  ssa.Value
	// Call: the Result is not received here but returned by a helper of the package that does the
	// receive (result, cancelled := evalOperand(...)); Flags are the helper's other (boolean)
	// results with the constant they have when the helper returns what it received
	Call  *ssa.Call
	Flags map[ssa.Value]int
}

// Receives finds every receive of a Result in fn.
func (ri *ResultInfo) Receives(fn *ssa.Function) []Receive {
	var out []Receive
	Instrs(fn, func(b *ssa.BasicBlock, _ int, ins ssa.Instruction) {
		switch x := ins.(type) {
		case *ssa.Call:
			if rc, ok := ri.callReceive(fn, b, x); ok {
				out = append(out, rc)
			}
		case *ssa.UnOp:
			if x.Op == token.ARROW && ri.IsResult(x.Type()) {
				out = append(out, Receive{Fn: fn, Value: x, Start: b, Head: b, Chan: x.X})
			}
		case *ssa.Select:
			for i, st := range x.States {
				if st.Dir != types.RecvOnly {
					continue
				}
				ch, ok := st.Chan.Type().Underlying().(*types.Chan)
				if !ok || !ri.IsResult(ch.Elem()) {
					continue
				}
				body := SelectArmBody(x, i)
				if body == nil {
					continue
				}
				// the received value: extract #(2+k) where k counts recv states before i
				idx := 2
				for j := 0; j < i; j++ {
					if x.States[j].Dir == types.RecvOnly {
						idx++
					}
				}
				var val ssa.Value
				if x.Referrers() != nil {
					for _, r := range *x.Referrers() {
						if ex, ok := r.(*ssa.Extract); ok && ex.Index == idx {
							val = ex
						}
					}
				}
				out = append(out, Receive{Fn: fn, Value: val, Start: body, Head: b, Sel: x, Arm: i, Chan: st.Chan})
			}
		}
	})
	return out
}

// callReceive: call is a call of a function of the same package that receives a Result from a
// channel and returns it as its first result (on the path on which nothing else happened).
func (ri *ResultInfo) callReceive(fn *ssa.Function, b *ssa.BasicBlock, call *ssa.Call) (Receive, bool) {
	h := call.Call.StaticCallee()
	if h == nil || h == fn || h.Blocks == nil || FuncPkg(h) == nil || FuncPkg(h) != FuncPkg(fn) || h.Signature.Results().Len() == 0 || !ri.IsResult(h.Signature.Results().At(0).Type()) {
		return Receive{}, false
	}
	var inner []Receive
	Instrs(h, func(hb *ssa.BasicBlock, _ int, ins ssa.Instruction) {
		switch x := ins.(type) {
		case *ssa.UnOp:
			if x.Op == token.ARROW && ri.IsResult(x.Type()) {
				inner = append(inner, Receive{Value: x})
			}
		case *ssa.Select:
			idx := 2
			for _, st := range x.States {
				if st.Dir != types.RecvOnly {
					continue
				}
				if ch, ok := st.Chan.Type().Underlying().(*types.Chan); ok && ri.IsResult(ch.Elem()) && x.Referrers() != nil {
					for _, r := range *x.Referrers() {
						if ex, ok := r.(*ssa.Extract); ok && ex.Index == idx {
							inner = append(inner, Receive{Value: ex})
						}
					}
				}
				idx++
			}
		}
	})
	if len(inner) != 1 {
		return Receive{}, false
	}
	recv := inner[0].Value
	// the return that hands the received value on, and the constants of its other results
	flags := map[int]int{}
	found := false
	Instrs(h, func(_ *ssa.BasicBlock, _ int, ins ssa.Instruction) {
		ret, ok := ins.(*ssa.Return)
		if !ok || len(ret.Results) == 0 || ret.Results[0] != recv {
			return
		}
		found = true
		for i, rv := range ret.Results[1:] {
			if k, ok := rv.(*ssa.Const); ok && k.Value != nil && BoolType(k.Type()) {
				if k.Value.String() == "true" {
					flags[i+1] = 1
				} else {
					flags[i+1] = 0
				}
			}
		}
	})
	if !found {
		return Receive{}, false
	}
	rc := Receive{Fn: fn, Start: b, Head: b, Call: call, Flags: map[ssa.Value]int{}}
	if h.Signature.Results().Len() == 1 {
		rc.Value = call
	} else if call.Referrers() != nil {
		for _, r := range *call.Referrers() {
			if ex, ok := r.(*ssa.Extract); ok {
				if ex.Index == 0 {
					rc.Value = ex
				} else if c, ok := flags[ex.Index]; ok {
					rc.Flags[ex] = c
				}
			}
		}
	}
	if rc.Value == nil {
		return Receive{}, false
	}
	return rc, true
}

// SelectArmBody returns the block entered when select state i fires.
func SelectArmBody(s *ssa.Select, i int) *ssa.BasicBlock {
	if s.Referrers() == nil {
		return nil
	}
	if len(s.States) == 1 && s.Blocking {
		return s.Block()
	}
	for _, ref := range *s.Referrers() {
		ex, ok := ref.(*ssa.Extract)
		if !ok || ex.Index != 0 || ex.Referrers() == nil {
			continue
		}
		for _, r2 := range *ex.Referrers() {
			b, ok := r2.(*ssa.BinOp)
			if !ok || b.Op != token.EQL {
				continue
			}
			if k, ok := IntConst(b.Y); ok && int(k) == i && b.Referrers() != nil {
				for _, r3 := range *b.Referrers() {
					if ifi, ok := r3.(*ssa.If); ok {
						return ifi.Block().Succs[0]
					}
				}
			}
		}
	}
	return nil
}

// ---- abstract execution -------------------------------------------------------------

type cellState struct {
	val  AbsRes
	pass bool // holds (a possibly modified copy of) the received result
}

type execState struct {
	cells map[ssa.Value]cellState // Alloc cells of type Result
	bools map[ssa.Value]int       // boolean phis (a && b kept in a variable): 0, 1, -1 unknown
	loads map[ssa.Value]int       // loads of a cell's Err (0 nil, 1 non-nil) or Membership (10+m) field, as read when executed
}

func (s execState) clone() execState {
	n := execState{cells: make(map[ssa.Value]cellState, len(s.cells)), bools: make(map[ssa.Value]int, len(s.bools)), loads: make(map[ssa.Value]int, len(s.loads))}
	for k, v := range s.loads {
		n.loads[k] = v
	}
	for k, v := range s.cells {
		n.cells[k] = v
	}
	for k, v := range s.bools {
		n.bools[k] = v
	}
	return n
}

func (s execState) key() string {
	var ks []string
	for k, v := range s.cells {
		ks = append(ks, fmt.Sprintf("%s=%v%v", k.Name(), v.val, v.pass))
	}
	for k, v := range s.bools {
		ks = append(ks, fmt.Sprintf("%s=%d", k.Name(), v))
	}
	for k, v := range s.loads {
		ks = append(ks, fmt.Sprintf("%s:%d", k.Name(), v))
	}
	sort.Strings(ks)
	return strings.Join(ks, ";")
}

// Exec runs the code from rc.Start with the received value bound to in, and
// returns the outcomes of all paths. isSink tells which channel sends / field
// stores are "productions" (send on a Result channel; store to a Result field).
type Exec struct {
	RI        *ResultInfo
	Rc        Receive
	Unknown   []string // constructs the executor could not interpret
	outcomes  []PathOutcome
	seen      map[string]bool
	recvVal   ssa.Value
	phiBusy   map[ssa.Value]bool // phis being evaluated (loop-carried values)
	callDepth int                // nesting of executed helpers
}

func (ri *ResultInfo) Run(rc Receive, in AbsRes) ([]PathOutcome, []string) {
	ex := &Exec{RI: ri, Rc: rc, seen: map[string]bool{}, recvVal: rc.Value}
	st := execState{cells: map[ssa.Value]cellState{}, bools: map[ssa.Value]int{}, loads: map[ssa.Value]int{}}
	// the received value itself is an SSA value; bind it under its own key
	if rc.Value != nil {
		st.cells[rc.Value] = cellState{val: in, pass: true}
	}
	start := 0
	if rc.Call != nil {
		// start after the call; its boolean results have the value of the pass-through return
		for i, ins := range rc.Start.Instrs {
			if ins == ssa.Instruction(rc.Call) {
				start = i + 1
			}
		}
		for v, c := range rc.Flags {
			st.bools[v] = c
		}
	} else if rc.Sel == nil {
		// plain receive: start after the receive instruction
		for i, ins := range rc.Start.Instrs {
			if v, ok := ins.(ssa.Value); ok && v == rc.Value {
				start = i + 1
			}
		}
	}
	ex.block(rc.Start, start, st, 0, nil)
	// dedupe
	m := map[string]PathOutcome{}
	for _, o := range ex.outcomes {
		m[o.String()] = o
	}
	var out []PathOutcome
	for _, k := range SortedKeys(m) {
		out = append(out, m[k])
	}
	sort.Strings(ex.Unknown)
	return out, ex.Unknown
}

// resultOf describes a Result-typed SSA value under the current state.
func (ex *Exec) resultOf(v ssa.Value, st execState) (cellState, bool) {
	if cs, ok := st.cells[v]; ok {
		return cs, true
	}
	switch x := v.(type) {
	case *ssa.UnOp:
		if x.Op == token.MUL {
			if cs, ok := st.cells[x.X]; ok {
				return cs, true
			}
			if g, ok := x.X.(*ssa.Global); ok {
				if a, ok := ex.RI.ConstGlobal[g]; ok {
					return cellState{val: a}, true
				}
			}
			if fa, ok := x.X.(*ssa.FieldAddr); ok {
				// load of a Result-typed field (g.result): not tracked
				_ = fa
			}
		}
	case *ssa.Phi:
		if ex.phiBusy[x] {
			return cellState{}, false // loop-carried: not a constant
		}
		if ex.phiBusy == nil {
			ex.phiBusy = map[ssa.Value]bool{}
		}
		ex.phiBusy[x] = true
		defer delete(ex.phiBusy, x)
		// all edges must agree
		var first *cellState
		for _, e := range x.Edges {
			cs, ok := ex.resultOf(e, st)
			if !ok {
				return cellState{}, false
			}
			if first == nil {
				c := cs
				first = &c
			} else if *first != cs {
				return cellState{}, false
			}
		}
		if first != nil {
			return *first, true
		}
	case *ssa.Const:
		// the zero Result (x = Result{}; var x Result): no membership, no error
		if ex.RI.IsResult(x.Type()) {
			return cellState{val: AbsRes{M: ex.RI.abs(0)}}, true
		}
	case *ssa.Call:
		// a call returning a Result: not a constant
	}
	return cellState{}, false
}

// errOf: is the error value nil / non-nil / the received Err?
func (ex *Exec) errOf(v ssa.Value, st execState) (nonNil bool, known bool) {
	v = Unwrap(v)
	if IsNilConst(v) {
		return false, true
	}
	if l, ok := st.loads[v]; ok && l < 10 {
		return l == 1, true
	}
	switch x := v.(type) {
	case *ssa.UnOp:
		if x.Op == token.MUL {
			if fa, ok := x.X.(*ssa.FieldAddr); ok && fa.Field == ex.RI.EField {
				if cs, ok := st.cells[fa.X]; ok {
					return cs.val.Err, true
				}
			}
		}
	case *ssa.Field:
		if x.Field == ex.RI.EField {
			if cs, ok := ex.resultOf(x.X, st); ok {
				return cs.val.Err, true
			}
		}
	case *ssa.Call:
		// an error constructed by a call (errors.WithStack(ctx.Err()), ...):
		// wrappers of a known error keep its nil-ness, others are taken as non-nil
		if len(x.Call.Args) >= 1 && types.Identical(x.Call.Args[0].Type(), types.Universe.Lookup("error").Type()) {
			if nn, ok := ex.errOf(x.Call.Args[0], st); ok {
				return nn, true
			}
		}
		return true, true
	case *ssa.Extract:
		return true, true
	case *ssa.Phi:
		if ex.phiBusy[x] {
			return false, false // loop-carried error variable: unknown
		}
		if ex.phiBusy == nil {
			ex.phiBusy = map[ssa.Value]bool{}
		}
		ex.phiBusy[x] = true
		defer delete(ex.phiBusy, x)
		any, all := false, true
		for _, e := range x.Edges {
			nn, ok := ex.errOf(e, st)
			if !ok {
				return false, false
			}
			any = any || nn
			all = all && nn
		}
		if any == all {
			return any, true
		}
		return false, false
	}
	return false, false
}

// cond evaluates a branch condition: 1 true, 0 false, -1 unknown.
func (ex *Exec) cond(v ssa.Value, st execState) int {
	switch x := v.(type) {
	case *ssa.BinOp:
		if x.Op != token.EQL && x.Op != token.NEQ {
			return -1
		}
		// Err ==/!= nil
		if IsNilConst(x.Y) || IsNilConst(x.X) {
			other := x.X
			if IsNilConst(x.X) {
				other = x.Y
			}
			if types.Identical(other.Type(), types.Universe.Lookup("error").Type()) {
				if nn, ok := ex.errOfStrict(other, st); ok {
					res := nn == (x.Op == token.NEQ)
					if res {
						return 1
					}
					return 0
				}
			}
			return -1
		}
		// Membership ==/!= const (either operand order)
		_, cx, cy, _ := BinCmp(x)
		if k, ok := IntConst(cy); ok {
			if m, ok := ex.memOf(cx, st); ok && m >= 0 {
				eq := m == ex.RI.abs(k)
				if eq == (x.Op == token.EQL) {
					return 1
				}
				return 0
			}
		}
	case *ssa.UnOp:
		if x.Op == token.NOT {
			c := ex.cond(x.X, st)
			if c < 0 {
				return c
			}
			return 1 - c
		}
	case *ssa.Phi:
		if c, ok := st.bools[x]; ok {
			return c
		}
	case *ssa.Extract:
		if c, ok := st.bools[x]; ok {
			return c
		}
	case *ssa.Const:
		if x.Value != nil && x.Value.String() == "true" {
			return 1
		}
		if x.Value != nil && x.Value.String() == "false" {
			return 0
		}
	}
	return -1
}

// errOfStrict only answers for loads of a tracked cell's Err field.
func (ex *Exec) errOfStrict(v ssa.Value, st execState) (bool, bool) {
	if l, ok := st.loads[v]; ok && l < 10 {
		return l == 1, true
	}
	switch x := v.(type) {
	case *ssa.UnOp:
		if x.Op == token.MUL {
			if fa, ok := x.X.(*ssa.FieldAddr); ok && fa.Field == ex.RI.EField && ex.RI.IsResultPtr(fa.X.Type()) {
				if cs, ok := st.cells[fa.X]; ok {
					return cs.val.Err, true
				}
			}
		}
	case *ssa.Field:
		if x.Field == ex.RI.EField && ex.RI.IsResult(x.X.Type()) {
			if cs, ok := ex.resultOf(x.X, st); ok {
				return cs.val.Err, true
			}
		}
	}
	return false, false
}

func (ex *Exec) memOf(v ssa.Value, st execState) (int, bool) {
	if l, ok := st.loads[v]; ok && l >= 9 {
		return l - 10, true
	}
	switch x := v.(type) {
	case *ssa.UnOp:
		if x.Op == token.MUL {
			if fa, ok := x.X.(*ssa.FieldAddr); ok && fa.Field == ex.RI.MField && ex.RI.IsResultPtr(fa.X.Type()) {
				if cs, ok := st.cells[fa.X]; ok {
					return cs.val.M, true
				}
			}
		}
	case *ssa.Field:
		if x.Field == ex.RI.MField && ex.RI.IsResult(x.X.Type()) {
			if cs, ok := ex.resultOf(x.X, st); ok {
				return cs.val.M, true
			}
		}
	}
	return -1, false
}

func (ex *Exec) emit(kind string, cs cellState, pos token.Pos) {
	ex.outcomes = append(ex.outcomes, PathOutcome{Kind: kind, Val: cs.val, Pass: cs.pass, Pos: pos})
}

func (ex *Exec) block(b *ssa.BasicBlock, from int, st execState, depth int, prev *ssa.BasicBlock) {
	key := fmt.Sprintf("%d@%d|%s", b.Index, from, st.key())
	if ex.seen[key] || depth > 200 {
		return
	}
	ex.seen[key] = true
	if from == 0 && b == ex.Rc.Head && ex.Rc.Sel != nil {
		ex.outcomes = append(ex.outcomes, PathOutcome{Kind: "continue"})
		return
	}
	if from == 0 && prev != nil {
		// boolean phis take the value of the edge we came in on (all at once: they are parallel)
		vals := map[ssa.Value]int{}
		for _, ins := range b.Instrs {
			ph, ok := ins.(*ssa.Phi)
			if !ok {
				break
			}
			if !BoolType(ph.Type()) {
				continue
			}
			for k, pr := range b.Preds {
				if pr == prev && k < len(ph.Edges) {
					vals[ph] = ex.cond(ph.Edges[k], st)
				}
			}
		}
		for k, v := range vals {
			st.bools[k] = v
		}
	}
	for i := from; i < len(b.Instrs); i++ {
		switch x := b.Instrs[i].(type) {
		case *ssa.Alloc:
			if ex.RI.IsResultPtr(x.Type()) {
				st.cells[x] = cellState{val: AbsRes{M: MU}}
			}
		case *ssa.Store:
			// whole-value store into a Result cell
			if cs0, isCell := st.cells[x.Addr]; isCell || ex.RI.IsResultPtr(x.Addr.Type()) {
				_ = cs0
				if _, isAlloc := x.Addr.(*ssa.Alloc); isAlloc {
					if cs, ok := ex.resultOf(x.Val, st); ok {
						st.cells[x.Addr] = cs
					} else {
						st.cells[x.Addr] = cellState{val: AbsRes{M: -1}}
						ex.Unknown = append(ex.Unknown, "store of an untracked Result into a local")
					}
					continue
				}
				// store to a Result-typed field or pointer: a production
				if cs, ok := ex.resultOf(x.Val, st); ok {
					ex.emit("store", cs, x.Pos())
				} else {
					ex.Unknown = append(ex.Unknown, "store of an untracked Result")
					ex.emit("store", cellState{val: AbsRes{M: -1}}, x.Pos())
				}
				continue
			}
			if fa, ok := x.Addr.(*ssa.FieldAddr); ok {
				if _, tracked := st.cells[fa.X]; !tracked {
					if a, isAlloc := fa.X.(*ssa.Alloc); isAlloc && ex.RI.IsResultPtr(a.Type()) {
						st.cells[fa.X] = cellState{val: AbsRes{M: MU}}
					}
				}
				if cs, ok := st.cells[fa.X]; ok {
					switch fa.Field {
					case ex.RI.MField:
						if k, ok := IntConst(x.Val); ok {
							cs.val.M = ex.RI.abs(k)
						} else if m, ok := ex.memOf(x.Val, st); ok {
							cs.val.M = m
						} else {
							cs.val.M = -1
						}
					case ex.RI.EField:
						if nn, ok := ex.errOf(x.Val, st); ok {
							cs.val.Err = nn
						} else {
							cs.val.Err = true
							ex.Unknown = append(ex.Unknown, "Err assigned from an untracked value")
						}
					}
					st.cells[fa.X] = cs
				}
			}
		case *ssa.Send:
			if ch, ok := x.Chan.Type().Underlying().(*types.Chan); ok && ex.RI.IsResult(ch.Elem()) {
				if cs, ok := ex.resultOf(x.X, st); ok {
					ex.emit("send", cs, x.Pos())
				} else {
					ex.Unknown = append(ex.Unknown, "send of an untracked Result")
					ex.emit("send", cellState{val: AbsRes{M: -1}}, x.Pos())
				}
			}
		case *ssa.Return:
			produced := false
			for _, rv := range x.Results {
				if ex.RI.IsResult(rv.Type()) {
					produced = true
					if cs, ok := ex.resultOf(rv, st); ok {
						ex.emit("return", cs, x.Pos())
					} else {
						ex.Unknown = append(ex.Unknown, "return of an untracked Result")
						ex.emit("return", cellState{val: AbsRes{M: -1}}, x.Pos())
					}
				}
			}
			if !produced {
				ex.outcomes = append(ex.outcomes, PathOutcome{Kind: "exit", Pos: x.Pos()})
			}
			return
		case *ssa.Panic:
			return
		case *ssa.If:
			c := ex.cond(x.Cond, st)
			if c != 0 {
				ex.block(b.Succs[0], 0, st.clone(), depth+1, b)
			}
			if c != 1 {
				ex.block(b.Succs[1], 0, st.clone(), depth+1, b)
			}
			return
		case *ssa.Jump:
			ex.block(b.Succs[0], 0, st, depth+1, b)
			return
		case *ssa.Select:
			if x == ex.Rc.Sel {
				ex.outcomes = append(ex.outcomes, PathOutcome{Kind: "continue"})
				return
			}
		case *ssa.UnOp:
			if x.Op == token.MUL {
				// a field of a tracked cell is read now: later stores to the cell do not change it
				if fa, ok := x.X.(*ssa.FieldAddr); ok {
					if cs, ok := st.cells[fa.X]; ok {
						switch fa.Field {
						case ex.RI.EField:
							st.loads[x] = 0
							if cs.val.Err {
								st.loads[x] = 1
							}
						case ex.RI.MField:
							st.loads[x] = 10 + cs.val.M
						}
					}
				}
			}
			if x.Op == token.ARROW && ssa.Value(x) == ex.recvVal {
				ex.outcomes = append(ex.outcomes, PathOutcome{Kind: "continue"})
				return
			}
		case *ssa.Call:
			if ex.Rc.Call != nil && x == ex.Rc.Call {
				ex.outcomes = append(ex.outcomes, PathOutcome{Kind: "continue"})
				return
			}
			// a helper of the package that turns a Result into a Result (the inversion, the
			// folding of an operand, ... extracted into a function): execute it with the argument's
			// abstract value and go on once per way it can return
			if h := x.Call.StaticCallee(); h != nil && h.Blocks != nil && ex.callDepth < 2 && FuncPkg(h) != nil && FuncPkg(h) == FuncPkg(b.Parent()) && ex.RI.IsResult(x.Type()) {
				bound := false
				sub := &Exec{RI: ex.RI, seen: map[string]bool{}, callDepth: ex.callDepth + 1}
				sst := execState{cells: map[ssa.Value]cellState{}, bools: map[ssa.Value]int{}, loads: map[ssa.Value]int{}}
				for k, a := range x.Call.Args {
					if k < len(h.Params) && ex.RI.IsResult(a.Type()) {
						if cs, ok := ex.resultOf(a, st); ok {
							sst.cells[h.Params[k]] = cs
							bound = true
						}
					}
				}
				if bound {
					sub.block(h.Blocks[0], 0, sst, 0, nil)
					ex.Unknown = append(ex.Unknown, sub.Unknown...)
					rets := map[cellState]bool{}
					for _, o := range sub.outcomes {
						if o.Kind == "return" {
							rets[cellState{val: o.Val, pass: o.Pass}] = true
						}
					}
					if len(rets) > 0 {
						for cs := range rets {
							st2 := st.clone()
							st2.cells[x] = cs
							ex.block(b, i+1, st2, depth+1, prev)
						}
						return
					}
				}
			}
		}
	}
}
