// Package core holds the loader, the obligation model and the shared analyses
// of the keto static checker. Nothing here executes keto code.
package core

import (
	"fmt"
	"go/ast"
	"go/token"
	"go/types"
	"os"
	"sort"
	"strings"
	"sync"

	"golang.org/x/tools/go/callgraph"
	"golang.org/x/tools/go/callgraph/cha"
	"golang.org/x/tools/go/callgraph/rta"
	"golang.org/x/tools/go/callgraph/vta"
	"golang.org/x/tools/go/packages"
	"golang.org/x/tools/go/ssa"
	"golang.org/x/tools/go/ssa/ssautil"
)

const KetoMod = "github.com/ory/keto"

// LoadConfig selects what is loaded.
type LoadConfig struct {
	Dir     string            // repository root (default /repo)
	Tags    []string          // build tags (default: sqlite, as the shipped binary)
	Tests   bool              // include test variants
	Overlay map[string][]byte // in-memory file replacements (controls)
	GOARCH  string
	NoSSA   bool // syntax+types only for keto packages (fast)
}

// Program is the loaded, type-checked (and optionally SSA-built) repository.
type Program struct {
	Cfg                       LoadConfig
	Fset                      *token.FileSet
	All                       []*packages.Package          // root packages (./...)
	ByPath                    map[string]*packages.Package // every package in the import graph
	SSA                       *ssa.Program                 // nil when NoSSA
	SSAPkg                    map[string]*ssa.Package      // by import path
	cgOnce                    sync.Once
	cgVTA                     *callgraph.Graph
	cgCHA                     *callgraph.Graph
	allFns                    map[*ssa.Function]bool
	byName                    map[string]*ssa.Function
	nameOf                    map[*ssa.Function]string
	anonIdx                   map[*ssa.Function]int
	kg                        *KGraph
	Despilled, RecoverRemoved int            // despill.go
	errParam                  map[string]int // errdisc.go: memo of paramErrHandled
	Renamed                   []string       // declared names mapped back to the symbol table's (normalize.go)
}

// Load loads ./... of the repository's current working tree.
func Load(lc LoadConfig) (*Program, error) {
	if lc.Dir == "" {
		lc.Dir = "/repo"
	}
	if lc.Tags == nil {
		lc.Tags = []string{"sqlite"}
	}
	env := []string{}
	for _, kv := range os.Environ() {
		k := kv
		if i := strings.IndexByte(kv, '='); i >= 0 {
			k = kv[:i]
		}
		switch k {
		case "GOWORK", "GOTOOLCHAIN", "GOSUMDB", "GOFLAGS", "GOPROXY", "GOARCH":
			continue
		}
		env = append(env, kv)
	}
	env = append(env, "GOFLAGS=-mod=mod", "GOPROXY=off", "GOWORK=off")
	if lc.GOARCH != "" {
		env = append(env, "GOARCH="+lc.GOARCH, "CGO_ENABLED=0")
	}
	mode := packages.LoadAllSyntax
	if lc.NoSSA {
		mode = packages.LoadSyntax
	}
	cfg := &packages.Config{
		Mode:    mode,
		Dir:     lc.Dir,
		Env:     env,
		Tests:   lc.Tests,
		Overlay: lc.Overlay,
	}
	if len(lc.Tags) > 0 {
		cfg.BuildFlags = []string{"-tags=" + strings.Join(lc.Tags, ",")}
	}
	pkgs, err := packages.Load(cfg, "./...")
	if err != nil {
		return nil, fmt.Errorf("packages.Load: %w", err)
	}
	var errs []string
	packages.Visit(pkgs, nil, func(p *packages.Package) {
		if !strings.HasPrefix(p.PkgPath, KetoMod) {
			return
		}
		for _, e := range p.Errors {
			errs = append(errs, e.Error())
		}
	})
	if len(errs) > 0 {
		sort.Strings(errs)
		if len(errs) > 20 {
			errs = errs[:20]
		}
		return nil, fmt.Errorf("load/type errors in %s:\n  %s", lc.Dir, strings.Join(errs, "\n  "))
	}
	nKeto := 0
	for _, p := range pkgs {
		if strings.HasPrefix(p.PkgPath, KetoMod) {
			nKeto++
		}
	}
	if nKeto < 40 {
		return nil, fmt.Errorf("only %d keto packages loaded (expected >= 40)", nKeto)
	}
	prog := &Program{Cfg: lc, All: pkgs, ByPath: map[string]*packages.Package{}, SSAPkg: map[string]*ssa.Package{}}
	packages.Visit(pkgs, nil, func(p *packages.Package) {
		// prefer the non-test variant under its plain path
		if old, ok := prog.ByPath[p.PkgPath]; ok && len(old.GoFiles) <= len(p.GoFiles) && p.ID != p.PkgPath {
			return
		}
		prog.ByPath[p.PkgPath] = p
	})
	if len(pkgs) > 0 {
		prog.Fset = pkgs[0].Fset
	}
	if !lc.NoSSA {
		sp, spkgs := ssautil.AllPackages(pkgs, ssa.InstantiateGenerics)
		sp.Build()
		prog.SSA = sp
		for i, p := range pkgs {
			if spkgs[i] != nil {
				if _, ok := prog.SSAPkg[p.PkgPath]; !ok || p.ID == p.PkgPath {
					prog.SSAPkg[p.PkgPath] = spkgs[i]
				}
			}
		}
		for _, sp2 := range sp.AllPackages() {
			if _, ok := prog.SSAPkg[sp2.Pkg.Path()]; !ok {
				prog.SSAPkg[sp2.Pkg.Path()] = sp2
			}
		}
		// undo go/ssa's spilling of results in functions that defer (despill.go)
		prog.allFns = ssautil.AllFunctions(sp)
		keto := map[*ssa.Function]bool{}
		for fn := range prog.allFns {
			if pk := FuncPkg(fn); pk != nil && IsKeto(pk) {
				keto[fn] = true
			}
		}
		prog.Despilled, prog.RecoverRemoved = despill(sp, keto)
	}
	return prog, nil
}

// Pkg returns the keto package with the given path relative to the module
// ("internal/check"), or nil.
func (p *Program) Pkg(rel string) *packages.Package {
	if rel == "" {
		return p.ByPath[KetoMod]
	}
	return p.ByPath[KetoMod+"/"+rel]
}

// KetoPackages returns the non-test keto packages sorted by path.
func (p *Program) KetoPackages() []*packages.Package {
	var out []*packages.Package
	for path, pk := range p.ByPath {
		if strings.HasPrefix(path, KetoMod) && !strings.HasSuffix(path, ".test") && !strings.HasSuffix(path, "_test") {
			out = append(out, pk)
		}
	}
	sort.Slice(out, func(i, j int) bool { return out[i].PkgPath < out[j].PkgPath })
	return out
}

// IsKeto reports whether the types.Package belongs to the keto module.
func IsKeto(pkg *types.Package) bool {
	return pkg != nil && strings.HasPrefix(pkg.Path(), KetoMod)
}

// RelPath strips the module prefix.
func RelPath(path string) string {
	path = strings.TrimPrefix(path, KetoMod)
	return strings.TrimPrefix(path, "/")
}

// Pos renders a position as repo-relative file:line.
func (p *Program) Pos(pos token.Pos) string {
	if !pos.IsValid() || p.Fset == nil {
		return "-"
	}
	ps := p.Fset.Position(pos)
	f := strings.TrimPrefix(ps.Filename, p.Cfg.Dir+"/")
	return fmt.Sprintf("%s:%d", f, ps.Line)
}

// FileOf returns the syntax file containing pos within pkg.
func FileOf(pkg *packages.Package, pos token.Pos) *ast.File {
	for _, f := range pkg.Syntax {
		if f.Pos() <= pos && pos <= f.End() {
			return f
		}
	}
	return nil
}

// IsTestFile reports whether pos lies in a _test.go file.
func (p *Program) IsTestFile(pos token.Pos) bool {
	if !pos.IsValid() {
		return false
	}
	return strings.HasSuffix(p.Fset.Position(pos).Filename, "_test.go")
}

// ---- call graphs -----------------------------------------------------------

func (p *Program) buildCG() {
	p.cgOnce.Do(func() {
		if p.allFns == nil {
			p.allFns = ssautil.AllFunctions(p.SSA)
		}
		p.cgCHA = cha.CallGraph(p.SSA)
		p.cgVTA = vta.CallGraph(p.allFns, p.cgCHA)
	})
}

// VTA returns the VTA-refined call graph.
func (p *Program) VTA() *callgraph.Graph { p.buildCG(); return p.cgVTA }

// CHA returns the class-hierarchy call graph.
func (p *Program) CHA() *callgraph.Graph { p.buildCG(); return p.cgCHA }

// AllFunctions returns every SSA function of the program.
func (p *Program) AllFunctions() map[*ssa.Function]bool { p.buildCG(); return p.allFns }

// RTA runs rapid type analysis from the given roots and returns its call
// graph: dynamic calls resolve only to functions whose address is taken, and
// interface calls only to types converted to interfaces, in code reachable from
// the roots. This is far tighter than whole-program VTA for "what can this
// handler reach" questions.
func (p *Program) RTA(roots []*ssa.Function) *callgraph.Graph {
	res := rta.Analyze(roots, true)
	return res.CallGraph
}
