package core

import (
	"fmt"
	"go/constant"
	"go/token"
	"go/types"

	"golang.org/x/tools/go/ssa"
)

// A4 for integer pairs touched only through comparisons, and for boolean mode
// flags: a concrete walk of one function's CFG under an assignment of
// representative values to the opaque inputs (parameters, configuration
// getters). The set of assignments enumerated by the caller covers every
// ordering of the inputs / every valuation of the flags, so the walk is an
// exhaustive evaluation over a finite abstract domain, not a test of the
// program: no keto code runs, only its SSA is interpreted.

// WVal is an int64 or bool value, or unknown.
type WVal struct {
	I    int64
	B    bool
	Kind byte // 'i', 'b', 0 = unknown
}

func WInt(i int64) WVal { return WVal{I: i, Kind: 'i'} }
func WBool(b bool) WVal { return WVal{B: b, Kind: 'b'} }

// Walker interprets a function's SSA.
type Walker struct {
	Fn *ssa.Function
	// Oracle supplies values for opaque SSA values (parameters, calls). It is
	// asked first for every value.
	Oracle func(v ssa.Value) (WVal, bool)
	// OnInstr is called for every instruction executed, in order; returning
	// true stops the walk.
	OnInstr func(ins ssa.Instruction, w *Walker) bool

	// InitCells gives the content of memory cells (captured variables) at the start of the walk.
	InitCells map[ssa.Value]WVal

	// Target, when set, resolves branches whose condition is unknown: the walk
	// takes the only successor from which Target's block is reachable.
	Target ssa.Instruction

	vals   map[ssa.Value]WVal
	cells  map[ssa.Value]WVal
	Err    string
	steps  int
	depth  int                  // nesting of walked callees
	tuples map[ssa.Value][]WVal // results of walked multi-result callees
}

// Eval returns the value of v at the current point of the walk. For a local
// variable cell (Alloc) it returns the cell's current content.
func (w *Walker) Eval(v ssa.Value) (WVal, bool) {
	if a, ok := v.(*ssa.Alloc); ok {
		c, ok := w.cells[a]
		return c, ok && c.Kind != 0
	}
	if w.Oracle != nil {
		if x, ok := w.Oracle(v); ok {
			return x, true
		}
	}
	if x, ok := w.vals[v]; ok {
		return x, x.Kind != 0
	}
	switch x := v.(type) {
	case *ssa.Const:
		if x.Value == nil {
			if x.IsNil() {
				return WVal{Kind: 'n'}, true // the nil constant (an error that is nil, ...)
			}
			return WVal{}, false
		}
		switch x.Value.Kind() {
		case constant.Int:
			return WInt(x.Int64()), true
		case constant.Bool:
			return WBool(constant.BoolVal(x.Value)), true
		}
	case *ssa.ChangeType:
		return w.Eval(x.X)
	case *ssa.Convert:
		return w.Eval(x.X)
	}
	return WVal{}, false
}

func (w *Walker) exec(ins ssa.Instruction, prev *ssa.BasicBlock) {
	v, isVal := ins.(ssa.Value)
	if !isVal {
		if st, ok := ins.(*ssa.Store); ok {
			if x, ok := w.Eval(st.Val); ok {
				w.cells[st.Addr] = x
			} else {
				delete(w.cells, st.Addr)
			}
		}
		return
	}
	if w.Oracle != nil {
		if x, ok := w.Oracle(v); ok {
			w.vals[v] = x
			return
		}
	}
	switch x := ins.(type) {
	case *ssa.Phi:
		for i, p := range x.Block().Preds {
			if p == prev {
				if e, ok := w.Eval(x.Edges[i]); ok {
					w.vals[x] = e
				} else {
					w.vals[x] = WVal{}
				}
			}
		}
	case *ssa.UnOp:
		switch x.Op {
		case token.NOT:
			if e, ok := w.Eval(x.X); ok && e.Kind == 'b' {
				w.vals[x] = WBool(!e.B)
			}
		case token.SUB:
			if e, ok := w.Eval(x.X); ok && e.Kind == 'i' {
				w.vals[x] = WInt(-e.I)
			}
		case token.MUL:
			if c, ok := w.cells[x.X]; ok {
				w.vals[x] = c
			}
		}
	case *ssa.BinOp:
		a, oka := w.Eval(x.X)
		b, okb := w.Eval(x.Y)
		if !oka || !okb {
			// comparisons of a pointer/interface with nil are supplied by the oracle
			return
		}
		if a.Kind == 'n' && b.Kind == 'n' {
			switch x.Op {
			case token.EQL:
				w.vals[x] = WBool(true)
			case token.NEQ:
				w.vals[x] = WBool(false)
			}
			return
		}
		if a.Kind == 'i' && b.Kind == 'i' {
			switch x.Op {
			case token.ADD:
				w.vals[x] = WInt(a.I + b.I)
			case token.SUB:
				w.vals[x] = WInt(a.I - b.I)
			case token.MUL:
				w.vals[x] = WInt(a.I * b.I)
			case token.EQL:
				w.vals[x] = WBool(a.I == b.I)
			case token.NEQ:
				w.vals[x] = WBool(a.I != b.I)
			case token.LSS:
				w.vals[x] = WBool(a.I < b.I)
			case token.LEQ:
				w.vals[x] = WBool(a.I <= b.I)
			case token.GTR:
				w.vals[x] = WBool(a.I > b.I)
			case token.GEQ:
				w.vals[x] = WBool(a.I >= b.I)
			}
		} else if a.Kind == 'b' && b.Kind == 'b' {
			switch x.Op {
			case token.EQL:
				w.vals[x] = WBool(a.B == b.B)
			case token.NEQ:
				w.vals[x] = WBool(a.B != b.B)
			case token.AND:
				w.vals[x] = WBool(a.B && b.B)
			case token.OR:
				w.vals[x] = WBool(a.B || b.B)
			}
		}
	case *ssa.Extract:
		if t, ok := w.tuples[x.Tuple]; ok && x.Index < len(t) && t[x.Index].Kind != 0 {
			w.vals[x] = t[x.Index]
		}
	case *ssa.Call:
		if b, ok := x.Call.Value.(*ssa.Builtin); ok && (b.Name() == "min" || b.Name() == "max") {
			var acc *int64
			for _, a := range x.Call.Args {
				e, ok := w.Eval(a)
				if !ok || e.Kind != 'i' {
					return
				}
				if acc == nil {
					v := e.I
					acc = &v
				} else if (b.Name() == "min" && e.I < *acc) || (b.Name() == "max" && e.I > *acc) {
					*acc = e.I
				}
			}
			if acc != nil {
				w.vals[x] = WInt(*acc)
			}
			return
		}
		// a call of a function with a body and one int/bool result (a helper the
		// computation was extracted into): walk it with the arguments that are known
		callee := x.Call.StaticCallee()
		if callee == nil || callee.Blocks == nil || w.depth >= 4 || x.Call.Signature().Results().Len() < 1 {
			return
		}
		nres := x.Call.Signature().Results().Len()
		bind := map[ssa.Value]WVal{}
		args := x.Call.Args
		for i, par := range callee.Params {
			if i < len(args) {
				if e, ok := w.Eval(args[i]); ok {
					bind[par] = e
				}
			}
		}
		sub := &Walker{Fn: callee, depth: w.depth + 1}
		sub.Oracle = func(v ssa.Value) (WVal, bool) {
			if b, ok := bind[v]; ok {
				return b, true
			}
			if w.Oracle != nil {
				return w.Oracle(v)
			}
			return WVal{}, false
		}
		var res WVal
		var tuple []WVal
		got := false
		sub.OnInstr = func(ins ssa.Instruction, sw *Walker) bool {
			if ret, ok := ins.(*ssa.Return); ok {
				if len(ret.Results) == 1 && nres == 1 {
					if r, ok := sw.Eval(ret.Results[0]); ok {
						res, got = r, true
					}
				} else if len(ret.Results) == nres {
					tuple = make([]WVal, nres)
					for k, rv := range ret.Results {
						if r, ok := sw.Eval(rv); ok {
							tuple[k] = r
						}
					}
					got = true
				}
				return true
			}
			return false
		}
		sub.Run()
		if got && sub.Err == "" {
			if nres == 1 {
				w.vals[x] = res
			} else {
				if w.tuples == nil {
					w.tuples = map[ssa.Value][]WVal{}
				}
				w.tuples[x] = tuple
			}
		}
	}
}

// Run walks from the entry block. It stops at a Return/Panic, when OnInstr
// says so, when a branch condition cannot be evaluated (Err is set), or after
// a step bound.
func (w *Walker) Run() {
	w.vals = map[ssa.Value]WVal{}
	w.cells = map[ssa.Value]WVal{}
	for k, v := range w.InitCells {
		w.cells[k] = v
	}
	if len(w.Fn.Blocks) == 0 {
		w.Err = "function has no body"
		return
	}
	b := w.Fn.Blocks[0]
	var prev *ssa.BasicBlock
	for {
		for _, ins := range b.Instrs {
			w.steps++
			if w.steps > 20000 {
				w.Err = "step bound exceeded (loop?)"
				return
			}
			w.exec(ins, prev)
			if w.OnInstr != nil && w.OnInstr(ins, w) {
				return
			}
			switch x := ins.(type) {
			case *ssa.Return, *ssa.Panic:
				return
			case *ssa.Jump:
				prev, b = b, b.Succs[0]
			case *ssa.If:
				c, ok := w.Eval(x.Cond)
				if (!ok || c.Kind != 'b') && w.Target != nil {
					tb := w.Target.Block()
					d0, d1 := blockDist(b.Succs[0], tb), blockDist(b.Succs[1], tb)
					switch {
					case d0 >= 0 && (d1 < 0 || d0 < d1):
						c, ok = WBool(true), true
					case d1 >= 0 && (d0 < 0 || d1 < d0):
						c, ok = WBool(false), true
					}
				}
				if !ok || c.Kind != 'b' {
					w.Err = fmt.Sprintf("cannot evaluate branch condition %s (%s)", x.Cond.Name(), x.Cond.String())
					return
				}
				if c.B {
					prev, b = b, b.Succs[0]
				} else {
					prev, b = b, b.Succs[1]
				}
			}
		}
		if len(b.Instrs) == 0 {
			return
		}
	}
}

// IsCallTo reports whether v is a call (static or invoke) to a method/function
// with the given name whose receiver/package matches.
func IsCallTo(v ssa.Value, name string) bool {
	c, ok := v.(*ssa.Call)
	if !ok {
		return false
	}
	obj := CalleeObj(c.Common())
	return obj != nil && obj.Name() == name
}

// BoolType reports whether t is a boolean type.
func BoolType(t types.Type) bool {
	b, ok := t.Underlying().(*types.Basic)
	return ok && b.Info()&types.IsBoolean != 0
}

// blockDist is the length of the shortest CFG path from a to b, or -1.
func blockDist(a, b *ssa.BasicBlock) int {
	if a == b {
		return 0
	}
	dist := map[*ssa.BasicBlock]int{a: 0}
	q := []*ssa.BasicBlock{a}
	for len(q) > 0 {
		x := q[0]
		q = q[1:]
		for _, s := range x.Succs {
			if _, ok := dist[s]; !ok {
				dist[s] = dist[x] + 1
				if s == b {
					return dist[s]
				}
				q = append(q, s)
			}
		}
	}
	return -1
}
