package core

import (
	"fmt"
	"go/ast"
	"go/constant"
	"go/token"
	"go/types"
	"sort"
	"strings"

	"golang.org/x/tools/go/packages"
	"golang.org/x/tools/go/ssa"
)

// FuncName renders a stable, module-relative name:
// internal/check.(*Engine).checkDirect$1
func FuncName(fn *ssa.Function) string {
	if fn == nil {
		return "<nil>"
	}
	if o := fn.Origin(); o != nil {
		fn = o
	}
	s := fn.String()
	s = strings.ReplaceAll(s, KetoMod+"/", "")
	s = strings.ReplaceAll(s, KetoMod, "keto")
	return s
}

// FuncPkg returns the types.Package a function (or closure / instantiation)
// belongs to.
func FuncPkg(fn *ssa.Function) *types.Package {
	for f := fn; f != nil; f = f.Parent() {
		g := f
		if o := g.Origin(); o != nil {
			g = o
		}
		if g.Pkg != nil {
			return g.Pkg.Pkg
		}
		if obj := g.Object(); obj != nil && obj.Pkg() != nil {
			return obj.Pkg()
		}
	}
	return nil
}

// KetoFuncs returns every source function (incl. closures) of the keto
// package with module-relative path rel, non-test files only, sorted by name.
func (p *Program) KetoFuncs(rel string) []*ssa.Function {
	path := KetoMod
	if rel != "" {
		path += "/" + rel
	}
	var out []*ssa.Function
	for fn := range p.AllFunctions() {
		if fn.Blocks == nil || fn.Synthetic != "" && !strings.Contains(fn.Synthetic, "instance of") && !strings.Contains(fn.Synthetic, "range-over-func") {
			continue
		}
		pk := FuncPkg(fn)
		if pk == nil || pk.Path() != path {
			continue
		}
		if fn.Origin() != nil && fn.Origin() != fn {
			// analyse generic code once, through one instantiation per origin:
			// keep instantiations (they have concrete bodies) but dedupe below
		}
		if p.IsTestFile(fn.Pos()) {
			continue
		}
		out = append(out, fn)
	}
	sort.Slice(out, func(i, j int) bool {
		a, b := FuncName(out[i]), FuncName(out[j])
		if a != b {
			return a < b
		}
		return out[i].String() < out[j].String()
	})
	return out
}

// Func finds a function by its FuncName.
func (p *Program) Func(name string) *ssa.Function {
	if p.byName == nil {
		p.byName = map[string]*ssa.Function{}
		for fn := range p.AllFunctions() {
			if pk := FuncPkg(fn); pk != nil && IsKeto(pk) {
				n := FuncName(fn)
				if old, ok := p.byName[n]; !ok || (old.Blocks == nil && fn.Blocks != nil) {
					p.byName[n] = fn
				}
			}
		}
	}
	return p.byName[name]
}

// Closures returns fn and all closures nested in it (depth-first).
func Closures(fn *ssa.Function) []*ssa.Function {
	out := []*ssa.Function{fn}
	for _, a := range fn.AnonFuncs {
		out = append(out, Closures(a)...)
	}
	return out
}

// Outermost returns the top-level function enclosing fn.
func Outermost(fn *ssa.Function) *ssa.Function {
	for fn.Parent() != nil {
		fn = fn.Parent()
	}
	return fn
}

// Instrs iterates over all instructions of fn.
func Instrs(fn *ssa.Function, f func(b *ssa.BasicBlock, i int, ins ssa.Instruction)) {
	for _, b := range fn.Blocks {
		for i, ins := range b.Instrs {
			f(b, i, ins)
		}
	}
}

// StaticCallee of a call instruction or nil.
func StaticCallee(ins ssa.Instruction) *ssa.Function {
	if c, ok := ins.(ssa.CallInstruction); ok {
		return c.Common().StaticCallee()
	}
	return nil
}

// CalleeObj returns the types.Func a call resolves to statically: the static
// callee's object or the interface method for invoke-mode calls.
func CalleeObj(c *ssa.CallCommon) *types.Func {
	if c.IsInvoke() {
		return c.Method
	}
	if f := c.StaticCallee(); f != nil {
		if o := f.Origin(); o != nil {
			f = o
		}
		if obj, ok := f.Object().(*types.Func); ok {
			return obj
		}
	}
	return nil
}

// ObjName renders pkgpath.Recv.Name for a types.Func (module-relative for keto).
func ObjName(f *types.Func) string {
	if f == nil {
		return ""
	}
	sig := f.Type().(*types.Signature)
	pk := ""
	if f.Pkg() != nil {
		pk = f.Pkg().Path()
		if IsKeto(f.Pkg()) {
			pk = RelPath(pk)
			if pk == "" {
				pk = "keto"
			}
		}
	}
	if r := sig.Recv(); r != nil {
		t := r.Type()
		ptr := ""
		if pt, ok := t.(*types.Pointer); ok {
			t = pt.Elem()
			ptr = "*"
		}
		if n, ok := t.(*types.Named); ok {
			return fmt.Sprintf("%s.(%s%s).%s", pk, ptr, n.Obj().Name(), f.Name())
		}
		return fmt.Sprintf("%s.(%s).%s", pk, types.TypeString(t, nil), f.Name())
	}
	return pk + "." + f.Name()
}

// IsNamed reports whether t (after pointer deref) is the named type pkgPath.name.
func IsNamed(t types.Type, pkgPath, name string) bool {
	if t == nil {
		return false
	}
	if p, ok := t.(*types.Pointer); ok {
		t = p.Elem()
	}
	if a, ok := t.(*types.Alias); ok {
		t = types.Unalias(a)
	}
	n, ok := t.(*types.Named)
	if !ok {
		return false
	}
	o := n.Obj()
	return o.Name() == name && o.Pkg() != nil && o.Pkg().Path() == pkgPath
}

// NamedOf returns the *types.Named behind t (through pointers and aliases).
func NamedOf(t types.Type) *types.Named {
	for {
		switch x := t.(type) {
		case *types.Pointer:
			t = x.Elem()
		case *types.Alias:
			t = types.Unalias(x)
		case *types.Named:
			return x
		default:
			return nil
		}
	}
}

// LookupType finds a named type in a loaded package.
func (p *Program) LookupType(pkgPath, name string) types.Type {
	pk := p.ByPath[pkgPath]
	if pk == nil || pk.Types == nil {
		return nil
	}
	o := pk.Types.Scope().Lookup(name)
	if o == nil {
		return nil
	}
	return o.Type()
}

// LookupObj finds a package-level object.
func (p *Program) LookupObj(pkgPath, name string) types.Object {
	pk := p.ByPath[pkgPath]
	if pk == nil || pk.Types == nil {
		return nil
	}
	return pk.Types.Scope().Lookup(name)
}

// FuncDecl finds the declaration of a function or method in a package:
// name is "F" or "T.M".
func FuncDecl(pkg *packages.Package, name string) *ast.FuncDecl {
	recv, fn := "", name
	if i := strings.IndexByte(name, '.'); i >= 0 {
		recv, fn = name[:i], name[i+1:]
	}
	for _, f := range pkg.Syntax {
		for _, d := range f.Decls {
			fd, ok := d.(*ast.FuncDecl)
			if !ok || fd.Name.Name != fn {
				continue
			}
			if recv == "" && fd.Recv == nil {
				return fd
			}
			if recv != "" && fd.Recv != nil && len(fd.Recv.List) == 1 {
				t := fd.Recv.List[0].Type
				if s, ok := t.(*ast.StarExpr); ok {
					t = s.X
				}
				if ix, ok := t.(*ast.IndexExpr); ok {
					t = ix.X
				}
				if id, ok := t.(*ast.Ident); ok && id.Name == recv {
					return fd
				}
			}
		}
	}
	return nil
}

// EnclosingFuncDecl returns the FuncDecl containing pos.
func EnclosingFuncDecl(pkg *packages.Package, pos token.Pos) *ast.FuncDecl {
	f := FileOf(pkg, pos)
	if f == nil {
		return nil
	}
	for _, d := range f.Decls {
		if fd, ok := d.(*ast.FuncDecl); ok && fd.Pos() <= pos && pos <= fd.End() {
			return fd
		}
	}
	return nil
}

// DeclName renders T.M / F for a FuncDecl.
func DeclName(fd *ast.FuncDecl) string {
	if fd.Recv != nil && len(fd.Recv.List) == 1 {
		t := fd.Recv.List[0].Type
		ptr := ""
		if s, ok := t.(*ast.StarExpr); ok {
			t = s.X
			ptr = "*"
		}
		if ix, ok := t.(*ast.IndexExpr); ok {
			t = ix.X
		}
		if id, ok := t.(*ast.Ident); ok {
			return "(" + ptr + id.Name + ")." + fd.Name.Name
		}
	}
	return fd.Name.Name
}

// ConstString returns the constant string value of an expression, if any.
func ConstString(info *types.Info, e ast.Expr) (string, bool) {
	tv, ok := info.Types[e]
	if !ok || tv.Value == nil || tv.Value.Kind() != constant.String {
		return "", false
	}
	return constant.StringVal(tv.Value), true
}

// SortedKeys returns the sorted keys of a string-keyed map.
func SortedKeys[V any](m map[string]V) []string {
	out := make([]string, 0, len(m))
	for k := range m {
		out = append(out, k)
	}
	sort.Strings(out)
	return out
}
