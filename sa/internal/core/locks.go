package core

import (
	"fmt"
	"go/types"
	"sort"
	"strings"

	"golang.org/x/tools/go/ssa"
)

// A12 -- lock discipline. A field of a struct that has a sync.Mutex/RWMutex
// (named or embedded) is "guarded" when some non-constructor method writes it
// while holding that mutex. Every other access to a guarded field must hold
// the mutex (exclusively for writes), or be in a function all of whose callers
// hold it at the call, or act on an object that was allocated in the same
// function (constructor, not yet shared).

type lockOp struct {
	ins    ssa.Instruction
	mutex  string // field name of the mutex
	base   string
	kind   string // Lock | RLock | Unlock | RUnlock
	defer_ bool
	owner  *types.Named
}

func isMutexType(t types.Type) (bool, bool) {
	if IsNamed(t, "sync", "Mutex") {
		return true, false
	}
	if IsNamed(t, "sync", "RWMutex") {
		return true, true
	}
	return false, false
}

// mutexFieldsOf lists the mutex fields (named or embedded) of a struct type.
func mutexFieldsOf(t types.Type) []string {
	if p, ok := t.Underlying().(*types.Pointer); ok {
		t = p.Elem()
	}
	st, ok := t.Underlying().(*types.Struct)
	if !ok {
		return nil
	}
	var out []string
	for i := 0; i < st.NumFields(); i++ {
		if ok, _ := isMutexType(st.Field(i).Type()); ok {
			out = append(out, st.Field(i).Name())
		}
	}
	return out
}

// lockOps finds the Lock/Unlock calls of fn with the object whose mutex is used.
func lockOps(fn *ssa.Function) []lockOp {
	var out []lockOp
	Instrs(fn, func(_ *ssa.BasicBlock, _ int, ins ssa.Instruction) {
		ci, ok := ins.(ssa.CallInstruction)
		if !ok {
			return
		}
		obj := CalleeObj(ci.Common())
		if obj == nil || obj.Pkg() == nil || obj.Pkg().Path() != "sync" {
			return
		}
		switch obj.Name() {
		case "Lock", "RLock", "Unlock", "RUnlock":
		default:
			return
		}
		if len(ci.Common().Args) == 0 {
			return
		}
		fa, ok := ci.Common().Args[0].(*ssa.FieldAddr)
		if !ok {
			return
		}
		fv := fieldVar(fa.X.Type(), fa.Field)
		if fv == nil {
			return
		}
		_, isDefer := ins.(*ssa.Defer)
		out = append(out, lockOp{ins: ins, mutex: fv.Name(), base: objRoot(fa.X), kind: obj.Name(), defer_: isDefer, owner: NamedOf(fa.X.Type())})
	})
	return out
}

// objRoot gives a canonical key for the object a field address is taken
// from: parameters, allocations and captured variables by identity, nested
// struct fields by path (embedded fields are transparent).
func objRoot(v ssa.Value) string {
	for i := 0; i < 8; i++ {
		o := ValueOrigin(v)
		switch x := o.(type) {
		case *ssa.FieldAddr:
			if st, ok := x.X.Type().Underlying().(*types.Pointer); ok {
				if s, ok := st.Elem().Underlying().(*types.Struct); ok {
					if s.Field(x.Field).Embedded() {
						v = x.X
						continue
					}
					return objRoot(x.X) + "." + s.Field(x.Field).Name()
				}
			}
			return fmt.Sprintf("v:%p", o)
		case *ssa.Parameter:
			return fmt.Sprintf("param:%s@%p", x.Name(), x.Parent())
		case *ssa.Alloc:
			return fmt.Sprintf("alloc:%p", x)
		default:
			return fmt.Sprintf("v:%p", o)
		}
	}
	return fmt.Sprintf("v:%p", v)
}

func isFreshKey(k string) bool { return strings.HasPrefix(k, "alloc:") }

// FieldAccess is one access to a struct field.
type FieldAccess struct {
	Fn    *ssa.Function
	Ins   ssa.Instruction
	Field *types.Var
	Owner *types.Named
	Base  string
	Write bool
}

// accessesIn lists accesses to fields of struct types that have a mutex.
func accessesIn(fn *ssa.Function) []FieldAccess {
	var out []FieldAccess
	Instrs(fn, func(_ *ssa.BasicBlock, _ int, ins ssa.Instruction) {
		fa, ok := ins.(*ssa.FieldAddr)
		if !ok {
			return
		}
		owner := NamedOf(fa.X.Type())
		if owner == nil || len(mutexFieldsOf(owner)) == 0 {
			return
		}
		fv := fieldVar(fa.X.Type(), fa.Field)
		if fv == nil {
			return
		}
		if ok, _ := isMutexType(fv.Type()); ok {
			return
		}
		if fa.Referrers() == nil {
			return
		}
		// classify uses of the address
		for _, ref := range *fa.Referrers() {
			write := false
			switch x := ref.(type) {
			case *ssa.Store:
				write = x.Addr == ssa.Value(fa)
				if !write {
					continue
				}
			case *ssa.UnOp:
				// a load: a later map update / delete / append-store through it is a write to the shared structure
				if x.Referrers() != nil {
					for _, r2 := range *x.Referrers() {
						switch y := r2.(type) {
						case *ssa.MapUpdate:
							if y.Map == ssa.Value(x) {
								write = true
							}
						case *ssa.Call:
							if b, ok := y.Call.Value.(*ssa.Builtin); ok && b.Name() == "delete" && len(y.Call.Args) > 0 && y.Call.Args[0] == ssa.Value(x) {
								write = true
							}
						}
					}
				}
			case *ssa.FieldAddr, *ssa.IndexAddr:
				// nested access: counted at the nested site for embedded structs
				continue
			default:
				continue
			}
			out = append(out, FieldAccess{Fn: fn, Ins: ref, Field: fv, Owner: owner, Base: objRoot(fa.X), Write: write})
		}
	})
	return out
}

// heldAt: does fn hold a mutex of base at ins (exclusive if needExcl)? Returns the mutex name.
func heldAt(fn *ssa.Function, ops []lockOp, base string, at ssa.Instruction, needExcl bool) (string, bool) {
	for _, l := range ops {
		if l.kind != "Lock" && l.kind != "RLock" {
			continue
		}
		if l.base != base {
			continue
		}
		if needExcl && l.kind == "RLock" {
			continue
		}
		if !InstrDominates(l.ins, at) {
			continue
		}
		// released by a deferred unlock, or by an unlock that comes after the access
		for _, u := range ops {
			if u.base != base || u.mutex != l.mutex {
				continue
			}
			if (u.kind == "Unlock" && l.kind == "Lock") || (u.kind == "RUnlock" && l.kind == "RLock") {
				if u.defer_ {
					return l.mutex, true
				}
				// an explicit unlock before the access releases it
				if InstrDominates(u.ins, at) && InstrDominates(l.ins, u.ins) {
					continue
				}
				return l.mutex, true
			}
		}
	}
	return "", false
}

// LockFinding is one obligation of the lock discipline.
type LockFinding struct {
	OK     bool
	Fn     *ssa.Function
	Pos    ssa.Instruction
	Field  string
	Detail string
}

// LockDiscipline analyses the given packages.
func LockDiscipline(p *Program, rels []string) (findings []LockFinding, guarded map[string]string) {
	var fns []*ssa.Function
	for _, rel := range rels {
		fns = append(fns, p.KetoFuncs(rel)...)
	}
	ops := map[*ssa.Function][]lockOp{}
	var all []FieldAccess
	for _, fn := range fns {
		ops[fn] = lockOps(fn)
		all = append(all, accessesIn(fn)...)
	}
	isFresh := func(a FieldAccess) bool { return isFreshKey(a.Base) }
	// infer guarded fields: written under an exclusive lock of the same object outside a constructor
	guardedBy := map[*types.Var]string{}
	for _, a := range all {
		if !a.Write || isFresh(a) {
			continue
		}
		if m, ok := heldAt(a.Fn, ops[a.Fn], a.Base, a.Ins, true); ok {
			guardedBy[a.Field] = m
		}
	}
	guarded = map[string]string{}
	for f, m := range guardedBy {
		guarded[f.Pkg().Name()+"."+ownerName(all, f)+"."+f.Name()] = m
	}
	// callers index
	callers := map[*ssa.Function][]ssa.CallInstruction{}
	for _, fn := range fns {
		Instrs(fn, func(_ *ssa.BasicBlock, _ int, ins ssa.Instruction) {
			if ci, ok := ins.(ssa.CallInstruction); ok {
				if sc := ci.Common().StaticCallee(); sc != nil {
					callers[sc] = append(callers[sc], ci)
				}
			}
		})
	}
	var callerHolds func(fn *ssa.Function, recvIdx int, suffix string, excl bool, depth int) (bool, string)
	callerHolds = func(fn *ssa.Function, recvIdx int, suffix string, excl bool, depth int) (bool, string) {
		cs := callers[fn]
		if len(cs) == 0 || depth > 2 {
			return false, "no caller holds it"
		}
		for _, c := range cs {
			cf := c.Parent()
			if recvIdx >= len(c.Common().Args) {
				return false, "caller " + FuncName(cf) + " does not pass the object"
			}
			argBase := objRoot(c.Common().Args[recvIdx])
			if isFreshKey(argBase) {
				continue // constructor: the object is not shared yet
			}
			base := argBase + suffix
			if _, ok := heldAt(cf, ops[cf], base, c, excl); ok {
				continue
			}
			// the caller may itself be called with the lock held
			idx := -1
			sfx := suffix
			for i, par := range cf.Params {
				if objRoot(par) == argBase {
					idx = i
				} else if strings.HasPrefix(argBase, objRoot(par)+".") {
					idx = i
					sfx = strings.TrimPrefix(argBase, objRoot(par)) + suffix
				}
			}
			if idx >= 0 {
				if ok, _ := callerHolds(cf, idx, sfx, excl, depth+1); ok {
					continue
				}
			}
			return false, "its caller " + FuncName(cf) + " does not hold the lock at " + p.Pos(c.Pos())
		}
		return true, ""
	}
	for _, a := range all {
		m, isGuarded := guardedBy[a.Field]
		if !isGuarded {
			continue
		}
		name := ownerName(all, a.Field) + "." + a.Field.Name()
		if isFresh(a) {
			findings = append(findings, LockFinding{OK: true, Fn: a.Fn, Pos: a.Ins, Field: name, Detail: "access on an object allocated in this function (not shared yet)"})
			continue
		}
		if _, ok := heldAt(a.Fn, ops[a.Fn], a.Base, a.Ins, a.Write); ok {
			findings = append(findings, LockFinding{OK: true, Fn: a.Fn, Pos: a.Ins, Field: name, Detail: "under " + m})
			continue
		}
		// all callers hold it?
		idx := -1
		top := a.Fn
		suffix := ""
		for i, par := range top.Params {
			if objRoot(par) == a.Base {
				idx = i
			} else if strings.HasPrefix(a.Base, objRoot(par)+".") {
				idx = i
				suffix = strings.TrimPrefix(a.Base, objRoot(par))
			}
		}
		if idx >= 0 {
			if ok, why := callerHolds(top, idx, suffix, a.Write, 0); ok {
				findings = append(findings, LockFinding{OK: true, Fn: a.Fn, Pos: a.Ins, Field: name, Detail: "every caller holds " + m + " at the call (or owns a fresh object)"})
				continue
			} else {
				kind := "read"
				if a.Write {
					kind = "written"
				}
				findings = append(findings, LockFinding{OK: false, Fn: a.Fn, Pos: a.Ins, Field: name, Detail: fmt.Sprintf("%s is written under %s elsewhere but %s here without it (%s)", name, m, kind, why)})
				continue
			}
		}
		kind := "read"
		if a.Write {
			kind = "written"
		}
		findings = append(findings, LockFinding{OK: false, Fn: a.Fn, Pos: a.Ins, Field: name, Detail: fmt.Sprintf("%s is written under %s elsewhere but %s here without holding it", name, m, kind)})
	}
	// a struct that declares a mutex nobody ever locks, while sibling fields
	// of shared (not freshly allocated) objects are written: the declaration
	// states the belief that the lock is needed, no code takes it
	lockedOwners := map[*types.TypeName]bool{}
	for _, fn := range fns {
		for _, l := range ops[fn] {
			if l.owner != nil && (l.kind == "Lock" || l.kind == "RLock") {
				lockedOwners[l.owner.Obj()] = true
			}
		}
	}
	for _, a := range all {
		if _, isGuarded := guardedBy[a.Field]; isGuarded || !a.Write || isFresh(a) || lockedOwners[a.Owner.Obj()] {
			continue
		}
		name := ownerName(all, a.Field) + "." + a.Field.Name()
		idx := -1
		suffix := ""
		for i, par := range a.Fn.Params {
			if objRoot(par) == a.Base {
				idx = i
			} else if strings.HasPrefix(a.Base, objRoot(par)+".") {
				idx = i
				suffix = strings.TrimPrefix(a.Base, objRoot(par))
			}
		}
		if idx >= 0 {
			if ok, _ := callerHolds(a.Fn, idx, suffix, true, 0); ok {
				findings = append(findings, LockFinding{OK: true, Fn: a.Fn, Pos: a.Ins, Field: name, Detail: "every caller holds the lock at the call (or owns a fresh object)"})
				continue
			}
		}
		findings = append(findings, LockFinding{OK: false, Fn: a.Fn, Pos: a.Ins, Field: name,
			Detail: fmt.Sprintf("%s declares %v which no code locks any more, but %s is written here on a shared object", a.Owner.Obj().Name(), mutexFieldsOf(a.Owner), name)})
	}
	// re-entrancy: a method that holds a lock of its receiver calls a method of the same receiver that takes it
	takes := map[*ssa.Function]map[string]bool{}
	for _, fn := range fns {
		if fn.Signature.Recv() == nil || len(fn.Params) == 0 {
			continue
		}
		for _, l := range ops[fn] {
			if (l.kind == "Lock" || l.kind == "RLock") && l.base == objRoot(fn.Params[0]) {
				if takes[fn] == nil {
					takes[fn] = map[string]bool{}
				}
				takes[fn][l.mutex] = true
			}
		}
	}
	for _, fn := range fns {
		if fn.Signature.Recv() == nil || len(fn.Params) == 0 {
			continue
		}
		Instrs(fn, func(_ *ssa.BasicBlock, _ int, ins ssa.Instruction) {
			ci, ok := ins.(ssa.CallInstruction)
			if !ok {
				return
			}
			sc := ci.Common().StaticCallee()
			if sc == nil || takes[sc] == nil || len(ci.Common().Args) == 0 {
				return
			}
			if objRoot(ci.Common().Args[0]) != objRoot(fn.Params[0]) {
				return
			}
			for m := range takes[sc] {
				if hm, ok := heldAt(fn, ops[fn], objRoot(fn.Params[0]), ins, false); ok && hm == m {
					findings = append(findings, LockFinding{OK: false, Fn: fn, Pos: ins, Field: "re-entrant " + m,
						Detail: fmt.Sprintf("%s holds %s and calls %s, which acquires %s again on the same object: with a writer waiting in between both block forever (sync.RWMutex forbids recursive read locking)", FuncName(fn), m, FuncName(sc), m)})
				}
			}
		})
	}
	sort.Slice(findings, func(i, j int) bool {
		a, b := findings[i], findings[j]
		if FuncName(a.Fn) != FuncName(b.Fn) {
			return FuncName(a.Fn) < FuncName(b.Fn)
		}
		return a.Pos.Pos() < b.Pos.Pos()
	})
	return findings, guarded
}

func ownerName(all []FieldAccess, f *types.Var) string {
	for _, a := range all {
		if a.Field == f {
			return a.Owner.Obj().Name()
		}
	}
	return "?"
}

var _ = strings.Contains

// LockPairing: every Lock/RLock is released on every path to a return -- by a
// deferred unlock registered after it, or by an explicit unlock that every
// path from the lock to a return passes. A mutex left locked on one exit
// blocks the next locker forever (sync.Mutex.Lock cannot be cancelled).
type PairFinding struct {
	OK     bool
	Fn     *ssa.Function
	Pos    ssa.Instruction
	Mutex  string
	Detail string
}

func LockPairing(p *Program, rels []string) []PairFinding {
	var out []PairFinding
	for _, rel := range rels {
		for _, fn := range p.KetoFuncs(rel) {
			ops := lockOps(fn)
			for _, l := range ops {
				if (l.kind != "Lock" && l.kind != "RLock") || l.defer_ {
					continue
				}
				want := "Unlock"
				if l.kind == "RLock" {
					want = "RUnlock"
				}
				matches := func(u lockOp) bool { return u.kind == want && u.base == l.base && u.mutex == l.mutex }
				// a deferred unlock after the lock that the lock dominates... (defer registered on every path from the lock)
				deferred := false
				for _, u := range ops {
					if matches(u) && u.defer_ && InstrDominates(l.ins, u.ins) {
						// the defer must be registered before any return reachable from the lock: it is, when it
						// post-dominates the lock within its block chain; accept the usual `Lock(); defer Unlock()` shape
						// (same block) and defers in a block every path from the lock passes
						if u.ins.Block() == l.ins.Block() {
							deferred = true
						} else if mustPass(l.ins, u.ins) {
							deferred = true
						}
					}
				}
				if deferred {
					out = append(out, PairFinding{OK: true, Fn: fn, Pos: l.ins, Mutex: l.mutex, Detail: "released by a deferred " + want + " on every exit"})
					continue
				}
				unlockBlocks := map[*ssa.BasicBlock]int{}
				for _, u := range ops {
					if matches(u) && !u.defer_ {
						idx := instrIndex(u.ins)
						if cur, ok := unlockBlocks[u.ins.Block()]; !ok || idx < cur {
							unlockBlocks[u.ins.Block()] = idx
						}
					}
				}
				// search for a return reachable from the lock without passing an unlock
				lb, li := l.ins.Block(), instrIndex(l.ins)
				var leak ssa.Instruction
				if ui, ok := unlockBlocks[lb]; !(ok && ui > li) {
					seen := map[*ssa.BasicBlock]bool{}
					var walk func(b *ssa.BasicBlock)
					walk = func(b *ssa.BasicBlock) {
						if seen[b] || leak != nil {
							return
						}
						seen[b] = true
						if _, ok := unlockBlocks[b]; ok {
							return
						}
						if len(b.Instrs) > 0 {
							switch b.Instrs[len(b.Instrs)-1].(type) {
							case *ssa.Return:
								leak = b.Instrs[len(b.Instrs)-1]
								return
							}
						}
						for _, s := range b.Succs {
							walk(s)
						}
					}
					if len(lb.Instrs) > 0 {
						if ret, isRet := lb.Instrs[len(lb.Instrs)-1].(*ssa.Return); isRet {
							leak = ret
						}
					}
					for _, s := range lb.Succs {
						walk(s)
					}
				}
				if leak != nil {
					out = append(out, PairFinding{OK: false, Fn: fn, Pos: leak, Mutex: l.mutex,
						Detail: fmt.Sprintf("%s.%s() at %s is not released on the path to this return (no deferred %s, and this path passes no %s): the next %s on that object blocks forever, and cancellation cannot interrupt it", l.mutex, l.kind, p.Pos(l.ins.Pos()), want, want, l.kind)})
				} else {
					out = append(out, PairFinding{OK: true, Fn: fn, Pos: l.ins, Mutex: l.mutex, Detail: "every path from the lock to a return passes " + want})
				}
			}
		}
	}
	sort.Slice(out, func(i, j int) bool {
		if FuncName(out[i].Fn) != FuncName(out[j].Fn) {
			return FuncName(out[i].Fn) < FuncName(out[j].Fn)
		}
		return out[i].Pos.Pos() < out[j].Pos.Pos()
	})
	return out
}

func instrIndex(ins ssa.Instruction) int {
	for i, x := range ins.Block().Instrs {
		if x == ins {
			return i
		}
	}
	return -1
}

// mustPass: every path from a to a return passes b's block.
func mustPass(a, b ssa.Instruction) bool {
	target := b.Block()
	seen := map[*ssa.BasicBlock]bool{}
	ok := true
	var walk func(x *ssa.BasicBlock)
	walk = func(x *ssa.BasicBlock) {
		if seen[x] || !ok {
			return
		}
		seen[x] = true
		if x == target {
			return
		}
		if len(x.Succs) == 0 {
			ok = false
			return
		}
		for _, s := range x.Succs {
			walk(s)
		}
	}
	if a.Block() == target {
		return true
	}
	for _, s := range a.Block().Succs {
		walk(s)
	}
	return ok
}
