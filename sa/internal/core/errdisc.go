package core

import (
	"fmt"
	"go/token"
	"go/types"
	"strings"

	"golang.org/x/tools/go/ssa"
)

// A3 -- error discipline. For the error result of a "source" call, every path
// on which the error is non-nil must pass an escape: a return of the error
// (possibly wrapped), a store into an error-typed field (Result.Err), or a
// call to a recognised error sink. A use only as a logger argument is not an
// escape.

var errType = types.Universe.Lookup("error").Type()

func isErrType(t types.Type) bool { return types.Identical(t, errType) }

// ErrSite is one source call with its error value.
type ErrSite struct {
	Fn     *ssa.Function
	Call   ssa.CallInstruction
	Callee *types.Func
	Err    ssa.Value // nil when the error result is discarded
	// Param: the "site" is an error parameter of Fn (Call is nil, Err the
	// parameter): the paths start at the function's entry
	Param bool
}

// ErrSites finds the calls in fns whose callee satisfies isSource and returns
// an error.
func ErrSites(fns []*ssa.Function, isSource func(*types.Func) bool) []ErrSite {
	var out []ErrSite
	for _, fn := range fns {
		Instrs(fn, func(_ *ssa.BasicBlock, _ int, ins ssa.Instruction) {
			c, ok := ins.(ssa.CallInstruction)
			if !ok {
				return
			}
			obj := CalleeObj(c.Common())
			if obj == nil || !isSource(obj) {
				return
			}
			res := obj.Type().(*types.Signature).Results()
			idx := -1
			for i := 0; i < res.Len(); i++ {
				if isErrType(res.At(i).Type()) {
					idx = i
				}
			}
			if idx < 0 {
				return
			}
			site := ErrSite{Fn: fn, Call: c, Callee: obj}
			if v, ok := ins.(*ssa.Call); ok {
				if res.Len() == 1 {
					site.Err = v
				} else if v.Referrers() != nil {
					for _, r := range *v.Referrers() {
						if ex, ok := r.(*ssa.Extract); ok && ex.Index == idx {
							site.Err = ex
						}
					}
				}
			}
			out = append(out, site)
		})
	}
	return out
}

// ErrPolicy describes what counts as an escape / a deliberate handling.
type ErrPolicy struct {
	// IsSink: a call that consumes the error (derived argument at any position).
	IsSink func(obj *types.Func, c *ssa.CallCommon) bool
	// HandledIs: errors.Is(e, <target>) targets that are deliberate handlings
	// ("no rows"), given the second argument of errors.Is.
	HandledIs func(target ssa.Value) bool
}

// derivedSet computes the values derived from e inside fn (and closures):
// wrappers, e.Error(), phis, cells.
// DerivedSet is exported for rules that need the values an error flows into.
func DerivedSet(e ssa.Value) map[ssa.Value]bool { return derivedSet(e) }

func derivedSet(e ssa.Value) map[ssa.Value]bool {
	d := map[ssa.Value]bool{e: true}
	work := []ssa.Value{e}
	add := func(v ssa.Value) {
		if v != nil && !d[v] {
			d[v] = true
			work = append(work, v)
		}
	}
	for len(work) > 0 {
		v := work[0]
		work = work[1:]
		refs := v.Referrers()
		if refs == nil {
			continue
		}
		for _, r := range *refs {
			switch x := r.(type) {
			case *ssa.Call:
				// a call taking the error (or its message) and returning an
				// error-like or string value: a wrapper
				rt := x.Type()
				if isErrType(rt) || isErrLike(rt) || isStringType(rt) {
					add(x)
				}
			case *ssa.MakeInterface:
				add(x)
			case *ssa.ChangeInterface:
				add(x)
			case *ssa.ChangeType:
				add(x)
			case *ssa.Phi:
				add(x)
			case *ssa.TypeAssert:
				add(x)
			case *ssa.Extract:
				add(x)
			case *ssa.Store:
				if x.Val == v {
					switch a := x.Addr.(type) {
					case *ssa.Alloc:
						for _, ld := range CellLoads(a) {
							// in the storing function a load sees this store only if no
							// other store to the cell lies in between on some path
							if ld.Parent() == x.Parent() && !storeReachesLoad(x, a, ld) {
								continue
							}
							add(ld)
						}
					case *ssa.FreeVar:
						if al, ok := FreeVarBinding(a).(*ssa.Alloc); ok {
							for _, ld := range CellLoads(al) {
								add(ld)
							}
						}
					case *ssa.IndexAddr:
						// variadic packing: []any{err}
						if sl := sliceOfIndexAddr(a); sl != nil {
							add(sl)
						}
					}
				}
			case *ssa.Slice:
				add(x)
			case *ssa.MakeClosure:
				cf := x.Fn.(*ssa.Function)
				for i, b := range x.Bindings {
					if b == v && i < len(cf.FreeVars) {
						add(cf.FreeVars[i])
					}
				}
			}
		}
	}
	return d
}

func sliceOfIndexAddr(a *ssa.IndexAddr) ssa.Value {
	al, ok := a.X.(*ssa.Alloc)
	if !ok || al.Referrers() == nil {
		return nil
	}
	for _, r := range *al.Referrers() {
		if s, ok := r.(*ssa.Slice); ok {
			return s
		}
	}
	return nil
}

func isStringType(t types.Type) bool {
	b, ok := t.Underlying().(*types.Basic)
	return ok && b.Kind() == types.String
}

// isErrLike: a concrete type implementing error (e.g. *herodot.DefaultError).
func isErrLike(t types.Type) bool {
	if t == nil {
		return false
	}
	if _, ok := t.Underlying().(*types.Interface); ok {
		return false
	}
	iface := errType.Underlying().(*types.Interface)
	return types.Implements(t, iface) || types.Implements(types.NewPointer(t), iface)
}

// EscapeVerdict is the result of CheckErrEscape.
type EscapeVerdict struct {
	OK      bool
	Detail  string
	Escapes []string
	BadPos  token.Pos
}

// CheckErrEscape decides whether every non-nil path of the error escapes.
func (p *Program) CheckErrEscape(site ErrSite, pol ErrPolicy) EscapeVerdict {
	if site.Err == nil {
		return EscapeVerdict{OK: false, Detail: "the error result of " + ObjName(site.Callee) + " is discarded", BadPos: site.Call.Pos()}
	}
	fn := site.Fn
	d := derivedSet(site.Err)
	isD := func(v ssa.Value) bool { return v != nil && d[v] }
	var escapes []string
	handledEdge := map[[2]*ssa.BasicBlock]bool{}
	nilEdge := map[[2]*ssa.BasicBlock]bool{}
	isEscape := func(ins ssa.Instruction) bool {
		switch x := ins.(type) {
		case *ssa.Return:
			for _, r := range x.Results {
				if isD(r) {
					return true
				}
			}
		case *ssa.Store:
			if isD(x.Val) {
				switch a := x.Addr.(type) {
				case *ssa.FieldAddr:
					return true
				case *ssa.Global:
					return true
				case *ssa.Parameter, *ssa.UnOp:
					return true // *errp = err
				case *ssa.FreeVar:
					// a captured error variable of the enclosing function (named result)
					_ = a
					return true
				}
			}
		case *ssa.Send:
			return isD(x.X)
		case ssa.CallInstruction:
			cc := x.Common()
			has := false
			for _, a := range cc.Args {
				if isD(a) {
					has = true
				}
			}
			if cc.IsInvoke() && isD(cc.Value) {
				has = false // e.Error(): a derivation, not a sink
			}
			if !has {
				return false
			}
			if obj := CalleeObj(cc); obj != nil && pol.IsSink != nil && pol.IsSink(obj, cc) {
				return true
			}
			// the error is handed to a keto function that takes care of it itself: on
			// every path on which its parameter is non-nil it returns it, stores it in
			// a result or hands it to a sink (a helper the handling was extracted into)
			if callee := cc.StaticCallee(); callee != nil && callee.Blocks != nil && !cc.IsInvoke() {
				if pk := FuncPkg(callee); pk != nil && IsKeto(pk) {
					for i, a := range cc.Args {
						if isD(a) && i < len(callee.Params) && isErrType(callee.Params[i].Type()) && p.paramErrHandled(callee, i, pol) {
							return true
						}
					}
				}
			}
		}
		return false
	}
	// classify conditions
	for _, b := range fn.Blocks {
		if len(b.Instrs) == 0 {
			continue
		}
		ifi, ok := b.Instrs[len(b.Instrs)-1].(*ssa.If)
		if !ok {
			continue
		}
		if op, x, y, ok := BinCmp(ifi.Cond); ok && (op == token.EQL || op == token.NEQ) {
			var other ssa.Value
			if IsNilConst(y) {
				other = x
			} else if IsNilConst(x) {
				other = y
			}
			if other != nil && isD(other) && isErrType(other.Type()) {
				// edge on which the error is nil
				if op == token.NEQ {
					nilEdge[[2]*ssa.BasicBlock{b, b.Succs[1]}] = true
				} else {
					nilEdge[[2]*ssa.BasicBlock{b, b.Succs[0]}] = true
				}
			}
		}
		if c, ok := ifi.Cond.(*ssa.Call); ok {
			if obj := CalleeObj(c.Common()); obj != nil && obj.Name() == "Is" && obj.Pkg() != nil && (obj.Pkg().Path() == "errors" || obj.Pkg().Path() == "github.com/pkg/errors") {
				if len(c.Call.Args) == 2 && isD(c.Call.Args[0]) && pol.HandledIs != nil && pol.HandledIs(c.Call.Args[1]) {
					handledEdge[[2]*ssa.BasicBlock{b, b.Succs[0]}] = true
				}
			}
		}
	}
	// start right after the call (at the entry for a parameter)
	startB, startI := fn.Blocks[0], 0
	if !site.Param {
		startB = site.Call.Block()
		for i, ins := range startB.Instrs {
			if ins == site.Call.(ssa.Instruction) {
				startI = i + 1
			}
		}
	}
	handledBlocks := map[*ssa.BasicBlock]bool{}
	for e := range handledEdge {
		handledBlocks[e[1]] = true
	}
	event := func(ins ssa.Instruction) int {
		if isEscape(ins) {
			escapes = append(escapes, fmt.Sprintf("%s at %s", strings.SplitN(ins.String(), "(", 2)[0], p.Pos(ins.Pos())))
			return 1
		}
		// entering a deliberately-handled region counts as handled
		if b := ins.Block(); handledBlocks[b] && len(b.Preds) == 1 {
			// the first instruction of the block that is reported as an event
			// (PathCountFrom keeps Defer and RunDefers to itself)
			for _, first := range b.Instrs {
				switch first.(type) {
				case *ssa.Defer, *ssa.RunDefers:
					continue
				}
				if first == ins {
					return 1
				}
				break
			}
		}
		return 0
	}
	deferred := func(dfr *ssa.Defer) int {
		// a deferred closure that escapes the error through a captured cell
		return 0
	}
	skip := func(from, to *ssa.BasicBlock) bool { return nilEdge[[2]*ssa.BasicBlock{from, to}] }
	res := PathCountFrom(fn, startB, startI, event, deferred, skip)
	for ret, iv := range res {
		if iv.Lo < 1 {
			pos := ret.Pos()
			if !pos.IsValid() && site.Call != nil {
				pos = site.Call.Pos()
			}
			return EscapeVerdict{OK: false, Escapes: escapes, BadPos: pos,
				Detail: "a path on which the error of " + siteName(site) + " is non-nil reaches this return without the error being returned, stored in a result, or handed to an error sink"}
		}
	}
	if len(res) == 0 && len(escapes) == 0 {
		return EscapeVerdict{OK: false, Detail: "no return reachable and no escape of the error found", BadPos: fn.Pos()}
	}
	return EscapeVerdict{OK: true, Escapes: escapes, Detail: fmt.Sprintf("every non-nil path escapes (%d return paths)", len(res))}
}

// storeReachesLoad: is there a CFG path from the store st to the load ld (both
// in one function) on which no other store to the cell a executes?
func storeReachesLoad(st *ssa.Store, a *ssa.Alloc, ld *ssa.UnOp) bool {
	scan := func(b *ssa.BasicBlock, from int) (found, killed bool) {
		for i := from; i < len(b.Instrs); i++ {
			switch y := b.Instrs[i].(type) {
			case *ssa.UnOp:
				if y == ld {
					return true, false
				}
			case *ssa.Store:
				if y != st && y.Addr == ssa.Value(a) {
					return false, true
				}
			}
		}
		return false, false
	}
	sb := st.Block()
	si := 0
	for i, ins := range sb.Instrs {
		if ins == ssa.Instruction(st) {
			si = i + 1
		}
	}
	if f, k := scan(sb, si); f {
		return true
	} else if k {
		return false
	}
	seen := map[*ssa.BasicBlock]bool{}
	work := append([]*ssa.BasicBlock{}, sb.Succs...)
	for len(work) > 0 {
		b := work[0]
		work = work[1:]
		if seen[b] {
			continue
		}
		seen[b] = true
		f, k := scan(b, 0)
		if f {
			return true
		}
		if k {
			continue
		}
		work = append(work, b.Succs...)
	}
	return false
}

// paramErrHandled: does callee take care of its error parameter idx on every
// path on which it is non-nil (CheckErrEscape from the entry)? Memoised;
// recursion counts as "no".
func (p *Program) paramErrHandled(callee *ssa.Function, idx int, pol ErrPolicy) bool {
	key := fmt.Sprintf("%p/%d", callee, idx)
	if p.errParam == nil {
		p.errParam = map[string]int{}
	}
	switch p.errParam[key] {
	case 1:
		return true
	case 2, 3:
		return false // 3: in progress
	}
	p.errParam[key] = 3
	v := p.CheckErrEscape(ErrSite{Fn: callee, Err: callee.Params[idx], Param: true}, pol)
	if v.OK {
		p.errParam[key] = 1
	} else {
		p.errParam[key] = 2
	}
	return v.OK
}

func siteName(site ErrSite) string {
	if site.Param || site.Callee == nil {
		return "parameter " + site.Err.Name()
	}
	return ObjName(site.Callee)
}

// StoreReachesLoad is storeReachesLoad for rules: is there a path from the store st to the load
// ld of cell a (same function) on which no other store to a executes?
func StoreReachesLoad(st *ssa.Store, a *ssa.Alloc, ld *ssa.UnOp) bool {
	return storeReachesLoad(st, a, ld)
}
