package core

import (
	"crypto/sha1"
	"encoding/hex"
	"encoding/json"
	"fmt"
	"go/ast"
	"go/token"
	"go/types"
	"os"
	"path/filepath"
	"reflect"
	"regexp"
	"sort"
	"strings"
)

// Renames of declared names are behaviour-preserving, but the rules find their
// anchors (checkIsAllowed, Membership, PerPage, ...) by name in the type-checked
// program. To keep a rename from turning every rule that anchors on the name
// into "undecided", the checker keeps a table of keto's declared symbols
// (/verif/symbols.json: kind, package, owner, name, type, body shape - no source
// text, no positions) and, when the tree lacks a symbol of the table and has a
// new one of the same kind, package, owner and type, analyses the tree with the
// new name mapped back to the old one (in memory, through the loader's overlay;
// only identifiers change, so every line number stays what it is in /repo).
// A symbol that has no unique counterpart is left alone; the rules then report
// the anchor they could not find, as before.

// Symbol is one declared name of a keto package.
type Symbol struct {
	Kind  string `json:"kind"` // func method imethod type field var const
	Pkg   string `json:"pkg"`  // path relative to the module
	Owner string `json:"owner,omitempty"`
	Name  string `json:"name"`
	Sig   string `json:"sig"`             // type, printed with full package paths
	Shape string `json:"shape,omitempty"` // identifier-free hash of the body / member list
	Idx   int    `json:"idx"`             // declaration order within the package
	obj   types.Object
}

func (s Symbol) group() string { return s.Kind + "|" + s.Pkg + "|" + s.Owner }
func (s Symbol) key() string   { return s.group() + "|" + s.Name }

func typeStr(t types.Type) string {
	// parameter and result names are not part of what a declaration is: func() bool and
	// func() (ok bool) are the same signature
	if sg, ok := t.(*types.Signature); ok && sg.TypeParams() == nil && sg.RecvTypeParams() == nil {
		strip := func(tu *types.Tuple) *types.Tuple {
			var vs []*types.Var
			for i := 0; i < tu.Len(); i++ {
				vs = append(vs, types.NewVar(tu.At(i).Pos(), tu.At(i).Pkg(), "", tu.At(i).Type()))
			}
			return types.NewTuple(vs...)
		}
		t = types.NewSignatureType(nil, nil, nil, strip(sg.Params()), strip(sg.Results()), sg.Variadic())
	}
	return types.TypeString(t, func(p *types.Package) string { return p.Path() })
}

// Symbols lists the declared symbols of the keto packages of p (generated and
// test files excluded).
func Symbols(p *Program) []Symbol {
	var out []Symbol
	for _, pk := range p.KetoPackages() {
		if pk.Types == nil || pk.TypesInfo == nil {
			continue
		}
		rel := RelPath(pk.PkgPath)
		skipFile := map[*token.File]bool{}
		decls := map[types.Object]*ast.FuncDecl{}
		for i, f := range pk.Syntax {
			tf := p.Fset.File(f.Pos())
			name := ""
			if i < len(pk.CompiledGoFiles) {
				name = pk.CompiledGoFiles[i]
			}
			if ast.IsGenerated(f) || strings.HasSuffix(name, "_test.go") {
				skipFile[tf] = true
				continue
			}
			for _, d := range f.Decls {
				if fd, ok := d.(*ast.FuncDecl); ok {
					if o := pk.TypesInfo.Defs[fd.Name]; o != nil {
						decls[o] = fd
					}
				}
			}
		}
		skipped := func(o types.Object) bool {
			if !o.Pos().IsValid() {
				return true
			}
			return skipFile[p.Fset.File(o.Pos())]
		}
		var objs []types.Object
		sc := pk.Types.Scope()
		for _, n := range sc.Names() {
			o := sc.Lookup(n)
			if skipped(o) {
				continue
			}
			objs = append(objs, o)
		}
		sort.Slice(objs, func(i, j int) bool {
			a, b := p.Fset.Position(objs[i].Pos()), p.Fset.Position(objs[j].Pos())
			if a.Filename != b.Filename {
				return filepath.Base(a.Filename) < filepath.Base(b.Filename)
			}
			return a.Offset < b.Offset
		})
		idx := 0
		add := func(kind, owner string, o types.Object, sig, shape string) {
			out = append(out, Symbol{Kind: kind, Pkg: rel, Owner: owner, Name: o.Name(), Sig: sig, Shape: shape, Idx: idx, obj: o})
			idx++
		}
		for _, o := range objs {
			switch o := o.(type) {
			case *types.Func:
				add("func", "", o, typeStr(o.Type()), bodyShape(decls[o]))
			case *types.Var:
				add("var", "", o, typeStr(o.Type()), "")
			case *types.Const:
				add("const", "", o, typeStr(o.Type()), o.Val().ExactString())
			case *types.TypeName:
				if o.IsAlias() {
					add("type", "", o, "alias "+typeStr(o.Type()), "")
					continue
				}
				nt, ok := o.Type().(*types.Named)
				if !ok {
					continue
				}
				u := nt.Underlying()
				kind, shape := reflect.TypeOf(u).Elem().Name(), ""
				switch u := u.(type) {
				case *types.Struct:
					var fs []string
					for i := 0; i < u.NumFields(); i++ {
						fs = append(fs, u.Field(i).Name())
					}
					shape = strings.Join(fs, ",")
				case *types.Interface:
					var ms []string
					for i := 0; i < u.NumExplicitMethods(); i++ {
						ms = append(ms, u.ExplicitMethod(i).Name())
					}
					shape = strings.Join(ms, ",")
				default:
					// a type may mention itself (type stateFn func(*lexer) stateFn)
					shape = strings.ReplaceAll(typeStr(u), pk.PkgPath+"."+o.Name(), "·self")
				}
				var mnames []string
				for i := 0; i < nt.NumMethods(); i++ {
					mnames = append(mnames, nt.Method(i).Name())
				}
				sort.Strings(mnames)
				add("type", "", o, kind, shape+"/"+strings.Join(mnames, ","))
				var ms []*types.Func
				for i := 0; i < nt.NumMethods(); i++ {
					if m := nt.Method(i); !skipped(m) {
						ms = append(ms, m)
					}
				}
				sort.Slice(ms, func(i, j int) bool { return ms[i].Pos() < ms[j].Pos() })
				for _, m := range ms {
					sg := m.Type().(*types.Signature)
					ptr := ""
					if sg.Recv() != nil {
						if _, ok := sg.Recv().Type().(*types.Pointer); ok {
							ptr = "*"
						}
					}
					add("method", o.Name(), m, ptr+typeStr(m.Type()), bodyShape(decls[m]))
				}
				switch u := u.(type) {
				case *types.Struct:
					for i := 0; i < u.NumFields(); i++ {
						f := u.Field(i)
						emb := ""
						if f.Embedded() {
							emb = "embedded "
						}
						add("field", o.Name(), f, emb+typeStr(f.Type()), "")
					}
				case *types.Interface:
					var ims []*types.Func
					for i := 0; i < u.NumExplicitMethods(); i++ {
						ims = append(ims, u.ExplicitMethod(i))
					}
					sort.Slice(ims, func(i, j int) bool { return ims[i].Pos() < ims[j].Pos() }) // source order survives a rename, name order does not
					for _, m := range ims {
						add("imethod", o.Name(), m, typeStr(m.Type()), "")
					}
				}
			}
		}
	}
	return out
}

// bodyShape hashes a function body with every identifier blanked: equal for a
// function and its copy under any renaming.
func bodyShape(fd *ast.FuncDecl) string {
	if fd == nil || fd.Body == nil {
		return ""
	}
	h := sha1.New()
	ast.Inspect(fd.Body, func(n ast.Node) bool {
		switch n := n.(type) {
		case nil:
			h.Write([]byte{')'})
			return true
		case *ast.Ident:
			h.Write([]byte("id("))
		case *ast.BasicLit:
			fmt.Fprintf(h, "lit:%s(", n.Value)
		case *ast.BinaryExpr:
			fmt.Fprintf(h, "bin:%s(", n.Op)
		case *ast.UnaryExpr:
			fmt.Fprintf(h, "un:%s(", n.Op)
		case *ast.AssignStmt:
			fmt.Fprintf(h, "as:%s(", n.Tok)
		case *ast.BranchStmt:
			fmt.Fprintf(h, "br:%s(", n.Tok)
		case *ast.IncDecStmt:
			fmt.Fprintf(h, "inc:%s(", n.Tok)
		case *ast.CommentGroup, *ast.Comment:
			return false
		default:
			fmt.Fprintf(h, "%s(", reflect.TypeOf(n).Elem().Name())
		}
		return true
	})
	return hex.EncodeToString(h.Sum(nil))[:16]
}

// SymbolTable is the committed table; Configs records which build
// configurations it is the union of.
type SymbolTable struct {
	Note    string   `json:"note"`
	Configs []string `json:"configs"`
	Symbols []Symbol `json:"symbols"`
}

func ReadSymbolTable(path string) (*SymbolTable, error) {
	b, err := os.ReadFile(path)
	if err != nil {
		return nil, err
	}
	var t SymbolTable
	if err := json.Unmarshal(b, &t); err != nil {
		return nil, err
	}
	return &t, nil
}

// Rename is one new name mapped back to the table's name.
type Rename struct {
	Kind, Pkg, Owner, Old, New string
	How                        string
	obj                        types.Object
}

func (r Rename) String() string {
	o := r.Owner
	if o != "" {
		o += "."
	}
	return fmt.Sprintf("%s %s.%s%s (declared as %s; matched by %s)", r.Kind, r.Pkg, o, r.Old, r.New, r.How)
}

// matchRenames pairs table symbols the tree lacks with tree symbols the table
// lacks. Types first (so that owners and signatures can be compared under the
// old type names), then everything else.
func matchRenames(table []Symbol, cur []Symbol) []Rename {
	inTable := map[string]bool{}
	for _, s := range table {
		inTable[s.key()] = true
	}
	inCur := map[string]bool{}
	for _, s := range cur {
		inCur[s.key()] = true
	}
	var renames []Rename
	typeBack := map[string]string{} // pkg|New -> Old
	// hint: new name -> old name, learnt from matches made on strong evidence; a
	// method and the interface method it implements are renamed together
	hint := map[string]string{}
	allowOrder := false
	pair := func(missing, added []Symbol) {
		// both in one group; greedy: unique signature, then unique shape, then order
		for progress := true; progress && len(missing) > 0 && len(added) > 0; {
			progress = false
			for mi := 0; mi < len(missing); mi++ {
				m := missing[mi]
				pick, how := -1, ""
				var sameSig, sameBoth []int
				for ai, a := range added {
					if a.Sig == m.Sig {
						sameSig = append(sameSig, ai)
						if a.Shape == m.Shape {
							sameBoth = append(sameBoth, ai)
						}
					}
				}
				nMissingSameSig := 0
				for _, m2 := range missing {
					if m2.Sig == m.Sig {
						nMissingSameSig++
					}
				}
				switch {
				case len(sameSig) == 1 && nMissingSameSig == 1:
					pick, how = sameSig[0], "the only new "+m.Kind+" of that type there"
				case len(sameBoth) == 1:
					n := 0
					for _, m2 := range missing {
						if m2.Sig == m.Sig && m2.Shape == m.Shape {
							n++
						}
					}
					if n == 1 {
						pick, how = sameBoth[0], "type and identifier-free body shape"
					}
				}
				if pick < 0 {
					n := 0
					for _, ai := range sameSig {
						if hint[added[ai].Name] == m.Name {
							pick, how = ai, "type and the same renaming as a symbol matched by its body"
							n++
						}
					}
					if n != 1 {
						pick = -1
					}
				}
				if pick < 0 && allowOrder && len(sameBoth) > 1 {
					// interchangeable up to names (same type, same body shape) and as
					// many missing as new: declaration order decides
					var ms []Symbol
					for _, m2 := range missing {
						if m2.Sig == m.Sig && m2.Shape == m.Shape {
							ms = append(ms, m2)
						}
					}
					if len(ms) == len(sameBoth) {
						sort.Slice(ms, func(i, j int) bool { return ms[i].Idx < ms[j].Idx })
						sort.Slice(sameBoth, func(i, j int) bool { return added[sameBoth[i]].Idx < added[sameBoth[j]].Idx })
						for k, m2 := range ms {
							if m2.key() == m.key() {
								pick, how = sameBoth[k], "type, body shape and declaration order"
							}
						}
					}
				}
				if pick < 0 {
					continue
				}
				a := added[pick]
				if !strings.Contains(how, "order") && m.Name != a.Name {
					hint[a.Name] = m.Name
				}
				renames = append(renames, Rename{Kind: m.Kind, Pkg: m.Pkg, Owner: m.Owner, Old: m.Name, New: a.Name, How: how, obj: a.obj})
				if m.Kind == "type" {
					typeBack[m.Pkg+"|"+a.Name] = m.Name
				}
				missing = append(missing[:mi], missing[mi+1:]...)
				added = append(added[:pick], added[pick+1:]...)
				progress = true
				break
			}
		}
	}
	doneOld, doneNew := map[string]bool{}, map[string]bool{}
	byGroup := func(kindIsType bool, norm func(Symbol) Symbol) {
		miss, add := map[string][]Symbol{}, map[string][]Symbol{}
		for _, s := range table {
			if (s.Kind == "type") == kindIsType && !inCur[s.key()] && !doneOld[s.key()] {
				miss[s.group()] = append(miss[s.group()], s)
			}
		}
		for _, s := range cur {
			if (s.Kind == "type") != kindIsType || doneNew[s.key()] {
				continue
			}
			n := norm(s)
			if !inTable[n.key()] {
				add[n.group()] = append(add[n.group()], n)
			}
		}
		var gs []string
		for g := range miss {
			if len(add[g]) > 0 {
				gs = append(gs, g)
			}
		}
		sort.Strings(gs)
		for _, g := range gs {
			before := len(renames)
			pair(miss[g], add[g])
			for _, r := range renames[before:] {
				doneOld[Symbol{Kind: r.Kind, Pkg: r.Pkg, Owner: r.Owner, Name: r.Old}.key()] = true
				doneNew[Symbol{Kind: r.Kind, Pkg: r.Pkg, Owner: r.Owner, Name: r.New}.key()] = true
			}
		}
	}
	// signatures and shapes are compared under the old type names
	normTypes := func(s Symbol) Symbol {
		for k, old := range typeBack {
			i := strings.IndexByte(k, '|')
			pkg, nw := k[:i], k[i+1:]
			re := regexp.MustCompile(regexp.QuoteMeta(KetoMod+"/"+pkg+"."+nw) + `\b`)
			s.Sig = re.ReplaceAllString(s.Sig, KetoMod+"/"+pkg+"."+old)
			s.Shape = re.ReplaceAllString(s.Shape, KetoMod+"/"+pkg+"."+old)
		}
		return s
	}
	for {
		n := len(renames)
		byGroup(true, normTypes)
		if len(renames) == n {
			if !allowOrder {
				allowOrder = true
				continue
			}
			break
		}
	}
	allowOrder = false
	if len(typeBack) > 0 {
		// a member of a renamed type is missing under its old owner only because of the rename
		inCur = map[string]bool{}
		for _, s := range cur {
			if o, ok := typeBack[s.Pkg+"|"+s.Owner]; ok {
				s.Owner = o
			}
			inCur[s.key()] = true
		}
	}
	normMember := func(s Symbol) Symbol {
		if o, ok := typeBack[s.Pkg+"|"+s.Owner]; ok {
			s.Owner = o
		}
		return normTypes(s)
	}
	byGroup(false, normMember) // strong evidence only; learns the hints
	byGroup(false, normMember) // with the hints of every group
	allowOrder = true
	byGroup(false, normMember)
	sort.Slice(renames, func(i, j int) bool { return renames[i].String() < renames[j].String() })
	return renames
}

// renameOverlay rewrites the identifiers that denote the renamed objects.
func renameOverlay(p *Program, renames []Rename) (map[string][]byte, error) {
	back := map[types.Object]string{}
	for _, r := range renames {
		if r.obj != nil {
			back[r.obj] = r.Old
		}
	}
	return applyRenames(p, back)
}

// applyRenames returns the overlay in which every identifier denoting a key of
// back is replaced by its value (byte-level: lines keep their numbers).
func applyRenames(p *Program, back map[types.Object]string) (map[string][]byte, error) {
	origin := func(o types.Object) types.Object {
		switch o := o.(type) {
		case *types.Var:
			return o.Origin()
		case *types.Func:
			return o.Origin()
		}
		return o
	}
	type edit struct {
		off, n int
		s      string
	}
	edits := map[string][]edit{}
	for _, pk := range p.KetoPackages() {
		if pk.TypesInfo == nil {
			continue
		}
		for i, f := range pk.Syntax {
			if i >= len(pk.CompiledGoFiles) {
				continue
			}
			fname := pk.CompiledGoFiles[i]
			ast.Inspect(f, func(n ast.Node) bool {
				id, ok := n.(*ast.Ident)
				if !ok {
					return true
				}
				o := pk.TypesInfo.Defs[id]
				if o == nil {
					o = pk.TypesInfo.Uses[id]
				}
				if o == nil {
					return true
				}
				o = origin(o)
				old, ok := back[o]
				if !ok {
					// an embedded field is named after its (renamed) type
					if v, isVar := o.(*types.Var); isVar && v.Embedded() {
						if nt := NamedOf(v.Type()); nt != nil {
							if o2, ok2 := back[nt.Obj()]; ok2 && nt.Obj().Name() == id.Name {
								old, ok = o2, true
							}
						}
					}
				}
				if !ok || id.Name == old {
					return true
				}
				pos := p.Fset.Position(id.Pos())
				edits[fname] = append(edits[fname], edit{pos.Offset, len(id.Name), old})
				return true
			})
		}
	}
	ov := map[string][]byte{}
	for k, v := range p.Cfg.Overlay {
		ov[k] = v
	}
	for fname, es := range edits {
		src, ok := p.Cfg.Overlay[fname]
		if !ok {
			b, err := os.ReadFile(fname)
			if err != nil {
				return nil, err
			}
			src = b
		}
		sort.Slice(es, func(i, j int) bool { return es[i].off < es[j].off })
		var out []byte
		last := 0
		for _, e := range es {
			if e.off < last || e.off+e.n > len(src) {
				return nil, fmt.Errorf("rename overlay: overlapping edit in %s", fname)
			}
			out = append(out, src[last:e.off]...)
			out = append(out, e.s...)
			last = e.off + e.n
		}
		out = append(out, src[last:]...)
		ov[fname] = out
	}
	return ov, nil
}

// LoadNormalised loads the tree and, when declared names differ from the symbol
// table by what can only be renames, loads it again with those names mapped back.
// The renames applied are returned (and kept in Program.Renamed).
func LoadNormalised(lc LoadConfig, tablePath string) (*Program, error) {
	p, err := Load(lc)
	if err != nil || tablePath == "" {
		return p, err
	}
	tab, err := ReadSymbolTable(tablePath)
	if err != nil {
		return p, nil // no table: analyse the tree as it is
	}
	renames := matchRenames(tab.Symbols, Symbols(p))
	if len(renames) == 0 {
		return p, nil
	}
	ov, err := renameOverlay(p, renames)
	if err != nil {
		return p, nil
	}
	lc2 := lc
	lc2.Overlay = ov
	p2, err := Load(lc2)
	if err != nil {
		// the mapping does not type-check (name clash): analyse the tree as it is
		return p, nil
	}
	for _, r := range renames {
		p2.Renamed = append(p2.Renamed, r.String())
	}
	return p2, nil
}

// MetamorphDecl renames declarations (a behaviour-preserving change the rules
// must survive through LoadNormalised):
//
//	renamefn   every unexported function and method (and interface method) of the non-generated keto packages
//	renamety   every unexported named type
//	renamefld  every unexported, non-embedded struct field
//	renamevar  every unexported package-level variable and constant
//	renameexp  the exported functions and methods the rules anchor on most (a fixed sample)
func MetamorphDecl(repo string, tags []string, kind string, base map[string][]byte) (map[string][]byte, int, error) {
	p, err := Load(LoadConfig{Dir: repo, Tags: tags, NoSSA: true, Overlay: base})
	if err != nil {
		return nil, 0, err
	}
	back := map[types.Object]string{}
	taken := func(o types.Object, name string) bool {
		if o.Pkg() != nil && o.Pkg().Scope().Lookup(name) != nil {
			return true
		}
		return false
	}
	// method names some interface outside the hand-written keto sources asks for
	foreign := map[string]bool{}
	if kind == "renameexp" {
		for path, pk := range p.ByPath {
			if pk.Types == nil || (IsKeto(pk.Types) && !skipMetamorphPkg(path)) {
				continue
			}
			sc := pk.Types.Scope()
			for _, nm := range sc.Names() {
				if tn, ok := sc.Lookup(nm).(*types.TypeName); ok {
					if it, ok := tn.Type().Underlying().(*types.Interface); ok {
						for i := 0; i < it.NumMethods(); i++ {
							foreign[it.Method(i).Name()] = true
						}
					} else if nt, ok := tn.Type().(*types.Named); ok && IsKeto(pk.Types) {
						for i := 0; i < nt.NumMethods(); i++ {
							foreign[nt.Method(i).Name()] = true
						}
					}
				}
			}
		}
		for _, pk := range p.KetoPackages() {
			for _, f := range pk.Syntax {
				if !ast.IsGenerated(f) {
					continue
				}
				for _, d := range f.Decls {
					// generated message types satisfy hand-written interfaces (GetNamespace, ...)
					if fd, ok := d.(*ast.FuncDecl); ok && fd.Recv != nil {
						foreign[fd.Name.Name] = true
					}
				}
				ast.Inspect(f, func(n ast.Node) bool {
					if it, ok := n.(*ast.InterfaceType); ok {
						for _, m := range it.Methods.List {
							for _, nm := range m.Names {
								foreign[nm.Name] = true
							}
						}
					}
					return true
				})
			}
		}
	}
	for _, s := range Symbols(p) {
		if skipMetamorphPkg(KetoMod+"/"+s.Pkg) || s.obj == nil {
			continue
		}
		n := s.Name
		if n == "_" || n == "main" || n == "init" || (token.IsExported(n) != (kind == "renameexp")) {
			continue
		}
		ok := false
		switch kind {
		case "renameexp":
			// reflection looks methods up by name too (pop: TableName, json: MarshalJSON, cobra, ...): only
			// names no foreign interface mentions
			ok = (s.Kind == "func" || s.Kind == "method" || s.Kind == "imethod") && !foreign[n] &&
				n != "TableName" && !strings.HasPrefix(n, "Marshal") && !strings.HasPrefix(n, "Unmarshal")
		case "renamefn":
			ok = s.Kind == "func" || s.Kind == "method" || s.Kind == "imethod"
		case "renamety":
			ok = s.Kind == "type"
		case "renamefld":
			ok = s.Kind == "field" && !strings.HasPrefix(s.Sig, "embedded ")
		case "renamevar":
			ok = s.Kind == "var" || s.Kind == "const"
		default:
			return nil, 0, fmt.Errorf("unknown transformation %q", kind)
		}
		if !ok || taken(s.obj, n+"Rn") {
			continue
		}
		back[s.obj] = n + "Rn"
	}
	ov, err := applyRenames(p, back)
	return ov, len(back), err
}
