package core

import (
	"go/types"
	"strings"

	"golang.org/x/tools/go/ssa"
)

// StmtSite is a call that makes the database execute a statement.
type StmtSite struct {
	Fn     *ssa.Function // enclosing function (may be a closure)
	Call   ssa.CallInstruction
	Callee *types.Func
	Write  bool
}

var popWrite = map[string]bool{
	"Exec": true, "ExecWithCount": true, "Delete": true, "Create": true, "Update": true,
	"UpdateColumns": true, "UpdateQuery": true, "Destroy": true, "Save": true,
	"ValidateAndCreate": true, "ValidateAndUpdate": true, "ValidateAndSave": true,
	"TruncateAll": true,
}
var popRead = map[string]bool{
	"All": true, "First": true, "Last": true, "Find": true, "Exists": true, "Count": true,
	"CountByField": true, "Select": false,
}

// IsStmtCall classifies a callee as statement-executing.
func IsStmtCall(obj *types.Func) (stmt, write bool) {
	if obj == nil || obj.Pkg() == nil {
		return false, false
	}
	sig := obj.Type().(*types.Signature)
	if sig.Recv() == nil {
		return false, false
	}
	switch obj.Pkg().Path() {
	case "github.com/gobuffalo/pop/v6":
		n := NamedOf(sig.Recv().Type())
		if n == nil || (n.Obj().Name() != "Query" && n.Obj().Name() != "Connection") {
			return false, false
		}
		if popWrite[obj.Name()] {
			return true, true
		}
		if popRead[obj.Name()] {
			return true, false
		}
	case "database/sql", "github.com/jmoiron/sqlx":
		switch {
		case strings.HasPrefix(obj.Name(), "Exec"), strings.HasPrefix(obj.Name(), "NamedExec"), strings.HasPrefix(obj.Name(), "MustExec"):
			return true, true
		case strings.HasPrefix(obj.Name(), "Query"), strings.HasPrefix(obj.Name(), "Get"), strings.HasPrefix(obj.Name(), "Select"):
			return true, false
		}
	}
	return false, false
}

// StmtSites lists every statement-executing call in non-test keto code.
func (p *Program) StmtSites() []StmtSite {
	var out []StmtSite
	for _, pk := range p.KetoPackages() {
		for _, fn := range p.KetoFuncs(RelPath(pk.PkgPath)) {
			Instrs(fn, func(_ *ssa.BasicBlock, _ int, ins ssa.Instruction) {
				c, ok := ins.(ssa.CallInstruction)
				if !ok {
					return
				}
				obj := CalleeObj(c.Common())
				if st, w := IsStmtCall(obj); st {
					out = append(out, StmtSite{Fn: fn, Call: c, Callee: obj, Write: w})
				}
			})
		}
	}
	return out
}
