package core

import (
	"fmt"
	"go/token"
	"go/types"
	"sort"
	"strings"

	"golang.org/x/tools/go/ssa"
)

// Cert is the termination certificate (or its absence) for one recursive
// strongly connected component of the static call graph (A6).
type Cert struct {
	Funcs  []string
	OK     bool
	Pos    string
	Detail string
	Edges  []string
}

type tcEdge struct {
	from, to *ssa.Function // top-level functions
	site     ssa.CallInstruction
	d, a     string // D↓ D= Dreset D- ; A↓ A= Areset A-
	guarded  bool
	dec      int64
}

func isIntType(t types.Type) bool {
	b, ok := t.Underlying().(*types.Basic)
	return ok && b.Info()&types.IsInteger != 0
}

// isTreeType: a node type of a recursive data structure -- a pointer to a
// struct that contains itself (field of type *S, []*S), or a type implementing
// an interface J of its own package such that some implementer of J has a
// field of type J or []J (an AST).
func isTreeType(t types.Type) bool {
	n := NamedOf(t)
	if n == nil || n.Obj().Pkg() == nil || !IsKeto(n.Obj().Pkg()) {
		return false
	}
	mentions := func(ft types.Type, target types.Type) bool {
		for i := 0; i < 4; i++ {
			switch x := ft.(type) {
			case *types.Slice:
				ft = x.Elem()
				continue
			case *types.Array:
				ft = x.Elem()
				continue
			case *types.Pointer:
				if types.Identical(x, target) || types.Identical(x.Elem(), target) {
					return true
				}
				ft = x.Elem()
				continue
			case *types.Alias:
				ft = types.Unalias(x)
				continue
			}
			break
		}
		return types.Identical(ft, target)
	}
	structOf := func(nt *types.Named) *types.Struct {
		s, _ := nt.Underlying().(*types.Struct)
		return s
	}
	if s := structOf(n); s != nil {
		if _, isPtr := t.(*types.Pointer); !isPtr {
			return false
		}
		for i := 0; i < s.NumFields(); i++ {
			if mentions(s.Field(i).Type(), n) {
				return true
			}
		}
	}
	sc := n.Obj().Pkg().Scope()
	for _, name := range sc.Names() {
		tn, ok := sc.Lookup(name).(*types.TypeName)
		if !ok {
			continue
		}
		j, ok := tn.Type().Underlying().(*types.Interface)
		if !ok || j.NumMethods() == 0 {
			continue
		}
		if !types.Implements(t, j) && !types.Identical(t, tn.Type()) {
			continue
		}
		// is J recursive: some implementer has a field mentioning J?
		for _, name2 := range sc.Names() {
			tn2, ok := sc.Lookup(name2).(*types.TypeName)
			if !ok {
				continue
			}
			nt2, ok := tn2.Type().(*types.Named)
			if !ok {
				continue
			}
			s2 := structOf(nt2)
			if s2 == nil || !(types.Implements(nt2, j) || types.Implements(types.NewPointer(nt2), j)) {
				continue
			}
			for i := 0; i < s2.NumFields(); i++ {
				if mentions(s2.Field(i).Type(), tn.Type()) {
					return true
				}
			}
		}
	}
	return false
}

// clampOf: if v is a Phi merging the parameter p with another value (a clamp
// of the depth on entry), return p.
func clampOf(v ssa.Value) *ssa.Parameter {
	phi, ok := v.(*ssa.Phi)
	if !ok {
		return nil
	}
	for _, e := range phi.Edges {
		if p, ok := e.(*ssa.Parameter); ok && isIntType(p.Type()) {
			return p
		}
	}
	return nil
}

// depthRel classifies an int argument relative to the int parameters of top.
func depthRel(arg ssa.Value, top *ssa.Function) (rel string, base ssa.Value, dec int64) {
	isBase := func(v ssa.Value) (ssa.Value, bool) {
		o := ValueOrigin(v)
		if p, ok := o.(*ssa.Parameter); ok && p.Parent() == top && isIntType(p.Type()) {
			return p, true
		}
		if p := clampOf(o); p != nil && p.Parent() == top {
			return o, true
		}
		return nil, false
	}
	o := ValueOrigin(arg)
	if b, ok := isBase(o); ok {
		return "D=", b, 0
	}
	if bo, ok := o.(*ssa.BinOp); ok && bo.Op == token.SUB {
		if k, isK := IntConst(bo.Y); isK && k >= 1 {
			if b, ok := isBase(bo.X); ok {
				return "D↓", b, k
			}
		}
	}
	return "Dreset", nil, 0
}

// treeRel classifies a tree-typed argument relative to the tree parameters of top.
func treeRel(arg ssa.Value, top *ssa.Function) string {
	steps := 0
	seen := map[ssa.Value]bool{}
	var walk func(v ssa.Value, steps int) (string, bool)
	walk = func(v ssa.Value, steps int) (string, bool) {
		if v == nil || seen[v] {
			return "", false
		}
		seen[v] = true
		switch x := v.(type) {
		case *ssa.Parameter:
			if x.Parent() == top && isTreeType(x.Type()) {
				if steps > 0 {
					return "A↓", true
				}
				return "A=", true
			}
			return "Areset", true
		case *ssa.FreeVar:
			if b := FreeVarBinding(x); b != nil {
				return walk(b, steps)
			}
			return "Areset", true
		case *ssa.ChangeType:
			return walk(x.X, steps)
		case *ssa.ChangeInterface:
			return walk(x.X, steps)
		case *ssa.MakeInterface:
			return walk(x.X, steps)
		case *ssa.TypeAssert:
			return walk(x.X, steps)
		case *ssa.Extract:
			switch t := x.Tuple.(type) {
			case *ssa.TypeAssert:
				return walk(t.X, steps)
			case *ssa.Next:
				if r, ok := t.Iter.(*ssa.Range); ok {
					return walk(r.X, steps+1)
				}
			}
			return "Areset", true
		case *ssa.UnOp:
			if x.Op != token.MUL {
				return "Areset", true
			}
			switch a := x.X.(type) {
			case *ssa.FieldAddr:
				return walk(a.X, steps+1)
			case *ssa.IndexAddr:
				return walk(a.X, steps+1)
			case *ssa.Alloc:
				st := CellStores(a)
				if len(st) == 1 {
					return walk(st[0].Val, steps)
				}
			case *ssa.FreeVar:
				if b, ok := FreeVarBinding(a).(*ssa.Alloc); ok {
					st := CellStores(b)
					if len(st) == 1 {
						return walk(st[0].Val, steps)
					}
				}
			}
			return "Areset", true
		case *ssa.Field:
			return walk(x.X, steps+1)
		case *ssa.Index:
			return walk(x.X, steps+1)
		case *ssa.Lookup:
			return walk(x.X, steps+1)
		case *ssa.Slice:
			return walk(x.X, steps)
		case *ssa.Phi:
			res := ""
			for _, e := range x.Edges {
				r, ok := walk(e, steps)
				if !ok {
					continue // cycle through the phi itself
				}
				if r == "Areset" {
					return r, true
				}
				if res == "" || r == "A=" {
					res = r
				}
			}
			if res == "" {
				return "Areset", true
			}
			return res, true
		}
		return "Areset", true
	}
	r, ok := walk(arg, steps)
	if !ok {
		return "Areset"
	}
	return r
}

// guardedBy: is the call site (lifted to top through MakeClosure sites)
// dominated by the false edge of `base <= c` / `base < c`?
func depthGuarded(site ssa.Instruction, top *ssa.Function, minGT int64) (bool, string) {
	ins := site
	for ins.Parent() != top {
		fn := ins.Parent()
		par := fn.Parent()
		if par == nil {
			return false, ""
		}
		var mk ssa.Instruction
		Instrs(par, func(_ *ssa.BasicBlock, _ int, i2 ssa.Instruction) {
			if mc, ok := i2.(*ssa.MakeClosure); ok && mc.Fn == fn {
				mk = i2
			}
		})
		if mk == nil {
			return false, ""
		}
		ins = mk
	}
	for _, cd := range CondsAt(ins.Block()) {
		// the test may have been extracted into a predicate: if exhausted(depth) { return }
		if call, isCall := cd.V.(*ssa.Call); isCall {
			if lower, ok := predicateLowerBound(call, cd.True, top); ok && lower >= minGT {
				return true, fmt.Sprintf("depth >= %d (by %s)", lower, call.Call.StaticCallee().Name())
			}
			continue
		}
		op, x, y, ok := BinCmp(cd.V)
		if !ok {
			continue
		}
		k, isK := IntConst(y)
		if !isK {
			continue
		}
		o := ValueOrigin(x)
		isDepth := false
		if p, ok := o.(*ssa.Parameter); ok && p.Parent() == top && isIntType(p.Type()) {
			isDepth = true
		} else if p := clampOf(o); p != nil && p.Parent() == top {
			isDepth = true
		}
		if !isDepth {
			continue
		}
		// facts: !(x <= k) => x > k ; !(x < k) => x >= k ; (x > k) ; (x >= k)
		var lower int64
		switch {
		case op == token.LEQ && !cd.True:
			lower = k + 1
		case op == token.LSS && !cd.True:
			lower = k
		case op == token.GTR && cd.True:
			lower = k + 1
		case op == token.GEQ && cd.True:
			lower = k
		default:
			continue
		}
		if lower >= minGT {
			return true, fmt.Sprintf("depth >= %d", lower)
		}
	}
	return false, ""
}

// TerminationCerts computes the certificate for every recursive SCC of the
// static call graph among the top-level functions of the given packages.
func TerminationCerts(p *Program, rels []string) []Cert {
	nodes := map[*ssa.Function]bool{}
	var all []*ssa.Function
	for _, rel := range rels {
		for _, fn := range p.KetoFuncs(rel) {
			all = append(all, fn)
			if fn.Parent() == nil {
				nodes[origin(fn)] = true
			}
		}
	}
	var edges []*tcEdge
	out := map[*ssa.Function][]*tcEdge{}
	for _, fn := range all {
		top := origin(Outermost(fn))
		if !nodes[top] {
			continue
		}
		Instrs(fn, func(_ *ssa.BasicBlock, _ int, ins ssa.Instruction) {
			c, ok := ins.(ssa.CallInstruction)
			if !ok {
				return
			}
			sc := c.Common().StaticCallee()
			if sc == nil {
				return
			}
			callee := origin(sc)
			if callee.Parent() != nil || !nodes[callee] {
				return
			}
			e := &tcEdge{from: top, to: callee, site: c, d: "D-", a: "A-"}
			args := c.Common().Args
			for i, par := range sc.Params {
				if i >= len(args) {
					break
				}
				if isIntType(par.Type()) {
					rel, _, dec := depthRel(args[i], Outermost(fn))
					if e.d == "D-" || rel == "D↓" {
						e.d, e.dec = rel, dec
					}
				} else if isTreeType(par.Type()) {
					rel := treeRel(args[i], Outermost(fn))
					// several tree parameters: the weakest relation counts
					switch {
					case e.a == "A-":
						e.a = rel
					case rel == "Areset":
						// a second tree parameter that is not derived does not
						// invalidate a descent on another one (lexicographic
						// measure uses the descending parameter)
					case rel == "A↓":
						e.a = rel
					}
				}
			}
			edges = append(edges, e)
			out[top] = append(out[top], e)
		})
	}
	// Tarjan SCC
	sccs := tarjan(nodes, func(f *ssa.Function) []*ssa.Function {
		var s []*ssa.Function
		for _, e := range out[f] {
			s = append(s, e.to)
		}
		return s
	})
	var certs []Cert
	for _, comp := range sccs {
		in := map[*ssa.Function]bool{}
		for _, f := range comp {
			in[f] = true
		}
		var intra []*tcEdge
		for _, f := range comp {
			for _, e := range out[f] {
				if in[e.to] {
					intra = append(intra, e)
				}
			}
		}
		if len(comp) == 1 && len(intra) == 0 {
			continue
		}
		var names []string
		for _, f := range comp {
			names = append(names, FuncName(f))
		}
		sort.Strings(names)
		ct := Cert{Funcs: names, OK: true, Pos: p.Pos(comp[0].Pos())}
		var problems []string
		// guards for D↓ edges, and E' = edges that do not decrease the depth
		eprime := map[*ssa.Function][]*tcEdge{}
		for _, e := range intra {
			desc := fmt.Sprintf("%s -> %s [%s %s] at %s", FuncName(e.from), FuncName(e.to), e.d, e.a, p.Pos(e.site.Pos()))
			if e.d == "D↓" {
				// a callee that re-clamps a non-positive depth upwards needs the
				// argument to stay >= 1
				need := int64(-1 << 40)
				if calleeClamps(e.to) {
					need = e.dec + 1
				}
				g, fact := depthGuarded(e.site, e.from, need)
				if need > -1<<40 && !g {
					problems = append(problems, desc+": the callee clamps depth<=0 up to the global limit, and this call is not guarded by depth > "+fmt.Sprint(e.dec)+": the measure can grow")
				}
				// a lower bound must exist somewhere on the cycle: the caller has a guard
				g2, fact2 := depthGuarded(e.site, e.from, -1<<40)
				if !g2 {
					// a helper extracted from a guarded function: every call into it hands the
					// caller's depth over unchanged from behind the caller's guard
					nIn, allGuarded := 0, true
					for _, e2 := range edges {
						if e2.to != e.from {
							continue
						}
						nIn++
						if gg, _ := depthGuarded(e2.site, e2.from, -1<<40); e2.d != "D=" || !gg {
							allGuarded = false
						}
					}
					if nIn > 0 && allGuarded {
						g2, fact2 = true, " (guarded at every call of "+FuncName(e.from)+", which passes the depth on unchanged)"
					}
				}
				if !g2 {
					problems = append(problems, desc+": the recursive call is not dominated by a depth guard (depth <= c returns)")
				}
				ct.Edges = append(ct.Edges, desc+" guard: "+fact+fact2)
				continue
			}
			ct.Edges = append(ct.Edges, desc)
			eprime[e.from] = append(eprime[e.from], e)
		}
		// cycles that do not pass through a depth decrement
		sub := tarjan(in, func(f *ssa.Function) []*ssa.Function {
			var s []*ssa.Function
			for _, e := range eprime[f] {
				s = append(s, e.to)
			}
			return s
		})
		for _, sc := range sub {
			sin := map[*ssa.Function]bool{}
			for _, f := range sc {
				sin[f] = true
			}
			var cyc []*tcEdge
			for _, f := range sc {
				for _, e := range eprime[f] {
					if sin[e.to] {
						cyc = append(cyc, e)
					}
				}
			}
			if len(cyc) == 0 {
				continue
			}
			var cn []string
			for _, f := range sc {
				cn = append(cn, FuncName(f))
			}
			sort.Strings(cn)
			okAll := true
			for _, e := range cyc {
				if e.a != "A↓" && e.a != "A=" {
					okAll = false
					problems = append(problems, fmt.Sprintf("cycle {%s} keeps the depth unchanged and the edge %s -> %s (%s) does not descend into the caller's AST node [%s %s]", strings.Join(cn, ", "), FuncName(e.from), FuncName(e.to), p.Pos(e.site.Pos()), e.d, e.a))
				}
				if e.d == "Dreset" {
					okAll = false
					problems = append(problems, fmt.Sprintf("cycle {%s}: edge %s -> %s (%s) passes a depth unrelated to the caller's", strings.Join(cn, ", "), FuncName(e.from), FuncName(e.to), p.Pos(e.site.Pos())))
				}
			}
			if okAll {
				// removing the strict descents must leave no cycle
				rest := map[*ssa.Function][]*ssa.Function{}
				for _, e := range cyc {
					if e.a == "A=" {
						rest[e.from] = append(rest[e.from], e.to)
					}
				}
				for _, s2 := range tarjan(sin, func(f *ssa.Function) []*ssa.Function { return rest[f] }) {
					self := false
					for _, t := range rest[s2[0]] {
						if t == s2[0] {
							self = true
						}
					}
					if len(s2) > 1 || self {
						problems = append(problems, fmt.Sprintf("cycle {%s} has neither a depth decrement nor a strict AST descent", strings.Join(cn, ", ")))
					}
				}
			}
		}
		sort.Strings(ct.Edges)
		if len(problems) > 0 {
			ct.OK = false
			sort.Strings(problems)
			ct.Detail = "no lexicographic (depth, AST node) certificate: " + strings.Join(problems, "; ")
		} else {
			ct.Detail = fmt.Sprintf("certificate found: %d intra-component call edges; every cycle either decreases the guarded depth or strictly descends the AST with the depth unchanged", len(intra))
		}
		certs = append(certs, ct)
	}
	sort.Slice(certs, func(i, j int) bool { return strings.Join(certs[i].Funcs, ",") < strings.Join(certs[j].Funcs, ",") })
	return certs
}

// calleeClamps: the function reassigns its int parameter on entry (phi of the
// parameter and another value used where the parameter would be).
func calleeClamps(fn *ssa.Function) bool {
	found := false
	Instrs(fn, func(_ *ssa.BasicBlock, _ int, ins ssa.Instruction) {
		if phi, ok := ins.(*ssa.Phi); ok && isIntType(phi.Type()) && clampOf(phi) != nil {
			found = true
		}
	})
	return found
}

func tarjan(nodes map[*ssa.Function]bool, succ func(*ssa.Function) []*ssa.Function) [][]*ssa.Function {
	index := map[*ssa.Function]int{}
	low := map[*ssa.Function]int{}
	on := map[*ssa.Function]bool{}
	var stack []*ssa.Function
	var out [][]*ssa.Function
	n := 0
	var order []*ssa.Function
	for f := range nodes {
		order = append(order, f)
	}
	sort.Slice(order, func(i, j int) bool { return order[i].String() < order[j].String() })
	var strong func(v *ssa.Function)
	strong = func(v *ssa.Function) {
		index[v], low[v] = n, n
		n++
		stack = append(stack, v)
		on[v] = true
		for _, w := range succ(v) {
			if !nodes[w] {
				continue
			}
			if _, seen := index[w]; !seen {
				strong(w)
				if low[w] < low[v] {
					low[v] = low[w]
				}
			} else if on[w] && index[w] < low[v] {
				low[v] = index[w]
			}
		}
		if low[v] == index[v] {
			var comp []*ssa.Function
			for {
				w := stack[len(stack)-1]
				stack = stack[:len(stack)-1]
				on[w] = false
				comp = append(comp, w)
				if w == v {
					break
				}
			}
			sort.Slice(comp, func(i, j int) bool { return comp[i].String() < comp[j].String() })
			out = append(out, comp)
		}
	}
	for _, v := range order {
		if _, seen := index[v]; !seen {
			strong(v)
		}
	}
	return out
}

// predicateLowerBound: call is pred(..., depth, ...) with a bool result, where depth is the depth
// parameter of top; truth says on which side of the branch we are. The predicate is evaluated
// (Walker) for depth = -3..8; if the side we are on is exactly {d >= L} within that range, L is
// a lower bound of depth there.
func predicateLowerBound(call *ssa.Call, truth bool, top *ssa.Function) (int64, bool) {
	callee := call.Call.StaticCallee()
	if callee == nil || callee.Blocks == nil || !BoolType(call.Type()) {
		return 0, false
	}
	var dpar *ssa.Parameter
	for i, a := range call.Call.Args {
		o := ValueOrigin(a)
		isDepth := false
		if p, ok := o.(*ssa.Parameter); ok && p.Parent() == top && isIntType(p.Type()) {
			isDepth = true
		} else if p := clampOf(o); p != nil && p.Parent() == top {
			isDepth = true
		}
		if isDepth && i < len(callee.Params) {
			dpar = callee.Params[i]
		}
	}
	if dpar == nil {
		return 0, false
	}
	const lo, hi = -3, 8
	var onSide []bool
	for d := int64(lo); d <= hi; d++ {
		var res WVal
		got := false
		w := &Walker{Fn: callee}
		w.Oracle = func(v ssa.Value) (WVal, bool) {
			if v == ssa.Value(dpar) {
				return WInt(d), true
			}
			return WVal{}, false
		}
		w.OnInstr = func(ins ssa.Instruction, sw *Walker) bool {
			if ret, ok := ins.(*ssa.Return); ok {
				if len(ret.Results) == 1 {
					if r, ok := sw.Eval(ret.Results[0]); ok && r.Kind == 'b' {
						res, got = r, true
					}
				}
				return true
			}
			return false
		}
		w.Run()
		if !got || w.Err != "" {
			return 0, false
		}
		onSide = append(onSide, res.B == truth)
	}
	// exactly {d >= L}
	first := -1
	for i, b := range onSide {
		if b && first < 0 {
			first = i
		}
		if !b && first >= 0 {
			return 0, false
		}
	}
	if first <= 0 {
		return 0, false // never on this side, or no bound visible in the range
	}
	return int64(lo + first), true
}
