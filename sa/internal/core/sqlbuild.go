package core

import (
	"fmt"
	"go/ast"
	"go/constant"
	"go/token"
	"go/types"
	"strings"

	"golang.org/x/tools/go/packages"
)

// A7 -- symbolic evaluation of the ways package persistence/sql builds SQL
// text and its argument list: constants, fmt.Sprintf with %s holes,
// strings.Join over a list appended in a loop, strings.Builder writes, and
// functions returning a (fragment, args) pair per switch case. The result is a
// template; rules are checked on its instantiations (every alternative alone
// and every ordered pair of alternatives for a repeated group), which is
// exhaustive for position agreement because alternatives are self-contained.

type SQLAlt struct {
	Text string
	Args []ast.Expr
	Case string // description of the switch case / loop body
}

type SQLRep struct {
	Alts []*SQLAlt
	Sep  string
	Loop ast.Node
}

type SQLChoice struct {
	Fn   string
	Alts []*SQLAlt
}

type sqlTextItem struct {
	lit    string
	rep    *SQLRep
	choice *SQLChoice
}

type sqlArgItem struct {
	single ast.Expr
	group  *SQLRep
	choice *SQLChoice
}

// SQLTemplate is the evaluated (query, args) pair of one builder / call site.
type SQLTemplate struct {
	Text    []sqlTextItem
	Args    []sqlArgItem
	Variant string
}

// SQLSample is one instantiation.
type SQLSample struct {
	SQL  string
	Args []ast.Expr
	Desc string
}

type sqlEval struct {
	pkg     *packages.Package
	info    *types.Info
	strs    map[types.Object][]sqlTextItem
	lists   map[types.Object]*SQLRep
	args    map[types.Object][]sqlArgItem
	choices map[types.Object]*SQLChoice // string/args vars bound to a fragment function's results
	curRep  *SQLRep
	curAlt  *SQLAlt
	variant []string
	errs    []string
	// interprocedural: local closures, and parameters of inlined helpers standing for the
	// caller's variables
	funcs   map[types.Object]*ast.FuncLit
	alias   map[types.Object]types.Object
	inlined map[*ast.BlockStmt]bool // bodies being interpreted (no recursion)
	depth   int
	subst   map[types.Object]ast.Expr // helper parameter -> the caller's argument expression
}

func (e *sqlEval) clone() *sqlEval {
	n := &sqlEval{pkg: e.pkg, info: e.info, strs: map[types.Object][]sqlTextItem{}, lists: map[types.Object]*SQLRep{}, args: map[types.Object][]sqlArgItem{}, choices: e.choices, variant: append([]string{}, e.variant...), errs: append([]string{}, e.errs...), funcs: e.funcs, alias: e.alias, inlined: e.inlined, depth: e.depth}
	for k, v := range e.strs {
		n.strs[k] = append([]sqlTextItem{}, v...)
	}
	for k, v := range e.lists {
		n.lists[k] = v
	}
	for k, v := range e.args {
		n.args[k] = append([]sqlArgItem{}, v...)
	}
	return n
}

func (e *sqlEval) fail(format string, a ...any) { e.errs = append(e.errs, fmt.Sprintf(format, a...)) }

func (e *sqlEval) obj(x ast.Expr) types.Object {
	o := e.obj0(x)
	for i := 0; i < 4 && o != nil; i++ {
		a, ok := e.alias[o]
		if !ok {
			break
		}
		o = a
	}
	return o
}

func (e *sqlEval) obj0(x ast.Expr) types.Object {
	switch v := x.(type) {
	case *ast.Ident:
		if o := e.info.Uses[v]; o != nil {
			return o
		}
		return e.info.Defs[v]
	case *ast.UnaryExpr:
		if v.Op == token.AND {
			return e.obj0(v.X)
		}
	case *ast.StarExpr:
		return e.obj0(v.X)
	case *ast.ParenExpr:
		return e.obj0(v.X)
	case *ast.SelectorExpr:
		// a field of a local struct that carries the builder's state (conds.ors): keyed by
		// the field (one instance per builder)
		if fv, ok := e.info.Uses[v.Sel].(*types.Var); ok && fv.IsField() {
			return fv
		}
	}
	return nil
}

func (e *sqlEval) constStr(x ast.Expr) (string, bool) {
	if tv, ok := e.info.Types[x]; ok && tv.Value != nil && tv.Value.Kind() == constant.String {
		return constant.StringVal(tv.Value), true
	}
	return "", false
}

func isStringT(t types.Type) bool {
	b, ok := t.Underlying().(*types.Basic)
	return ok && b.Kind() == types.String
}

// calleeName renders pkg.Func or Type.Method of a call.
func (e *sqlEval) calleeName(c *ast.CallExpr) string {
	switch f := c.Fun.(type) {
	case *ast.SelectorExpr:
		if o, ok := e.info.Uses[f.Sel].(*types.Func); ok {
			if sig := o.Type().(*types.Signature); sig.Recv() != nil {
				if n := NamedOf(sig.Recv().Type()); n != nil {
					return n.Obj().Name() + "." + o.Name()
				}
			}
			if o.Pkg() != nil {
				return o.Pkg().Name() + "." + o.Name()
			}
		}
		return f.Sel.Name
	case *ast.Ident:
		return f.Name
	}
	return ""
}

// evalStr evaluates a string-typed expression to text items.
func (e *sqlEval) evalStr(x ast.Expr) []sqlTextItem {
	if s, ok := e.constStr(x); ok {
		return []sqlTextItem{{lit: s}}
	}
	switch v := x.(type) {
	case *ast.ParenExpr:
		return e.evalStr(v.X)
	case *ast.Ident:
		o := e.obj(v)
		if c, ok := e.choices[o]; ok {
			return []sqlTextItem{{choice: c}}
		}
		if t, ok := e.strs[o]; ok {
			return t
		}
		e.fail("string variable %s has no tracked value", v.Name)
	case *ast.BinaryExpr:
		if v.Op == token.ADD {
			return append(e.evalStr(v.X), e.evalStr(v.Y)...)
		}
	case *ast.CallExpr:
		switch name := e.calleeName(v); name {
		case "fmt.Sprintf":
			f, ok := e.constStr(v.Args[0])
			if !ok {
				e.fail("Sprintf format is not a constant")
				return nil
			}
			return e.format(f, v.Args[1:])
		case "strings.Join":
			if rep, ok := e.lists[e.obj(v.Args[0])]; ok {
				sep, ok := e.constStr(v.Args[1])
				if !ok {
					e.fail("Join separator is not a constant")
				}
				r2 := *rep
				r2.Sep = sep
				return []sqlTextItem{{rep: &r2}}
			}
			e.fail("strings.Join over an untracked list")
		case "Builder.String":
			if sel, ok := v.Fun.(*ast.SelectorExpr); ok {
				if t, ok := e.strs[e.obj(sel.X)]; ok {
					return t
				}
			}
			e.fail("String() of an untracked builder")
		default:
			// a method returning a constant (TableName)
			if s, ok := e.constMethod(v); ok {
				return []sqlTextItem{{lit: s}}
			}
			e.fail("unsupported string expression: call to %s", name)
		}
	default:
		e.fail("unsupported string expression %T", x)
	}
	return nil
}

func (e *sqlEval) format(f string, args []ast.Expr) []sqlTextItem {
	var out []sqlTextItem
	ai := 0
	for {
		i := strings.IndexByte(f, '%')
		if i < 0 || i+1 >= len(f) {
			out = append(out, sqlTextItem{lit: f})
			break
		}
		out = append(out, sqlTextItem{lit: f[:i]})
		verb := f[i+1]
		f = f[i+2:]
		switch verb {
		case '%':
			out = append(out, sqlTextItem{lit: "%"})
		case 's', 'v':
			if ai >= len(args) {
				e.fail("format has more verbs than arguments")
				return out
			}
			out = append(out, e.evalStr(args[ai])...)
			ai++
		default:
			e.fail("unsupported format verb %%%c in SQL text", verb)
		}
	}
	return out
}

// constMethod: a call to a method all of whose returns are `return "const"`.
func (e *sqlEval) constMethod(c *ast.CallExpr) (string, bool) {
	sel, ok := c.Fun.(*ast.SelectorExpr)
	if !ok {
		return "", false
	}
	fo, ok := e.info.Uses[sel.Sel].(*types.Func)
	if !ok {
		return "", false
	}
	for _, f := range e.pkg.Syntax {
		for _, d := range f.Decls {
			fd, ok := d.(*ast.FuncDecl)
			if !ok || e.info.Defs[fd.Name] != fo || fd.Body == nil {
				continue
			}
			// every return statement of the method (closures aside) returns the same
			// constant: whatever else the body does (logging, ...) cannot change it
			val, n, same := "", 0, true
			ast.Inspect(fd.Body, func(nd ast.Node) bool {
				switch x := nd.(type) {
				case *ast.FuncLit:
					return false
				case *ast.ReturnStmt:
					if len(x.Results) != 1 {
						same = false
						return true
					}
					s, ok := e.constStr(x.Results[0])
					if !ok || (n > 0 && s != val) {
						same = false
					}
					val = s
					n++
				}
				return true
			})
			if same && n > 0 {
				return val, true
			}
		}
	}
	return "", false
}

// FragmentChoice analyses a function of the shape
//
//	switch s := x.(type) { case A: frag = "..."; args = []any{...} ... }
//
// returning (fragment, args, err).
func (e *sqlEval) fragmentChoice(fd *ast.FuncDecl) *SQLChoice {
	ch := &SQLChoice{Fn: fd.Name.Name}
	ast.Inspect(fd.Body, func(n ast.Node) bool {
		cc, ok := n.(*ast.CaseClause)
		if !ok {
			return true
		}
		alt := &SQLAlt{}
		for _, t := range cc.List {
			alt.Case += types.ExprString(t) + " "
		}
		alt.Case = strings.TrimSpace(alt.Case)
		hasText := false
		for _, st := range cc.Body {
			// case X: return "text", []any{...}, nil
			if rs, ok := st.(*ast.ReturnStmt); ok && len(rs.Results) >= 2 {
				if s, ok := e.constStr(rs.Results[0]); ok && s != "" {
					if cl, ok := rs.Results[1].(*ast.CompositeLit); ok {
						alt.Text = s
						alt.Args = append(alt.Args, cl.Elts...)
						hasText = true
					}
				}
				continue
			}
			as, ok := st.(*ast.AssignStmt)
			if !ok || len(as.Lhs) != 1 || len(as.Rhs) != 1 {
				continue
			}
			if s, ok := e.constStr(as.Rhs[0]); ok {
				alt.Text = s
				hasText = true
				continue
			}
			if cl, ok := as.Rhs[0].(*ast.CompositeLit); ok {
				alt.Args = append(alt.Args, cl.Elts...)
			}
		}
		if hasText {
			ch.Alts = append(ch.Alts, alt)
		}
		return false
	})
	return ch
}

func (e *sqlEval) findFunc(name string) *ast.FuncDecl {
	for _, f := range e.pkg.Syntax {
		for _, d := range f.Decls {
			if fd, ok := d.(*ast.FuncDecl); ok && fd.Recv == nil && fd.Name.Name == name {
				return fd
			}
		}
	}
	return nil
}

// stmts interprets a statement list; it may fork into variants at if/else.
func (e *sqlEval) stmts(list []ast.Stmt, onReturn func(*sqlEval, *ast.ReturnStmt)) []*sqlEval {
	envs := []*sqlEval{e}
	for _, st := range list {
		var next []*sqlEval
		for _, env := range envs {
			next = append(next, env.stmt(st, onReturn)...)
		}
		envs = next
	}
	return envs
}

// returnsOnlyNil: every return of b has `nil` as its last result (a helper's success return).
func returnsOnlyNil(b *ast.BlockStmt) bool {
	ok := true
	ast.Inspect(b, func(n ast.Node) bool {
		if _, isLit := n.(*ast.FuncLit); isLit {
			return false
		}
		if r, isRet := n.(*ast.ReturnStmt); isRet {
			if len(r.Results) == 0 {
				return true
			}
			if id, isID := r.Results[len(r.Results)-1].(*ast.Ident); !isID || id.Name != "nil" {
				ok = false
			}
		}
		return true
	})
	return ok
}

func hasReturn(b *ast.BlockStmt) bool {
	found := false
	ast.Inspect(b, func(n ast.Node) bool {
		if _, ok := n.(*ast.ReturnStmt); ok {
			found = true
		}
		if _, ok := n.(*ast.FuncLit); ok {
			return false
		}
		return true
	})
	return found
}

func (e *sqlEval) stmt(st ast.Stmt, onReturn func(*sqlEval, *ast.ReturnStmt)) []*sqlEval {
	switch s := st.(type) {
	case *ast.DeclStmt:
		if gd, ok := s.Decl.(*ast.GenDecl); ok {
			for _, sp := range gd.Specs {
				vs, ok := sp.(*ast.ValueSpec)
				if !ok {
					continue
				}
				for i, n := range vs.Names {
					o := e.info.Defs[n]
					if o == nil {
						continue
					}
					t := o.Type()
					switch {
					case IsNamed(t, "strings", "Builder"):
						e.strs[o] = nil
					case isStringT(t) && i < len(vs.Values):
						e.strs[o] = e.evalStr(vs.Values[i])
					}
				}
			}
		}
	case *ast.AssignStmt:
		e.assign(s)
	case *ast.ExprStmt:
		if c, ok := s.X.(*ast.CallExpr); ok {
			e.call(c)
		}
	case *ast.RangeStmt:
		e.loop(s, s.Body, onReturn)
	case *ast.ForStmt:
		e.loop(s, s.Body, onReturn)
	case *ast.TypeSwitchStmt:
		e.switchCases(s.Body, onReturn)
	case *ast.SwitchStmt:
		e.switchCases(s.Body, onReturn)
	case *ast.IfStmt:
		// separator idiom inside a loop: if i > 0 { q.WriteString(sep) }
		if e.curRep != nil && s.Else == nil && len(s.Body.List) == 1 {
			if es, ok := s.Body.List[0].(*ast.ExprStmt); ok {
				if c, ok := es.X.(*ast.CallExpr); ok && e.calleeName(c) == "Builder.WriteString" {
					if sep, ok := e.constStr(c.Args[0]); ok {
						e.curRep.Sep = sep
						return []*sqlEval{e}
					}
				}
			}
		}
		// guards that leave the function do not contribute text - but `if err := helper(x); err != nil`
		// runs the helper first
		if s.Else == nil && hasReturn(s.Body) {
			if as, ok := s.Init.(*ast.AssignStmt); ok && len(as.Rhs) == 1 {
				if c, ok := as.Rhs[0].(*ast.CallExpr); ok {
					e.inline(c)
				}
			}
			return []*sqlEval{e}
		}
		// if c { ...; return } else { rest }  /  if c { rest } else { ...; return }:
		// the side that leaves is a guard, the other side is simply what follows
		endsLeaving := func(b *ast.BlockStmt) bool {
			if b == nil || len(b.List) == 0 {
				return false
			}
			switch x := b.List[len(b.List)-1].(type) {
			case *ast.ReturnStmt:
				return true
			case *ast.BranchStmt:
				return x.Tok == token.CONTINUE || x.Tok == token.BREAK
			}
			return false
		}
		if s.Else != nil && endsLeaving(s.Body) {
			switch el := s.Else.(type) {
			case *ast.BlockStmt:
				return e.stmts(el.List, onReturn)
			case *ast.IfStmt:
				return e.stmt(el, onReturn)
			}
		}
		if eb, ok := s.Else.(*ast.BlockStmt); ok && endsLeaving(eb) && !endsLeaving(s.Body) {
			return e.stmts(s.Body.List, onReturn)
		}
		if s.Else == nil {
			if len(s.Body.List) == 1 {
				if _, ok := s.Body.List[0].(*ast.BranchStmt); ok {
					return []*sqlEval{e} // if q == "" { continue }
				}
			}
			// optional text: two variants
			a := e.clone()
			a.variant = append(a.variant, types.ExprString(s.Cond))
			as := a.stmts(s.Body.List, onReturn)
			b := e.clone()
			b.variant = append(b.variant, "!("+types.ExprString(s.Cond)+")")
			return append(as, b)
		}
		a := e.clone()
		a.variant = append(a.variant, types.ExprString(s.Cond))
		as := a.stmts(s.Body.List, onReturn)
		b := e.clone()
		b.variant = append(b.variant, "!("+types.ExprString(s.Cond)+")")
		var bs []*sqlEval
		switch el := s.Else.(type) {
		case *ast.BlockStmt:
			bs = b.stmts(el.List, onReturn)
		case *ast.IfStmt:
			bs = b.stmt(el, onReturn)
		}
		return append(as, bs...)
	case *ast.ReturnStmt:
		if e.curRep == nil && onReturn != nil {
			onReturn(e, s)
		}
	case *ast.BlockStmt:
		return e.stmts(s.List, onReturn)
	}
	return []*sqlEval{e}
}

func (e *sqlEval) loop(node ast.Node, body *ast.BlockStmt, onReturn func(*sqlEval, *ast.ReturnStmt)) {
	if e.curRep != nil {
		e.fail("nested loops in a SQL builder are not supported")
		return
	}
	rep := &SQLRep{Loop: node}
	e.curRep = rep
	alt := &SQLAlt{Case: "loop body"}
	e.curAlt = alt
	// which builders/args are touched inside the loop is recorded by call/assign
	touchedB := map[types.Object]bool{}
	touchedA := map[types.Object]bool{}
	e.loopTouch(body, touchedB, touchedA)
	e.stmts(body.List, onReturn)
	if len(rep.Alts) == 0 && (alt.Text != "" || len(alt.Args) > 0) {
		rep.Alts = append(rep.Alts, alt)
	} else if alt.Text != "" || len(alt.Args) > 0 {
		// text written outside the switch cases belongs to every alternative
		for _, a := range rep.Alts {
			a.Text += alt.Text
			a.Args = append(a.Args, alt.Args...)
		}
	}
	e.curRep, e.curAlt = nil, nil
	for o := range touchedB {
		e.strs[o] = append(e.strs[o], sqlTextItem{rep: rep})
	}
	for o := range touchedA {
		e.args[o] = append(e.args[o], sqlArgItem{group: rep})
	}
}

func (e *sqlEval) loopTouch(body ast.Node, b, a map[types.Object]bool) {
	e.loopTouchDepth(body, b, a, 0)
}

func (e *sqlEval) loopTouchDepth(body ast.Node, b, a map[types.Object]bool, depth int) {
	ast.Inspect(body, func(n ast.Node) bool {
		switch x := n.(type) {
		case *ast.CallExpr:
			// what a helper called in the loop touches is touched by the loop
			if depth < 3 {
				var hb *ast.BlockStmt
				var params []*ast.Ident
				var args []ast.Expr
				switch f := x.Fun.(type) {
				case *ast.Ident:
					o := e.info.Uses[f]
					if fl, ok := e.funcs[o]; ok {
						hb = fl.Body
						for _, fld := range fl.Type.Params.List {
							params = append(params, fld.Names...)
						}
						args = x.Args
					} else if fo, ok := o.(*types.Func); ok && fo.Pkg() == e.pkg.Types {
						if fd := e.declOf(fo); fd != nil && fd.Body != nil {
							hb = fd.Body
							for _, fld := range fd.Type.Params.List {
								params = append(params, fld.Names...)
							}
							args = x.Args
						}
					}
				case *ast.SelectorExpr:
					if fo, ok := e.info.Uses[f.Sel].(*types.Func); ok && fo.Pkg() == e.pkg.Types {
						if fd := e.declOf(fo); fd != nil && fd.Body != nil && fd.Recv != nil {
							hb = fd.Body
							if len(fd.Recv.List) == 1 {
								params = append(params, fd.Recv.List[0].Names...)
								args = append(args, f.X)
							}
							for _, fld := range fd.Type.Params.List {
								params = append(params, fld.Names...)
							}
							args = append(args, x.Args...)
						}
					}
				}
				if hb != nil {
					// parameters stand for the arguments while looking
					var bound []types.Object
					for i, nm := range params {
						if i < len(args) {
							if po := e.info.Defs[nm]; po != nil {
								if ao := e.obj(args[i]); ao != nil && !isStringT(po.Type()) {
									if _, had := e.alias[po]; !had {
										e.alias[po] = ao
										bound = append(bound, po)
									}
								}
							}
						}
					}
					e.loopTouchDepth(hb, b, a, depth+1)
					for _, po := range bound {
						delete(e.alias, po)
					}
				}
			}
			name := e.calleeName(x)
			if name == "Builder.WriteString" {
				if sel, ok := x.Fun.(*ast.SelectorExpr); ok {
					if o := e.obj(sel.X); o != nil {
						b[o] = true
					}
				}
			}
		case *ast.AssignStmt:
			if len(x.Lhs) == 1 && len(x.Rhs) == 1 {
				if c, ok := x.Rhs[0].(*ast.CallExpr); ok && e.calleeName(c) == "append" {
					o := e.obj(x.Lhs[0])
					if o != nil {
						if sl, ok := o.Type().Underlying().(*types.Slice); ok {
							if isStringT(sl.Elem()) {
								e.lists[o] = e.curRep
							} else {
								a[o] = true
							}
						}
					}
				}
			}
		}
		return true
	})
}

func (e *sqlEval) switchCases(body *ast.BlockStmt, onReturn func(*sqlEval, *ast.ReturnStmt)) {
	if e.curRep == nil {
		e.fail("switch outside a loop in a SQL builder is not supported")
		return
	}
	outer := e.curAlt
	for _, st := range body.List {
		cc, ok := st.(*ast.CaseClause)
		if !ok {
			continue
		}
		blk := &ast.BlockStmt{List: cc.Body}
		if hasReturn(blk) && !returnsOnlyNil(blk) {
			continue // error arm
		}
		alt := &SQLAlt{}
		for _, t := range cc.List {
			alt.Case += types.ExprString(t) + " "
		}
		alt.Case = strings.TrimSpace(alt.Case)
		e.curAlt = alt
		e.stmts(cc.Body, onReturn)
		e.curRep.Alts = append(e.curRep.Alts, alt)
	}
	e.curAlt = outer
}

func (e *sqlEval) assign(s *ast.AssignStmt) {
	// addMatch := func(...) {...}
	if len(s.Lhs) == 1 && len(s.Rhs) == 1 {
		if fl, ok := s.Rhs[0].(*ast.FuncLit); ok {
			if o := e.obj0(s.Lhs[0]); o != nil {
				e.funcs[o] = fl
			}
			return
		}
		// err := helper(...), x = helper(...): interpret the helper for what it does to the builder
		if c, ok := s.Rhs[0].(*ast.CallExpr); ok && e.inline(c) {
			return
		}
		// conds := T{ors: make(...), args: make(...)}: nothing to track
		if _, ok := s.Rhs[0].(*ast.CompositeLit); ok {
			if o := e.obj0(s.Lhs[0]); o != nil {
				if _, isStruct := o.Type().Underlying().(*types.Struct); isStruct {
					return
				}
			}
		}
	}
	// a, b, err := fragmentFunc(x)
	if len(s.Rhs) == 1 && len(s.Lhs) >= 2 {
		if c, ok := s.Rhs[0].(*ast.CallExpr); ok {
			if id, ok := c.Fun.(*ast.Ident); ok {
				if fd := e.findFunc(id.Name); fd != nil && fd.Type.Results != nil && len(fd.Type.Results.List) >= 2 {
					ch := e.fragmentChoice(fd)
					if len(ch.Alts) > 0 {
						if o := e.obj(s.Lhs[0]); o != nil {
							e.choices[o] = ch
						}
						if o := e.obj(s.Lhs[1]); o != nil {
							e.choices[o] = ch
						}
						return
					}
				}
			}
		}
	}
	if len(s.Lhs) != len(s.Rhs) {
		return
	}
	for i := range s.Lhs {
		o := e.obj(s.Lhs[i])
		if o == nil {
			continue
		}
		rhs := s.Rhs[i]
		if c, ok := rhs.(*ast.CallExpr); ok && e.calleeName(c) == "append" {
			e.appendCall(o, c)
			continue
		}
		if c, ok := rhs.(*ast.CallExpr); ok && e.calleeName(c) == "make" {
			continue
		}
		if isStringT(o.Type()) {
			e.strs[o] = e.evalStr(rhs)
		}
	}
}

func (e *sqlEval) appendCall(o types.Object, c *ast.CallExpr) {
	sl, ok := o.Type().Underlying().(*types.Slice)
	if !ok {
		return
	}
	if isStringT(sl.Elem()) {
		// ors = append(ors, "...")
		if e.curAlt == nil {
			e.fail("append to a string list outside a loop")
			return
		}
		for _, a := range c.Args[1:] {
			if s, ok := e.constStr(a); ok {
				e.curAlt.Text += s
			} else if ch, ok := e.choices[e.obj(a)]; ok && e.curRep != nil && len(e.curRep.Alts) == 0 {
				// the fragment (and its arguments) come from a fragment function: one
				// alternative of the repetition per case of that function
				for _, ca := range ch.Alts {
					e.curRep.Alts = append(e.curRep.Alts, &SQLAlt{Text: ca.Text, Args: append([]ast.Expr{}, ca.Args...), Case: ca.Case})
				}
			} else {
				e.fail("non-constant SQL fragment appended to a list")
			}
		}
		return
	}
	// args = append(args, v...)
	base := e.obj(c.Args[0])
	if base != o {
		// append(otherArgs, ...) used as an expression elsewhere
		return
	}
	for _, a := range c.Args[1:] {
		if _, fromChoice := e.choices[e.obj(a)]; fromChoice && c.Ellipsis.IsValid() && e.curRep != nil {
			continue // args = append(args, fragmentArgs...): carried by the alternatives of the fragment function
		}
		if e.curAlt != nil {
			e.curAlt.Args = append(e.curAlt.Args, a)
		} else {
			e.args[o] = append(e.args[o], sqlArgItem{single: a})
		}
	}
}

// inline interprets the body of a local closure or of a function / method of the package in
// place, its parameters standing for the caller's variables (builder, lists) or string values.
// Returns false when c is not such a call.
func (e *sqlEval) inline(c *ast.CallExpr) bool {
	var ftype *ast.FuncType
	var body *ast.BlockStmt
	var recv *ast.FieldList
	var recvArg ast.Expr
	switch f := c.Fun.(type) {
	case *ast.Ident:
		o := e.info.Uses[f]
		if fl, ok := e.funcs[o]; ok {
			ftype, body = fl.Type, fl.Body
		} else if fo, ok := o.(*types.Func); ok && fo.Pkg() == e.pkg.Types {
			if fd := e.declOf(fo); fd != nil {
				ftype, body = fd.Type, fd.Body
			}
		}
	case *ast.SelectorExpr:
		if fo, ok := e.info.Uses[f.Sel].(*types.Func); ok && fo.Pkg() == e.pkg.Types {
			if sig := fo.Type().(*types.Signature); sig.Recv() != nil {
				if fd := e.declOf(fo); fd != nil {
					ftype, body, recv, recvArg = fd.Type, fd.Body, fd.Recv, f.X
				}
			}
		}
	}
	if body == nil || e.inlined[body] || e.depth >= 3 {
		return false
	}
	// only helpers that touch builder state (or call such helpers): a strings.Builder write, an
	// append to a string / []any list
	touches := false
	ast.Inspect(body, func(n ast.Node) bool {
		if cc, ok := n.(*ast.CallExpr); ok {
			switch e.calleeName(cc) {
			case "Builder.WriteString", "fmt.Fprintf", "append":
				touches = true
			}
		}
		return true
	})
	if !touches {
		return false
	}
	bind := func(names []*ast.Ident, arg ast.Expr) {
		for _, nm := range names {
			po := e.info.Defs[nm]
			if po == nil {
				continue
			}
			if isStringT(po.Type()) {
				sub := *e
				sub.errs = nil
				if items := sub.evalStr(arg); len(sub.errs) == 0 {
					e.strs[po] = items
				}
				continue
			}
			if ao := e.obj(arg); ao != nil {
				e.alias[po] = ao
			}
		}
	}
	if recv != nil && len(recv.List) == 1 && recvArg != nil {
		bind(recv.List[0].Names, recvArg)
	}
	ai := 0
	for _, fld := range ftype.Params.List {
		names := fld.Names
		if len(names) == 0 {
			ai++
			continue
		}
		for _, nm := range names {
			if ai < len(c.Args) {
				bind([]*ast.Ident{nm}, c.Args[ai])
			}
			ai++
		}
	}
	e.inlined[body] = true
	e.depth++
	e.stmts(body.List, nil)
	e.depth--
	delete(e.inlined, body)
	return true
}

func (e *sqlEval) declOf(fo *types.Func) *ast.FuncDecl {
	for _, f := range e.pkg.Syntax {
		for _, d := range f.Decls {
			if fd, ok := d.(*ast.FuncDecl); ok && e.info.Defs[fd.Name] == fo {
				return fd
			}
		}
	}
	return nil
}

func (e *sqlEval) call(c *ast.CallExpr) {
	if e.inline(c) {
		return
	}
	switch e.calleeName(c) {
	case "Builder.WriteString":
		sel := c.Fun.(*ast.SelectorExpr)
		o := e.obj(sel.X)
		items := e.evalStr(c.Args[0])
		if e.curAlt != nil {
			for _, it := range items {
				if it.rep != nil || it.choice != nil {
					e.fail("nested repetition inside a loop")
				}
				e.curAlt.Text += it.lit
			}
			return
		}
		e.strs[o] = append(e.strs[o], items...)
	case "fmt.Fprintf":
		o := e.obj(c.Args[0])
		f, ok := e.constStr(c.Args[1])
		if !ok {
			e.fail("Fprintf format is not a constant")
			return
		}
		items := e.format(f, c.Args[2:])
		if e.curAlt != nil {
			for _, it := range items {
				e.curAlt.Text += it.lit
			}
			return
		}
		e.strs[o] = append(e.strs[o], items...)
	}
}

// argsOf evaluates an expression of type []any to argument items.
func (e *sqlEval) argsOf(x ast.Expr) []sqlArgItem {
	switch v := x.(type) {
	case *ast.Ident:
		o := e.obj(v)
		if c, ok := e.choices[o]; ok {
			return []sqlArgItem{{choice: c}}
		}
		if a, ok := e.args[o]; ok {
			return a
		}
		if v.Name == "nil" {
			return nil
		}
		e.fail("argument list %s has no tracked value", v.Name)
	case *ast.SelectorExpr:
		if o := e.obj(v); o != nil {
			if a, ok := e.args[o]; ok {
				return a
			}
		}
		e.fail("argument list %s has no tracked value", types.ExprString(v))
	case *ast.ParenExpr:
		return e.argsOf(v.X)
	case *ast.CallExpr:
		if e.calleeName(v) == "append" {
			out := e.argsOf(v.Args[0])
			for _, a := range v.Args[1:] {
				out = append(out, sqlArgItem{single: a})
			}
			return out
		}
		e.fail("unsupported argument list expression")
	case *ast.CompositeLit:
		var out []sqlArgItem
		for _, el := range v.Elts {
			out = append(out, sqlArgItem{single: el})
		}
		return out
	}
	return nil
}

// NewSQLEval prepares an evaluator for a package.
func NewSQLEval(pkg *packages.Package) *sqlEval {
	return &sqlEval{pkg: pkg, info: pkg.TypesInfo, strs: map[types.Object][]sqlTextItem{}, lists: map[types.Object]*SQLRep{}, args: map[types.Object][]sqlArgItem{}, choices: map[types.Object]*SQLChoice{},
		funcs: map[types.Object]*ast.FuncLit{}, alias: map[types.Object]types.Object{}, inlined: map[*ast.BlockStmt]bool{}}
}

// EvalBuilder evaluates a function returning (query string, args []any, ...).
func EvalBuilder(pkg *packages.Package, fd *ast.FuncDecl) ([]*SQLTemplate, []string) {
	e := NewSQLEval(pkg)
	var out []*SQLTemplate
	var errs []string
	onRet := func(env *sqlEval, ret *ast.ReturnStmt) {
		if len(ret.Results) < 2 {
			return
		}
		if s, ok := env.constStr(ret.Results[0]); ok && s == "" {
			return // error / empty-input return
		}
		t := &SQLTemplate{Variant: strings.Join(env.variant, " && ")}
		t.Text = env.evalStr(ret.Results[0])
		t.Args = env.argsOf(ret.Results[1])
		out = append(out, t)
	}
	envs := e.stmts(fd.Body.List, onRet)
	for _, env := range envs {
		errs = append(errs, env.errs...)
	}
	return out, dedupeStr(errs)
}

// interpretUpTo interprets the straight-line definitions of fd that precede the expression at
// (flattening blocks and loops on the way to it).
func (e *sqlEval) interpretUpTo(fd *ast.FuncDecl, at ast.Node) {
	var pre []ast.Stmt
	var collect func(list []ast.Stmt) bool
	collect = func(list []ast.Stmt) bool {
		for _, st := range list {
			if st.Pos() <= at.Pos() && at.End() <= st.End() {
				switch s := st.(type) {
				case *ast.ForStmt:
					return collect(s.Body.List)
				case *ast.RangeStmt:
					return collect(s.Body.List)
				case *ast.BlockStmt:
					return collect(s.List)
				case *ast.IfStmt:
					if s.Init != nil && s.Init.Pos() <= at.Pos() && at.End() <= s.Init.End() {
						return true
					}
					return collect(s.Body.List)
				}
				return true
			}
			pre = append(pre, st)
		}
		return false
	}
	collect(fd.Body.List)
	for _, st := range pre {
		// only straight-line definitions matter
		switch st.(type) {
		case *ast.AssignStmt, *ast.DeclStmt:
			e.stmt(st, nil)
		}
	}
}

// EvalCallSite evaluates the (query, args...) of a RawQuery-style call found
// inside fd: the statements of fd up to the call are interpreted first. When fd is a helper that
// is handed pieces of the statement (a fragment, its arguments, the cursor) by its only caller in
// the package, the caller is interpreted up to that call first and the helper's parameters stand
// for the caller's values; the caller is returned as the function the statement belongs to.
func EvalCallSite(pkg *packages.Package, fd *ast.FuncDecl, call *ast.CallExpr) ([]*SQLTemplate, []string, *ast.FuncDecl) {
	e := NewSQLEval(pkg)
	owner := fd
	info := pkg.TypesInfo
	// parameters of fd used in the statement's text or argument list
	params := map[types.Object]int{}
	i := 0
	for _, fl := range fd.Type.Params.List {
		for _, nm := range fl.Names {
			if o := info.Defs[nm]; o != nil {
				params[o] = i
			}
			i++
		}
		if len(fl.Names) == 0 {
			i++
		}
	}
	usesParam := false
	for _, a := range call.Args {
		ast.Inspect(a, func(n ast.Node) bool {
			if id, ok := n.(*ast.Ident); ok {
				if _, isPar := params[info.Uses[id]]; isPar {
					if t := info.Uses[id].Type(); isStringT(t) {
						usesParam = true
					} else if _, isSl := t.Underlying().(*types.Slice); isSl {
						usesParam = true
					}
				}
			}
			return true
		})
	}
	if usesParam {
		fobj := info.Defs[fd.Name]
		var sites []*ast.CallExpr
		var siteDecls []*ast.FuncDecl
		for _, f := range pkg.Syntax {
			for _, d := range f.Decls {
				cfd, ok := d.(*ast.FuncDecl)
				if !ok || cfd.Body == nil || cfd == fd {
					continue
				}
				ast.Inspect(cfd.Body, func(n ast.Node) bool {
					c, ok := n.(*ast.CallExpr)
					if !ok {
						return true
					}
					var id *ast.Ident
					switch f := c.Fun.(type) {
					case *ast.Ident:
						id = f
					case *ast.SelectorExpr:
						id = f.Sel
					}
					if id != nil && info.Uses[id] == fobj && fobj != nil {
						sites = append(sites, c)
						siteDecls = append(siteDecls, cfd)
					}
					return true
				})
			}
		}
		if len(sites) == 1 {
			owner = siteDecls[0]
			e.interpretUpTo(owner, sites[0])
			e.subst = map[types.Object]ast.Expr{}
			for po, idx := range params {
				if idx >= len(sites[0].Args) {
					continue
				}
				arg := sites[0].Args[idx]
				e.subst[po] = arg
				if isStringT(po.Type()) {
					sub := *e
					sub.errs = nil
					if items := sub.evalStr(arg); len(sub.errs) == 0 {
						e.strs[po] = items
					}
					continue
				}
				if ao := e.obj(arg); ao != nil {
					e.alias[po] = ao
				}
			}
		}
	}
	e.interpretUpTo(fd, call)
	t := &SQLTemplate{}
	t.Text = e.evalStr(call.Args[0])
	if call.Ellipsis.IsValid() && len(call.Args) == 2 {
		t.Args = e.argsOf(call.Args[1])
	} else {
		for _, a := range call.Args[1:] {
			t.Args = append(t.Args, sqlArgItem{single: a})
		}
	}
	// a helper's parameter in the argument list is the caller's expression
	if e.subst != nil {
		for k, it := range t.Args {
			if it.single == nil {
				continue
			}
			if id, ok := it.single.(*ast.Ident); ok {
				if ce, ok := e.subst[info.Uses[id]]; ok {
					t.Args[k].single = ce
				}
			}
		}
	}
	return []*SQLTemplate{t}, dedupeStr(e.errs), owner
}

func dedupeStr(in []string) []string {
	seen := map[string]bool{}
	var out []string
	for _, s := range in {
		if !seen[s] {
			seen[s] = true
			out = append(out, s)
		}
	}
	return out
}

// Samples instantiates a template: every alternative of a repeated group
// alone, and every ordered pair; every alternative of a choice.
func (t *SQLTemplate) Samples() ([]SQLSample, error) {
	type binding struct {
		alts []*SQLAlt
	}
	// collect the distinct reps/choices
	reps := map[*SQLRep][][]*SQLAlt{}
	repKey := func(r *SQLRep) *SQLRep { return r }
	var order []any
	seen := map[any]bool{}
	for _, it := range t.Text {
		if it.rep != nil && !seen[loopKey(it.rep)] {
			seen[loopKey(it.rep)] = true
			order = append(order, it.rep)
		}
		if it.choice != nil && !seen[it.choice] {
			seen[it.choice] = true
			order = append(order, it.choice)
		}
	}
	_ = reps
	_ = repKey
	// enumerate assignments
	type assign map[any][]*SQLAlt
	assigns := []assign{{}}
	for _, k := range order {
		var options [][]*SQLAlt
		switch x := k.(type) {
		case *SQLRep:
			if len(x.Alts) == 0 {
				return nil, fmt.Errorf("repeated group without alternatives")
			}
			for _, a := range x.Alts {
				options = append(options, []*SQLAlt{a})
			}
			for _, a := range x.Alts {
				for _, b := range x.Alts {
					options = append(options, []*SQLAlt{a, b})
				}
			}
		case *SQLChoice:
			for _, a := range x.Alts {
				options = append(options, []*SQLAlt{a})
			}
		}
		var next []assign
		for _, as := range assigns {
			for _, op := range options {
				n := assign{}
				for kk, vv := range as {
					n[kk] = vv
				}
				n[keyOf(k)] = op
				next = append(next, n)
			}
		}
		assigns = next
		if len(assigns) > 200 {
			return nil, fmt.Errorf("too many instantiations")
		}
	}
	var out []SQLSample
	for _, as := range assigns {
		var sb strings.Builder
		var desc []string
		for _, it := range t.Text {
			switch {
			case it.rep != nil:
				sel := as[loopKey(it.rep)]
				for i, a := range sel {
					if i > 0 {
						sb.WriteString(it.rep.Sep)
					}
					sb.WriteString(a.Text)
				}
			case it.choice != nil:
				for _, a := range as[it.choice] {
					sb.WriteString(a.Text)
				}
			default:
				sb.WriteString(it.lit)
			}
		}
		var args []ast.Expr
		for _, it := range t.Args {
			switch {
			case it.group != nil:
				sel, ok := as[loopKey(it.group)]
				if !ok {
					return nil, fmt.Errorf("argument group of a loop whose text is not part of the statement")
				}
				for _, a := range sel {
					args = append(args, a.Args...)
				}
			case it.choice != nil:
				sel, ok := as[it.choice]
				if !ok {
					return nil, fmt.Errorf("arguments of a fragment whose text is not part of the statement")
				}
				for _, a := range sel {
					args = append(args, a.Args...)
				}
			default:
				args = append(args, it.single)
			}
		}
		for _, k := range order {
			var cs []string
			for _, a := range as[keyOf(k)] {
				cs = append(cs, a.Case)
			}
			desc = append(desc, strings.Join(cs, "+"))
		}
		out = append(out, SQLSample{SQL: sb.String(), Args: args, Desc: strings.Join(desc, " / ")})
	}
	return out, nil
}

func loopKey(r *SQLRep) any { return r.Loop }
func keyOf(k any) any {
	if r, ok := k.(*SQLRep); ok {
		return loopKey(r)
	}
	return k
}
