package core

import (
	"fmt"
	"go/types"
	"sort"
	"strings"

	"golang.org/x/tools/go/ssa"
)

// Entry is one API entry point (A1), derived from the registration code.
type Entry struct {
	Kind      string // read | write | syntax
	Transport string // rest | grpc
	Verb      string // GET.. or the gRPC service name
	Path      string // route or method name
	Fn        *ssa.Function
	RegFn     *ssa.Function // the Register* function that registered it
	Pos       string
}

func (e Entry) String() string {
	return fmt.Sprintf("%s/%s %s %s -> %s", e.Kind, e.Transport, e.Verb, e.Path, FuncName(e.Fn))
}

func kindOfRegister(name string) string {
	switch {
	case strings.HasPrefix(name, "RegisterRead"):
		return "read"
	case strings.HasPrefix(name, "RegisterWrite"):
		return "write"
	case strings.HasPrefix(name, "RegisterSyntax"):
		return "syntax"
	}
	return ""
}

func routerKind(t types.Type) string {
	switch {
	case IsNamed(t, KetoMod+"/internal/x", "ReadRouter"):
		return "read"
	case IsNamed(t, KetoMod+"/internal/x", "WriteRouter"):
		return "write"
	case IsNamed(t, KetoMod+"/internal/x", "OPLSyntaxRouter"):
		return "syntax"
	}
	return ""
}

// boundMethod resolves a handler argument (a bound-method closure, a function
// value or a closure) to the function that will run.
func (p *Program) boundMethod(v ssa.Value) *ssa.Function {
	v = Unwrap(v)
	switch x := v.(type) {
	case *ssa.MakeClosure:
		fn := x.Fn.(*ssa.Function)
		if strings.Contains(fn.Synthetic, "bound method") {
			if obj, ok := fn.Object().(*types.Func); ok {
				if len(x.Bindings) == 1 {
					recv := x.Bindings[0].Type()
					sel := types.NewMethodSet(recv).Lookup(obj.Pkg(), obj.Name())
					if sel != nil {
						if m := p.SSA.MethodValue(sel); m != nil {
							return m
						}
					}
				}
				return p.SSA.FuncValue(obj)
			}
		}
		return fn
	case *ssa.Function:
		return x
	}
	return nil
}

// Entries derives the entry-point table from every Register{Read,Write,Syntax}
// {Routes,GRPC} method in non-test keto code.
func (p *Program) Entries() ([]Entry, []string) {
	var out []Entry
	var problems []string
	for _, pk := range p.KetoPackages() {
		rel := RelPath(pk.PkgPath)
		for _, fn := range p.KetoFuncs(rel) {
			if fn.Parent() != nil {
				continue
			}
			kind := kindOfRegister(fn.Name())
			if kind == "" || fn.Signature.Recv() == nil {
				continue
			}
			// The router kind of a REST registration is the parameter's type.
			for _, par := range fn.Params {
				if rk := routerKind(par.Type()); rk != "" && rk != kind {
					problems = append(problems, fmt.Sprintf("%s: method name says %s but router parameter is %s", FuncName(fn), kind, rk))
				}
			}
			Instrs(fn, func(_ *ssa.BasicBlock, _ int, ins ssa.Instruction) {
				call, ok := ins.(ssa.CallInstruction)
				if !ok {
					return
				}
				c := call.Common()
				obj := CalleeObj(c)
				if obj == nil {
					return
				}
				// REST: (*httprouter.Router).{GET,POST,...}(path, handle)
				if obj.Pkg() != nil && obj.Pkg().Path() == "github.com/julienschmidt/httprouter" {
					switch obj.Name() {
					case "GET", "POST", "PUT", "PATCH", "DELETE", "HEAD", "OPTIONS", "Handle", "Handler", "HandlerFunc":
						args := c.Args
						if !c.IsInvoke() && len(args) > 0 { // receiver first
							args = args[1:]
						}
						verb := obj.Name()
						path := "?"
						var h ssa.Value
						for _, a := range args {
							if k, ok := a.(*ssa.Const); ok && k.Value != nil && k.Value.Kind().String() == "String" {
								s := k.Value.ExactString()
								if path == "?" && strings.HasPrefix(strings.Trim(s, `"`), "/") {
									path = strings.Trim(s, `"`)
								} else if verb == "Handle" || verb == "Handler" || verb == "HandlerFunc" {
									verb = strings.Trim(s, `"`)
								}
							} else {
								h = a
							}
						}
						target := p.boundMethod(h)
						if target == nil {
							problems = append(problems, fmt.Sprintf("%s: cannot resolve handler of %s %s at %s", FuncName(fn), verb, path, p.Pos(ins.Pos())))
							return
						}
						out = append(out, Entry{Kind: kind, Transport: "rest", Verb: verb, Path: path, Fn: target, RegFn: fn, Pos: p.Pos(ins.Pos())})
					}
					return
				}
				// gRPC: Register<Svc>Server(s, h)
				if strings.HasPrefix(obj.Name(), "Register") && strings.HasSuffix(obj.Name(), "Server") && len(c.Args) == 2 && !c.IsInvoke() {
					sig := obj.Type().(*types.Signature)
					if sig.Params().Len() != 2 {
						return
					}
					iface, ok := sig.Params().At(1).Type().Underlying().(*types.Interface)
					if !ok {
						return
					}
					impl := Unwrap(c.Args[1]).Type()
					ms := types.NewMethodSet(impl)
					svc := strings.TrimSuffix(strings.TrimPrefix(obj.Name(), "Register"), "Server")
					for i := 0; i < iface.NumMethods(); i++ {
						m := iface.Method(i)
						if !m.Exported() {
							continue
						}
						sel := ms.Lookup(m.Pkg(), m.Name())
						if sel == nil {
							problems = append(problems, fmt.Sprintf("%s: %s has no method %s", FuncName(fn), impl, m.Name()))
							continue
						}
						target := p.SSA.MethodValue(sel)
						if target == nil {
							problems = append(problems, fmt.Sprintf("%s: no SSA method for %s.%s", FuncName(fn), impl, m.Name()))
							continue
						}
						out = append(out, Entry{Kind: kind, Transport: "grpc", Verb: svc, Path: m.Name(), Fn: target, RegFn: fn, Pos: p.Pos(ins.Pos())})
					}
				}
			})
		}
	}
	sort.Slice(out, func(i, j int) bool { return out[i].String() < out[j].String() })
	return out, problems
}

// EntryFloors are the counts confirmed by reading the pinned tree.
var EntryFloors = map[string]int{
	"read/rest": 8, "write/rest": 3, "syntax/rest": 1,
	"read/grpc": 5, "write/grpc": 2, "syntax/grpc": 1,
}

// CheckEntryFloors returns a description of every class below its floor.
func CheckEntryFloors(es []Entry) []string {
	cnt := map[string]int{}
	for _, e := range es {
		cnt[e.Kind+"/"+e.Transport]++
	}
	var bad []string
	for k, min := range EntryFloors {
		if cnt[k] < min {
			bad = append(bad, fmt.Sprintf("%s: %d entry points found, floor %d", k, cnt[k], min))
		}
	}
	sort.Strings(bad)
	return bad
}
