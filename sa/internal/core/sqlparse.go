package core

import (
	"fmt"
	"strings"
	"unicode"
)

// A small parser for the SQL this repository builds: INSERT ... VALUES,
// DELETE ... WHERE, SELECT ... FROM ... WHERE ... with EXISTS sub-selects, and
// pop Where-fragments. Anything it does not understand is an error (the
// statement is then reported as undecided, never assumed fine).

type SQLTok struct {
	Kind string // id | ? | op | ( | ) | , | num | str
	Text string
	QIdx int // index of the placeholder among all ? of the statement
}

func SQLTokenize(s string) ([]SQLTok, error) {
	var out []SQLTok
	q := 0
	rs := []rune(s)
	for i := 0; i < len(rs); {
		c := rs[i]
		switch {
		case unicode.IsSpace(c):
			i++
		case c == '-' && i+1 < len(rs) && rs[i+1] == '-':
			for i < len(rs) && rs[i] != '\n' {
				i++
			}
		case c == '?':
			out = append(out, SQLTok{Kind: "?", Text: "?", QIdx: q})
			q++
			i++
		case c == '(' || c == ')' || c == ',':
			out = append(out, SQLTok{Kind: string(c), Text: string(c)})
			i++
		case c == '=' || c == '<' || c == '>' || c == '!':
			j := i + 1
			for j < len(rs) && (rs[j] == '=' || rs[j] == '>') {
				j++
			}
			out = append(out, SQLTok{Kind: "op", Text: string(rs[i:j])})
			i = j
		case c == '*':
			out = append(out, SQLTok{Kind: "id", Text: "*"})
			i++
		case c == '\'':
			j := i + 1
			for j < len(rs) && rs[j] != '\'' {
				j++
			}
			out = append(out, SQLTok{Kind: "str", Text: string(rs[i : j+1])})
			i = j + 1
		case unicode.IsDigit(c):
			j := i
			for j < len(rs) && unicode.IsDigit(rs[j]) {
				j++
			}
			out = append(out, SQLTok{Kind: "num", Text: string(rs[i:j])})
			i = j
		case unicode.IsLetter(c) || c == '_':
			j := i
			for j < len(rs) && (unicode.IsLetter(rs[j]) || unicode.IsDigit(rs[j]) || rs[j] == '_' || rs[j] == '.') {
				j++
			}
			out = append(out, SQLTok{Kind: "id", Text: string(rs[i:j])})
			i = j
		default:
			return nil, fmt.Errorf("unexpected character %q in SQL", c)
		}
	}
	return out, nil
}

// SQLExpr is a boolean expression tree.
type SQLExpr struct {
	Op   string     // AND | OR | atom | EXISTS
	Kids []*SQLExpr // AND/OR
	// atom
	Left  string // column (possibly qualified)
	Cmp   string // = > < >= <= <> IS NULL, IS NOT NULL, IN
	Right string // "?" | column | literal
	QIdx  int    // placeholder index when Right == "?"
	Sub   *SQLStmt
}

func (e *SQLExpr) String() string {
	switch e.Op {
	case "AND", "OR":
		var ks []string
		for _, k := range e.Kids {
			ks = append(ks, k.String())
		}
		return "(" + strings.Join(ks, " "+e.Op+" ") + ")"
	case "EXISTS":
		return "EXISTS(...)"
	}
	return e.Left + " " + e.Cmp + " " + e.Right
}

// Conjuncts returns the top-level AND children (the expression itself if it
// is not an AND).
func (e *SQLExpr) Conjuncts() []*SQLExpr {
	if e == nil {
		return nil
	}
	if e.Op == "AND" {
		var out []*SQLExpr
		for _, k := range e.Kids {
			out = append(out, k.Conjuncts()...)
		}
		return out
	}
	return []*SQLExpr{e}
}

// Atoms returns every atom of the tree.
func (e *SQLExpr) Atoms() []*SQLExpr {
	if e == nil {
		return nil
	}
	if e.Op == "atom" {
		return []*SQLExpr{e}
	}
	var out []*SQLExpr
	for _, k := range e.Kids {
		out = append(out, k.Atoms()...)
	}
	return out
}

type SQLStmt struct {
	Kind    string // INSERT | DELETE | SELECT
	Table   string
	Alias   string
	Columns []string   // INSERT column list
	Rows    [][]SQLTok // INSERT value tuples
	Where   *SQLExpr
	Selects []SQLSelectItem
	OrderBy []string
	Limit   *SQLTok
	Subs    []*SQLStmt // sub-selects (EXISTS) anywhere in the statement
	Tail    string     // e.g. ON CONFLICT ...
	NumQ    int
}

type SQLSelectItem struct {
	Expr  string
	Alias string
	Sub   *SQLStmt
}

type sqlParser struct {
	toks []SQLTok
	pos  int
}

func (p *sqlParser) peek() *SQLTok {
	if p.pos < len(p.toks) {
		return &p.toks[p.pos]
	}
	return nil
}
func (p *sqlParser) next() *SQLTok {
	t := p.peek()
	if t != nil {
		p.pos++
	}
	return t
}
func (p *sqlParser) isKw(kw string) bool {
	t := p.peek()
	return t != nil && t.Kind == "id" && strings.EqualFold(t.Text, kw)
}
func (p *sqlParser) expectKw(kws ...string) error {
	for _, kw := range kws {
		if !p.isKw(kw) {
			got := "<end>"
			if t := p.peek(); t != nil {
				got = t.Text
			}
			return fmt.Errorf("expected %s, got %s", kw, got)
		}
		p.pos++
	}
	return nil
}

// ParseSQL parses one statement.
func ParseSQL(s string) (*SQLStmt, error) {
	toks, err := SQLTokenize(s)
	if err != nil {
		return nil, err
	}
	p := &sqlParser{toks: toks}
	st, err := p.stmt()
	if err != nil {
		return nil, fmt.Errorf("%v in %q", err, strings.Join(strings.Fields(s), " "))
	}
	if p.peek() != nil {
		return nil, fmt.Errorf("trailing tokens from %q in %q", p.peek().Text, strings.Join(strings.Fields(s), " "))
	}
	for _, t := range toks {
		if t.Kind == "?" {
			st.NumQ++
		}
	}
	return st, nil
}

func (p *sqlParser) stmt() (*SQLStmt, error) {
	switch {
	case p.isKw("INSERT"):
		return p.insert()
	case p.isKw("DELETE"):
		return p.delete()
	case p.isKw("SELECT"):
		return p.selectStmt()
	}
	return nil, fmt.Errorf("unsupported statement")
}

func (p *sqlParser) insert() (*SQLStmt, error) {
	st := &SQLStmt{Kind: "INSERT"}
	p.next()
	if p.isKw("IGNORE") {
		p.next()
		st.Tail = "IGNORE"
	}
	if err := p.expectKw("INTO"); err != nil {
		return nil, err
	}
	t := p.next()
	if t == nil || t.Kind != "id" {
		return nil, fmt.Errorf("expected table name")
	}
	st.Table = t.Text
	if t := p.next(); t == nil || t.Kind != "(" {
		return nil, fmt.Errorf("expected column list")
	}
	for {
		t := p.next()
		if t == nil {
			return nil, fmt.Errorf("unterminated column list")
		}
		if t.Kind == "id" {
			st.Columns = append(st.Columns, t.Text)
		}
		if t.Kind == ")" {
			break
		}
	}
	if err := p.expectKw("VALUES"); err != nil {
		return nil, err
	}
	for {
		if t := p.next(); t == nil || t.Kind != "(" {
			return nil, fmt.Errorf("expected value tuple")
		}
		var row []SQLTok
		for {
			t := p.next()
			if t == nil {
				return nil, fmt.Errorf("unterminated value tuple")
			}
			if t.Kind == ")" {
				break
			}
			if t.Kind != "," {
				row = append(row, *t)
			}
		}
		st.Rows = append(st.Rows, row)
		if t := p.peek(); t != nil && t.Kind == "," {
			p.next()
			continue
		}
		break
	}
	// tail: ON CONFLICT (...) DO NOTHING
	var tail []string
	for p.peek() != nil {
		tail = append(tail, p.next().Text)
	}
	if len(tail) > 0 {
		st.Tail = strings.TrimSpace(st.Tail + " " + strings.Join(tail, " "))
	}
	return st, nil
}

func (p *sqlParser) delete() (*SQLStmt, error) {
	st := &SQLStmt{Kind: "DELETE"}
	p.next()
	if err := p.expectKw("FROM"); err != nil {
		return nil, err
	}
	t := p.next()
	if t == nil || t.Kind != "id" {
		return nil, fmt.Errorf("expected table name")
	}
	st.Table = t.Text
	if p.peek() == nil {
		return st, nil
	}
	if err := p.expectKw("WHERE"); err != nil {
		return nil, err
	}
	e, err := p.orExpr(st)
	if err != nil {
		return nil, err
	}
	st.Where = e
	return st, nil
}

func (p *sqlParser) selectStmt() (*SQLStmt, error) {
	st := &SQLStmt{Kind: "SELECT"}
	p.next()
	// select list up to FROM at depth 0
	for {
		var item SQLSelectItem
		if p.isKw("EXISTS") {
			p.next()
			if t := p.next(); t == nil || t.Kind != "(" {
				return nil, fmt.Errorf("expected ( after EXISTS")
			}
			sub, err := p.selectStmt()
			if err != nil {
				return nil, err
			}
			if t := p.next(); t == nil || t.Kind != ")" {
				return nil, fmt.Errorf("expected ) after sub-select")
			}
			item.Sub = sub
			item.Expr = "EXISTS"
			st.Subs = append(st.Subs, sub)
		} else {
			t := p.next()
			if t == nil || (t.Kind != "id" && t.Kind != "num") {
				return nil, fmt.Errorf("unsupported select item")
			}
			item.Expr = t.Text
		}
		if p.isKw("AS") {
			p.next()
			t := p.next()
			if t == nil || t.Kind != "id" {
				return nil, fmt.Errorf("expected alias")
			}
			item.Alias = t.Text
		}
		st.Selects = append(st.Selects, item)
		if t := p.peek(); t != nil && t.Kind == "," {
			p.next()
			continue
		}
		break
	}
	if err := p.expectKw("FROM"); err != nil {
		return nil, err
	}
	t := p.next()
	if t == nil || t.Kind != "id" {
		return nil, fmt.Errorf("expected table name")
	}
	st.Table = t.Text
	if p.isKw("AS") {
		p.next()
		a := p.next()
		if a == nil || a.Kind != "id" {
			return nil, fmt.Errorf("expected table alias")
		}
		st.Alias = a.Text
	}
	if p.isKw("WHERE") {
		p.next()
		e, err := p.orExpr(st)
		if err != nil {
			return nil, err
		}
		st.Where = e
	}
	if p.isKw("ORDER") {
		p.next()
		if err := p.expectKw("BY"); err != nil {
			return nil, err
		}
		for {
			t := p.next()
			if t == nil || t.Kind != "id" {
				return nil, fmt.Errorf("expected order column")
			}
			col := t.Text
			if p.isKw("DESC") || p.isKw("ASC") {
				col += " " + strings.ToUpper(p.next().Text)
			}
			st.OrderBy = append(st.OrderBy, col)
			if t := p.peek(); t != nil && t.Kind == "," {
				p.next()
				continue
			}
			break
		}
	}
	if p.isKw("LIMIT") {
		p.next()
		t := p.next()
		if t == nil {
			return nil, fmt.Errorf("expected limit value")
		}
		st.Limit = t
	}
	return st, nil
}

func (p *sqlParser) orExpr(st *SQLStmt) (*SQLExpr, error) {
	l, err := p.andExpr(st)
	if err != nil {
		return nil, err
	}
	kids := []*SQLExpr{l}
	for p.isKw("OR") {
		p.next()
		r, err := p.andExpr(st)
		if err != nil {
			return nil, err
		}
		kids = append(kids, r)
	}
	if len(kids) == 1 {
		return l, nil
	}
	return &SQLExpr{Op: "OR", Kids: kids}, nil
}

func (p *sqlParser) andExpr(st *SQLStmt) (*SQLExpr, error) {
	l, err := p.atom(st)
	if err != nil {
		return nil, err
	}
	kids := []*SQLExpr{l}
	for p.isKw("AND") {
		p.next()
		r, err := p.atom(st)
		if err != nil {
			return nil, err
		}
		kids = append(kids, r)
	}
	if len(kids) == 1 {
		return l, nil
	}
	return &SQLExpr{Op: "AND", Kids: kids}, nil
}

func (p *sqlParser) atom(st *SQLStmt) (*SQLExpr, error) {
	t := p.peek()
	if t == nil {
		return nil, fmt.Errorf("unexpected end of condition")
	}
	if t.Kind == "(" {
		p.next()
		e, err := p.orExpr(st)
		if err != nil {
			return nil, err
		}
		if t := p.next(); t == nil || t.Kind != ")" {
			return nil, fmt.Errorf("expected )")
		}
		return e, nil
	}
	if p.isKw("EXISTS") {
		p.next()
		if t := p.next(); t == nil || t.Kind != "(" {
			return nil, fmt.Errorf("expected ( after EXISTS")
		}
		sub, err := p.selectStmt()
		if err != nil {
			return nil, err
		}
		if t := p.next(); t == nil || t.Kind != ")" {
			return nil, fmt.Errorf("expected )")
		}
		st.Subs = append(st.Subs, sub)
		return &SQLExpr{Op: "EXISTS", Sub: sub}, nil
	}
	if t.Kind != "id" {
		return nil, fmt.Errorf("expected column, got %q", t.Text)
	}
	p.next()
	e := &SQLExpr{Op: "atom", Left: t.Text, QIdx: -1}
	switch {
	case p.isKw("IS"):
		p.next()
		if p.isKw("NOT") {
			p.next()
			if err := p.expectKw("NULL"); err != nil {
				return nil, err
			}
			e.Cmp = "IS NOT NULL"
		} else {
			if err := p.expectKw("NULL"); err != nil {
				return nil, err
			}
			e.Cmp = "IS NULL"
		}
		return e, nil
	case p.isKw("IN"), p.isKw("NOT"):
		e.Cmp = "IN"
		if p.isKw("NOT") {
			p.next()
			if !p.isKw("IN") {
				return nil, fmt.Errorf("expected IN after NOT")
			}
			e.Cmp = "NOT IN"
		}
		p.next()
		if t := p.next(); t == nil || t.Kind != "(" {
			return nil, fmt.Errorf("expected ( after IN")
		}
		if p.isKw("SELECT") {
			sub, err := p.selectStmt()
			if err != nil {
				return nil, err
			}
			if t := p.next(); t == nil || t.Kind != ")" {
				return nil, fmt.Errorf("expected ) after the sub-select")
			}
			st.Subs = append(st.Subs, sub)
			e.Sub = sub
			e.Right = "(SELECT)"
			return e, nil
		}
		v := p.next()
		if v == nil || v.Kind != "?" {
			return nil, fmt.Errorf("only IN (?) and IN (SELECT ...) are supported")
		}
		e.Right, e.QIdx = "?", v.QIdx
		for {
			t := p.next()
			if t == nil {
				return nil, fmt.Errorf("expected ) after IN (?")
			}
			if t.Kind == ")" {
				break
			}
			if t.Kind != "," && t.Kind != "?" {
				return nil, fmt.Errorf("unexpected %q in IN list", t.Text)
			}
		}
		return e, nil
	}
	op := p.next()
	if op == nil || op.Kind != "op" {
		return nil, fmt.Errorf("expected comparison after %s", e.Left)
	}
	e.Cmp = op.Text
	v := p.next()
	if v == nil {
		return nil, fmt.Errorf("expected value after %s %s", e.Left, e.Cmp)
	}
	switch v.Kind {
	case "?":
		e.Right, e.QIdx = "?", v.QIdx
	case "id", "num", "str":
		e.Right = v.Text
	default:
		return nil, fmt.Errorf("unexpected %q after %s %s", v.Text, e.Left, e.Cmp)
	}
	return e, nil
}

// ParseSQLCondition parses a pop Where fragment.
func ParseSQLCondition(s string) (*SQLExpr, int, error) {
	toks, err := SQLTokenize(s)
	if err != nil {
		return nil, 0, err
	}
	p := &sqlParser{toks: toks}
	st := &SQLStmt{}
	e, err := p.orExpr(st)
	if err != nil {
		return nil, 0, fmt.Errorf("%v in %q", err, s)
	}
	if p.peek() != nil {
		return nil, 0, fmt.Errorf("trailing tokens in %q", s)
	}
	n := 0
	for _, t := range toks {
		if t.Kind == "?" {
			n++
		}
	}
	return e, n, nil
}

// BaseColumn strips a table qualifier.
func BaseColumn(c string) string {
	if i := strings.LastIndexByte(c, '.'); i >= 0 {
		return c[i+1:]
	}
	return c
}
