package core

import (
	"fmt"
	"go/token"
	"go/types"
	"sort"
	"strings"

	"golang.org/x/tools/go/ssa"
)

// A10 -- request-nil taint. Two facts are propagated over the keto functions
// reachable from the API entry points:
//   R(v): v is (part of / a pointer into) memory built from the request by
//         encoding/json or protobuf decoding;
//   N(v): v is a pointer (or oneof interface) that the client can make nil:
//         an element of a []*T or a *T field decoded from JSON (`null` /
//         absent key), or a message-typed field of a protobuf request message
//         (absent sub-message, unset oneof).
// A sink is a dereference of an N value that is not dominated by a nil test of
// that value (or of another load of the same field of the same object).
// Assumption (protobuf-go): repeated-field elements and the message inside a
// set oneof wrapper are never nil for messages that arrived over the wire.

type NilSink struct {
	Fn     *ssa.Function
	Ins    ssa.Instruction
	Value  ssa.Value
	Origin string
	InGo   bool // inside a function started with go / errgroup.Go on the request path
	What   string
}

type NilTaint struct {
	p             *Program
	g             *KGraph
	R             map[ssa.Value]bool
	N             map[ssa.Value]string
	elemsN        map[ssa.Value]string  // slice values whose elements may be nil
	fieldN        map[*types.Var]string // fields (of internal structs) that were assigned an N value
	fieldJ        map[*types.Var]bool   // fields (of internal structs) that were assigned request memory
	elemsJ        map[ssa.Value]bool    // internal slices holding request memory
	retR          map[*ssa.Function]map[int]bool
	retN          map[*ssa.Function]map[int]string
	retElemsN     map[*ssa.Function]map[int]string
	fns           []*ssa.Function
	inGo          map[*ssa.Function]bool
	decodeTargets map[ssa.Value]bool
	requestTypes  map[*types.Named]bool // struct types that are decoded from requests
	WhyR          map[ssa.Value]string
	Sinks         []NilSink
	Guarded       []NilSink // dereferences of N values that are dominated by a nil test
	Seeds         []string
	changed       bool
}

func isProtoMsgType(t types.Type) bool {
	n := NamedOf(t)
	if n == nil || n.Obj().Pkg() == nil {
		return false
	}
	return strings.HasPrefix(n.Obj().Pkg().Path(), KetoMod+"/proto/")
}

func isPtrOrIface(t types.Type) bool {
	switch t.Underlying().(type) {
	case *types.Pointer, *types.Interface:
		return true
	}
	return false
}

// NewNilTaint runs the analysis from the given entry points.
func NewNilTaint(p *Program, entries []Entry) *NilTaint {
	g := p.KG()
	var roots []*ssa.Function
	for _, e := range entries {
		roots = append(roots, e.Fn)
	}
	reach := g.ReachLive(roots, nil)
	t := &NilTaint{p: p, g: g, R: map[ssa.Value]bool{}, N: map[ssa.Value]string{}, elemsN: map[ssa.Value]string{}, fieldN: map[*types.Var]string{}, fieldJ: map[*types.Var]bool{}, elemsJ: map[ssa.Value]bool{},
		retR: map[*ssa.Function]map[int]bool{}, retN: map[*ssa.Function]map[int]string{}, retElemsN: map[*ssa.Function]map[int]string{}, WhyR: map[ssa.Value]string{}, inGo: map[*ssa.Function]bool{}, decodeTargets: map[ssa.Value]bool{}, requestTypes: map[*types.Named]bool{}}
	for f := range reach.Parent {
		if pk := FuncPkg(f); pk != nil && IsKeto(pk) && !strings.HasPrefix(pk.Path(), KetoMod+"/proto/") && f.Blocks != nil {
			t.fns = append(t.fns, f)
		}
	}
	sort.Slice(t.fns, func(i, j int) bool { return t.fns[i].String() < t.fns[j].String() })
	// seeds: gRPC request parameters
	for _, e := range entries {
		if e.Transport == "grpc" && len(e.Fn.Params) >= 3 {
			req := e.Fn.Params[2]
			t.R[req] = true
			t.Seeds = append(t.Seeds, fmt.Sprintf("gRPC request %s of %s", req.Name(), FuncName(e.Fn)))
		}
	}
	// seeds: JSON decode targets
	for _, f := range t.fns {
		Instrs(f, func(_ *ssa.BasicBlock, _ int, ins ssa.Instruction) {
			ci, ok := ins.(ssa.CallInstruction)
			if !ok {
				return
			}
			obj := CalleeObj(ci.Common())
			if obj == nil || obj.Pkg() == nil || obj.Pkg().Path() != "encoding/json" || (obj.Name() != "Decode" && obj.Name() != "Unmarshal") {
				return
			}
			args := ci.Common().Args
			target := Unwrap(args[len(args)-1])
			t.R[target] = true
			t.decodeTargets[target] = true
			t.addRequestType(target.Type(), 0)
			t.Seeds = append(t.Seeds, fmt.Sprintf("JSON decode target %s in %s", target.Name(), FuncName(f)))
		})
	}
	// seeds: values decoded from a URL query (every pointer field is nil when its key is absent)
	for _, f := range t.fns {
		Instrs(f, func(_ *ssa.BasicBlock, _ int, ins ssa.Instruction) {
			call, ok := ins.(*ssa.Call)
			if !ok {
				return
			}
			obj := CalleeObj(call.Common())
			if obj == nil || obj.Name() != "FromURLQuery" || obj.Pkg() == nil || !IsKeto(obj.Pkg()) {
				return
			}
			mark := func(v ssa.Value) {
				if _, isPtr := v.Type().Underlying().(*types.Pointer); !isPtr {
					return
				}
				// only decoders of all-optional query structs: the tuple decoder validates completeness itself
				if n := NamedOf(v.Type()); n == nil || !strings.HasSuffix(n.Obj().Name(), "Query") {
					return
				}
				t.R[v] = true
				t.addRequestType(v.Type(), 0)
				t.Seeds = append(t.Seeds, fmt.Sprintf("URL query decoded by %s in %s", ObjName(obj), FuncName(f)))
			}
			if tup, ok := call.Type().(*types.Tuple); ok {
				if call.Referrers() != nil {
					for _, ref := range *call.Referrers() {
						if ex, ok := ref.(*ssa.Extract); ok && ex.Index < tup.Len() {
							mark(ex)
						}
					}
				}
			} else {
				mark(call)
			}
		})
	}
	// goroutine roots
	for _, f := range t.fns {
		Instrs(f, func(_ *ssa.BasicBlock, _ int, ins ssa.Instruction) {
			switch x := ins.(type) {
			case *ssa.Go:
				for _, tf := range t.calleesOf(x.Common()) {
					t.markGo(tf)
				}
			case *ssa.Call:
				if obj := CalleeObj(x.Common()); obj != nil && obj.Name() == "Go" && obj.Pkg() != nil && strings.HasSuffix(obj.Pkg().Path(), "errgroup") {
					for _, a := range x.Common().Args {
						if mc, ok := a.(*ssa.MakeClosure); ok {
							t.markGo(mc.Fn.(*ssa.Function))
						}
					}
				}
			}
		})
	}
	for iter := 0; iter < 40; iter++ {
		t.changed = false
		for _, f := range t.fns {
			t.step(f)
		}
		if !t.changed {
			break
		}
	}
	for _, f := range t.fns {
		t.sinks(f)
	}
	sort.Slice(t.Sinks, func(i, j int) bool { return t.Sinks[i].Ins.Pos() < t.Sinks[j].Ins.Pos() })
	return t
}

// addRequestType records the struct types reachable from a decode target's type.
func (t *NilTaint) addRequestType(ty types.Type, depth int) {
	if depth > 8 {
		return
	}
	switch x := ty.(type) {
	case *types.Pointer:
		t.addRequestType(x.Elem(), depth+1)
	case *types.Slice:
		t.addRequestType(x.Elem(), depth+1)
	case *types.Array:
		t.addRequestType(x.Elem(), depth+1)
	case *types.Map:
		t.addRequestType(x.Elem(), depth+1)
	case *types.Alias:
		t.addRequestType(types.Unalias(x), depth+1)
	case *types.Named:
		if t.requestTypes[x] {
			return
		}
		if st, ok := x.Underlying().(*types.Struct); ok {
			t.requestTypes[x] = true
			for i := 0; i < st.NumFields(); i++ {
				t.addRequestType(st.Field(i).Type(), depth+1)
			}
		}
	case *types.Struct:
		for i := 0; i < x.NumFields(); i++ {
			t.addRequestType(x.Field(i).Type(), depth+1)
		}
	}
}

// holderField: fields of purely internal struct types can be tracked by field
// identity; instances of request types built by keto itself are assumed
// well-formed (they come out of validated constructors).
func (t *NilTaint) holderField(structT types.Type, idx int) *types.Var {
	if n := NamedOf(structT); n != nil && (t.requestTypes[n] || isProtoMsgType(n)) {
		return nil
	}
	return fieldVar(structT, idx)
}

func (t *NilTaint) markGo(f *ssa.Function) {
	if t.inGo[f] {
		return
	}
	t.inGo[f] = true
	for _, e := range t.g.Out[f] {
		if e.Kind == "static" || e.Kind == "invoke" || e.Kind == "dynamic" {
			t.markGo(e.Callee)
		}
	}
}

func (t *NilTaint) calleesOf(cc *ssa.CallCommon) []*ssa.Function {
	switch {
	case cc.IsInvoke():
		_, lt := t.g.Live()
		var out []*ssa.Function
		for _, f := range t.g.Implementers(cc.Method) {
			if recv := f.Signature.Recv(); recv != nil {
				if n := NamedOf(recv.Type()); n != nil && IsKeto(n.Obj().Pkg()) && !lt[n.Origin()] {
					continue
				}
			}
			out = append(out, f)
		}
		return out
	case cc.StaticCallee() != nil:
		if mc, ok := cc.Value.(*ssa.MakeClosure); ok {
			return t.g.resolveClosure(mc)
		}
		return []*ssa.Function{cc.StaticCallee()}
	default:
		fs, _ := t.g.TraceFunc(cc.Value)
		return fs
	}
}

func (t *NilTaint) setR(v ssa.Value) {
	if v != nil && !t.R[v] {
		t.R[v] = true
		t.changed = true
	}
}
func (t *NilTaint) setN(v ssa.Value, origin string) {
	if v == nil || !isPtrOrIface(v.Type()) {
		return
	}
	if _, ok := t.N[v]; !ok {
		t.N[v] = origin
		t.changed = true
	}
}
func (t *NilTaint) setElemsJ(v ssa.Value) {
	if v != nil && !t.elemsJ[v] {
		t.elemsJ[v] = true
		t.changed = true
	}
}
func (t *NilTaint) setElemsN(v ssa.Value, origin string) {
	if v == nil {
		return
	}
	if _, ok := t.elemsN[v]; !ok {
		t.elemsN[v] = origin
		t.changed = true
	}
}

// loadedFrom classifies a pointer/interface value loaded from request memory.
func (t *NilTaint) loadFromAddr(val ssa.Value, addr ssa.Value) {
	if !t.R[addr] {
		// loads from internal holders of request memory
		switch a := addr.(type) {
		case *ssa.FieldAddr:
			if fv := fieldVar(a.X.Type(), a.Field); fv != nil {
				if t.fieldJ[fv] {
					t.setR(val)
				}
				if o, ok := t.fieldN[fv]; ok {
					t.setN(val, o)
				}
			}
		case *ssa.IndexAddr:
			if t.elemsJ[a.X] || t.elemsJ[ValueOrigin(a.X)] {
				t.setR(val)
			}
			if o, ok := t.elemsN[a.X]; ok {
				t.setN(val, o)
			} else if o, ok := t.elemsN[ValueOrigin(a.X)]; ok {
				t.setN(val, o)
			}
		}
		return
	}
	t.setR(val)
	if !isPtrOrIface(val.Type()) {
		if _, isSlice := val.Type().Underlying().(*types.Slice); isSlice {
			// a slice of pointers decoded from JSON: elements may be null
			if fa, ok := addr.(*ssa.FieldAddr); ok && !isProtoMsgType(fa.X.Type()) {
				if sl := val.Type().Underlying().(*types.Slice); isPtrOrIface(sl.Elem()) {
					t.setElemsN(val, "JSON array element (null) of field "+fieldName(fa))
				}
			}
			if al, ok := addr.(*ssa.Alloc); ok && t.decodeTargets[al] {
				if sl := val.Type().Underlying().(*types.Slice); isPtrOrIface(sl.Elem()) {
					t.setElemsN(val, "JSON array element (null) of the decoded "+al.Comment)
				}
			}
		}
		return
	}
	switch a := addr.(type) {
	case *ssa.FieldAddr:
		if isProtoMsgType(a.X.Type()) {
			// message-typed / oneof field read by field selection
			if _, isIface := val.Type().Underlying().(*types.Interface); isIface {
				t.setN(val, "unset protobuf oneof "+fieldName(a))
			} else if pt, ok := val.Type().Underlying().(*types.Pointer); ok {
				if _, isStruct := pt.Elem().Underlying().(*types.Struct); isStruct && isProtoMsgType(pt.Elem()) {
					// the message inside a set oneof wrapper is non-nil (assumption)
					if n := NamedOf(a.X.Type()); n != nil && strings.Contains(n.Obj().Name(), "_") {
						return
					}
					t.setN(val, "absent protobuf sub-message "+fieldName(a))
				}
			}
			return
		}
		t.setN(val, "JSON null / absent key for pointer field "+fieldName(a))
	case *ssa.IndexAddr:
		if o, ok := t.elemsN[a.X]; ok {
			t.setN(val, o)
		} else if o, ok := t.elemsN[ValueOrigin(a.X)]; ok {
			t.setN(val, o)
		}
	}
}

func fieldName(fa *ssa.FieldAddr) string {
	if fv := fieldVar(fa.X.Type(), fa.Field); fv != nil {
		if n := NamedOf(fa.X.Type()); n != nil {
			return n.Obj().Name() + "." + fv.Name()
		}
		return fv.Name()
	}
	return "?"
}

func (t *NilTaint) step(f *ssa.Function) {
	Instrs(f, func(_ *ssa.BasicBlock, _ int, ins ssa.Instruction) {
		switch x := ins.(type) {
		case *ssa.UnOp:
			if x.Op == token.MUL {
				t.loadFromAddr(x, x.X)
				if t.R[x.X] {
					t.setR(x)
				}
				// a load of a local cell that holds an R/N value
				if a, ok := x.X.(*ssa.Alloc); ok {
					for _, st := range CellStores(a) {
						if t.R[st.Val] {
							t.setR(x)
						}
						if o, ok := t.N[st.Val]; ok && !t.guardedAt(st.Val, st) {
							t.setN(x, o)
						}
						if o, ok := t.elemsN[st.Val]; ok {
							t.setElemsN(x, o)
						}
					}
				}
				if fv, ok := x.X.(*ssa.FreeVar); ok {
					if b := FreeVarBinding(fv); b != nil {
						if a, ok := b.(*ssa.Alloc); ok {
							for _, st := range CellStores(a) {
								if t.R[st.Val] {
									t.setR(x)
								}
								if o, ok := t.N[st.Val]; ok && !t.guardedAt(st.Val, st) {
									t.setN(x, o)
								}
								if o, ok := t.elemsN[st.Val]; ok {
									t.setElemsN(x, o)
								}
							}
						}
					}
				}
			}
		case *ssa.FieldAddr:
			if t.R[x.X] {
				t.setR(x)
			}
		case *ssa.IndexAddr:
			if t.R[x.X] {
				t.setR(x)
			}
		case *ssa.Field:
			if t.R[x.X] {
				t.setR(x)
			}
		case *ssa.Index:
			if t.R[x.X] {
				t.setR(x)
			}
		case *ssa.Slice:
			if t.R[x.X] {
				t.setR(x)
			}
			if o, ok := t.elemsN[x.X]; ok {
				t.setElemsN(x, o)
			}
			if t.elemsJ[x.X] {
				t.setElemsJ(x)
			}
		case *ssa.Phi:
			for i, e := range x.Edges {
				if t.R[e] {
					t.setR(x)
				}
				if o, ok := t.N[e]; ok {
					// the value may be known non-nil on the edge it arrives by
					pred := x.Block().Preds[i]
					guarded := false
					if len(pred.Instrs) > 0 {
						guarded = t.guardedIn(e, pred)
						for _, cd := range CondsOnEdge(pred, x.Block()) {
							if op, a, b2, ok := BinCmp(cd.V); ok && IsNilConst(b2) {
								if ((op == token.NEQ && cd.True) || (op == token.EQL && !cd.True)) && (samePath(a, e) || samePath(Unwrap(a), Unwrap(e))) {
									guarded = true
								}
							}
						}
					}
					if !guarded {
						t.setN(x, o)
					}
				}
				if o, ok := t.elemsN[e]; ok {
					t.setElemsN(x, o)
				}
				if t.elemsJ[e] {
					t.setElemsJ(x)
				}
			}
		case *ssa.ChangeType:
			t.copyFacts(x, x.X)
		case *ssa.Convert:
			t.copyFacts(x, x.X)
		case *ssa.ChangeInterface:
			t.copyFacts(x, x.X)
		case *ssa.MakeInterface:
			if t.R[x.X] {
				t.setR(x)
			}
			// a nil *Message in an interface is a non-nil interface; its generated
			// getters are nil-safe, so the wrapper is not a nil hazard
			if !isProtoMsgType(x.X.Type()) {
				if o, ok := t.N[x.X]; ok && !t.guardedAt(x.X, x) {
					t.setN(x, o)
				}
			}
		case *ssa.Range:
			if t.R[x.X] || t.elemsJ[x.X] {
				t.setR(x)
			}
			if o, ok := t.elemsN[x.X]; ok {
				t.setElemsN(x, o)
			}
		case *ssa.Next:
			if t.R[x.Iter] {
				t.setR(x)
			}
			if o, ok := t.elemsN[x.Iter]; ok {
				t.setElemsN(x, o)
			}
		case *ssa.Extract:
			switch tup := x.Tuple.(type) {
			case *ssa.Next:
				if t.R[tup] && x.Index == 2 {
					t.setR(x)
					if o, ok := t.elemsN[tup]; ok {
						t.setN(x, o)
					}
				}
			case *ssa.TypeAssert:
				if t.R[tup.X] && x.Index == 0 {
					t.setR(x) // successful assertion: non-nil
				}
			case *ssa.Call:
				for _, cf := range t.calleesOf(tup.Common()) {
					if t.retR[cf][x.Index] {
						t.setR(x)
					}
					if o, ok := t.retN[cf][x.Index]; ok {
						t.setN(x, o)
					}
					if o, ok := t.retElemsN[cf][x.Index]; ok {
						t.setElemsN(x, o)
					}
				}
			}
		case *ssa.TypeAssert:
			if t.R[x.X] {
				t.setR(x)
			}
		case *ssa.Store:
			// request memory referenced from an internal object: remember it per
			// field / per slice, flow-insensitively (the holder itself is not
			// request memory)
			if t.R[x.Val] {
				switch a := x.Addr.(type) {
				case *ssa.FieldAddr:
					if !t.R[a.X] {
						if fv := t.holderField(a.X.Type(), a.Field); fv != nil && !t.fieldJ[fv] {
							t.fieldJ[fv] = true
							t.changed = true
						}
					}
				case *ssa.IndexAddr:
					t.setElemsJ(a.X)
					if al, ok := a.X.(*ssa.Alloc); ok && al.Referrers() != nil {
						for _, ref := range *al.Referrers() {
							if sl, ok := ref.(*ssa.Slice); ok {
								t.setElemsJ(sl)
							}
						}
					}
				}
			}
			if o, ok := t.N[x.Val]; ok && !t.guardedAt(x.Val, x) {
				switch a := x.Addr.(type) {
				case *ssa.FieldAddr:
					if !t.R[a.X] {
						if fv := t.holderField(a.X.Type(), a.Field); fv != nil {
							if _, seen := t.fieldN[fv]; !seen {
								t.fieldN[fv] = o + " (stored into " + fv.Name() + " at " + t.p.Pos(x.Pos()) + ")"
								t.changed = true
							}
						}
					}
				case *ssa.IndexAddr:
					t.setElemsN(a.X, o)
					if al, ok := a.X.(*ssa.Alloc); ok && al.Referrers() != nil {
						for _, ref := range *al.Referrers() {
							if sl, ok := ref.(*ssa.Slice); ok {
								t.setElemsN(sl, o)
							}
						}
					}
				}
			}
		case *ssa.MakeClosure:
			cf := x.Fn.(*ssa.Function)
			for i, b := range x.Bindings {
				if i >= len(cf.FreeVars) {
					break
				}
				t.copyFacts(cf.FreeVars[i], b)
			}
		case *ssa.Return:
			for i, rv := range x.Results {
				if t.R[rv] {
					if t.retR[f] == nil {
						t.retR[f] = map[int]bool{}
					}
					if !t.retR[f][i] {
						t.retR[f][i] = true
						t.changed = true
					}
				}
				if o, ok := t.N[rv]; ok && !t.guardedAt(rv, x) {
					if t.retN[f] == nil {
						t.retN[f] = map[int]string{}
					}
					if _, seen := t.retN[f][i]; !seen {
						t.retN[f][i] = o
						t.changed = true
					}
				}
				if o, ok := t.elemsN[rv]; ok && !sliceValidatedBefore(rv, x) {
					if t.retElemsN[f] == nil {
						t.retElemsN[f] = map[int]string{}
					}
					if _, seen := t.retElemsN[f][i]; !seen {
						t.retElemsN[f][i] = o
						t.changed = true
					}
				}
			}
		}
		if ci, ok := ins.(ssa.CallInstruction); ok {
			t.call(f, ci)
		}
	})
}

func (t *NilTaint) copyFacts(dst, src ssa.Value) {
	if t.R[src] {
		t.setR(dst)
	}
	if o, ok := t.N[src]; ok {
		t.setN(dst, o)
	}
	if o, ok := t.elemsN[src]; ok {
		t.setElemsN(dst, o)
	}
}

func (t *NilTaint) call(f *ssa.Function, ci ssa.CallInstruction) {
	cc := ci.Common()
	// builtin append
	if b, ok := cc.Value.(*ssa.Builtin); ok {
		if b.Name() == "append" {
			if v, ok := ci.(*ssa.Call); ok {
				for _, a := range cc.Args {
					if o, ok := t.elemsN[a]; ok {
						t.setElemsN(v, o)
					}
					if t.elemsJ[a] {
						t.setElemsJ(v)
					}
					// append(s, x): x itself becomes an element
					if t.R[a] && isPtrOrIface(a.Type()) {
						t.setElemsJ(v)
					}
					if o, ok := t.N[a]; ok && !t.guardedAt(a, ci) {
						t.setElemsN(v, o)
					}
				}
			}
		}
		return
	}
	callees := t.calleesOf(cc)
	args := cc.Args
	for _, cf := range callees {
		if cf.Blocks == nil || !IsKeto(FuncPkg(cf)) {
			continue
		}
		params := cf.Params
		off := 0
		if cc.IsInvoke() {
			off = 1 // receiver is cc.Value
			if len(params) > 0 {
				t.copyArg(params[0], cc.Value, ci)
			}
		}
		for i, a := range args {
			if i+off < len(params) {
				t.copyArg(params[i+off], a, ci)
			}
		}
	}
	// call results
	if v, ok := ci.(*ssa.Call); ok {
		for _, cf := range callees {
			if t.retR[cf][0] && v.Type() != nil {
				if _, isTuple := v.Type().(*types.Tuple); !isTuple {
					t.setR(v)
				}
			}
			if o, ok := t.retN[cf][0]; ok {
				if _, isTuple := v.Type().(*types.Tuple); !isTuple {
					t.setN(v, o)
				}
			}
			if o, ok := t.retElemsN[cf][0]; ok {
				if _, isTuple := v.Type().(*types.Tuple); !isTuple {
					t.setElemsN(v, o)
				}
			}
		}
		// nil-safe protobuf getters: result is request data; message-typed results may be nil
		if obj := CalleeObj(cc); obj != nil && strings.HasPrefix(obj.Name(), "Get") && len(args) > 0 && isProtoMsgType(args[0].Type()) && t.R[args[0]] {
			t.setR(v)
			if pt, ok := v.Type().Underlying().(*types.Pointer); ok && isProtoMsgType(pt.Elem()) {
				t.setN(v, "absent protobuf sub-message (via "+obj.Name()+")")
			}
			if _, ok := v.Type().Underlying().(*types.Interface); ok {
				t.setN(v, "unset protobuf oneof (via "+obj.Name()+")")
			}
		}
	}
}

func (t *NilTaint) copyArg(par *ssa.Parameter, a ssa.Value, at ssa.Instruction) {
	if t.R[a] {
		if !t.R[par] {
			t.WhyR[par] = "argument at " + t.p.Pos(at.Pos()) + " in " + FuncName(at.Parent())
		}
		t.setR(par)
	}
	if o, ok := t.N[a]; ok && !t.guardedAt(a, at) {
		t.setN(par, o)
	}
	if o, ok := t.elemsN[a]; ok && !sliceValidatedBefore(a, at) {
		t.setElemsN(par, o)
	}
	if t.elemsJ[a] {
		t.setElemsJ(par)
	}
}

// samePath: a and b are the same value or loads of the same field/cell.
func samePath(a, b ssa.Value) bool {
	if a == b {
		return true
	}
	ua, ok1 := a.(*ssa.UnOp)
	ub, ok2 := b.(*ssa.UnOp)
	if ok1 && ok2 && ua.Op == token.MUL && ub.Op == token.MUL {
		if ua.X == ub.X || addrCanon(ua.X) == addrCanon(ub.X) {
			return true
		}
		fa, ok1 := ua.X.(*ssa.FieldAddr)
		fb, ok2 := ub.X.(*ssa.FieldAddr)
		if ok1 && ok2 && fa.Field == fb.Field {
			return fa.X == fb.X || samePath(fa.X, fb.X) || ValueOrigin(fa.X) == ValueOrigin(fb.X)
		}
	}
	// a call to the same nil-safe getter on the same receiver
	ca, ok1 := a.(*ssa.Call)
	cb, ok2 := b.(*ssa.Call)
	if ok1 && ok2 {
		oa, ob := CalleeObj(ca.Common()), CalleeObj(cb.Common())
		if oa != nil && oa == ob && len(ca.Common().Args) == 1 && len(cb.Common().Args) == 1 {
			return samePath(ca.Common().Args[0], cb.Common().Args[0])
		}
	}
	return false
}

// guardedAt: is v known non-nil at instruction at? For code inside a function
// literal the conditions that hold where the literal is created count too.
func (t *NilTaint) guardedAt(v ssa.Value, at ssa.Instruction) bool {
	if t.guardedIn(v, at.Block()) {
		return true
	}
	fn := at.Parent()
	for depth := 0; fn != nil && fn.Parent() != nil && depth < 4; depth++ {
		var site ssa.Instruction
		Instrs(fn.Parent(), func(_ *ssa.BasicBlock, _ int, ins ssa.Instruction) {
			if mc, ok := ins.(*ssa.MakeClosure); ok && mc.Fn == fn {
				site = ins
			}
		})
		if site == nil {
			break
		}
		if t.guardedIn(v, site.Block()) {
			return true
		}
		fn = fn.Parent()
	}
	return false
}

func (t *NilTaint) guardedIn(v ssa.Value, b *ssa.BasicBlock) bool {
	for _, cd := range CondsAt(b) {
		op, x, y, ok := BinCmp(cd.V)
		if !ok {
			continue
		}
		var other ssa.Value
		if IsNilConst(y) {
			other = x
		} else if IsNilConst(x) {
			other = y
		} else {
			continue
		}
		nonNil := (op == token.NEQ && cd.True) || (op == token.EQL && !cd.True)
		if nonNil && (samePath(other, v) || samePath(Unwrap(other), Unwrap(v)) || samePath(resolveFree(other), resolveFree(v))) {
			return true
		}
	}
	return false
}

// resolveFree rewrites loads through captured variables to the captured value.
func resolveFree(v ssa.Value) ssa.Value {
	return v
}

func (t *NilTaint) sinks(f *ssa.Function) {
	report := func(ins ssa.Instruction, v ssa.Value, what string) {
		o, ok := t.N[v]
		if !ok {
			return
		}
		if t.guardedAt(v, ins) {
			t.Guarded = append(t.Guarded, NilSink{Fn: f, Ins: ins, Value: v, Origin: o, What: what})
			return
		}
		t.Sinks = append(t.Sinks, NilSink{Fn: f, Ins: ins, Value: v, Origin: o, InGo: t.inGo[f] || t.inGo[Outermost(f)], What: what})
	}
	Instrs(f, func(_ *ssa.BasicBlock, _ int, ins ssa.Instruction) {
		switch x := ins.(type) {
		case *ssa.FieldAddr:
			report(ins, x.X, "field access "+fieldName(x))
		case *ssa.UnOp:
			if x.Op == token.MUL {
				if _, isPtr := x.X.Type().Underlying().(*types.Pointer); isPtr {
					if _, n := t.N[x.X]; n {
						report(ins, x.X, "dereference")
					}
				}
			}
		case *ssa.TypeAssert:
			if !x.CommaOk {
				if _, isIface := x.X.Type().Underlying().(*types.Interface); isIface {
					// x.(T) on a nil interface panics; type switches are comma-ok
					if _, n := t.N[x.X]; n {
						report(ins, x.X, "type assertion without comma-ok")
					}
				}
			}
		case ssa.CallInstruction:
			cc := x.Common()
			if cc.IsInvoke() {
				if _, n := t.N[cc.Value]; n {
					report(ins, cc.Value, "method call on a possibly nil interface ("+cc.Method.Name()+")")
				}
				return
			}
			sc := cc.StaticCallee()
			if sc == nil || sc.Signature.Recv() == nil || len(cc.Args) == 0 {
				return
			}
			recv := cc.Args[0]
			if _, n := t.N[recv]; !n {
				return
			}
			// keto methods are analysed through their receiver parameter; library
			// methods on a nil pointer: protobuf getters are nil-safe, others are not
			if IsKeto(FuncPkg(sc)) && sc.Blocks != nil && !strings.HasPrefix(FuncPkg(sc).Path(), KetoMod+"/proto/") {
				return
			}
			if strings.HasPrefix(sc.Name(), "Get") && isProtoMsgType(recv.Type()) {
				return
			}
			if isProtoMsgType(recv.Type()) && (sc.Name() == "String" || sc.Name() == "ProtoReflect" || sc.Name() == "Reset") {
				return
			}
			report(ins, recv, "method "+sc.Name()+" called on a possibly nil pointer")
		}
	})
}

// addrCanon maps a captured variable to the cell it is bound to.
func addrCanon(v ssa.Value) ssa.Value {
	for i := 0; i < 4; i++ {
		fv, ok := v.(*ssa.FreeVar)
		if !ok {
			return v
		}
		b := FreeVarBinding(fv)
		if b == nil {
			return v
		}
		v = b
	}
	return v
}

// sliceValidatedBefore: the function contains a loop over the same slice that
// leaves the function when an element is nil, and that loop is finished before
// `at` (its header dominates at, and at is not inside it).
func sliceValidatedBefore(slice ssa.Value, at ssa.Instruction) bool {
	fn := at.Parent()
	root := ValueOrigin(slice)
	ok := false
	// the validation may have been extracted: err := validate(slice); if err != nil { return }
	// where validate fails on a nil element (and `at` is only reached with err == nil)
	for _, cd := range CondsAt(at.Block()) {
		op, x, y, isCmp := cd.Holds()
		if !isCmp || op != token.EQL || !IsNilConst(y) || !isErrType(x.Type()) {
			continue
		}
		var call *ssa.Call
		switch v := ValueOrigin(x).(type) {
		case *ssa.Call:
			call = v
		case *ssa.Extract:
			call, _ = v.Tuple.(*ssa.Call)
		}
		if call == nil {
			continue
		}
		callee := call.Call.StaticCallee()
		if callee == nil || callee.Blocks == nil {
			continue
		}
		for i, a := range call.Call.Args {
			if ValueOrigin(a) == root && i < len(callee.Params) && failsOnNilElem(callee, callee.Params[i]) {
				return true
			}
		}
	}
	Instrs(fn, func(b *ssa.BasicBlock, _ int, ins ssa.Instruction) {
		bo, isB := ins.(*ssa.BinOp)
		if !isB || (bo.Op != token.EQL && bo.Op != token.NEQ) {
			return
		}
		_, cx, cy, _ := BinCmp(bo)
		if !IsNilConst(cy) {
			return
		}
		// for _, d := range xs { if err := validate(d); err != nil { return } }: the element is
		// tested by a helper that fails on nil; the test we look at is the one of its error
		if isErrType(cx.Type()) && InLoop(b) {
			var call *ssa.Call
			switch v := ValueOrigin(cx).(type) {
			case *ssa.Call:
				call = v
			case *ssa.Extract:
				call, _ = v.Tuple.(*ssa.Call)
			}
			if call == nil || call.Call.StaticCallee() == nil || call.Call.StaticCallee().Blocks == nil || bo.Referrers() == nil {
				return
			}
			callee := call.Call.StaticCallee()
			elemChecked := false
			for i, a := range call.Call.Args {
				if ld, ok := a.(*ssa.UnOp); ok && ld.Op == token.MUL && i < len(callee.Params) {
					if ia, ok := ld.X.(*ssa.IndexAddr); ok && ValueOrigin(ia.X) == root && failsOnNilParam(callee, callee.Params[i]) {
						elemChecked = true
					}
				}
			}
			if !elemChecked {
				return
			}
			for _, ref := range *bo.Referrers() {
				ifi, isIf := ref.(*ssa.If)
				if !isIf {
					continue
				}
				errSucc := ifi.Block().Succs[0] // err != nil
				if bo.Op == token.EQL {
					errSucc = ifi.Block().Succs[1]
				}
				if ReachableFrom(errSucc)[b] {
					continue // the failing branch goes on with the loop
				}
				for d := b; d != nil; d = d.Idom() {
					if d.Dominates(at.Block()) && ReachableFrom(b)[d] && !ReachableFrom(at.Block())[b] {
						ok = true
					}
				}
			}
			return
		}
		ld, isLd := cx.(*ssa.UnOp)
		if !isLd || ld.Op != token.MUL {
			return
		}
		ia, isIA := ld.X.(*ssa.IndexAddr)
		if !isIA || ValueOrigin(ia.X) != root || !InLoop(b) {
			return
		}
		// the nil branch leaves the function
		if bo.Referrers() == nil {
			return
		}
		for _, ref := range *bo.Referrers() {
			ifi, isIf := ref.(*ssa.If)
			if !isIf {
				continue
			}
			nilSucc := ifi.Block().Succs[0]
			if bo.Op == token.NEQ {
				nilSucc = ifi.Block().Succs[1]
			}
			if ReachableFrom(nilSucc)[b] {
				continue // the nil branch goes on with the loop
			}
			// the loop is over before `at`
			if b.Dominates(at.Block()) == false {
				// find the loop header: a dominator of b that is on a cycle with b
				for d := b; d != nil; d = d.Idom() {
					if d.Dominates(at.Block()) && ReachableFrom(b)[d] && !ReachableFrom(at.Block())[b] {
						ok = true
					}
				}
			}
		}
	})
	return ok
}

// failsOnNilElem: fn ranges over its slice parameter par and, for a nil element, leaves the loop
// towards returns that all carry a non-nil error.
func failsOnNilElem(fn *ssa.Function, par *ssa.Parameter) bool {
	found := false
	Instrs(fn, func(b *ssa.BasicBlock, _ int, ins ssa.Instruction) {
		bo, isB := ins.(*ssa.BinOp)
		if !isB || (bo.Op != token.EQL && bo.Op != token.NEQ) || !InLoop(b) || bo.Referrers() == nil {
			return
		}
		_, cx, cy, _ := BinCmp(bo)
		if !IsNilConst(cy) {
			return
		}
		ld, isLd := cx.(*ssa.UnOp)
		if !isLd || ld.Op != token.MUL {
			return
		}
		ia, isIA := ld.X.(*ssa.IndexAddr)
		if !isIA || ValueOrigin(ia.X) != ssa.Value(par) {
			return
		}
		for _, ref := range *bo.Referrers() {
			ifi, isIf := ref.(*ssa.If)
			if !isIf {
				continue
			}
			nilSucc := ifi.Block().Succs[0]
			if bo.Op == token.NEQ {
				nilSucc = ifi.Block().Succs[1]
			}
			reach := ReachableFrom(nilSucc)
			if reach[b] {
				continue // the nil branch goes on with the loop
			}
			reach[nilSucc] = true
			allFail, n := true, 0
			for rb := range reach {
				if len(rb.Instrs) == 0 {
					continue
				}
				ret, ok := rb.Instrs[len(rb.Instrs)-1].(*ssa.Return)
				if !ok {
					continue
				}
				n++
				if len(ret.Results) == 0 || !isErrType(ret.Results[len(ret.Results)-1].Type()) || IsNilConst(ret.Results[len(ret.Results)-1]) {
					allFail = false
				}
			}
			if allFail && n > 0 {
				found = true
			}
		}
	})
	return found
}

// failsOnNilParam: on the branch on which its pointer parameter par is nil, fn only reaches
// returns that carry a non-nil error.
func failsOnNilParam(fn *ssa.Function, par *ssa.Parameter) bool {
	found := false
	Instrs(fn, func(b *ssa.BasicBlock, _ int, ins ssa.Instruction) {
		bo, isB := ins.(*ssa.BinOp)
		if !isB || (bo.Op != token.EQL && bo.Op != token.NEQ) || bo.Referrers() == nil {
			return
		}
		_, cx, cy, _ := BinCmp(bo)
		if !IsNilConst(cy) || ValueOrigin(cx) != ssa.Value(par) {
			return
		}
		for _, ref := range *bo.Referrers() {
			ifi, isIf := ref.(*ssa.If)
			if !isIf {
				continue
			}
			nilSucc := ifi.Block().Succs[0]
			if bo.Op == token.NEQ {
				nilSucc = ifi.Block().Succs[1]
			}
			reach := ReachableFrom(nilSucc)
			reach[nilSucc] = true
			allFail, n := true, 0
			for rb := range reach {
				if len(rb.Instrs) == 0 {
					continue
				}
				ret, ok := rb.Instrs[len(rb.Instrs)-1].(*ssa.Return)
				if !ok {
					continue
				}
				n++
				if len(ret.Results) == 0 || !isErrType(ret.Results[len(ret.Results)-1].Type()) || IsNilConst(ret.Results[len(ret.Results)-1]) {
					allFail = false
				}
			}
			// the test must come first: it dominates every other use of the parameter
			if allFail && n > 0 && ifi.Block() == fn.Blocks[0] {
				found = true
			}
		}
	})
	return found
}
