package rules

import (
	"fmt"
	"go/ast"
	"go/token"
	"go/types"
	"sort"
	"strings"

	"golang.org/x/tools/go/ssa"

	"ketosa/internal/core"
)

func init() {
	Register(&Property{
		ID: "C04",
		Explanation: "Decides column-level agreement between what is written and what is read/matched, and that handlers write only validated tuples: (R04.1) the internal field written to a column by FromInternal/insertSubject is the field ToInternal reads from it, and the two subject kinds set/clear complementary columns; (R04.2) the INSERT's column list, the db tags of the values bound and the placeholders per row agree position by position; (R04.3) every predicate 'col = ?' (pop fragments, the DELETE builder, the traversal SELECT and its fragment function) is bound to the internal field that R04.1 maps to col, a subject id matches exactly {subject_id} and a subject set exactly the three subject_set_* columns, extra conjuncts are only IS NULL on the complementary columns; (R04.4) in whereQuery every Where is guarded by the non-nil test of the query field it binds and every query field has one; (R04.5) the DELETE is one conjunction per tuple over namespace, object, relation and subject, OR-ed across tuples, AND the network id; (R04.6) every write handler passes to the storage manager only what Mapper().FromTuple returned, and FromTuple appends a tuple only after an error-checked namespace lookup (also of the subject set's namespace) and Validate; (R04.14) every stored id is NewV5(network, name) of the string handed in and nothing else, and the strings are stored as handed in; (R04.13) the query mappers copy a field under presence tests only; (R04.12) a REST write entry that reads the URL query also parses it strictly, so a malformed pair is rejected instead of silently widening the selection; (R04.11) in the transact/patch handlers a delta's tuple is collected only under a test of that delta's action (never positionally); (R04.10) every internal consumer of the paginated listing either hands the page token on or loops until it is empty, so nothing that means 'all matching relationships' acts on the first page only; (R04.9) a multi-tuple write or delete iterates its input whole or in tiles that cover it, so every input tuple reaches a statement; (R04.7) persistence/sql keeps no process-local mutable state (caches) besides the network id set at start-up, so what a statement sees is the database. " +
			"Not decided: database or pop semantics, read-your-writes across connections, the multiset behaviour over histories.",
		Assumptions: []string{
			"the table's CHECK constraint makes the IS NULL conjuncts on complementary subject columns always true for stored rows",
		},
		Run: runC04,
	})
}

var subjCols = map[string][]string{
	"SubjectID":  {"subject_id"},
	"SubjectSet": {"subject_set_namespace", "subject_set_object", "subject_set_relation"},
}

func otherKind(k string) string {
	if k == "SubjectID" {
		return "SubjectSet"
	}
	return "SubjectID"
}

// checkSubjectAtoms verifies a conjunction's atoms on subject columns for one
// subject kind. bind resolves a placeholder index to the bound expression.
func checkSubjectAtoms(m *SQLModel, atoms []*core.SQLExpr, kind string, bind func(q int) ast.Expr, info *types.Info) []string {
	var bad []string
	eq := map[string]bool{}
	for _, a := range atoms {
		col := core.BaseColumn(a.Left)
		isSubj := strings.HasPrefix(col, "subject_")
		if !isSubj {
			continue
		}
		switch {
		case a.Cmp == "=" && a.Right == "?":
			eq[col] = true
			arg := bind(a.QIdx)
			got := internalFieldOf(info, arg)
			want := m.WriteMap[col]
			if got == "" || got != want {
				bad = append(bad, fmt.Sprintf("%s = ? is bound to %s (%s), but the column holds %s", col, exprStr(arg), got, want))
			}
		case a.Cmp == "IS NULL":
			isOther := false
			for _, oc := range subjCols[otherKind(kind)] {
				if oc == col {
					isOther = true
				}
			}
			if !isOther {
				bad = append(bad, fmt.Sprintf("%s IS NULL in the %s case: the column that identifies the subject is required to be NULL", col, kind))
			}
		default:
			if a.Right != "?" && strings.Contains(a.Right, ".") {
				continue // column-to-column correlation, checked elsewhere
			}
			bad = append(bad, fmt.Sprintf("unexpected subject predicate %s", a.String()))
		}
	}
	for _, c := range subjCols[kind] {
		if !eq[c] {
			bad = append(bad, fmt.Sprintf("the %s case has no equality on %s: rows with any value there match", kind, c))
		}
	}
	for c := range eq {
		ok := false
		for _, cc := range subjCols[kind] {
			if cc == c {
				ok = true
			}
		}
		if !ok {
			bad = append(bad, fmt.Sprintf("the %s case compares %s", kind, c))
		}
	}
	return bad
}

func kindOfCase(s string) string {
	switch {
	case strings.Contains(s, "SubjectID"):
		return "SubjectID"
	case strings.Contains(s, "SubjectSet"):
		return "SubjectSet"
	}
	return ""
}

func runC04(c *Ctx) {
	p, r := c.P, c.R
	m := BuildSQLModel(p)
	for _, e := range m.Errs {
		r.Undecide("R04.1", "", "sql model: "+e, "", e)
	}
	if m.Pkg == nil {
		return
	}
	info := m.Pkg.TypesInfo
	r.Note("column_written_from", m.WriteMap)
	r.Note("internal_field_read_from", m.ReadMap)

	// ---- R04.1
	for _, col := range core.SortedKeys(m.WriteMap) {
		src := m.WriteMap[col]
		back := m.ReadMap[src]
		r.Check(back == col, "R04.1", sqlPkgRel+".RelationTuple", "column "+col, "",
			fmt.Sprintf("written from %s and read back into %s", src, src),
			fmt.Sprintf("column %s is written from %s, but %s is read from column %q: the value comes back in another field", col, src, src, back))
	}
	for _, src := range core.SortedKeys(m.ReadMap) {
		col := m.ReadMap[src]
		if m.WriteMap[col] != src {
			r.Violate("R04.1", sqlPkgRel+".RelationTuple", "field "+src, "", fmt.Sprintf("%s is read from column %s, which is written from %q", src, col, m.WriteMap[col]))
		}
	}
	for _, kind := range []string{"SubjectID", "SubjectSet"} {
		set := append([]string{}, m.SetBy[kind]...)
		clr := append([]string{}, m.Cleared[kind]...)
		sort.Strings(set)
		sort.Strings(clr)
		want := append([]string{}, subjCols[kind]...)
		wantClr := append([]string{}, subjCols[otherKind(kind)]...)
		sort.Strings(want)
		sort.Strings(wantClr)
		ok := strings.Join(set, ",") == strings.Join(want, ",") && strings.Join(clr, ",") == strings.Join(wantClr, ",")
		r.Check(ok, "R04.1", sqlPkgRel+".(*RelationTuple).insertSubject", "subject kind "+kind, "",
			"sets "+strings.Join(set, ",")+" and clears "+strings.Join(clr, ","),
			fmt.Sprintf("a %s must set exactly %v and clear %v; it sets %v and clears %v", kind, want, wantClr, set, clr))
	}
	r.Floor("R04.1", 9, "7 columns + 2 subject kinds")

	// ---- R04.2 / R04.5 raw statements
	for _, rs := range m.Raw {
		fname := sqlPkgRel + "." + rs.Fn
		if len(rs.Errs) > 0 {
			r.Undecide("R04.2", fname, "raw statement "+rs.Builder, p.Pos(rs.Site), strings.Join(rs.Errs, "; "))
			continue
		}
		for i, st := range rs.Parsed {
			if st == nil || st.Table != tupleTable {
				continue
			}
			smp := rs.Samples[i]
			bind := func(q int) ast.Expr {
				if q >= 0 && q < len(smp.Args) {
					return smp.Args[q]
				}
				return nil
			}
			switch st.Kind {
			case "INSERT":
				var bad []string
				for ri, row := range st.Rows {
					if len(row) != len(st.Columns) {
						bad = append(bad, fmt.Sprintf("row %d has %d values for %d columns", ri, len(row), len(st.Columns)))
						continue
					}
					for ci, tok := range row {
						if tok.Kind != "?" {
							bad = append(bad, "literal value in the INSERT")
							continue
						}
						f := sqlFieldOf(info, bind(tok.QIdx))
						if m.ColOfField[f] != st.Columns[ci] {
							bad = append(bad, fmt.Sprintf("column %s receives %s (db tag %q)", st.Columns[ci], exprStr(bind(tok.QIdx)), m.ColOfField[f]))
						}
					}
				}
				// every tagged column is inserted
				for col := range m.FieldOfCol {
					has := false
					for _, c2 := range st.Columns {
						if c2 == col {
							has = true
						}
					}
					if !has {
						bad = append(bad, "column "+col+" is not inserted")
					}
				}
				r.Check(len(bad) == 0, "R04.2", fname, "INSERT "+smp.Desc, p.Pos(rs.Site),
					fmt.Sprintf("%d columns, values and db tags agree position by position over %d row(s)", len(st.Columns), len(st.Rows)),
					strings.Join(dedupe(bad), "; "))
			case "DELETE":
				var bad []string
				conj := st.Where.Conjuncts()
				// exactly: (alt OR alt ...) AND nid = ?
				var groups []*core.SQLExpr
				nNid := 0
				for _, cj := range conj {
					switch {
					case cj.Op == "atom" && core.BaseColumn(cj.Left) == "nid":
						nNid++
					case cj.Op == "OR":
						groups = append(groups, cj.Kids...)
					default:
						groups = append(groups, cj)
					}
				}
				// a single alternative arrives as a flattened conjunction: regroup by atoms
				if len(conj) > 2 {
					// flattened: all non-nid atoms form one group
					g := &core.SQLExpr{Op: "AND"}
					for _, cj := range conj {
						if !(cj.Op == "atom" && core.BaseColumn(cj.Left) == "nid") {
							g.Kids = append(g.Kids, cj)
						}
					}
					groups = []*core.SQLExpr{g}
				}
				if nNid != 1 {
					bad = append(bad, fmt.Sprintf("%d top-level nid conjuncts", nNid))
				}
				kinds := strings.Split(strings.Split(smp.Desc, " [")[0], "+")
				if len(groups) != len(kinds) {
					bad = append(bad, fmt.Sprintf("%d tuple groups for %d tuples", len(groups), len(kinds)))
				}
				for gi, g := range groups {
					if gi >= len(kinds) {
						break
					}
					kind := kindOfCase(kinds[gi])
					atoms := g.Atoms()
					eqTuple := map[string]bool{}
					for _, a := range atoms {
						col := core.BaseColumn(a.Left)
						if strings.HasPrefix(col, "subject_") {
							continue
						}
						if a.Cmp != "=" || a.Right != "?" {
							bad = append(bad, "unexpected predicate "+a.String())
							continue
						}
						eqTuple[col] = true
						got := internalFieldOf(info, bind(a.QIdx))
						if got != m.WriteMap[col] {
							bad = append(bad, fmt.Sprintf("%s = ? is bound to %s, the column holds %s", col, exprStr(bind(a.QIdx)), m.WriteMap[col]))
						}
					}
					for _, col := range []string{"namespace", "object", "relation"} {
						if !eqTuple[col] {
							bad = append(bad, "a tuple's delete predicate has no equality on "+col+": more rows than the tuple match")
						}
					}
					if g.Op == "OR" {
						bad = append(bad, "a tuple's delete predicate contains OR")
					}
					bad = append(bad, checkSubjectAtoms(m, atoms, kind, bind, info)...)
				}
				r.Check(len(bad) == 0, "R04.5", fname, "DELETE "+smp.Desc, p.Pos(rs.Site),
					"one conjunction per tuple over namespace, object, relation and the subject columns, OR-ed, AND nid", strings.Join(dedupe(bad), "; "))
			case "SELECT":
				checkTraversalSelect(c, m, fname, rs, st, smp, "R04.3")
			}
		}
	}
	r.Floor("R04.2", 2, "INSERT with one and two rows")
	r.Floor("R04.5", 4, "DELETE instantiations")

	// ---- R04.3 / R04.4 pop fragments
	queryFieldGuard := map[string]bool{}
	for _, wf := range m.Wheres {
		fn := sqlPkgRel + "." + core.DeclName(wf.Fn)
		if wf.Err != "" {
			r.Undecide("R04.3", fn, "Where("+wf.Text+")", p.Pos(wf.Call.Pos()), wf.Err)
			continue
		}
		atoms := wf.Expr.Atoms()
		var bad []string
		for _, a := range atoms {
			col := core.BaseColumn(a.Left)
			if a.Right != "?" {
				continue
			}
			arg := wf.Args[a.QIdx]
			switch col {
			case "nid", "shard_id", "id":
				continue
			}
			got := internalFieldOf(info, arg)
			if a.Cmp == "IN" && col == "relation" {
				continue // relation IN (?) over the computed-subject-set relation names
			}
			want := m.WriteMap[col]
			if want == "" {
				bad = append(bad, "predicate on unknown column "+col)
				continue
			}
			if got != want {
				bad = append(bad, fmt.Sprintf("%s %s ? is bound to %s (%s), the column holds %s", col, a.Cmp, exprStr(arg), got, want))
			}
			if a.Cmp != "=" {
				bad = append(bad, fmt.Sprintf("%s is compared with %s", col, a.Cmp))
			}
			// R04.4: guarded by the non-nil test of the same query field
			if strings.HasPrefix(got, "tuple.") && whereRole(info, wf.Fn) == "query" {
				f := strings.TrimPrefix(got, "tuple.")
				guarded := wf.NonNil[f]
				queryFieldGuard[f] = guarded
				if !guarded {
					bad = append(bad, fmt.Sprintf("the predicate on %s is not guarded by %s != nil: a query without that field compares with NULL", col, f))
				}
				if len(wf.ExtraGuards) > 0 {
					queryFieldGuard[f] = false
					bad = append(bad, fmt.Sprintf("the predicate on %s is added only if also %s: for the other values of the field the query matches rows regardless of it", col, strings.Join(wf.ExtraGuards, " and ")))
				}
			}
		}
		r.Check(len(bad) == 0, "R04.3", fn, "Where("+wf.Text+")", p.Pos(wf.Call.Pos()),
			"every placeholder is bound to the internal field stored in that column", strings.Join(bad, "; "))
	}
	// the subject cases of the pop whereSubject: group fragments per case
	perCase := map[string][]*core.SQLExpr{}
	perCaseBind := map[string]map[*core.SQLExpr]ast.Expr{}
	var wsDecl *ast.FuncDecl
	for _, wf := range m.Wheres {
		if whereRole(info, wf.Fn) != "subject" || wf.Expr == nil {
			continue
		}
		wsDecl = wf.Fn
		k := kindOfCase(wf.Case)
		if perCaseBind[k] == nil {
			perCaseBind[k] = map[*core.SQLExpr]ast.Expr{}
		}
		for _, a := range wf.Expr.Atoms() {
			perCase[k] = append(perCase[k], a)
			if a.Right == "?" {
				perCaseBind[k][a] = wf.Args[a.QIdx]
			}
		}
	}
	for _, kind := range []string{"SubjectID", "SubjectSet"} {
		atoms := perCase[kind]
		if len(atoms) == 0 {
			r.Undecide("R04.3", sqlPkgRel+".(*Persister).whereSubject", "case "+kind, "", "no Where fragments found for this subject kind")
			continue
		}
		// re-index placeholders per atom
		binds := perCaseBind[kind]
		idx := map[int]ast.Expr{}
		for i, a := range atoms {
			if a.Right == "?" {
				idx[i] = binds[a]
				a2 := *a
				a2.QIdx = i
				atoms[i] = &a2
			}
		}
		bad := checkSubjectAtoms(m, atoms, kind, func(q int) ast.Expr { return idx[q] }, info)
		pos := ""
		if wsDecl != nil {
			pos = p.Pos(wsDecl.Pos())
		}
		r.Check(len(bad) == 0, "R04.3", sqlPkgRel+".(*Persister).whereSubject", "case "+kind, pos,
			"matches exactly the subject's identifying columns; the complementary columns are only required to be NULL", strings.Join(bad, "; "))
	}
	// R04.4: every query field has a predicate
	for _, f := range []string{"Namespace", "Object", "Relation"} {
		g, seen := queryFieldGuard[f]
		r.Check(seen && g, "R04.4", sqlPkgRel+".(*Persister).whereQuery", "query field "+f, "",
			"bound under its non-nil guard", "the query field "+f+" has no guarded predicate: a query on it matches rows regardless of it")
	}
	// the Subject field: on every path through whereQuery that ends in success, either the
	// subject predicate was added (whereSubject called) or a branch was taken on which the
	// query's Subject is nil - whatever the form of the test (guard, early return, else)
	subjOK := false
	var wqFn *ssa.Function
	for _, f := range p.KetoFuncs(sqlPkgRel) {
		if f.Parent() == nil && whereRoleSSA(f) == "query" {
			wqFn = f
		}
	}
	if fn := wqFn; fn != nil && fn.Blocks != nil {
		isSubjectField := func(v ssa.Value) bool {
			u, ok := core.ValueOrigin(v).(*ssa.UnOp)
			if !ok || u.Op != token.MUL {
				return false
			}
			fa, ok := u.X.(*ssa.FieldAddr)
			return ok && fieldVarOf(fa) != nil && fieldVarOf(fa).Name() == "Subject"
		}
		nilEdge := map[[2]*ssa.BasicBlock]bool{}
		for _, b := range fn.Blocks {
			if len(b.Instrs) == 0 {
				continue
			}
			ifi, ok := b.Instrs[len(b.Instrs)-1].(*ssa.If)
			if !ok {
				continue
			}
			for k := 0; k < 2; k++ {
				op, x, y, ok := core.Cond{V: ifi.Cond, True: k == 0, At: b}.Holds()
				if ok && op == token.EQL && core.IsNilConst(y) && isSubjectField(x) {
					nilEdge[[2]*ssa.BasicBlock{b, b.Succs[k]}] = true
				}
			}
		}
		nCalls := 0
		res := core.PathCount(fn, func(ins ssa.Instruction) int {
			if c, ok := ins.(ssa.CallInstruction); ok {
				if sc := c.Common().StaticCallee(); sc != nil && whereRoleSSA(sc) == "subject" {
					nCalls++
					return 1
				}
			}
			return 0
		}, nil, func(from, to *ssa.BasicBlock) bool { return nilEdge[[2]*ssa.BasicBlock{from, to}] })
		subjOK = nCalls > 0
		for ret, iv := range res {
			success := false
			for _, rv := range ret.Results {
				if core.IsNilConst(rv) {
					success = true
				}
			}
			if success && iv.Lo < 1 {
				subjOK = false
			}
		}
	}
	r.Check(subjOK, "R04.4", sqlPkgRel+".(*Persister).whereQuery", "query field Subject", "",
		"the subject predicate is added when a subject is given", "whereQuery does not add the subject predicate for a query with a subject")

	r046(c)
	r047(c, "R04.7")
	// R04.8: a delete/insert takes effect in the network of the request (same rule as R06.2/R06.3)
	rawNetworkScope(c, m, "R04.8", "R04.8")
	// R04.9: a multi-tuple write/delete hands every input tuple to a statement (same rule as R05.6)
	wo := map[*ssa.Function]bool{}
	for _, s := range p.StmtSites() {
		if pk := core.FuncPkg(s.Fn); s.Write && !isMigrationOrTestHelper(s.Fn) && pk != nil && pk.Path() == sqlPkgPath {
			wo[core.Outermost(s.Fn)] = true
		}
	}
	closeWriteOps(p, wo)
	inputTuplesCovered(c, "R04.9", wo)
	// R04.10: nothing that acts on "all matching relationships" works from a single page of a paginated listing
	c.R.SubRun(func() { r075(c, "R07.5") }, map[string]string{"R07.5": "R04.10"})
	r0411(c)
	r0412(c, "R04.12")
	mapperQueryGuards(c, "R04.13")
	// R04.14 the name <-> id mapping under the store is exact (the C16 forward-mapping rules)
	c.R.SubRun(func() { runC16(c) }, map[string]string{"R16.3": "R04.14", "R16.8": "R04.14"})
}

// ---- R04.6 handlers write only mapper-validated tuples ------------------------------------------

func r046(c *Ctx) {
	p, r := c.P, c.R
	n := 0
	// only code that serves the write API (the package also holds test helpers
	// in non-test files)
	entries, _ := p.Entries()
	var roots []*ssa.Function
	for _, e := range entries {
		if e.Kind == "write" {
			roots = append(roots, e.Fn)
		}
	}
	served := p.KG().ReachLive(roots, nil)
	judgedIn := map[*ssa.Function]bool{}
	for _, fn := range p.KetoFuncs("internal/relationtuple") {
		if !served.Has(fn) {
			continue
		}
		core.Instrs(fn, func(_ *ssa.BasicBlock, _ int, ins ssa.Instruction) {
			ci, ok := ins.(ssa.CallInstruction)
			if !ok || !ci.Common().IsInvoke() {
				return
			}
			name := ci.Common().Method.Name()
			if name != "WriteRelationTuples" && name != "TransactRelationTuples" && name != "DeleteRelationTuples" {
				return
			}
			if !core.IsNamed(ci.Common().Value.Type(), relPkg, "Manager") {
				return
			}
			if strings.Contains(core.FuncName(fn), "ManagerWrapper") || p.IsTestFile(ins.Pos()) {
				return
			}
			n++
			judgedIn[fn] = true
			okAll := true
			for _, a := range ci.Common().Args {
				if _, isSlice := a.Type().Underlying().(*types.Slice); !isSlice {
					continue
				}
				if !fromMapperFromTuple(a) {
					okAll = false
				}
			}
			r.Check(okAll, "R04.6", core.FuncName(fn), "tuples passed to "+name, p.Pos(ins.Pos()),
				"every tuple slice handed to the storage manager is (a slice of) the result of Mapper().FromTuple",
				"a write handler passes tuples to the storage manager that did not come out of Mapper().FromTuple (namespace and subject validation skipped)")
		})
	}
	// floor: every write entry reaches a storage call judged above (in its own body or in a
	// helper the handlers share), and there are at least three write entries
	nEntries := 0
	for _, root := range roots {
		nEntries++
		reach := p.KG().ReachLive([]*ssa.Function{root}, nil)
		hit := false
		for fn := range judgedIn {
			if reach.Has(fn) {
				hit = true
			}
		}
		if !hit {
			r.Undecide("R04.6", core.FuncName(root), "write entry reaches the storage manager", p.Pos(root.Pos()), "no call of the storage manager's write methods was recognised on the paths of this write entry")
		}
	}
	if n < 1 || nEntries < 3 {
		r.Undecide("R04.6", "", "write handler storage calls", "", fmt.Sprintf("%d storage calls in %d write entries (floor 1 and 3)", n, nEntries))
	}
	// inside FromTuple
	ft := p.Func("(*internal/relationtuple.Mapper).FromTuple")
	if ft == nil {
		r.Undecide("R04.6", "", "anchor Mapper.FromTuple", "", "not found")
		return
	}
	// the append to the result
	var appends []*ssa.Call
	core.Instrs(ft, func(_ *ssa.BasicBlock, _ int, ins ssa.Instruction) {
		call, ok := ins.(*ssa.Call)
		if !ok {
			return
		}
		if b, ok := call.Call.Value.(*ssa.Builtin); ok && b.Name() == "append" {
			if sl, ok := call.Type().Underlying().(*types.Slice); ok && core.IsNamed(sl.Elem(), relPkg, "RelationTuple") {
				appends = append(appends, call)
			}
		}
	})
	if len(appends) == 0 {
		r.Undecide("R04.6", core.FuncName(ft), "append to result", p.Pos(ft.Pos()), "no append of a mapped tuple found")
		return
	}
	for _, ap := range appends {
		// dominating, error-checked calls
		var nsChecks, subjNsChecks, validates int
		core.Instrs(ft, func(b *ssa.BasicBlock, _ int, ins ssa.Instruction) {
			call, ok := ins.(*ssa.Call)
			if !ok || !core.InstrDominates(call, ap) {
				return
			}
			obj := core.CalleeObj(call.Common())
			if obj == nil {
				return
			}
			errChecked := func() bool {
				// the error result is tested and the non-nil branch leaves
				var errV ssa.Value
				if call.Referrers() != nil {
					for _, ref := range *call.Referrers() {
						if ex, ok := ref.(*ssa.Extract); ok && isErr(ex.Type()) {
							errV = ex
						}
					}
				}
				if isErr(call.Type()) {
					errV = call
				}
				if errV == nil {
					return false
				}
				for _, cd := range core.CondsAt(ap.Block()) {
					if op, x, y, ok := core.BinCmp(cd.V); ok && core.IsNilConst(y) && x == errV {
						if (op == token.NEQ && !cd.True) || (op == token.EQL && cd.True) {
							return true
						}
					}
				}
				return false
			}
			switch obj.Name() {
			case "GetNamespaceByName":
				if !errChecked() {
					return
				}
				arg := call.Common().Args[len(call.Common().Args)-1]
				s := arg.String()
				_ = s
				if argIsFieldPath(arg, "SubjectSet", "Namespace") {
					subjNsChecks++
				} else if argIsFieldPath(arg, "", "Namespace") {
					nsChecks++
				}
			case "Validate":
				if errChecked() {
					validates++
				}
			}
		})
		// the subject-set namespace lookup is on the subject-set path only: it does not dominate the append; count it by reachability
		if subjNsChecks == 0 {
			core.Instrs(ft, func(b *ssa.BasicBlock, _ int, ins ssa.Instruction) {
				call, ok := ins.(*ssa.Call)
				if !ok {
					return
				}
				if obj := core.CalleeObj(call.Common()); obj != nil && obj.Name() == "GetNamespaceByName" {
					arg := call.Common().Args[len(call.Common().Args)-1]
					if argIsFieldPath(arg, "SubjectSet", "Namespace") && core.ReachableFrom(call.Block())[ap.Block()] {
						// must dominate every use of the subject set's fields: the block that appends the subject set object
						subjNsChecks++
					}
				}
			})
		}
		var bad []string
		if nsChecks == 0 {
			bad = append(bad, "no error-checked lookup of the tuple's namespace dominates the append")
		}
		if subjNsChecks == 0 {
			bad = append(bad, "no lookup of the subject set's namespace")
		}
		if validates == 0 {
			bad = append(bad, "no error-checked Validate() dominates the append")
		}
		r.Check(len(bad) == 0, "R04.6", core.FuncName(ft), "append to result", p.Pos(ap.Pos()),
			"a tuple is appended only after an error-checked namespace lookup, subject-set namespace lookup and Validate", strings.Join(bad, "; "))
	}
}

func isErr(t types.Type) bool { return types.Identical(t, types.Universe.Lookup("error").Type()) }

// argIsFieldPath: value is a load of <..>.<owner>.<field> (owner "" = direct field of the tuple).
func argIsFieldPath(v ssa.Value, owner, field string) bool {
	u, ok := core.ValueOrigin(v).(*ssa.UnOp)
	if !ok || u.Op != token.MUL {
		return false
	}
	fa, ok := u.X.(*ssa.FieldAddr)
	if !ok {
		return false
	}
	fv := fieldVarOf(fa)
	if fv == nil || fv.Name() != field {
		return false
	}
	n := core.NamedOf(fa.X.Type())
	if owner == "" {
		return n != nil && n.Obj().Name() == "RelationTuple"
	}
	return n != nil && n.Obj().Name() == owner
}

// fromMapperFromTuple: the slice derives from the first result of Mapper.FromTuple.
func fromMapperFromTuple(v ssa.Value) bool {
	seen := map[ssa.Value]bool{}
	var walk func(v ssa.Value) bool
	walk = func(v ssa.Value) bool {
		v = core.ValueOrigin(v)
		if v == nil || seen[v] {
			return false
		}
		seen[v] = true
		switch x := v.(type) {
		case *ssa.Slice:
			return walk(x.X)
		case *ssa.Extract:
			if call, ok := x.Tuple.(*ssa.Call); ok && x.Index == 0 && core.IsCallTo(call, "FromTuple") {
				return true
			}
			if call, ok := x.Tuple.(*ssa.Call); ok {
				if a := subSliceOfArg(call, x.Index); a != nil {
					return walk(a)
				}
			}
		case *ssa.Call:
			if a := subSliceOfArg(x, 0); a != nil {
				return walk(a)
			}
		case *ssa.Phi:
			for _, e := range x.Edges {
				if !walk(e) {
					return false
				}
			}
			return len(x.Edges) > 0
		}
		return false
	}
	return walk(v)
}

// subSliceOfArg: call is a call of a repository helper whose result idx is, on every return, a
// (sub-)slice of one and the same parameter; the argument passed for that parameter.
func subSliceOfArg(call *ssa.Call, idx int) ssa.Value {
	sc := call.Common().StaticCallee()
	if sc == nil || sc.Blocks == nil || core.FuncPkg(sc) == nil || !core.IsKeto(core.FuncPkg(sc)) {
		return nil
	}
	var par *ssa.Parameter
	ok := true
	n := 0
	core.Instrs(sc, func(_ *ssa.BasicBlock, _ int, ins ssa.Instruction) {
		ret, isRet := ins.(*ssa.Return)
		if !isRet {
			return
		}
		n++
		if idx >= len(ret.Results) {
			ok = false
			return
		}
		v := core.ValueOrigin(ret.Results[idx])
		for {
			sl, isSl := v.(*ssa.Slice)
			if !isSl {
				break
			}
			v = core.ValueOrigin(sl.X)
		}
		q, isPar := v.(*ssa.Parameter)
		if !isPar || (par != nil && q != par) {
			ok = false
			return
		}
		par = q
	})
	if !ok || par == nil || n == 0 {
		return nil
	}
	for i, q := range sc.Params {
		if q == par && i < len(call.Common().Args) {
			return call.Common().Args[i]
		}
	}
	return nil
}

// ---- R04.7 no process-local mutable state in persistence/sql -----------------------------------------

func r047(c *Ctx, rule string) {
	p, r := c.P, c.R
	allowed := map[string]bool{"NewPersister": true, "SetNetwork": true, "NewTraverser": true, "init": true}
	n := 0
	isPersistent := func(v ssa.Value) (string, bool) {
		// address rooted at a field of Persister/Traverser or a package-level variable
		for i := 0; i < 8 && v != nil; i++ {
			switch x := v.(type) {
			case *ssa.FieldAddr:
				if nn := core.NamedOf(x.X.Type()); nn != nil && nn.Obj().Pkg() != nil && nn.Obj().Pkg().Path() == sqlPkgPath && (nn.Obj().Name() == "Persister" || nn.Obj().Name() == "Traverser") {
					if fv := fieldVarOf(x); fv != nil {
						return nn.Obj().Name() + "." + fv.Name(), true
					}
				}
				v = x.X
			case *ssa.Global:
				if x.Pkg != nil && x.Pkg.Pkg.Path() == sqlPkgPath {
					return "package variable " + x.Name(), true
				}
				return "", false
			case *ssa.UnOp:
				v = x.X
			case *ssa.IndexAddr:
				v = x.X
			default:
				return "", false
			}
		}
		return "", false
	}
	for _, fn := range p.KetoFuncs(sqlPkgRel) {
		top := core.Outermost(fn)
		if allowed[top.Name()] {
			continue
		}
		core.Instrs(fn, func(_ *ssa.BasicBlock, _ int, ins ssa.Instruction) {
			what, where := "", ""
			switch x := ins.(type) {
			case *ssa.Store:
				if w, ok := isPersistent(x.Addr); ok {
					what, where = "store", w
				}
			case *ssa.MapUpdate:
				if w, ok := isPersistent(x.Map); ok {
					what, where = "map update", w
				}
			case ssa.CallInstruction:
				obj := core.CalleeObj(x.Common())
				if obj == nil || obj.Pkg() == nil {
					return
				}
				if pth := obj.Pkg().Path(); pth == "sync" || pth == "sync/atomic" {
					switch obj.Name() {
					case "Store", "LoadOrStore", "Swap", "CompareAndSwap", "Add", "Delete", "LoadAndDelete", "CompareAndDelete":
						if len(x.Common().Args) > 0 {
							if w, ok := isPersistent(x.Common().Args[0]); ok {
								what, where = obj.Name(), w
							}
						}
					}
				}
			}
			if what == "" {
				return
			}
			n++
			r.Violate(rule, core.FuncName(fn), "mutable state "+where, p.Pos(ins.Pos()),
				fmt.Sprintf("%s on %s outside the constructors: the persister keeps process-local state about stored data, which survives rollbacks and is shared by all requests and networks", what, where))
		})
	}
	if n == 0 {
		r.Discharge(rule, sqlPkgRel, "no process-local mutable state", "", "no store, map update or atomic/sync.Map write to a field of Persister/Traverser or a package variable outside NewPersister/SetNetwork/NewTraverser")
	}
}

// checkTraversalSelect verifies the subject-set expansion SELECT (shared by
// C04 R04.3 and C01 R01.4).
func checkTraversalSelect(c *Ctx, m *SQLModel, fname string, rs *RawStmt, st *core.SQLStmt, smp core.SQLSample, rule string) {
	p, r := c.P, c.R
	info := m.Pkg.TypesInfo
	bind := func(q int) ast.Expr {
		if q >= 0 && q < len(smp.Args) {
			return smp.Args[q]
		}
		return nil
	}
	var bad []string
	// outer: equality on namespace/object/relation bound to the start tuple; subject_id IS NULL
	okNull := false
	for _, a := range st.Where.Conjuncts() {
		if a.Op != "atom" {
			continue
		}
		col := core.BaseColumn(a.Left)
		switch {
		case col == "nid" || col == "shard_id":
		case a.Cmp == "=" && a.Right == "?":
			got := internalFieldOf(info, bind(a.QIdx))
			if got != m.WriteMap[col] {
				bad = append(bad, fmt.Sprintf("outer %s = ? is bound to %s, the column holds %s", col, exprStr(bind(a.QIdx)), m.WriteMap[col]))
			}
		case col == "subject_id" && a.Cmp == "IS NULL":
			okNull = true
		default:
			bad = append(bad, "unexpected outer predicate "+a.String())
		}
	}
	if !okNull {
		bad = append(bad, "the outer query does not require subject_id IS NULL: subject-id rows are returned as subject sets")
	}
	kind := kindOfCase(smp.Desc)
	for _, sub := range st.Subs {
		atoms := sub.Where.Atoms()
		corr := map[string]string{}
		for _, a := range atoms {
			if a.Cmp == "=" && strings.Contains(a.Right, ".") {
				corr[core.BaseColumn(a.Left)] = core.BaseColumn(a.Right)
			}
		}
		for inner, outer := range map[string]string{"namespace": "subject_set_namespace", "object": "subject_set_object", "relation": "subject_set_relation"} {
			if corr[inner] != outer {
				bad = append(bad, fmt.Sprintf("the membership sub-select correlates %s with %q instead of the outer row's %s", inner, corr[inner], outer))
			}
		}
		bad = append(bad, checkSubjectAtoms(m, atoms, kind, bind, info)...)
	}
	if len(st.Subs) == 0 {
		bad = append(bad, "no membership sub-select")
	}
	// select list aliases vs the scanned row struct
	want := map[string]string{"shard_id": "shard_id", "namespace": "subject_set_namespace", "object": "subject_set_object", "relation": "subject_set_relation", "found": "EXISTS"}
	got := map[string]string{}
	for _, it := range st.Selects {
		got[it.Alias] = core.BaseColumn(it.Expr)
	}
	for alias, expr := range want {
		if got[alias] != expr {
			bad = append(bad, fmt.Sprintf("select item aliased %q is %q, the row struct expects %s", alias, got[alias], expr))
		}
	}
	r.Check(len(bad) == 0, rule, fname, "traversal SELECT "+smp.Desc, p.Pos(rs.Site),
		"outer predicates bind the start tuple's namespace/object/relation, the sub-select correlates the outer row's subject set and matches the requested subject exactly, aliases match the row struct",
		strings.Join(dedupe(bad), "; "))
}

// ---- R04.11 whether a delta's tuple is inserted or deleted depends on that delta's action -------

// r0411: in the transact/patch handlers every append of a tuple taken from a
// delta (a value with both an Action and a RelationTuple field) is control
// dependent on a comparison of that same delta's Action. A list that collects
// the tuples regardless of their action and is split later (by a count, by
// position) pairs tuples with the wrong operation for some orders of the
// request.
func r0411(c *Ctx) {
	p, r := c.P, c.R
	n := 0
	isDelta := func(t types.Type) bool {
		if pt, ok := t.Underlying().(*types.Pointer); ok {
			t = pt.Elem()
		}
		st, ok := t.Underlying().(*types.Struct)
		if !ok {
			return false
		}
		hasA, hasT := false, false
		for i := 0; i < st.NumFields(); i++ {
			switch st.Field(i).Name() {
			case "Action":
				hasA = true
			case "RelationTuple":
				hasT = true
			}
		}
		return hasA && hasT
	}
	for _, fn := range p.KetoFuncs("internal/relationtuple") {
		core.Instrs(fn, func(b *ssa.BasicBlock, _ int, ins ssa.Instruction) {
			call, ok := ins.(*ssa.Call)
			if !ok {
				return
			}
			bi, ok := call.Call.Value.(*ssa.Builtin)
			if !ok || bi.Name() != "append" || len(call.Call.Args) < 2 {
				return
			}
			// elements appended: stores into the variadic array
			var deltas []ssa.Value
			for _, el := range variadicElems(call.Call.Args[1]) {
				seen := map[ssa.Value]bool{}
				var walk func(v ssa.Value, d int)
				walk = func(v ssa.Value, d int) {
					if v == nil || seen[v] || d > 6 {
						return
					}
					seen[v] = true
					switch x := v.(type) {
					case *ssa.UnOp:
						if fa, ok := x.X.(*ssa.FieldAddr); ok && x.Op == token.MUL {
							if fv := fieldVarOf(fa); fv != nil && fv.Name() == "RelationTuple" && isDelta(fa.X.Type()) {
								deltas = append(deltas, fa.X)
								return
							}
						}
						walk(x.X, d+1)
					case *ssa.Extract:
						walk(x.Tuple, d+1)
					case *ssa.Call:
						for _, a := range x.Call.Args {
							walk(a, d+1)
						}
					case *ssa.MakeInterface:
						walk(x.X, d+1)
					case *ssa.ChangeInterface:
						walk(x.X, d+1)
					case *ssa.Phi:
						for _, e := range x.Edges {
							walk(e, d+1)
						}
					}
				}
				walk(el, 0)
			}
			for _, dv := range deltas {
				n++
				dep := false
				for _, cd := range core.CondsAt(b) {
					_, x, y, ok := core.BinCmp(cd.V)
					if !ok {
						continue
					}
					for _, side := range []ssa.Value{x, y} {
						if u, ok := core.ValueOrigin(side).(*ssa.UnOp); ok && u.Op == token.MUL {
							if fa, ok := u.X.(*ssa.FieldAddr); ok {
								if fv := fieldVarOf(fa); fv != nil && fv.Name() == "Action" && fa.X == dv {
									dep = true
								}
							}
						}
					}
				}
				r.Check(dep, "R04.11", core.FuncName(fn), "tuple of a delta collected", p.Pos(call.Pos()),
					"the tuple is collected under a test of its own delta's action",
					"the tuple of a delta is collected without a test of that delta's action: which operation it receives is decided elsewhere (by position or count), so for some orders of the request a tuple is inserted although its delta says delete, or the reverse")
			}
		})
	}
	if n < 2 {
		r.Undecide("R04.11", "", "delta tuples collected", "", fmt.Sprintf("%d found (floor 2: REST patch, gRPC transact)", n))
	}
}

// ---- R04.12 a write request's selection is parsed strictly -------------------------------------------

// r0412: (*url.URL).Query silently discards the pairs it cannot parse (a ';' in
// a value, a bad escape). For a request that selects what to delete from its
// query that widens the selection: DELETE ?namespace=n&object=a;b deletes the
// whole namespace. Every REST write entry point that reads URL.Query() must
// also reach a strict parse of the same query (url.ParseQuery, whose error is
// the validator's verdict).
func r0412(c *Ctx, rule string) {
	p, r := c.P, c.R
	entries, _ := p.Entries()
	g := p.KG()
	n := 0
	for _, e := range entries {
		if e.Transport != "rest" || e.Kind != "write" {
			continue
		}
		lenient, strict := "", false
		for f := range g.ReachLive([]*ssa.Function{e.Fn}, nil).Parent {
			if pk := core.FuncPkg(f); pk == nil || !core.IsKeto(pk) {
				continue
			}
			core.Instrs(f, func(_ *ssa.BasicBlock, _ int, ins ssa.Instruction) {
				ci, ok := ins.(ssa.CallInstruction)
				if !ok {
					return
				}
				obj := core.CalleeObj(ci.Common())
				if obj == nil || obj.Pkg() == nil || obj.Pkg().Path() != "net/url" {
					return
				}
				switch obj.Name() {
				case "Query":
					if lenient == "" {
						lenient = p.Pos(ins.Pos())
					}
				case "ParseQuery":
					strict = true
				}
			})
		}
		if lenient == "" {
			continue // the entry does not read the URL query
		}
		n++
		r.Check(strict, rule, core.FuncName(e.Fn), "entry "+e.String(), lenient,
			"the query is also parsed strictly (url.ParseQuery) on the way",
			"the handler takes its selection from URL.Query(), which silently drops malformed pairs, and nothing parses the query strictly: a filter the client sent can vanish and the write applies to more relationships than asked (DELETE ?namespace=n&object=a;b)")
	}
	if n < 1 {
		r.Undecide(rule, "", "write entries that read the URL query", "", "none found (floor 1: delete by query)")
	}
}

// whereRole: the predicate builders of the listing are recognised by what they take, not by their
// names: a *pop.Query together with the *RelationQuery to filter by ("query"), or with one Subject
// ("subject").
func whereRole(info *types.Info, fd *ast.FuncDecl) string {
	if fd == nil || fd.Type.Params == nil {
		return ""
	}
	hasPop, hasQuery, hasSubject := false, false, false
	for _, fl := range fd.Type.Params.List {
		t := info.TypeOf(fl.Type)
		switch {
		case core.IsNamed(t, "github.com/gobuffalo/pop/v6", "Query"):
			hasPop = true
		case core.IsNamed(t, relPkg, "RelationQuery"):
			hasQuery = true
		case core.IsNamed(t, relPkg, "Subject"):
			hasSubject = true
		}
	}
	switch {
	case hasPop && hasQuery:
		return "query"
	case hasPop && hasSubject:
		return "subject"
	}
	return ""
}

func whereRoleSSA(fn *ssa.Function) string {
	hasPop, hasQuery, hasSubject := false, false, false
	for _, par := range fn.Params {
		t := par.Type()
		switch {
		case core.IsNamed(t, "github.com/gobuffalo/pop/v6", "Query"):
			hasPop = true
		case core.IsNamed(t, relPkg, "RelationQuery"):
			hasQuery = true
		case core.IsNamed(t, relPkg, "Subject"):
			hasSubject = true
		}
	}
	switch {
	case hasPop && hasQuery:
		return "query"
	case hasPop && hasSubject:
		return "subject"
	}
	return ""
}
