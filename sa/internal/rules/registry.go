// Package rules holds the repository-specific rules, one file group per property.
package rules

import (
	"sort"

	"ketosa/internal/core"
)

// Ctx is handed to every rule.
type Ctx struct {
	P    *core.Program
	R    *core.Report
	Tier string // quick | thorough
	// UseCHA makes call-graph based rules use the CHA graph instead of VTA
	// (thorough tier cross-check).
	UseCHA bool
}

// Property describes the rules of one property.
type Property struct {
	ID          string
	Explanation string   // what is decided, and what is not
	Assumptions []string // trusted base
	Run         func(*Ctx)
	Controls    []Control
}

// Control is a semantic edit of the current source applied through an overlay.
type Control struct {
	Name     string
	Positive bool   // must fire (true) or must stay silent (false)
	Rule     string // rule expected to fire (positive)
	// Edit returns the overlay (absolute file -> content) or ok=false when
	// the locator does not apply to the current tree.
	Edit func(repo string) (overlay map[string][]byte, ok bool)
}

var registry = map[string]*Property{}

func Register(p *Property) { registry[p.ID] = p }

func Get(id string) *Property { return registry[id] }

func IDs() []string {
	var out []string
	for k := range registry {
		out = append(out, k)
	}
	sort.Strings(out)
	return out
}
