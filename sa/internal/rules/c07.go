package rules

import (
	"fmt"
	"go/ast"
	"go/constant"
	"go/token"
	"go/types"
	"sort"
	"strings"

	"golang.org/x/tools/go/ssa"

	"ketosa/internal/core"
)

func init() {
	Register(&Property{
		ID: "C07",
		Explanation: "Decides that the keyset pagination mechanics are self-consistent: (R07.1) in GetRelationTuples the ORDER BY column, the column of the strict '>' cursor predicate and the db tag of the field the next token is taken from are the same unique column, the order is ascending, LIMIT is exactly the has-more threshold plus one, the has-more test compares len(rows) with that same threshold, truncation removes exactly one row and the token comes from the last kept row, assigned only in that branch; (R07.2) the same agreement for the traversal's internal paging; (R07.3) page size 0 means the default, a negative page size is rejected, an empty token is the zero cursor; (R07.4) a malformed token (and page size) is a 4xx status-carrying error on every path; (R07.8) GetRelationTuples executes exactly one statement per page (nothing validates the token against rows that may have been deleted); (R07.7) on the list paths the page-token option is built under no condition other than tests of the token itself and earlier error returns; (R07.6) the chunked look-up that maps a page's ids back to strings advances by exactly the chunk it resolves, so no row of a page comes back with unresolved names; (R07.5) the internal consumers (expand, tuple-to-subject-set check) feed the token returned by one call into the next and leave the loop only on an empty token, an error or a finished group. " +
			"Not decided: behaviour under concurrent writes beyond what the strict '>' on a unique, immutable key implies; that shard_id is unique (primary key in the migrations, trusted).",
		Assumptions: []string{
			"(nid, shard_id) is the primary key of keto_relation_tuples (migrations)",
			"herodot maps a DefaultError's CodeField to the HTTP status / gRPC code",
		},
		Run: runC07,
	})
}

// chainCall is one pop.Query method call of the chain a statement is executed on; helper is the call (in the
// function that executes the statement) of the repository helper the call sits in, nil when it sits in that
// function itself.
type chainCall struct {
	call   *ssa.Call
	helper *ssa.Call
}

// pageChain follows the receiver of the first pop All(...) in g back through the query chain, one level into a
// helper of the repository that returns the query it builds.
func pageChain(g *ssa.Function) []chainCall {
	var all *ssa.Call
	core.Instrs(g, func(_ *ssa.BasicBlock, _ int, ins ssa.Instruction) {
		if call, ok := ins.(*ssa.Call); ok && all == nil {
			if obj := core.CalleeObj(call.Common()); obj != nil && obj.Pkg() != nil && obj.Pkg().Path() == "github.com/gobuffalo/pop/v6" && obj.Name() == "All" {
				all = call
			}
		}
	})
	if all == nil || len(all.Common().Args) == 0 {
		return nil
	}
	var out []chainCall
	var helper *ssa.Call
	v := all.Common().Args[0]
	seen := map[ssa.Value]bool{}
	for i := 0; i < 32; i++ {
		v = core.ValueOrigin(v)
		c, ok := v.(*ssa.Call)
		if !ok || seen[v] {
			return out
		}
		seen[v] = true
		obj := core.CalleeObj(c.Common())
		if obj == nil {
			return out
		}
		if obj.Pkg() != nil && obj.Pkg().Path() == "github.com/gobuffalo/pop/v6" {
			sig := obj.Type().(*types.Signature)
			if sig.Recv() != nil && core.IsNamed(sig.Recv().Type(), "github.com/gobuffalo/pop/v6", "Query") && len(c.Common().Args) > 0 {
				out = append(out, chainCall{c, helper})
				v = c.Common().Args[0]
				continue
			}
			return out
		}
		sc := c.Common().StaticCallee()
		if helper == nil && sc != nil && sc.Blocks != nil && obj.Name() != "queryWithNetwork" && core.FuncPkg(sc) != nil && core.IsKeto(core.FuncPkg(sc)) &&
			sc.Signature.Results().Len() == 1 && core.IsNamed(derefT(sc.Signature.Results().At(0).Type()), "github.com/gobuffalo/pop/v6", "Query") {
			var rets []*ssa.Return
			core.Instrs(sc, func(_ *ssa.BasicBlock, _ int, ins ssa.Instruction) {
				if ret, ok := ins.(*ssa.Return); ok {
					rets = append(rets, ret)
				}
			})
			if len(rets) == 1 && len(rets[0].Results) == 1 {
				helper = c
				v = rets[0].Results[0]
				continue
			}
		}
		return out
	}
	return out
}

func runC07(c *Ctx) {
	p, r := c.P, c.R
	m := BuildSQLModel(p)
	if m.Pkg == nil {
		r.Undecide("R07.1", "", "sql model", "", strings.Join(m.Errs, "; "))
		return
	}
	info := m.Pkg.TypesInfo
	fd := core.FuncDecl(m.Pkg, "Persister.GetRelationTuples")
	if fd == nil {
		r.Undecide("R07.1", "", "anchor GetRelationTuples", "", "not found")
		return
	}
	fname := sqlPkgRel + ".(*Persister).GetRelationTuples"
	var orderCol, orderDir, cursorCol, cursorOp, cursorArg, limitExpr string
	var limitBase string
	// the calls of the query chain the page is read with, in GetRelationTuples or in the helper that builds it
	chainAt := map[token.Pos]bool{}
	if g := p.Func("(*" + sqlPkgRel + ".Persister).GetRelationTuples"); g != nil {
		for _, cc := range pageChain(g) {
			obj := core.CalleeObj(cc.call.Common())
			args := cc.call.Common().Args
			chainAt[cc.call.Pos()] = true
			switch obj.Name() {
			case "Order":
				if len(args) > 1 {
					if k, ok := core.Unwrap(args[1]).(*ssa.Const); ok && k.Value != nil && k.Value.Kind() == constant.String {
						f := strings.Fields(constant.StringVal(k.Value))
						if len(f) > 0 {
							orderCol = f[0]
						}
						if len(f) > 1 {
							orderDir = strings.ToUpper(f[1])
						}
					}
				}
			case "Limit":
				la := args[len(args)-1]
				limitExpr = la.String()
				if add, ok := la.(*ssa.BinOp); ok && add.Op == token.ADD {
					for _, pair := range [][2]ssa.Value{{add.X, add.Y}, {add.Y, add.X}} {
						if k, isK := core.IntConst(pair[1]); isK && k == 1 {
							limitBase = pair[0].Name()
							if u, ok := pair[0].(*ssa.UnOp); ok {
								if fa, ok := u.X.(*ssa.FieldAddr); ok && fieldVarOf(fa) != nil {
									limitBase = fieldVarOf(fa).Name()
								}
							}
							limitExpr = limitBase + " + 1"
						}
					}
				}
			}
		}
	}
	for _, wf := range m.Wheres {
		if wf.Expr == nil || wf.Call == nil || !chainAt[wf.Call.Lparen] {
			continue
		}
		for _, a := range wf.Expr.Atoms() {
			if a.Cmp == ">" || a.Cmp == ">=" || a.Cmp == "<" || a.Cmp == "<=" {
				cursorCol, cursorOp = core.BaseColumn(a.Left), a.Cmp
				if a.Right == "?" && a.QIdx < len(wf.Args) {
					cursorArg = canonExpr(wf.Args[a.QIdx])
				}
			}
		}
	}
	// has-more branch: decided on the SSA form, through helpers the logic may have been
	// extracted into (hasMore below)
	hm := hasMore(c)
	tokenField := hm.tokenField
	tokCol := m.ColOfField[tokenField]
	var bad []string
	if orderCol == "" || cursorCol == "" || tokCol == "" {
		bad = append(bad, fmt.Sprintf("could not identify the order column (%q), the cursor predicate column (%q) and the token field's column (%q)", orderCol, cursorCol, tokCol))
	}
	if orderCol != cursorCol || cursorCol != tokCol {
		bad = append(bad, fmt.Sprintf("ORDER BY %s, cursor predicate on %s, next token taken from column %s: the three must be the same column", orderCol, cursorCol, tokCol))
	}
	if cursorOp != ">" {
		bad = append(bad, fmt.Sprintf("the cursor predicate is '%s %s ?': with anything but a strict '>' the row the token names is returned again (or rows are skipped)", cursorCol, cursorOp))
	}
	if orderDir == "DESC" {
		bad = append(bad, "descending order with a '>' cursor")
	}
	if !strings.HasSuffix(cursorArg, "LastID") {
		bad = append(bad, "the cursor predicate is bound to "+cursorArg+", not to the decoded page token")
	}
	if limitBase == "" {
		bad = append(bad, "LIMIT is "+limitExpr+", not <page size> + 1: has-more cannot be detected (or rows are lost)")
	}
	bad = append(bad, hm.bad...)
	r.Check(len(bad) == 0, "R07.1", fname, "keyset cursor", p.Pos(fd.Pos()),
		fmt.Sprintf("ORDER BY %s, %s %s ? bound to %s, LIMIT %s, %s", orderCol, cursorCol, cursorOp, cursorArg, limitExpr, hm.desc),
		strings.Join(bad, "; "))
	// order of truncation and token: the token is read from the rows as they are after the truncation
	r.Check(hm.orderOK, "R07.1", fname, "truncate before taking the token", p.Pos(fd.Pos()),
		"the extra row is dropped before the token is read from the last row", "the next token is read before the extra row is dropped: the token names the dropped row, which the next page then skips")

	// ---- R07.2 traversal paging
	for _, rs := range m.Raw {
		if !strings.Contains(rs.Fn, "TraverseSubjectSetExpansion") {
			continue
		}
		if len(rs.Errs) > 0 {
			r.Undecide("R07.2", sqlPkgRel+"."+rs.Fn, "traversal paging", p.Pos(rs.Site), strings.Join(rs.Errs, "; "))
			continue
		}
		for i, st := range rs.Parsed {
			if st == nil || st.Kind != "SELECT" {
				continue
			}
			smp := rs.Samples[i]
			var bad []string
			cur, op, arg := "", "", ""
			for _, a := range st.Where.Conjuncts() {
				if a.Op == "atom" && (a.Cmp == ">" || a.Cmp == ">=") {
					cur, op = core.BaseColumn(a.Left), a.Cmp
					if a.Right == "?" {
						arg = canonExpr(smp.Args[a.QIdx])
					}
				}
			}
			ord := ""
			if len(st.OrderBy) == 1 {
				ord = core.BaseColumn(strings.Fields(st.OrderBy[0])[0])
				if strings.HasSuffix(st.OrderBy[0], "DESC") {
					bad = append(bad, "descending order")
				}
			}
			if cur == "" || cur != ord || op != ">" {
				bad = append(bad, fmt.Sprintf("cursor predicate %s %s ?, ORDER BY %s: must be a strict '>' on the order column", cur, op, ord))
			}
			if cur != "shard_id" {
				bad = append(bad, "the traversal pages on "+cur+", not on the unique shard_id")
			}
			limArg := ""
			var limE, curE ast.Expr
			if st.Limit != nil && st.Limit.Kind == "?" {
				limE = smp.Args[st.Limit.QIdx]
				limArg = canonExpr(limE)
			} else {
				bad = append(bad, "LIMIT is not a bound placeholder")
			}
			for _, a := range st.Where.Conjuncts() {
				if a.Op == "atom" && (a.Cmp == ">" || a.Cmp == ">=") && a.Right == "?" {
					curE = smp.Args[a.QIdx]
				}
			}
			// continuation, matched structurally: an assignment  cursor = V[L-1].F  (or V[len(V)-1].F)
			// that is control dependent on len(V) == L (a full page), in either branch polarity
			tfd := core.FuncDecl(m.Pkg, "Traverser.TraverseSubjectSetExpansion")
			contOK := false
			cursorField := ""
			if tfd != nil && limE != nil && curE != nil {
				ast.Inspect(tfd.Body, func(n ast.Node) bool {
					as, ok := n.(*ast.AssignStmt)
					if !ok || len(as.Lhs) != 1 || len(as.Rhs) != 1 || !sameExpr(info, as.Lhs[0], curE) {
						return true
					}
					se, ok := unparen(as.Rhs[0]).(*ast.SelectorExpr)
					if !ok {
						return true
					}
					ix, ok := unparen(se.X).(*ast.IndexExpr)
					if !ok {
						return true
					}
					v := unparen(ix.X)
					base, k, ok := minusConst(info, ix.Index)
					if !ok || k != 1 || !(sameExpr(info, base, limE) || isLenOf(info, base, v)) {
						return true
					}
					for _, g := range guardsOf(tfd.Body, as) {
						op, x, y, isCmp := cmpParts(info, g.Cond)
						if !isCmp {
							continue
						}
						if !g.True {
							op, _ = negTok(op)
						}
						full := (isLenOf(info, x, v) && sameExpr(info, y, limE)) || (isLenOf(info, y, v) && sameExpr(info, x, limE))
						if full && (op == token.EQL || op == token.GEQ) {
							contOK = true
							cursorField = se.Sel.Name
						}
					}
					return true
				})
			}
			if contOK {
				// the field the next cursor is read from must be a column the SELECT returns
				col := m.ColOfField[cursorField]
				returned := false
				for _, it := range st.Selects {
					if it.Alias == col || (it.Alias == "" && core.BaseColumn(it.Expr) == col) {
						returned = true
					}
				}
				if col == "" || !returned {
					bad = append(bad, fmt.Sprintf("the next cursor is read from field %s (column %q), which the SELECT does not return: the cursor never advances and the same page is fetched forever", cursorField, col))
				}
			}
			if !contOK {
				bad = append(bad, fmt.Sprintf("no continuation 'if len(rows) == %s { %s = rows[%s-1].ID }': the next page does not start after the last row fetched", limArg, arg, limArg))
			}
			r.Check(len(bad) == 0, "R07.2", sqlPkgRel+"."+rs.Fn, "traversal paging "+smp.Desc, p.Pos(rs.Site),
				fmt.Sprintf("strict '>' on %s ordered by it, LIMIT bound to %s, next cursor from the last fetched row", cur, limArg), strings.Join(bad, "; "))
		}
	}
	r.Floor("R07.2", 2, "two instantiations of the traversal statement")

	r073(c)
	r074(c)
	r075(c, "R07.5")
	// R07.6 a page is mapped back to strings completely (same rule as R16.6)
	strideMatchesChunk(c, "R07.6")
	tokenAlwaysForwarded(c, "R07.7")
	onePageOneStatement(c, "R07.8")
}

func isStringT2(t types.Type) bool {
	b, ok := t.Underlying().(*types.Basic)
	return ok && b.Kind() == types.String
}

// r071order: in the has-more branch the truncation precedes the token read.

// ---- R07.3 page size / token defaults -----------------------------------------------------------

func r073(c *Ctx) {
	p, r := c.P, c.R
	fn := p.Func("internal/persistence/sql.internalPaginationFromOptions")
	if fn == nil {
		r.Undecide("R07.3", "", "anchor internalPaginationFromOptions", "", "not found")
		return
	}
	name := core.FuncName(fn)
	// evaluate: for size in {-3,-1,0,1,7}: resulting PerPage / error
	var perPageStores []*ssa.Store
	core.Instrs(fn, func(_ *ssa.BasicBlock, _ int, ins ssa.Instruction) {
		if st, ok := ins.(*ssa.Store); ok {
			if fa, ok := st.Addr.(*ssa.FieldAddr); ok {
				if fv := fieldVarOf(fa); fv != nil && fv.Name() == "PerPage" {
					perPageStores = append(perPageStores, st)
				}
			}
		}
	})
	defaultSize := int64(-1)
	if cst, ok := p.LookupObj(sqlPkgPath, "defaultPageSize").(*types.Const); ok {
		fmt.Sscan(cst.Val().ExactString(), &defaultSize)
	}
	var bad []string
	n := 0
	for _, size := range []int64{-7, -1, 0, 1, 2, 100, 5000} {
		n++
		perPage := int64(-999)
		rejected := false
		w := &core.Walker{Fn: fn}
		w.Oracle = func(v ssa.Value) (core.WVal, bool) {
			// xp.Size load
			if u, ok := v.(*ssa.UnOp); ok && u.Op == token.MUL {
				if fa, ok := u.X.(*ssa.FieldAddr); ok {
					if fv := fieldVarOf(fa); fv != nil && fv.Name() == "Size" {
						return core.WInt(size), true
					}
					if fv := fieldVarOf(fa); fv != nil && fv.Name() == "PerPage" {
						return core.WInt(perPage), true
					}
				}
			}
			// the page size is judged with an empty token: token == "" holds
			if bo, ok := v.(*ssa.BinOp); ok && (bo.Op == token.EQL || bo.Op == token.NEQ) {
				for _, side := range []ssa.Value{bo.X, bo.Y} {
					if kc, isK := side.(*ssa.Const); isK && kc.Value != nil && kc.Value.ExactString() == `""` {
						return core.WBool(bo.Op == token.EQL), true
					}
				}
			}
			return core.WVal{}, false
		}
		w.OnInstr = func(ins ssa.Instruction, w *core.Walker) bool {
			if st, ok := ins.(*ssa.Store); ok {
				for _, ps := range perPageStores {
					if st == ps {
						if x, ok := w.Eval(st.Val); ok && x.Kind == 'i' {
							perPage = x.I
						}
					}
				}
			}
			if ret, ok := ins.(*ssa.Return); ok && len(ret.Results) == 2 {
				// error result produced by a constructor call (not parsePageToken) = rejected
				if call, ok := ret.Results[1].(*ssa.Call); ok && !(call.Common().StaticCallee() != nil && core.FuncPkg(call.Common().StaticCallee()) != nil && core.FuncPkg(call.Common().StaticCallee()).Path() == sqlPkgPath) {
					rejected = true
				}
				if _, ok := ret.Results[1].(*ssa.MakeInterface); ok {
					rejected = true
				}
			}
			return false
		}
		w.Run()
		if w.Err != "" {
			r.Undecide("R07.3", name, "page size handling", p.Pos(fn.Pos()), "cannot evaluate for size "+fmt.Sprint(size)+": "+w.Err)
			return
		}
		switch {
		case size < 0 && !rejected:
			bad = append(bad, fmt.Sprintf("page size %d is accepted (effective %d): a negative LIMIT and a trivially true has-more test", size, perPage))
		case size == 0 && (rejected || perPage != defaultSize):
			bad = append(bad, fmt.Sprintf("page size 0 gives %d (rejected=%v), expected the default %d", perPage, rejected, defaultSize))
		case size > 0 && (rejected || perPage != size):
			bad = append(bad, fmt.Sprintf("page size %d gives %d (rejected=%v)", size, perPage, rejected))
		}
	}
	r.Check(len(bad) == 0, "R07.3", name, "page size handling", p.Pos(fn.Pos()),
		fmt.Sprintf("0 means the default (%d), positive sizes are kept, negative sizes are rejected (%d representatives)", defaultSize, n), strings.Join(bad, "; "))
	// empty token -> zero uuid: in every function that parses the pagination options, on the
	// paths on which the token is empty the last value stored to LastID (if any) is uuid.Nil
	// (a cursor that is never stored is the zero value of a fresh struct, which is uuid.Nil)
	nStores := 0
	for _, pf := range paginationParsers(p) {
		isToken := func(v ssa.Value) bool {
			o := core.ValueOrigin(v)
			if par, ok := o.(*ssa.Parameter); ok {
				return isStringT2(par.Type())
			}
			if u, ok := o.(*ssa.UnOp); ok && u.Op == token.MUL {
				if fa, ok := u.X.(*ssa.FieldAddr); ok && fieldVarOf(fa) != nil && fieldVarOf(fa).Name() == "Token" {
					return true
				}
			}
			return false
		}
		nonEmpty := map[[2]*ssa.BasicBlock]bool{}
		for _, b := range pf.Blocks {
			if len(b.Instrs) == 0 {
				continue
			}
			ifi, ok := b.Instrs[len(b.Instrs)-1].(*ssa.If)
			if !ok {
				continue
			}
			for k := 0; k < 2; k++ {
				op, x, y, ok := core.Cond{V: ifi.Cond, True: k == 0, At: b}.Holds()
				if !ok || op != token.NEQ {
					continue
				}
				if kc, isK := y.(*ssa.Const); isK && kc.Value != nil && kc.Value.ExactString() == `""` && isToken(x) {
					nonEmpty[[2]*ssa.BasicBlock{b, b.Succs[k]}] = true
				}
			}
		}
		// forward: which "last stored cursor" states reach each block (bit 0 none, 1 nil uuid, 2 other)
		in := make([]int, len(pf.Blocks))
		in[0] = 1
		badPos := token.NoPos
		for changed := true; changed; {
			changed = false
			for _, b := range pf.Blocks {
				st := in[b.Index]
				if st == 0 {
					continue
				}
				for _, ins := range b.Instrs {
					switch x := ins.(type) {
					case *ssa.Store:
						fa, ok := x.Addr.(*ssa.FieldAddr)
						if !ok || fieldVarOf(fa) == nil || fieldVarOf(fa).Name() != "LastID" {
							continue
						}
						nStores++
						st = 4
						if u, ok := x.Val.(*ssa.UnOp); ok {
							if g, ok := u.X.(*ssa.Global); ok && g.Name() == "Nil" {
								st = 2
							}
						}
						// the cursor a token parser of the package returns: the zero uuid when that
						// parser returns uuid.Nil on all its paths for an empty token
						if ex, ok := core.ValueOrigin(x.Val).(*ssa.Extract); ok {
							if call, ok := ex.Tuple.(*ssa.Call); ok && nilUUIDWhenEmpty(call.Common().StaticCallee(), ex.Index) {
								st = 2
							}
						}
					case *ssa.Return:
						if st&4 != 0 {
							badPos = x.Pos()
							if !badPos.IsValid() {
								badPos = lastPosIn(b)
							}
						}
					}
				}
				for _, sc := range b.Succs {
					if nonEmpty[[2]*ssa.BasicBlock{b, sc}] {
						continue
					}
					if in[sc.Index]|st != in[sc.Index] {
						in[sc.Index] |= st
						changed = true
					}
				}
			}
		}
		r.Check(!badPos.IsValid(), "R07.3", core.FuncName(pf), "empty token", p.Pos(pf.Pos()),
			"on the paths on which the token is empty the cursor is the zero uuid", "with an empty page token a path returns a cursor other than the zero uuid (at "+p.Pos(badPos)+")")
	}
	if nStores == 0 {
		r.Undecide("R07.3", "", "cursor stores", "", "no store to the cursor field LastID found in the pagination parsers")
	}
}

// ---- R07.4 malformed input is a 4xx ---------------------------------------------------------------

// herodotCode resolves an error value to the HTTP status it carries, or 0.
func herodotCode(p *core.Program, v ssa.Value, depth int) (int64, string) {
	if depth > 12 {
		return 0, "too deep"
	}
	v = core.Unwrap(v)
	switch x := v.(type) {
	case *ssa.Call:
		obj := core.CalleeObj(x.Common())
		if obj == nil {
			return 0, "dynamic call"
		}
		pk := ""
		if obj.Pkg() != nil {
			pk = obj.Pkg().Path()
		}
		switch {
		case pk == "github.com/pkg/errors" && (obj.Name() == "WithStack" || obj.Name() == "Wrap" || obj.Name() == "Wrapf" || obj.Name() == "WithMessage"):
			return herodotCode(p, x.Common().Args[0], depth+1)
		case pk == herodotPkg && strings.HasPrefix(obj.Name(), "With"):
			return herodotCode(p, x.Common().Args[0], depth+1)
		case pk == "github.com/pkg/errors" || pk == "errors" || pk == "fmt":
			return 0, "a plain " + pk + "." + obj.Name() + " error (rendered as 500 / Unknown)"
		}
		// an error constructor of the repository: every return of it carries the same status
		if sc := x.Common().StaticCallee(); sc != nil && sc.Blocks != nil && core.FuncPkg(sc) != nil && core.IsKeto(core.FuncPkg(sc)) && sc.Signature.Results().Len() == 1 {
			code, n := int64(-1), 0
			core.Instrs(sc, func(_ *ssa.BasicBlock, _ int, ins ssa.Instruction) {
				if ret, ok := ins.(*ssa.Return); ok && len(ret.Results) == 1 {
					k, _ := herodotCode(p, ret.Results[0], depth+1)
					if n == 0 {
						code = k
					} else if k != code {
						code = 0
					}
					n++
				}
			})
			if n > 0 && code > 0 {
				return code, ""
			}
		}
		return 0, "error from " + core.ObjName(obj)
	case *ssa.UnOp:
		if x.Op == token.MUL {
			if g, ok := x.X.(*ssa.Global); ok {
				return globalErrCode(p, g, depth)
			}
			if a, ok := x.X.(*ssa.Alloc); ok {
				// a local copy of a DefaultError value
				for _, st := range core.CellStores(a) {
					return herodotCode(p, st.Val, depth+1)
				}
			}
		}
	case *ssa.Alloc:
		for _, st := range core.CellStores(x) {
			return herodotCode(p, st.Val, depth+1)
		}
	case *ssa.Global:
		return globalErrCode(p, x, depth)
	case *ssa.Phi:
		var code int64 = -1
		for _, e := range x.Edges {
			cd, why := herodotCode(p, e, depth+1)
			if cd == 0 {
				return 0, why
			}
			if code == -1 {
				code = cd
			} else if code != cd {
				code = cd
			}
		}
		if code > 0 {
			return code, ""
		}
	}
	return 0, "unrecognised error value " + v.String()
}

func globalErrCode(p *core.Program, g *ssa.Global, depth int) (int64, string) {
	if g.Pkg == nil {
		return 0, "global without package"
	}
	init := g.Pkg.Func("init")
	if init == nil {
		return 0, "no initialiser"
	}
	var code int64
	why := "global " + g.Name() + " is not initialised with a status-carrying error"
	core.Instrs(init, func(_ *ssa.BasicBlock, _ int, ins ssa.Instruction) {
		st, ok := ins.(*ssa.Store)
		if !ok {
			return
		}
		switch a := st.Addr.(type) {
		case *ssa.FieldAddr:
			if a.X == ssa.Value(g) {
				if fv := fieldVarOf(a); fv != nil && fv.Name() == "CodeField" {
					if k, ok := core.IntConst(st.Val); ok {
						code = k
					}
				}
			}
		case *ssa.Global:
			if a == g && code == 0 {
				cd, w := herodotCode(p, st.Val, depth+1)
				code, why = cd, w
			}
		}
	})
	return code, why
}

func r074(c *Ctx) {
	p, r := c.P, c.R
	// every parser of request text on the pagination path
	fns := paginationParsers(p)
	if len(fns) == 0 {
		r.Undecide("R07.4", "internal/persistence/sql.internalPaginationFromOptions", "anchor", "", "not found")
	}
	inSet := map[*ssa.Function]bool{}
	for _, fn := range fns {
		inSet[fn] = true
	}
	n := 0
	for _, fn := range fns {
		core.Instrs(fn, func(_ *ssa.BasicBlock, _ int, ins ssa.Instruction) {
			ret, ok := ins.(*ssa.Return)
			if !ok {
				return
			}
			for _, rv := range ret.Results {
				if !isErr(rv.Type()) || core.IsNilConst(rv) {
					continue
				}
				if call, ok := rv.(*ssa.Call); ok && call.Common().StaticCallee() != nil && inSet[call.Common().StaticCallee()] {
					continue // checked in that function itself
				}
				if ex, ok := core.ValueOrigin(rv).(*ssa.Extract); ok {
					if call, ok := ex.Tuple.(*ssa.Call); ok && call.Common().StaticCallee() != nil && inSet[call.Common().StaticCallee()] {
						continue // the error of a parser judged itself, handed on
					}
				}
				n++
				code, why := herodotCode(p, rv, 0)
				pos := ret.Pos()
				if !pos.IsValid() {
					pos = lastPosIn(ret.Block())
				}
				r.Check(code >= 400 && code < 500, "R07.4", core.FuncName(fn), "error returned for malformed pagination input", p.Pos(pos),
					fmt.Sprintf("the error carries status %d", code),
					"a malformed page token / page size is not reported as a client error: "+why)
			}
		})
	}
	if n < 2 {
		r.Undecide("R07.4", "", "pagination error returns", "", fmt.Sprintf("%d non-nil error returns found on the pagination parsing path (floor 2)", n))
	}
}

// paginationParsers: internalPaginationFromOptions and the functions of the package it calls
// (statically, two levels) that return an error - the code that parses the page size and token.
func paginationParsers(p *core.Program) []*ssa.Function {
	root := p.Func("internal/persistence/sql.internalPaginationFromOptions")
	if root == nil {
		return nil
	}
	out := []*ssa.Function{root}
	seen := map[*ssa.Function]bool{root: true}
	for depth, level := 0, []*ssa.Function{root}; depth < 2; depth++ {
		var next []*ssa.Function
		for _, fn := range level {
			core.Instrs(fn, func(_ *ssa.BasicBlock, _ int, ins ssa.Instruction) {
				ci, ok := ins.(ssa.CallInstruction)
				if !ok {
					return
				}
				sc := ci.Common().StaticCallee()
				if sc == nil || seen[sc] || sc.Blocks == nil || core.FuncPkg(sc) == nil || core.FuncPkg(sc).Path() != sqlPkgPath {
					return
				}
				res := sc.Signature.Results()
				if res.Len() == 0 || !isErr(res.At(res.Len()-1).Type()) {
					return
				}
				seen[sc] = true
				out = append(out, sc)
				next = append(next, sc)
			})
		}
		level = next
	}
	return out
}

// ---- R07.5 internal consumers loop to the empty token -----------------------------------------------

// listingWrappers: functions that fetch one page for their caller - they call GetRelationTuples
// once, with x.WithToken(<their string parameter>), and return what it returns (rows, next token,
// error). The value is the index of the token parameter.
func listingWrappers(p *core.Program) map[*ssa.Function]int {
	out := map[*ssa.Function]int{}
	for _, pk := range p.KetoPackages() {
		for _, fn := range p.KetoFuncs(core.RelPath(pk.PkgPath)) {
			if fn.Parent() != nil || fn.Blocks == nil || (fn.Object() != nil && fn.Object().Exported()) {
				continue
			}
			var listing *ssa.Call
			nList := 0
			core.Instrs(fn, func(_ *ssa.BasicBlock, _ int, ins ssa.Instruction) {
				if call, ok := ins.(*ssa.Call); ok && call.Common().IsInvoke() && call.Common().Method.Name() == "GetRelationTuples" {
					listing = call
					nList++
				}
			})
			if nList != 1 || fn.Signature.Results().Len() != listing.Common().Signature().Results().Len() {
				continue
			}
			// returns the call's results as they are
			direct := true
			core.Instrs(fn, func(_ *ssa.BasicBlock, _ int, ins ssa.Instruction) {
				ret, ok := ins.(*ssa.Return)
				if !ok {
					return
				}
				for i, rv := range ret.Results {
					ex, ok := rv.(*ssa.Extract)
					if !ok || ex.Tuple != ssa.Value(listing) || ex.Index != i {
						direct = false
					}
				}
			})
			if !direct {
				continue
			}
			// the token option is built from a string parameter
			for _, a := range listing.Common().Args {
				for _, el := range variadicElems(a) {
					if oc, ok := core.ValueOrigin(el).(*ssa.Call); ok && core.IsCallTo(oc, "WithToken") {
						if par, ok := core.ValueOrigin(oc.Common().Args[0]).(*ssa.Parameter); ok {
							for k, q := range fn.Params {
								if q == par {
									out[fn] = k
								}
							}
						}
					}
				}
			}
		}
	}
	return out
}

func r075(c *Ctx, rule string) {
	p, r := c.P, c.R
	n := 0
	wrappers := listingWrappers(p)
	live, _ := p.KG().Live()
	var rels []string
	for _, pk := range p.KetoPackages() {
		rels = append(rels, core.RelPath(pk.PkgPath))
	}
	sort.Strings(rels)
	for _, rel := range rels {
		for _, fn := range p.KetoFuncs(rel) {
			if !live[fn] && !live[core.Outermost(fn)] {
				continue
			}
			core.Instrs(fn, func(b *ssa.BasicBlock, _ int, ins ssa.Instruction) {
				call, ok := ins.(*ssa.Call)
				if !ok {
					return
				}
				wrapIdx, isWrapper := -1, false
				if sc := call.Common().StaticCallee(); sc != nil {
					wrapIdx, isWrapper = wrappers[sc]
				}
				if obj := core.CalleeObj(call.Common()); !isWrapper && (obj == nil || obj.Name() != "GetRelationTuples" || obj.Pkg() == nil || !strings.HasPrefix(obj.Pkg().Path(), core.KetoMod)) {
					return
				}
				if _, inWrapper := wrappers[core.Outermost(fn)]; inWrapper {
					return // judged at the calls of the wrapper
				}
				hasTok := false
				if res := call.Common().Signature().Results(); res != nil {
					for i := 0; i < res.Len(); i++ {
						if isStringT2(res.At(i).Type()) {
							hasTok = true
						}
					}
				}
				if !hasTok {
					return // a different function of that name (no page token)
				}
				name := core.FuncName(fn)
				// a caller that hands the token on (API handlers, wrappers) is not a consumer
				if tokenEscapes(call) {
					r.Discharge(rule, name, "paginated listing (token handed on)", p.Pos(call.Pos()), "the next-page token is returned / written to the response: the caller continues the listing")
					return
				}
				n++
				if !core.InLoop(b) {
					r.Violate(rule, name, "paginated listing", p.Pos(call.Pos()), "GetRelationTuples is called once, outside any loop: only the first page of relationships is seen")
					return
				}
				// the returned token
				var tok ssa.Value
				if call.Referrers() != nil {
					for _, ref := range *call.Referrers() {
						if ex, ok := ref.(*ssa.Extract); ok && isStringT2(ex.Type()) {
							tok = ex
						}
					}
				}
				if tok == nil {
					r.Violate(rule, name, "paginated listing", p.Pos(call.Pos()), "the next-page token returned by GetRelationTuples is discarded")
					return
				}
				// the token option: x.WithToken(arg) among the variadic options
				var tokenArg ssa.Value
				for _, a := range call.Common().Args {
					for _, el := range variadicElems(a) {
						if oc, ok := core.ValueOrigin(el).(*ssa.Call); ok && core.IsCallTo(oc, "WithToken") {
							tokenArg = oc.Common().Args[0]
						}
					}
				}
				if isWrapper && wrapIdx < len(call.Common().Args) {
					tokenArg = call.Common().Args[wrapIdx] // the wrapper turns it into x.WithToken(...)
				}
				if tokenArg == nil {
					r.Violate(rule, name, "paginated listing", p.Pos(call.Pos()), "no x.WithToken option is passed: every iteration fetches the first page")
					return
				}
				// tokenArg must be (a phi reaching) the token returned by the previous iteration
				seen := map[ssa.Value]bool{}
				var reaches func(v ssa.Value) bool
				reaches = func(v ssa.Value) bool {
					v = core.ValueOrigin(v)
					if v == nil || seen[v] {
						return false
					}
					seen[v] = true
					if v == tok {
						return true
					}
					switch x := v.(type) {
					case *ssa.Phi:
						for _, e := range x.Edges {
							if reaches(e) {
								return true
							}
						}
					case *ssa.Alloc:
						for _, st := range core.CellStores(x) {
							if reaches(st.Val) {
								return true
							}
						}
					case *ssa.UnOp:
						return reaches(x.X)
					}
					return false
				}
				fed := reaches(tokenArg)
				// the loop is left when the token is empty: a comparison of the token (or a phi of it) with ""
				emptyTest := false
				core.Instrs(fn, func(_ *ssa.BasicBlock, _ int, i2 ssa.Instruction) {
					bo, ok := i2.(*ssa.BinOp)
					if !ok || (bo.Op != token.NEQ && bo.Op != token.EQL) {
						return
					}
					_, cx, cy, _ := core.BinCmp(bo)
					k, ok := cy.(*ssa.Const)
					if !ok || k.Value == nil || k.Value.ExactString() != `""` {
						return
					}
					seen = map[ssa.Value]bool{}
					if reaches(cx) && bo.Referrers() != nil {
						for _, ref := range *bo.Referrers() {
							switch ref.(type) {
							case *ssa.If, *ssa.Phi:
								emptyTest = true
							}
						}
					}
				})
				var bad []string
				// every way out of the page loop other than "token empty" depends on this page only
				// (error, empty page, group done) or on nothing that changes between pages
				inCycle := func(x *ssa.BasicBlock) bool { return sameCycle(x, b) }
				var listRes ssa.Value
				for _, ref := range *call.Referrers() {
					if ex, ok := ref.(*ssa.Extract); ok && ex.Index == 0 {
						listRes = ex
					}
				}
				var variant func(v ssa.Value, d int) bool
				variant = func(v ssa.Value, d int) bool {
					if v == nil || d > 8 {
						return false
					}
					switch x := v.(type) {
					case *ssa.Const, *ssa.Parameter, *ssa.FreeVar, *ssa.Global, *ssa.Function:
						return false
					case *ssa.Phi:
						return inCycle(x.Block()) // loop-carried
					case *ssa.BinOp:
						return variant(x.X, d+1) || variant(x.Y, d+1)
					case *ssa.UnOp:
						if al, ok := x.X.(*ssa.Alloc); ok {
							// a local cell: variant when it is stored to inside the loop
							for _, st := range core.CellStores(al) {
								if st.Parent() == fn && inCycle(st.Block()) {
									return true
								}
							}
							return false
						}
						return variant(x.X, d+1)
					case *ssa.Convert:
						return variant(x.X, d+1)
					case *ssa.Call:
						if bi, ok := x.Call.Value.(*ssa.Builtin); ok && (bi.Name() == "len" || bi.Name() == "cap") {
							return variant(x.Call.Args[0], d+1)
						}
						return false // other calls are judged by the classes below
					case *ssa.Extract:
						return false
					}
					return false
				}
				// a field that is stored to inside the loop changes from page to page
				fieldStoredInLoop := func(fa *ssa.FieldAddr) bool {
					fv := fieldVarOf(fa)
					for _, blk := range fn.Blocks {
						if !inCycle(blk) {
							continue
						}
						for _, i2 := range blk.Instrs {
							if st, ok := i2.(*ssa.Store); ok {
								if fa2, ok := st.Addr.(*ssa.FieldAddr); ok && fieldVarOf(fa2) == fv && fv != nil {
									return true
								}
							}
						}
					}
					return false
				}
				baseVariant := variant
				variant = func(v ssa.Value, d int) bool {
					if u, ok := v.(*ssa.UnOp); ok && u.Op == token.MUL {
						if fa, ok := u.X.(*ssa.FieldAddr); ok && fieldStoredInLoop(fa) {
							return true
						}
					}
					return baseVariant(v, d)
				}
				for _, blk := range fn.Blocks {
					if !inCycle(blk) || len(blk.Instrs) == 0 {
						continue
					}
					ifi, ok := blk.Instrs[len(blk.Instrs)-1].(*ssa.If)
					if !ok {
						continue
					}
					leaves := false
					for _, sc := range blk.Succs {
						if !inCycle(sc) {
							leaves = true
						}
					}
					if !leaves {
						continue
					}
					var okCond func(cond ssa.Value, d int) bool
					okCond = func(cond ssa.Value, d int) bool {
						if d > 4 {
							return false
						}
						switch x := cond.(type) {
						case *ssa.Const:
							return true
						case *ssa.Call:
							return true // g.Done(), errors.Is(...)
						case *ssa.UnOp:
							if _, isCall := x.X.(*ssa.Call); isCall {
								return true
							}
							if x.Op == token.NOT {
								return okCond(x.X, d+1)
							}
						case *ssa.Phi:
							// a short-circuit: every operand must itself be an allowed exit condition
							for _, e := range x.Edges {
								if !okCond(e, d+1) {
									return false
								}
							}
							return true
						}
						if _, cx, cy, isCmp := core.BinCmp(cond); isCmp {
							seen = map[ssa.Value]bool{}
							switch {
							case types.Identical(cx.Type(), types.Universe.Lookup("error").Type()) && core.IsNilConst(cy):
								return true
							case reaches(cx) || reaches(cy):
								return true // about the page token
							}
							if lc, ok := cx.(*ssa.Call); ok {
								if bi, ok := lc.Call.Value.(*ssa.Builtin); ok && bi.Name() == "len" && listRes != nil && core.ValueOrigin(lc.Call.Args[0]) == listRes {
									return true // empty page
								}
							}
							return !variant(cx, 0) && !variant(cy, 0) // the same for every page
						}
						return false
					}
					okExit := okCond(ifi.Cond, 0)
					if !okExit {
						bad = append(bad, fmt.Sprintf("the page loop is left at %s on a condition that changes from page to page and is neither the token, an error, an empty page nor the group being done: later pages are dropped", p.Pos(ifi.Cond.Pos())))
					}
				}
				if !fed {
					bad = append(bad, "the token passed to the next call is not the token the previous call returned: the same page is fetched again and later pages are never seen")
				}
				if !emptyTest {
					bad = append(bad, "the loop is not controlled by 'returned token != \"\"'")
				}
				r.Check(len(bad) == 0, rule, name, "paginated listing", p.Pos(call.Pos()),
					"the returned token feeds the next call and the loop ends on the empty token", strings.Join(bad, "; "))
			})
		}
	}
	if n < 2 {
		r.Undecide(rule, "", "paginated listing consumers", "", fmt.Sprintf("%d internal consumers of GetRelationTuples found (floor 2: expand, tuple-to-subject-set)", n))
	}
}

// canonExpr prints an expression without spaces and without parentheses around
// atomic operands, so that comparisons between expressions do not depend on
// formatting or redundant grouping.
func canonExpr(e ast.Expr) string {
	atomic := func(x ast.Expr) bool {
		switch ast.Unparen(x).(type) {
		case *ast.Ident, *ast.SelectorExpr, *ast.CallExpr, *ast.IndexExpr, *ast.BasicLit, *ast.SliceExpr, *ast.CompositeLit:
			return true
		}
		return false
	}
	switch x := e.(type) {
	case nil:
		return ""
	case *ast.ParenExpr:
		if atomic(x.X) {
			return canonExpr(ast.Unparen(x.X))
		}
		return "(" + canonExpr(ast.Unparen(x.X)) + ")"
	case *ast.BinaryExpr:
		return canonExpr(x.X) + x.Op.String() + canonExpr(x.Y)
	case *ast.UnaryExpr:
		return x.Op.String() + canonExpr(x.X)
	case *ast.StarExpr:
		return "*" + canonExpr(x.X)
	case *ast.SelectorExpr:
		return canonExpr(x.X) + "." + x.Sel.Name
	case *ast.IndexExpr:
		return canonExpr(x.X) + "[" + canonExpr(ast.Unparen(x.Index)) + "]"
	case *ast.SliceExpr:
		s := canonExpr(x.X) + "["
		if x.Low != nil {
			s += canonExpr(ast.Unparen(x.Low))
		}
		s += ":"
		if x.High != nil {
			s += canonExpr(ast.Unparen(x.High))
		}
		if x.Slice3 {
			s += ":" + canonExpr(ast.Unparen(x.Max))
		}
		return s + "]"
	case *ast.CallExpr:
		var as []string
		for _, a := range x.Args {
			as = append(as, canonExpr(ast.Unparen(a)))
		}
		return canonExpr(x.Fun) + "(" + strings.Join(as, ",") + ")"
	}
	return strings.ReplaceAll(types.ExprString(e), " ", "")
}

// tokenEscapes: the string result (next-page token) of the call flows into a
// return value, a struct field or another call's argument.
func tokenEscapes(call *ssa.Call) bool {
	if call.Referrers() == nil {
		return false
	}
	var tok ssa.Value
	for _, ref := range *call.Referrers() {
		if ex, ok := ref.(*ssa.Extract); ok && isStringT2(ex.Type()) {
			tok = ex
		}
	}
	if tok == nil {
		return false
	}
	seen := map[ssa.Value]bool{}
	var esc func(v ssa.Value) bool
	esc = func(v ssa.Value) bool {
		if seen[v] || v.Referrers() == nil {
			return false
		}
		seen[v] = true
		for _, ref := range *v.Referrers() {
			switch x := ref.(type) {
			case *ssa.Return:
				return true
			case *ssa.Store:
				if x.Val == v {
					switch a := x.Addr.(type) {
					case *ssa.FieldAddr:
						return true
					case *ssa.Alloc:
						// named result / local cell: follow its loads
						for _, ld := range core.CellLoads(a) {
							if esc(ld) {
								return true
							}
						}
					}
				}
			case *ssa.Phi:
				if esc(x) {
					return true
				}
			case *ssa.MakeInterface:
				if esc(x) {
					return true
				}
			}
		}
		return false
	}
	return esc(tok)
}

// ---- R07.7 a page token the client sends is always used ----------------------------------------------

// tokenAlwaysForwarded: on the list paths the option that carries the page token
// (x.WithToken(v)) is built under no condition other than tests of the token
// value itself and earlier error returns. A token that is only honoured when
// some other parameter is present makes "follow next_page_token" return page 1
// forever for the requests that leave that parameter out.
func tokenAlwaysForwarded(c *Ctx, rule string) {
	p, r := c.P, c.R
	n := 0
	errT := types.Universe.Lookup("error").Type()
	live, _ := p.KG().Live()
	for _, rel := range []string{"internal/relationtuple", "internal/expand", "internal/check"} {
		for _, fn := range p.KetoFuncs(rel) {
			if !live[fn] && !live[core.Outermost(fn)] {
				continue // test helpers that live in non-test files
			}
			if pk := core.FuncPkg(fn); pk != nil && strings.HasSuffix(pk.Path(), "/internal/check") && fn.Parent() != nil {
				continue // engine page loops are judged by R07.5
			}
			core.Instrs(fn, func(b *ssa.BasicBlock, _ int, ins ssa.Instruction) {
				call, ok := ins.(*ssa.Call)
				if !ok || !core.IsCallTo(call, "WithToken") || len(call.Call.Args) != 1 {
					return
				}
				if core.InLoop(b) {
					return // an internal consumer feeding the returned token forward (R07.5)
				}
				n++
				tok := core.ValueOrigin(call.Call.Args[0])
				var bad []string
				for _, cd := range core.CondsAt(b) {
					_, x, y, isCmp := core.BinCmp(cd.V)
					if !isCmp {
						continue
					}
					switch {
					case core.ValueOrigin(x) == tok || core.ValueOrigin(y) == tok:
					case types.Identical(x.Type(), errT) && core.IsNilConst(y):
					case core.IsNilConst(y):
						// nil tests of the request / its parts
					default:
						bad = append(bad, fmt.Sprintf("it is built only if %s (%s)", cd.V.String(), p.Pos(cd.V.Pos())))
					}
				}
				r.Check(len(bad) == 0, rule, core.FuncName(fn), "page token option", p.Pos(call.Pos()),
					"the token option depends on the token value (and earlier error returns) only",
					strings.Join(bad, "; ")+": a token sent without that other parameter is ignored and the first page is returned again")
			})
		}
	}
	if n < 1 {
		r.Undecide(rule, "", "page token options on list paths", "", "no x.WithToken call outside the internal page loops found (floor 1)")
	}
}

// ---- R07.8 a page is one statement ----------------------------------------------------------------------

// onePageOneStatement: GetRelationTuples answers a page with a single SELECT
// keyed by the token. A second statement on the way (validating the token
// against the table, counting) makes the page depend on rows that other
// requests may have deleted since the token was issued: the server's own token
// is then rejected, or the page shifts.
func onePageOneStatement(c *Ctx, rule string) {
	p, r := c.P, c.R
	root := p.Func("(*internal/persistence/sql.Persister).GetRelationTuples")
	if root == nil {
		r.Undecide(rule, "", "anchor GetRelationTuples", "", "not found")
		return
	}
	inReach := map[*ssa.Function]bool{}
	work := []*ssa.Function{root}
	for len(work) > 0 {
		f := work[0]
		work = work[1:]
		if inReach[f] {
			continue
		}
		inReach[f] = true
		for _, g := range core.Closures(f) {
			inReach[g] = true
			core.Instrs(g, func(_ *ssa.BasicBlock, _ int, ins ssa.Instruction) {
				if ci, ok := ins.(ssa.CallInstruction); ok {
					if sc := ci.Common().StaticCallee(); sc != nil && core.FuncPkg(sc) != nil && core.FuncPkg(sc).Path() == sqlPkgPath && !inReach[sc] {
						work = append(work, sc)
					}
				}
			})
		}
	}
	var sites []string
	for _, s := range p.StmtSites() {
		if inReach[s.Fn] {
			sites = append(sites, s.Callee.Name()+" at "+p.Pos(s.Call.Pos()))
		}
	}
	r.Check(len(sites) == 1, rule, core.FuncName(root), "statements per page", p.Pos(root.Pos()),
		"one page is answered by exactly one statement", fmt.Sprintf("GetRelationTuples executes %d statements per page (%s): the additional one makes the answer depend on rows outside the page (a token pointing at a row deleted meanwhile is rejected)", len(sites), strings.Join(sites, "; ")))
}

// ---- R07.1 has-more, on SSA --------------------------------------------------------------------------

type hasMoreResult struct {
	bad        []string
	desc       string
	tokenField string
	orderOK    bool
}

// hasMore decides the has-more clause of R07.1 for GetRelationTuples: the rows fetched by
// query.All(&rows) are cut by exactly the look-ahead row (rows[:len(rows)-1], or rows[:B]) where
// len(rows) > B holds, B being the PerPage of the pagination whose PerPage+1 is the LIMIT; the next
// token is encodeNextPageToken(kept[len(kept)-1].ID) of the rows as they are after the cut, under the
// same condition; every other token the function returns is ""; and the cut rows are what the
// function goes on with. The cut and the token may sit in a helper of the package that is handed
// the rows (its parameters stand for the arguments of that call).
func hasMore(c *Ctx) hasMoreResult {
	p := c.P
	res := hasMoreResult{}
	fail := func(f string, a ...any) hasMoreResult {
		res.bad = append(res.bad, fmt.Sprintf(f, a...))
		return res
	}
	g := p.Func("(*" + sqlPkgRel + ".Persister).GetRelationTuples")
	if g == nil || g.Blocks == nil {
		return fail("GetRelationTuples not found in the SSA program")
	}
	// the rows: the cell handed to All
	var rowsCell *ssa.Alloc
	var limitArg ssa.Value
	core.Instrs(g, func(_ *ssa.BasicBlock, _ int, ins ssa.Instruction) {
		call, ok := ins.(*ssa.Call)
		if !ok {
			return
		}
		obj := core.CalleeObj(call.Common())
		if obj == nil || obj.Pkg() == nil || obj.Pkg().Path() != "github.com/gobuffalo/pop/v6" {
			return
		}
		switch obj.Name() {
		case "All":
			for _, a := range call.Common().Args {
				if al, ok := core.Unwrap(a).(*ssa.Alloc); ok {
					rowsCell = al
				}
			}
		}
	})
	var limitHelper *ssa.Call
	for _, cc := range pageChain(g) {
		if core.CalleeObj(cc.call.Common()).Name() == "Limit" {
			limitArg, limitHelper = cc.call.Common().Args[len(cc.call.Common().Args)-1], cc.helper
		}
	}
	if rowsCell == nil {
		return fail("cannot find the slice the statement's rows are read into (query.All(&rows))")
	}
	type scope struct {
		fn   *ssa.Function
		bind map[*ssa.Parameter]ssa.Value // helper parameter -> argument in GetRelationTuples
		call *ssa.Call
	}
	// resolve a value of a scope to a value of GetRelationTuples
	var inG func(v ssa.Value, sc scope) ssa.Value
	inG = func(v ssa.Value, sc scope) ssa.Value {
		o := core.ValueOrigin(v)
		if par, ok := o.(*ssa.Parameter); ok && sc.bind != nil {
			if a, ok := sc.bind[par]; ok {
				return core.ValueOrigin(a)
			}
		}
		return o
	}
	isRows := func(v ssa.Value, sc scope) bool {
		// a load of the cell (the cell is written through the pointer handed to All, so the
		// loads are not resolved to what the function itself stores there)
		if u, ok := v.(*ssa.UnOp); ok && u.Op == token.MUL && u.X == ssa.Value(rowsCell) {
			return true
		}
		if par, ok := v.(*ssa.Parameter); ok && sc.bind != nil {
			if a, ok := sc.bind[par]; ok {
				if u, ok := a.(*ssa.UnOp); ok && u.Op == token.MUL && u.X == ssa.Value(rowsCell) {
					return true
				}
			}
		}
		o := inG(v, sc)
		if u, ok := o.(*ssa.UnOp); ok && u.Op == token.MUL && u.X == ssa.Value(rowsCell) {
			return true
		}
		return o == ssa.Value(rowsCell)
	}
	scopes := []scope{{fn: g}}
	core.Instrs(g, func(_ *ssa.BasicBlock, _ int, ins ssa.Instruction) {
		call, ok := ins.(*ssa.Call)
		if !ok {
			return
		}
		h := call.Common().StaticCallee()
		if h == nil || h.Blocks == nil || core.FuncPkg(h) == nil || core.FuncPkg(h).Path() != sqlPkgPath {
			return
		}
		handed := false
		bind := map[*ssa.Parameter]ssa.Value{}
		for i, a := range call.Common().Args {
			if i < len(h.Params) {
				bind[h.Params[i]] = a
				if isRows(a, scope{fn: g}) {
					handed = true
				}
			}
		}
		if handed {
			scopes = append(scopes, scope{h, bind, call})
		}
	})
	lenOf := func(v ssa.Value) ssa.Value {
		if lc, ok := v.(*ssa.Call); ok {
			if bi, ok := lc.Call.Value.(*ssa.Builtin); ok && bi.Name() == "len" && len(lc.Call.Args) == 1 {
				return lc.Call.Args[0]
			}
		}
		return nil
	}
	// the PerPage of a pagination object: (object in G's terms, ok)
	var perPageOf func(v ssa.Value, sc scope) (ssa.Value, bool)
	perPageOf = func(v ssa.Value, sc scope) (ssa.Value, bool) {
		// a helper may be handed the page size itself
		if par, ok := core.ValueOrigin(v).(*ssa.Parameter); ok && sc.bind != nil {
			if a, ok := sc.bind[par]; ok {
				return perPageOf(a, scope{fn: g})
			}
		}
		u, ok := core.ValueOrigin(v).(*ssa.UnOp)
		if !ok || u.Op != token.MUL {
			return nil, false
		}
		fa, ok := u.X.(*ssa.FieldAddr)
		if !ok || fieldVarOf(fa) == nil || fieldVarOf(fa).Name() != "PerPage" {
			return nil, false
		}
		return inG(fa.X, sc), true
	}
	// the has-more condition holding at a block: len(rows) > B; returns B's pagination object
	hasMoreAt := func(b *ssa.BasicBlock, sc scope) (ssa.Value, ssa.Value, bool) {
		for _, cd := range core.CondsAt(b) {
			op, x, y, ok := cd.Holds()
			if !ok {
				continue
			}
			if op == token.LSS {
				op, x, y = token.GTR, y, x
			}
			if op != token.GTR {
				continue
			}
			if l := lenOf(x); l != nil && isRows(l, sc) {
				if obj, ok := perPageOf(y, sc); ok {
					return obj, y, true
				}
			}
		}
		return nil, nil, false
	}
	// the cut
	type cut struct {
		t       *ssa.Slice
		sc      scope
		obj     ssa.Value
		bVal    ssa.Value
		dropOne bool
	}
	var cuts []cut
	for _, sc := range scopes {
		core.Instrs(sc.fn, func(b *ssa.BasicBlock, _ int, ins ssa.Instruction) {
			t, ok := ins.(*ssa.Slice)
			if !ok || !isRows(t.X, sc) || t.High == nil {
				return
			}
			if _, isRowsT := t.Type().Underlying().(*types.Slice); !isRowsT {
				return
			}
			cuts = append(cuts, cut{t: t, sc: sc})
		})
	}
	if len(cuts) == 0 {
		return fail("no has-more branch 'len(rows) > <page size>' that drops the look-ahead row and assigns the next token")
	}
	if len(cuts) > 1 {
		return fail("the rows are cut in %d places (%s, %s, ...): not 'drop exactly the extra row'", len(cuts), p.Pos(cuts[0].t.Pos()), p.Pos(cuts[1].t.Pos()))
	}
	ct := cuts[0]
	obj, bVal, okHM := hasMoreAt(ct.t.Block(), ct.sc)
	if !okHM {
		return fail("the rows are cut at %s, but not on a branch where len(rows) > <page size> holds: a full page loses a row or a short page gets a token", p.Pos(ct.t.Pos()))
	}
	ct.obj, ct.bVal = obj, bVal
	if k, isK := core.IntConst(ct.t.Low); ct.t.Low != nil && !(isK && k == 0) {
		res.bad = append(res.bad, "the has-more branch cuts the rows from a non-zero start: rows of the page are dropped")
	}
	truncOK := false
	if sub, ok := ct.t.High.(*ssa.BinOp); ok && sub.Op == token.SUB {
		if k, isK := core.IntConst(sub.Y); isK && k == 1 {
			if l := lenOf(sub.X); l != nil && isRows(l, ct.sc) {
				truncOK, ct.dropOne = true, true
			}
		}
	}
	if o2, ok := perPageOf(ct.t.High, ct.sc); ok && o2 == obj {
		truncOK = true
	}
	if !truncOK {
		res.bad = append(res.bad, "the has-more branch truncates with "+ct.t.String()+", which is not 'drop exactly the extra row'")
	}
	// LIMIT is that PerPage + 1
	limitOK := false
	if add, ok := limitArg.(*ssa.BinOp); ok && add.Op == token.ADD {
		for _, pair := range [][2]ssa.Value{{add.X, add.Y}, {add.Y, add.X}} {
			if k, isK := core.IntConst(pair[1]); isK && k == 1 {
				lsc := scope{fn: g}
				if limitHelper != nil {
					// the LIMIT is set in the helper that builds the query: its parameters stand for the arguments
					h := limitHelper.Common().StaticCallee()
					lsc = scope{fn: h, bind: map[*ssa.Parameter]ssa.Value{}, call: limitHelper}
					for i, a := range limitHelper.Common().Args {
						if i < len(h.Params) {
							lsc.bind[h.Params[i]] = a
						}
					}
				}
				if o2, ok := perPageOf(pair[0], lsc); ok && o2 == obj {
					limitOK = true
				}
			}
		}
	}
	if !limitOK {
		res.bad = append(res.bad, "LIMIT is not the has-more threshold + 1 (the PerPage the rows are compared with is not the one the statement is limited by): for page sizes where they differ a full page has no token or a short page has one")
	}
	// a helper that cuts may report "there is more" through a boolean result: true exactly on the
	// return that hands back the cut rows
	flagIdx := -1
	if ct.sc.call != nil {
		nres := ct.sc.fn.Signature.Results().Len()
		for k := 1; k < nres; k++ {
			if !core.BoolType(ct.sc.fn.Signature.Results().At(k).Type()) {
				continue
			}
			okFlag, nRet := true, 0
			core.Instrs(ct.sc.fn, func(_ *ssa.BasicBlock, _ int, ins ssa.Instruction) {
				ret, ok := ins.(*ssa.Return)
				if !ok || len(ret.Results) <= k {
					return
				}
				nRet++
				kc, isK := ret.Results[k].(*ssa.Const)
				if !isK || kc.Value == nil {
					okFlag = false
					return
				}
				isCut := ret.Results[0] == ssa.Value(ct.t)
				if (kc.Value.String() == "true") != isCut {
					okFlag = false
				}
			})
			if okFlag && nRet > 0 {
				flagIdx = k
			}
		}
	}
	underFlag := func(b *ssa.BasicBlock) bool {
		if flagIdx < 0 {
			return false
		}
		for _, cd := range core.CondsAt(b) {
			v, truth := cd.V, cd.True
			for {
				u, isNot := v.(*ssa.UnOp)
				if !isNot || u.Op != token.NOT {
					break
				}
				v, truth = u.X, !truth
			}
			if ex, ok := core.ValueOrigin(v).(*ssa.Extract); ok && truth && ex.Tuple == ssa.Value(ct.sc.call) && ex.Index == flagIdx {
				return true
			}
		}
		return false
	}
	// the kept rows: the cut itself, or a load of a cell that only the store of the cut reaches
	isKept := func(v ssa.Value) bool {
		if v == ssa.Value(ct.t) || core.ValueOrigin(v) == ssa.Value(ct.t) {
			return true
		}
		// the helper's first result, where its flag says the rows were cut
		if ex, ok := core.ValueOrigin(v).(*ssa.Extract); ok && ct.sc.call != nil && ex.Tuple == ssa.Value(ct.sc.call) && ex.Index == 0 && flagIdx >= 0 {
			return true
		}
		ld, ok := v.(*ssa.UnOp)
		if !ok || ld.Op != token.MUL {
			return false
		}
		cell, ok := ld.X.(*ssa.Alloc)
		if !ok {
			return false
		}
		nReach, cutReaches := 0, false
		for _, st := range core.CellStores(cell) {
			if st.Parent() != ld.Parent() {
				continue
			}
			if core.StoreReachesLoad(st, cell, ld) {
				nReach++
				if st.Val == ssa.Value(ct.t) {
					cutReaches = true
				}
			}
		}
		return cutReaches && nReach == 1
	}
	// the token
	var encodes []*ssa.Call
	encOK := map[*ssa.Call]bool{}
	readsUncut := false
	encScopes := []scope{ct.sc}
	if ct.sc.call != nil {
		encScopes = append(encScopes, scope{fn: g})
	}
	for _, esc := range encScopes {
		esc := esc
		core.Instrs(esc.fn, func(b *ssa.BasicBlock, _ int, ins ssa.Instruction) {
			call, ok := ins.(*ssa.Call)
			if !ok || call.Common().StaticCallee() == nil || call.Common().StaticCallee().Name() != "encodeNextPageToken" {
				return
			}
			encodes = append(encodes, call)
			arg := call.Common().Args[len(call.Common().Args)-1]
			u, ok := arg.(*ssa.UnOp)
			if !ok {
				return
			}
			fa, ok := u.X.(*ssa.FieldAddr)
			if !ok || fieldVarOf(fa) == nil {
				return
			}
			res.tokenField = fieldVarOf(fa).Name()
			el, ok := fa.X.(*ssa.UnOp)
			if !ok {
				return
			}
			ia, ok := el.X.(*ssa.IndexAddr)
			if !ok {
				return
			}
			if !isKept(ia.X) {
				if isRows(ia.X, esc) {
					readsUncut = true
				}
				return
			}
			idxOK := false
			if sub, ok := ia.Index.(*ssa.BinOp); ok && sub.Op == token.SUB {
				if k, isK := core.IntConst(sub.Y); isK && k == 1 {
					if l := lenOf(sub.X); l != nil && isKept(l) {
						idxOK = true
					}
					if o2, ok := perPageOf(sub.X, esc); ok && o2 == obj && !ct.dropOne {
						idxOK = true
					}
				}
			}
			_, _, under := hasMoreAt(b, esc)
			if esc.fn == g && ct.sc.call != nil && underFlag(b) {
				under = true
			}
			if idxOK && under {
				encOK[call] = true
			}
		})
	}
	res.orderOK = !readsUncut
	if len(encodes) == 0 {
		res.bad = append(res.bad, "no next-page token is computed where the rows are cut")
	}
	for _, e := range encodes {
		if !encOK[e] && !readsUncut {
			res.bad = append(res.bad, "the next token at "+p.Pos(e.Pos())+" is not taken from the last kept row (kept[len(kept)-1]) on the has-more branch")
		}
	}
	// every token GetRelationTuples returns is "" or that token
	var tokenVals []ssa.Value
	tokIdx := -1
	for i := 0; i < g.Signature.Results().Len(); i++ {
		if isStringT2(g.Signature.Results().At(i).Type()) {
			tokIdx = i
		}
	}
	core.Instrs(g, func(b *ssa.BasicBlock, _ int, ins ssa.Instruction) {
		ret, ok := ins.(*ssa.Return)
		if !ok || b == g.Recover || tokIdx < 0 || tokIdx >= len(ret.Results) {
			return
		}
		v := ret.Results[tokIdx]
		if ld, ok := v.(*ssa.UnOp); ok && ld.Op == token.MUL {
			if cell, ok := ld.X.(*ssa.Alloc); ok {
				for _, st := range core.CellStores(cell) {
					tokenVals = append(tokenVals, st.Val)
				}
				return
			}
		}
		tokenVals = append(tokenVals, v)
	})
	nTok := 0
	seen := map[ssa.Value]bool{}
	var leaves func(v ssa.Value, depth int)
	leaves = func(v ssa.Value, depth int) {
		v = core.ValueOrigin(v)
		if v == nil || seen[v] || depth > 6 {
			return
		}
		seen[v] = true
		switch x := v.(type) {
		case *ssa.Const:
			if x.Value == nil || x.Value.ExactString() != `""` {
				res.bad = append(res.bad, "a constant other than \"\" is returned as the next-page token")
			}
		case *ssa.Phi:
			for _, e := range x.Edges {
				leaves(e, depth+1)
			}
		case *ssa.Call:
			if encOK[x] {
				nTok++
				return
			}
			res.bad = append(res.bad, "the next-page token comes from "+x.String()+" at "+p.Pos(x.Pos())+", which is not the token of the last kept row")
		case *ssa.Extract:
			call, ok := x.Tuple.(*ssa.Call)
			if !ok || call.Common().StaticCallee() == nil || call.Common().StaticCallee() != ct.sc.fn || ct.sc.call != call {
				res.bad = append(res.bad, "the next-page token comes from "+x.String()+", which is not the helper that cuts the rows")
				return
			}
			core.Instrs(ct.sc.fn, func(_ *ssa.BasicBlock, _ int, ins ssa.Instruction) {
				if ret, ok := ins.(*ssa.Return); ok && x.Index < len(ret.Results) {
					leaves(ret.Results[x.Index], depth+1)
				}
			})
		default:
			res.bad = append(res.bad, "the next-page token has an unrecognised origin "+v.String())
		}
	}
	for _, v := range tokenVals {
		leaves(v, 0)
	}
	if nTok == 0 && len(encodes) > 0 {
		res.bad = append(res.bad, "the token computed on the has-more branch is not what GetRelationTuples returns")
	}
	// the cut rows are what the function goes on with
	goesOn := false
	seenF := map[ssa.Value]bool{}
	var fwd func(v ssa.Value, depth int)
	fwd = func(v ssa.Value, depth int) {
		if v == nil || seenF[v] || depth > 8 || v.Referrers() == nil {
			return
		}
		seenF[v] = true
		for _, ref := range *v.Referrers() {
			switch x := ref.(type) {
			case *ssa.Store:
				if x.Val != v {
					continue
				}
				if x.Addr == ssa.Value(rowsCell) {
					goesOn = true
					continue
				}
				if cell, ok := x.Addr.(*ssa.Alloc); ok {
					for _, ld := range core.CellLoads(cell) {
						fwd(ld, depth+1)
					}
				}
			case *ssa.Phi:
				fwd(x, depth+1)
			case *ssa.Return:
				if ct.sc.call != nil && ct.sc.call.Referrers() != nil {
					for i, rv := range x.Results {
						if rv != v {
							continue
						}
						for _, r2 := range *ct.sc.call.Referrers() {
							if ex, ok := r2.(*ssa.Extract); ok && ex.Index == i {
								fwd(ex, depth+1)
							}
						}
					}
				}
			case *ssa.Call:
				if x.Parent() == g {
					goesOn = true // handed to the conversion
				}
			case *ssa.Range, *ssa.IndexAddr:
				if ref.Parent() == g {
					goesOn = true
				}
			}
		}
	}
	fwd(ct.t, 0)
	if !goesOn {
		res.bad = append(res.bad, "the rows cut on the has-more branch are not the rows the function goes on to return")
	}
	where := "in GetRelationTuples"
	if ct.sc.call != nil {
		where = "in " + core.FuncName(ct.sc.fn)
	}
	res.desc = fmt.Sprintf("has-more len(rows) > PerPage %s, the look-ahead row is dropped, token from %s of the last kept row", where, res.tokenField)
	return res
}

// nilUUIDWhenEmpty: on the paths of h on which its string parameter (the token) is empty, result idx
// is uuid.Nil at every return.
func nilUUIDWhenEmpty(h *ssa.Function, idx int) bool {
	if h == nil || h.Blocks == nil {
		return false
	}
	isTok := func(v ssa.Value) bool {
		par, ok := core.ValueOrigin(v).(*ssa.Parameter)
		return ok && isStringT2(par.Type())
	}
	nonEmpty := map[[2]*ssa.BasicBlock]bool{}
	for _, b := range h.Blocks {
		if len(b.Instrs) == 0 {
			continue
		}
		ifi, ok := b.Instrs[len(b.Instrs)-1].(*ssa.If)
		if !ok {
			continue
		}
		for k := 0; k < 2; k++ {
			op, x, y, ok := core.Cond{V: ifi.Cond, True: k == 0, At: b}.Holds()
			if ok && op == token.NEQ {
				if kc, isK := y.(*ssa.Const); isK && kc.Value != nil && kc.Value.ExactString() == `""` && isTok(x) {
					nonEmpty[[2]*ssa.BasicBlock{b, b.Succs[k]}] = true
				}
			}
		}
	}
	seen := map[*ssa.BasicBlock]bool{}
	okAll, n := true, 0
	var walk func(b *ssa.BasicBlock)
	walk = func(b *ssa.BasicBlock) {
		if seen[b] {
			return
		}
		seen[b] = true
		if len(b.Instrs) > 0 {
			if ret, ok := b.Instrs[len(b.Instrs)-1].(*ssa.Return); ok {
				n++
				isNil := false
				if idx < len(ret.Results) {
					if u, ok := ret.Results[idx].(*ssa.UnOp); ok {
						if g, ok := u.X.(*ssa.Global); ok && g.Name() == "Nil" {
							isNil = true
						}
					}
				}
				if !isNil {
					okAll = false
				}
			}
		}
		for _, sc := range b.Succs {
			if !nonEmpty[[2]*ssa.BasicBlock{b, sc}] {
				walk(sc)
			}
		}
	}
	walk(h.Blocks[0])
	return okAll && n > 0
}
