package rules

import (
	"fmt"
	"go/ast"
	"go/token"
	"go/types"
	"strings"

	"golang.org/x/tools/go/ssa"

	"ketosa/internal/core"
)

func init() {
	Register(&Property{
		ID: "C06",
		Explanation: "Decides that every statement that can touch relationships is scoped by the network id of the request: (R06.1) every pop query chain executed on keto_relation_tuples is rooted at queryWithNetwork(ctx), which is Where(\"nid = ?\", NetworkID(ctx)) on its own ctx; (R06.2) every raw statement on keto_relation_tuples has, as a top-level AND-conjunct of its WHERE tree (never under an OR), nid = ? bound to NetworkID(ctx) of the context in scope, and every sub-select on the table correlates nid with the outer row; statements are obtained by symbolically evaluating the builders (Sprintf/Join/Builder/per-case fragments) and parsed, not matched as text; (R06.3) the INSERT's nid column receives the nid parameter and the call site passes NetworkID(ctx); (R06.4) the UUIDv5 namespace of every name is NetworkID(ctx) and statements on keto_uuid_mappings are keyed by such ids only; (R06.5) no keto package other than persistence/sql (and its migrations / test database helpers) executes statements; (R06.8) every http.Handler returned by the router builders is the negroni middleware stack (possibly wrapped), never a wrapper around the bare router; (R06.7) the objects that serve the requests of every network (engines, handlers, mappers, persister, traverser) have no caching or coalescing field and no container field written after construction; (R06.6) NetworkID(ctx) asks the contextualizer on every call and keeps no state. " +
			"Not decided: the contextualizer implementations, the database, the one-shot UUID migration (copies every network's rows keeping nid; not reachable from an API entry point).",
		Assumptions: []string{
			"pop emits the Where fragments it is given, ANDed together",
			"the symbolic evaluation covers the builder idioms of this package; an idiom it cannot evaluate makes the statement undecided",
		},
		Run: runC06,
	})
}

// popChainRoot follows the receiver of a pop.Query method call back to the
// call that created the query.
func popChainRoot(v ssa.Value) (root *ssa.Call, wheres []*ssa.Call) {
	seen := map[ssa.Value]bool{}
	for i := 0; i < 32; i++ {
		v = core.ValueOrigin(v)
		if v == nil || seen[v] {
			return nil, wheres
		}
		seen[v] = true
		c, ok := v.(*ssa.Call)
		if !ok {
			return nil, wheres
		}
		obj := core.CalleeObj(c.Common())
		if obj == nil {
			return nil, wheres
		}
		if obj.Pkg() != nil && obj.Pkg().Path() == "github.com/gobuffalo/pop/v6" {
			sig := obj.Type().(*types.Signature)
			if sig.Recv() != nil && core.IsNamed(sig.Recv().Type(), "github.com/gobuffalo/pop/v6", "Query") {
				if obj.Name() == "Where" {
					wheres = append(wheres, c)
				}
				v = c.Common().Args[0]
				continue
			}
			// (*Connection).Where / RawQuery / Q: a root without network scope
			if obj.Name() == "Where" {
				wheres = append(wheres, c)
			}
			return c, wheres
		}
		// a helper of the repository that returns the query it builds (one return): the chain goes on in it
		if sc := c.Common().StaticCallee(); sc != nil && sc.Blocks != nil && obj.Name() != "queryWithNetwork" && core.FuncPkg(sc) != nil && core.IsKeto(core.FuncPkg(sc)) &&
			sc.Signature.Results().Len() == 1 && core.IsNamed(derefT(sc.Signature.Results().At(0).Type()), "github.com/gobuffalo/pop/v6", "Query") {
			var rets []*ssa.Return
			core.Instrs(sc, func(_ *ssa.BasicBlock, _ int, ins ssa.Instruction) {
				if ret, ok := ins.(*ssa.Return); ok {
					rets = append(rets, ret)
				}
			})
			if len(rets) == 1 && len(rets[0].Results) == 1 {
				v = rets[0].Results[0]
				continue
			}
		}
		return c, wheres
	}
	return nil, wheres
}

func derefT(t types.Type) types.Type {
	if pt, ok := t.Underlying().(*types.Pointer); ok {
		return pt.Elem()
	}
	return t
}

func modelTable(p *core.Program, v ssa.Value) string {
	t := core.Unwrap(v).Type()
	for {
		switch x := t.(type) {
		case *types.Pointer:
			t = x.Elem()
			continue
		case *types.Slice:
			t = x.Elem()
			continue
		}
		break
	}
	n := core.NamedOf(t)
	if n == nil {
		return ""
	}
	for _, tt := range []types.Type{n, types.NewPointer(n)} {
		if sel := types.NewMethodSet(tt).Lookup(n.Obj().Pkg(), "TableName"); sel != nil {
			if fn := p.SSA.MethodValue(sel); fn != nil && fn.Blocks != nil {
				for _, b := range fn.Blocks {
					for _, ins := range b.Instrs {
						if ret, ok := ins.(*ssa.Return); ok && len(ret.Results) == 1 {
							if k, ok := ret.Results[0].(*ssa.Const); ok && k.Value != nil {
								return strings.Trim(k.Value.ExactString(), `"`)
							}
						}
						// wrappers (value receiver called through pointer)
						if c, ok := ins.(*ssa.Call); ok {
							if sc := c.Common().StaticCallee(); sc != nil && sc.Name() == "TableName" && sc.Blocks != nil {
								for _, b2 := range sc.Blocks {
									for _, i2 := range b2.Instrs {
										if ret, ok := i2.(*ssa.Return); ok && len(ret.Results) == 1 {
											if k, ok := ret.Results[0].(*ssa.Const); ok && k.Value != nil {
												return strings.Trim(k.Value.ExactString(), `"`)
											}
										}
									}
								}
							}
						}
					}
				}
			}
		}
	}
	return ""
}

func isMigrationOrTestHelper(fn *ssa.Function) bool {
	pk := core.FuncPkg(fn)
	if pk == nil {
		return false
	}
	return strings.Contains(pk.Path(), "/migrations/") || strings.HasSuffix(pk.Path(), "/internal/x/dbx")
}

func runC06(c *Ctx) {
	p, r := c.P, c.R
	m := BuildSQLModel(p)
	for _, e := range m.Errs {
		r.Undecide("R06.1", "", "sql model: "+e, "", e)
	}
	if m.Pkg == nil {
		return
	}
	_ = m.Pkg.TypesInfo

	// queryWithNetwork itself
	qwn := p.Func("(*internal/persistence/sql.Persister).queryWithNetwork")
	if qwn == nil {
		r.Undecide("R06.1", "", "anchor queryWithNetwork", "", "(*Persister).queryWithNetwork not found")
	} else {
		ok, why := false, "no return of a Where(\"nid = ?\", NetworkID(ctx)) chain found"
		core.Instrs(qwn, func(_ *ssa.BasicBlock, _ int, ins ssa.Instruction) {
			ret, isRet := ins.(*ssa.Return)
			if !isRet || len(ret.Results) != 1 {
				return
			}
			call, isCall := ret.Results[0].(*ssa.Call)
			if !isCall {
				return
			}
			obj := core.CalleeObj(call.Common())
			if obj == nil || obj.Name() != "Where" {
				return
			}
			args := call.Common().Args // recv, frag, variadic slice
			frag, isK := args[1].(*ssa.Const)
			if !isK {
				why = "fragment is not a constant"
				return
			}
			e, nq, err := core.ParseSQLCondition(strings.Trim(frag.Value.ExactString(), `"`))
			if err != nil || nq != 1 || e.Op != "atom" || core.BaseColumn(e.Left) != "nid" || e.Cmp != "=" {
				why = "fragment is not exactly 'nid = ?'"
				return
			}
			// the variadic argument: []any{NetworkID(ctx)}
			bound := variadicElems(args[2])
			if len(bound) != 1 {
				why = "nid = ? is not bound to exactly one argument"
				return
			}
			nc, isCall2 := core.Unwrap(bound[0]).(*ssa.Call)
			if !isCall2 || !core.IsCallTo(nc, "NetworkID") {
				why = "nid = ? is not bound to NetworkID(ctx)"
				return
			}
			ctxArg := nc.Common().Args[len(nc.Common().Args)-1]
			if core.ValueOrigin(ctxArg) != ssa.Value(qwn.Params[1]) {
				why = "NetworkID is not evaluated on the function's own ctx"
				return
			}
			ok = true
		})
		r.Check(ok, "R06.1", core.FuncName(qwn), "Where(\"nid = ?\", NetworkID(ctx))", p.Pos(qwn.Pos()),
			"queryWithNetwork scopes the query to the network of its ctx", "queryWithNetwork does not scope to the request's network: "+why)
	}

	// R06.1 / R06.4 / R06.5: every statement site
	for _, s := range p.StmtSites() {
		fn := s.Fn
		name := core.FuncName(fn)
		pk := core.FuncPkg(fn)
		if isMigrationOrTestHelper(fn) {
			continue
		}
		if pk == nil || pk.Path() != sqlPkgPath {
			r.Violate("R06.5", name, "statement "+s.Callee.Name(), p.Pos(s.Call.Pos()), "a package other than persistence/sql executes a database statement: it bypasses the network scoping of the persister")
			continue
		}
		args := s.Call.Common().Args
		recv := args[0]
		root, wheres := popChainRoot(recv)
		if root == nil {
			r.Undecide("R06.1", name, "statement "+s.Callee.Name(), p.Pos(s.Call.Pos()), "cannot find the root of the query chain")
			continue
		}
		robj := core.CalleeObj(root.Common())
		if robj != nil && robj.Name() == "RawQuery" {
			continue // raw statements: R06.2
		}
		table := ""
		if len(args) > 1 {
			table = modelTable(p, args[len(args)-1])
		}
		construct := fmt.Sprintf("%s on %s", s.Callee.Name(), table)
		switch table {
		case tupleTable:
			okRoot := robj != nil && robj.Name() == "queryWithNetwork"
			r.Check(okRoot, "R06.1", name, construct, p.Pos(s.Call.Pos()),
				"the query chain is rooted at queryWithNetwork(ctx)",
				"a statement on the relationship table is not rooted at queryWithNetwork: it reads or deletes rows of every network")
		case mappingTable:
			// keyed by ids only
			okKey := len(wheres) > 0
			for _, w := range wheres {
				frag, isK := w.Common().Args[1].(*ssa.Const)
				if !isK {
					okKey = false
					continue
				}
				e, _, err := core.ParseSQLCondition(strings.Trim(frag.Value.ExactString(), `"`))
				if err != nil {
					okKey = false
					continue
				}
				for _, a := range e.Atoms() {
					if core.BaseColumn(a.Left) != "id" {
						okKey = false
					}
				}
			}
			r.Check(okKey, "R06.4", name, construct, p.Pos(s.Call.Pos()),
				"the mapping table is read by network-derived ids only (id in (?))",
				"the mapping table (which has no network column) is queried by something other than network-derived ids: names of other networks become visible")
		default:
			r.Undecide("R06.1", name, construct, p.Pos(s.Call.Pos()), "statement on an unrecognised model/table")
		}
	}
	r.Floor("R06.1", 5, "queryWithNetwork + GetRelationTuples, Exists, DeleteAll, rewrite traversal")

	rawNetworkScope(c, m, "R06.2", "R06.3")
	r.Floor("R06.2", 2, "DELETE builder, traversal SELECT")
	r.Floor("R06.3", 1, "INSERT builder")

	// R06.4 UUIDv5 namespace
	nV5 := 0
	for _, fn := range p.KetoFuncs(sqlPkgRel) {
		core.Instrs(fn, func(_ *ssa.BasicBlock, _ int, ins ssa.Instruction) {
			call, ok := ins.(*ssa.Call)
			if !ok || !core.IsCallTo(call, "NewV5") {
				return
			}
			nV5++
			nsArg := core.Unwrap(call.Common().Args[0])
			nc, isCall := core.ValueOrigin(nsArg).(*ssa.Call)
			ok2 := isCall && core.IsCallTo(nc, "NetworkID")
			r.Check(ok2, "R06.4", core.FuncName(fn), "uuid.NewV5(namespace, name)", p.Pos(call.Pos()),
				"names are hashed in the namespace NetworkID(ctx)",
				"the UUIDv5 namespace of a name is not NetworkID(ctx): equal names of different networks map to the same id")
		})
	}
	if nV5 == 0 {
		r.Undecide("R06.4", "", "uuid.NewV5", "", "no UUIDv5 derivation found in persistence/sql")
	}

	// R06.6 NetworkID is stateless
	if nf := p.Func("(*internal/persistence/sql.Persister).NetworkID"); nf != nil {
		stores, direct := 0, false
		core.Instrs(nf, func(_ *ssa.BasicBlock, _ int, ins ssa.Instruction) {
			switch x := ins.(type) {
			case *ssa.Store:
				stores++
			case *ssa.Return:
				if len(x.Results) == 1 {
					if call, ok := x.Results[0].(*ssa.Call); ok && core.IsCallTo(call, "Network") {
						for _, a := range call.Common().Args {
							if core.ValueOrigin(a) == ssa.Value(nf.Params[1]) {
								direct = true
							}
						}
					}
				}
			case ssa.CallInstruction:
				if obj := core.CalleeObj(x.Common()); obj != nil && obj.Pkg() != nil && (obj.Pkg().Path() == "sync/atomic" || obj.Pkg().Path() == "sync") {
					stores++
				}
			}
		})
		r.Check(direct && stores == 0 && len(nf.Blocks) == 1, "R06.6", core.FuncName(nf), "NetworkID(ctx)", p.Pos(nf.Pos()),
			"NetworkID returns Contextualizer().Network(ctx, nid) of its own ctx on every call and keeps no state",
			"NetworkID does not ask the contextualizer with the request's ctx on every call (cached or stateful): the first request's network is used for later requests of other networks")
	} else {
		r.Undecide("R06.6", "", "anchor NetworkID", "", "(*Persister).NetworkID not found")
	}
	if r.Count("R06.5") == 0 {
		r.Discharge("R06.5", "", "who may execute statements", "", "every statement-executing call outside the migrations and test database helpers is in persistence/sql")
	}
	singletonState(c, "R06.7")
	middlewareChainKept(c, "R06.8")
}

func exprStr(e ast.Expr) string {
	if e == nil {
		return "<missing>"
	}
	return types.ExprString(e)
}

func sampleSQL(rs *RawStmt) []string {
	var out []string
	for i, s := range rs.Samples {
		if i >= 3 {
			break
		}
		out = append(out, strings.Join(strings.Fields(s.SQL), " ")+"  <- "+s.Desc)
	}
	return out
}

// nidSourceOf: the argument bound to a nid placeholder must be the builder's
// nid parameter (returns its name), a field initialised from it, or at a call
// site NetworkID(ctx) itself (returns "<call-site>").
func nidSourceOf(m *SQLModel, rs *RawStmt, arg ast.Expr) (string, string) {
	info := m.Pkg.TypesInfo
	arg = ast.Unparen(arg)
	if _, ok := isNetworkIDCall(info, arg); ok {
		if c, ok := arg.(*ast.CallExpr); ok {
			if sel, ok := c.Fun.(*ast.SelectorExpr); ok && sel.Sel.Name == "NetworkID" {
				return "<call-site>", ""
			}
		}
	}
	switch x := arg.(type) {
	case *ast.Ident:
		if v, ok := info.Uses[x].(*types.Var); ok && isParamOf(m, rs.Builder, v) {
			return x.Name, ""
		}
		return "", "not the builder's network-id parameter"
	case *ast.SelectorExpr:
		// rt.NetworkID where rt := &RelationTuple{NetworkID: nid}
		if x.Sel.Name != "NetworkID" {
			return "", "field " + x.Sel.Name + " is not the network id"
		}
		id, ok := x.X.(*ast.Ident)
		if !ok {
			return "", "unrecognised receiver"
		}
		obj := info.Uses[id]
		fd := core.FuncDecl(m.Pkg, rs.Builder)
		if fd == nil {
			return "", "builder not found"
		}
		res, why := "", "the row's NetworkID field is not initialised from the builder's network-id parameter"
		ast.Inspect(fd.Body, func(n ast.Node) bool {
			as, ok := n.(*ast.AssignStmt)
			if !ok || len(as.Lhs) != 1 || len(as.Rhs) != 1 {
				return true
			}
			li, ok := as.Lhs[0].(*ast.Ident)
			if !ok || (info.Defs[li] != obj && info.Uses[li] != obj) {
				return true
			}
			var cl *ast.CompositeLit
			switch v := as.Rhs[0].(type) {
			case *ast.UnaryExpr:
				cl, _ = v.X.(*ast.CompositeLit)
			case *ast.CompositeLit:
				cl = v
			}
			if cl == nil {
				return true
			}
			for _, el := range cl.Elts {
				if kv, ok := el.(*ast.KeyValueExpr); ok {
					if k, ok := kv.Key.(*ast.Ident); ok && k.Name == "NetworkID" {
						if vi, ok := kv.Value.(*ast.Ident); ok {
							if v, ok := info.Uses[vi].(*types.Var); ok && isParamOf(m, rs.Builder, v) {
								res = vi.Name
							}
						}
					}
				}
			}
			return true
		})
		// no later assignment to rt.NetworkID
		ast.Inspect(fd.Body, func(n ast.Node) bool {
			as, ok := n.(*ast.AssignStmt)
			if !ok {
				return true
			}
			for _, l := range as.Lhs {
				if sel, ok := l.(*ast.SelectorExpr); ok && sel.Sel.Name == "NetworkID" {
					res, why = "", "the row's NetworkID field is reassigned"
				}
			}
			return true
		})
		return res, why
	}
	return "", "unrecognised expression"
}

func isParamOf(m *SQLModel, builder string, v *types.Var) bool {
	fd := core.FuncDecl(m.Pkg, builder)
	if fd == nil {
		return false
	}
	for _, fl := range fd.Type.Params.List {
		for _, nm := range fl.Names {
			if m.Pkg.TypesInfo.Defs[nm] == v {
				return true
			}
		}
	}
	return false
}

// variadicElems returns the elements stored into the backing array of a
// variadic argument slice.
func variadicElems(v ssa.Value) []ssa.Value {
	sl, ok := v.(*ssa.Slice)
	if !ok {
		return nil
	}
	al, ok := sl.X.(*ssa.Alloc)
	if !ok || al.Referrers() == nil {
		return nil
	}
	var out []ssa.Value
	for _, ref := range *al.Referrers() {
		ia, ok := ref.(*ssa.IndexAddr)
		if !ok || ia.Referrers() == nil {
			continue
		}
		for _, r2 := range *ia.Referrers() {
			if st, ok := r2.(*ssa.Store); ok && st.Addr == ia {
				out = append(out, st.Val)
			}
		}
	}
	return out
}

var _ = token.NoPos

// rawNetworkScope checks every raw statement on the relationship table for the
// network-id conjunct and its binding (shared by C06 and C04).
func rawNetworkScope(c *Ctx, m *SQLModel, ruleWhere, ruleInsert string) {
	p, r := c.P, c.R
	info := m.Pkg.TypesInfo
	// R06.2 / R06.3 raw statements
	for _, rs := range m.Raw {
		fd := core.FuncDecl(m.Pkg, strings.Trim(strings.Replace(strings.Replace(rs.Fn, "(*", "", 1), ")", "", 1), "()"))
		fname := sqlPkgRel + "." + rs.Fn
		construct := "raw statement"
		if rs.Builder != "" {
			construct = "raw statement built by " + rs.Builder
		}
		if len(rs.Errs) > 0 || len(rs.Samples) == 0 {
			r.Undecide(ruleWhere, fname, construct, p.Pos(rs.Site), "cannot evaluate/parse the statement: "+strings.Join(rs.Errs, "; "))
			continue
		}
		var bad []string
		table := ""
		kind := ""
		nidParam := map[string]bool{} // builder parameters bound to nid
		for i, st := range rs.Parsed {
			if st == nil {
				continue
			}
			smp := rs.Samples[i]
			table, kind = st.Table, st.Kind
			if st.Table != tupleTable {
				continue
			}
			switch st.Kind {
			case "INSERT":
				idx := -1
				for ci, col := range st.Columns {
					if col == "nid" {
						idx = ci
					}
				}
				if idx < 0 {
					bad = append(bad, "INSERT has no nid column ["+smp.Desc+"]")
					continue
				}
				for ri, row := range st.Rows {
					if idx >= len(row) || row[idx].Kind != "?" {
						bad = append(bad, "nid is not a bound placeholder")
						continue
					}
					arg := smp.Args[row[idx].QIdx]
					par, why := nidSourceOf(m, rs, arg)
					if par == "" {
						bad = append(bad, fmt.Sprintf("row %d: nid column receives %s: %s", ri, types.ExprString(arg), why))
					} else {
						nidParam[par] = true
					}
				}
			case "DELETE", "SELECT":
				alias := st.Alias
				found := false
				for _, cj := range st.Where.Conjuncts() {
					if cj.Op == "atom" && core.BaseColumn(cj.Left) == "nid" && cj.Cmp == "=" && cj.Right == "?" && (alias == "" || strings.HasPrefix(cj.Left, alias+".") || !strings.Contains(cj.Left, ".")) {
						arg := smp.Args[cj.QIdx]
						par, why := nidSourceOf(m, rs, arg)
						if par == "" {
							bad = append(bad, fmt.Sprintf("nid = ? is bound to %s: %s [%s]", types.ExprString(arg), why, smp.Desc))
						} else {
							nidParam[par] = true
							found = true
						}
					}
				}
				if !found {
					bad = append(bad, "no top-level AND-conjunct 'nid = ?' in the WHERE clause (a nid test under OR does not scope the statement) ["+smp.Desc+"]")
				}
				for _, sub := range st.Subs {
					if sub.Table != tupleTable {
						continue
					}
					okSub := false
					for _, cj := range sub.Where.Conjuncts() {
						if cj.Op == "atom" && core.BaseColumn(cj.Left) == "nid" && cj.Cmp == "=" {
							if alias != "" && cj.Right == alias+".nid" {
								okSub = true
							}
						}
					}
					if !okSub {
						bad = append(bad, "a sub-select on the relationship table does not correlate nid with the outer row: it sees rows of every network ["+smp.Desc+"]")
					}
				}
			}
		}
		if table != tupleTable {
			// mapping table statements: R06.4 keyed by ids (INSERT of derived ids)
			if table == mappingTable && kind == "INSERT" {
				r.Discharge(ruleInsert, fname, construct, p.Pos(rs.Site), "INSERT into the mapping table; the ids are UUIDv5 of the network (see the UUIDv5 namespace obligation)")
			} else if table == mappingTable {
				keyed := false
				for _, st := range rs.Parsed {
					if st == nil || st.Where == nil {
						continue
					}
					for _, cj := range st.Where.Conjuncts() {
						if cj.Op == "atom" && core.BaseColumn(cj.Left) == "id" && (cj.Cmp == "=" || cj.Cmp == "IN") && cj.Right == "?" {
							keyed = true
						}
					}
				}
				if keyed {
					r.Undecide("R06.4", fname, construct, p.Pos(rs.Site), kind+" on the UUID mapping table keyed by ids: cannot show that the ids are derived from the request's network")
				} else {
					r.Violate("R06.4", fname, construct, p.Pos(rs.Site), kind+" on the UUID mapping table that is not keyed by ids: the table has no nid column and holds the rows of every network, so a predicate over 'this network's tuples' also matches (and here removes) every other network's rows", sampleSQL(rs)...)
				}
			} else {
				r.Undecide(ruleWhere, fname, construct, p.Pos(rs.Site), "raw statement on an unrecognised table "+table)
			}
			continue
		}
		// builder parameters must be NetworkID(ctx) of the ctx in scope at each call site
		for par := range nidParam {
			if par == "<call-site>" {
				continue
			}
			for _, bc := range rs.BuilderCalls {
				arg, argPos := resolveSingleDef(info, bc.Decl, bc.Args[par], bc.Pos)
				ctxObj, isNID := isNetworkIDCall(info, arg)
				inScope := innermostCtx(info, bc.Decl, argPos)
				if !isNID {
					bad = append(bad, fmt.Sprintf("%s passes %s as the network id of %s (not NetworkID(ctx) of the request)", bc.Fn, exprStr(arg), rs.Builder))
				} else if ctxObj != nil && inScope != nil && ctxObj != inScope {
					bad = append(bad, fmt.Sprintf("%s evaluates NetworkID on a context other than the one in scope", bc.Fn))
				}
			}
		}
		rule := ruleWhere
		if kind == "INSERT" {
			rule = ruleInsert
		}
		_ = fd
		if len(bad) > 0 {
			r.Violate(rule, fname, construct, p.Pos(rs.Site), strings.Join(dedupe(bad), "; "), sampleSQL(rs)...)
		} else {
			r.Discharge(rule, fname, construct, p.Pos(rs.Site), fmt.Sprintf("%s on %s: network scoped in all %d instantiations; bound to NetworkID(ctx) at %d call site(s)", kind, table, len(rs.Samples), len(rs.BuilderCalls)), sampleSQL(rs)...)
		}
	}
}

// ---- R06.7 request-serving singletons keep no cross-request state ---------------------------------

// singletonState: the objects that serve every request of every network (the
// engines, the mappers, the handlers, the persister and the traverser) have no
// field that is a coalescing or caching container (sync.Map, singleflight,
// cache libraries) and no map/slice/channel field that is written outside a
// constructor. Anything such a field holds is shared by all networks and all
// concurrent requests and is not keyed by the network id.
func singletonState(c *Ctx, rule string) {
	p, r := c.P, c.R
	singletons := [][2]string{
		{"internal/check", "Engine"}, {"internal/expand", "Engine"},
		{"internal/check", "Handler"}, {"internal/expand", "handler"}, {"internal/relationtuple", "handler"},
		{"internal/relationtuple", "Mapper"}, {"internal/persistence/sql", "Persister"}, {"internal/persistence/sql", "Traverser"},
	}
	statefulPkg := func(path string) bool {
		for _, k := range []string{"singleflight", "cache", "lru", "ristretto", "groupcache", "memoize"} {
			if strings.Contains(strings.ToLower(path), k) {
				return true
			}
		}
		return false
	}
	n := 0
	for _, sg := range singletons {
		t := p.LookupType(core.KetoMod+"/"+sg[0], sg[1])
		if t == nil {
			continue
		}
		st, ok := t.Underlying().(*types.Struct)
		if !ok {
			continue
		}
		n++
		tname := sg[0] + "." + sg[1]
		var bad []string
		var mutableFields []*types.Var
		for i := 0; i < st.NumFields(); i++ {
			f := st.Field(i)
			ft := f.Type()
			if pt, ok := ft.Underlying().(*types.Pointer); ok {
				ft = pt.Elem()
			}
			if nn, ok := ft.(*types.Named); ok && nn.Obj().Pkg() != nil {
				pth := nn.Obj().Pkg().Path()
				if (pth == "sync" && (nn.Obj().Name() == "Map" || nn.Obj().Name() == "Pool")) || statefulPkg(pth) {
					bad = append(bad, fmt.Sprintf("field %s is a %s.%s: whatever it holds is shared by every network and every concurrent request", f.Name(), pth, nn.Obj().Name()))
					continue
				}
			}
			switch ft.Underlying().(type) {
			case *types.Map, *types.Chan, *types.Slice:
				mutableFields = append(mutableFields, f)
			}
		}
		// map/slice/chan fields: no write outside constructors
		if len(mutableFields) > 0 {
			for _, fn := range p.KetoFuncs(sg[0]) {
				top := core.Outermost(fn)
				if strings.HasPrefix(top.Name(), "New") || top.Name() == "init" {
					continue
				}
				core.Instrs(fn, func(_ *ssa.BasicBlock, _ int, ins ssa.Instruction) {
					var addr ssa.Value
					switch x := ins.(type) {
					case *ssa.Store:
						addr = x.Addr
					case *ssa.MapUpdate:
						addr = x.Map
					case *ssa.Send:
						addr = x.Chan
					default:
						return
					}
					for i := 0; i < 6 && addr != nil; i++ {
						switch x := addr.(type) {
						case *ssa.FieldAddr:
							if fv := fieldVarOf(x); fv != nil {
								for _, mf := range mutableFields {
									if fv == mf {
										bad = append(bad, fmt.Sprintf("field %s is written at %s outside a constructor", mf.Name(), p.Pos(ins.Pos())))
									}
								}
							}
							addr = x.X
						case *ssa.UnOp:
							addr = x.X
						case *ssa.IndexAddr:
							addr = x.X
						default:
							addr = nil
						}
					}
				})
			}
		}
		r.Check(len(bad) == 0, rule, tname, "cross-request state", "",
			"no caching/coalescing field and no container field written after construction", strings.Join(dedupe(bad), "; "))
	}
	if n < 6 {
		r.Undecide(rule, "", "request-serving singletons", "", fmt.Sprintf("%d of the engine/handler/mapper/persister types found (floor 6)", n))
	}
	// package-level variables of the packages that serve requests: no pools, caches or maps
	// (a package variable is one more singleton)
	var badVars []string
	nVars := 0
	for _, rel := range []string{"internal/check", "internal/check/checkgroup", "internal/expand", "internal/x/graph", "internal/relationtuple", "internal/persistence/sql", "internal/schema", "ketoapi"} {
		pk := p.SSAPkg[core.KetoMod+"/"+rel]
		if pk == nil {
			continue
		}
		for _, mem := range pk.Members {
			g, ok := mem.(*ssa.Global)
			if !ok {
				continue
			}
			nVars++
			t := g.Type().(*types.Pointer).Elem()
			if nn, ok := t.(*types.Named); ok && nn.Obj().Pkg() != nil {
				pth := nn.Obj().Pkg().Path()
				if (pth == "sync" && (nn.Obj().Name() == "Map" || nn.Obj().Name() == "Pool")) || statefulPkg(pth) {
					badVars = append(badVars, fmt.Sprintf("%s.%s is a %s.%s", rel, g.Name(), pth, nn.Obj().Name()))
				}
			}
		}
	}
	r.Check(len(badVars) == 0, rule, "request-serving packages", "package-level state", "",
		fmt.Sprintf("none of the %d package variables of the request-serving packages is a pool, cache or sync.Map", nVars),
		strings.Join(badVars, "; ")+": objects taken from it are shared between requests (a straggling goroutine of one request still uses what the next request was handed)")
}

// ---- R06.8 the middleware chain is not bypassed --------------------------------------------------------

// middlewareChainKept: the HTTP routers are served through a negroni stack; the
// middlewares of that stack are where an embedding application puts the
// request's tenant into the context. Every handler returned by a function that
// builds such a stack is that stack, possibly wrapped: a wrapper (CORS) built
// around the bare router serves requests that never pass the tenant
// middleware, so they run in the default network.
func middlewareChainKept(c *Ctx, rule string) {
	p, r := c.P, c.R
	n := 0
	for _, fn := range p.KetoFuncs("internal/driver") {
		if fn.Parent() != nil {
			continue
		}
		res := fn.Signature.Results()
		if res.Len() != 1 || !core.IsNamed(res.At(0).Type(), "net/http", "Handler") {
			continue
		}
		var stack ssa.Value
		core.Instrs(fn, func(_ *ssa.BasicBlock, _ int, ins ssa.Instruction) {
			if call, ok := ins.(*ssa.Call); ok {
				if obj := core.CalleeObj(&call.Call); obj != nil && obj.Name() == "New" && obj.Pkg() != nil && strings.HasSuffix(obj.Pkg().Path(), "negroni") {
					stack = call
				}
			}
		})
		if stack == nil {
			continue
		}
		n++
		var derives func(v ssa.Value, d int) bool
		derives = func(v ssa.Value, d int) bool {
			if v == nil || d > 8 {
				return false
			}
			if v == stack {
				return true
			}
			switch x := v.(type) {
			case *ssa.MakeInterface:
				return derives(x.X, d+1)
			case *ssa.ChangeInterface:
				return derives(x.X, d+1)
			case *ssa.Phi:
				for _, e := range x.Edges {
					if !derives(e, d+1) {
						return false
					}
				}
				return len(x.Edges) > 0
			case *ssa.Call:
				for _, a := range x.Call.Args {
					if derives(a, d+1) {
						return true
					}
				}
			case *ssa.UnOp:
				if al, ok := x.X.(*ssa.Alloc); ok {
					ok2 := false
					for _, st := range core.CellStores(al) {
						if !derives(st.Val, d+1) {
							return false
						}
						ok2 = true
					}
					return ok2
				}
			}
			return false
		}
		okAll := true
		for _, b := range fn.Blocks {
			if ret, ok := b.Instrs[len(b.Instrs)-1].(*ssa.Return); ok && len(ret.Results) == 1 {
				if !derives(ret.Results[0], 0) {
					okAll = false
				}
			}
		}
		r.Check(okAll, rule, core.FuncName(fn), "returned handler is the middleware stack", p.Pos(fn.Pos()),
			"every handler the function returns is the negroni stack, possibly wrapped",
			"a handler returned by this function is not derived from the negroni stack it built (a wrapper around the bare router): requests served through it skip the middlewares, among them the one that selects the request's network")
	}
	if n < 2 {
		r.Undecide(rule, "", "router builders", "", fmt.Sprintf("%d functions that build a negroni stack and return an http.Handler found (floor 2)", n))
	}
}
