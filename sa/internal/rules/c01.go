package rules

import (
	"fmt"
	"go/ast"
	"go/token"
	"go/types"
	"sort"
	"strings"

	"golang.org/x/tools/go/ssa"

	"ketosa/internal/core"
)

func init() {
	Register(&Property{
		ID: "C01",
		Explanation: "Decides structural necessary conditions of 'Check = reference semantics': (R01.12) the engines, mappers, handlers and storage objects hold no caching/coalescing state and the request-serving packages no pool or cache variable, so an answer depends on the current configuration and store only; (R01.11) evaluating a check never writes into or reorders the shared namespace configuration; (R01.10) the tuple listings the engine evaluates over are complete: sort column = cursor column = token column with a strict '>' in GetRelationTuples and in the traversal's internal paging, and the engine's page loops run to the empty token; (R01.9) a loop that adds one sub-check per fetched tuple adds one for every tuple, the only skips being 'already visited' and 'not a subject set'; (R01.8) an object handed to a sub-check that keeps running concurrently is not written afterwards by the code that handed it over (otherwise the answer depends on the schedule); (R01.7) a visited set is installed only below a single check, never by code that fans out several checks with one context; (R01.1) every AST node kind and operator the OPL parser can construct has a case in every dispatch of the check engine; (R01.2) the boolean combinators (or, and, not, the concurrent check group, the pass-through stages) have the right truth tables -- decided by abstractly executing each over the six abstract results; (R01.3) the visited set used to cut cycles is never shared between the operands of an intersection or with the child of a negation, on both routes a context reaches an operand (when it is built, when it is invoked), and is fresh per operand; (R01.5) which of the three sub-checks (rewrite, direct lookup, subject-set expansion) join the union equals the documented table for all valuations of (strict mode, relation configured, has rewrite, declares SubjectSet<>, skipDirect); (R01.6) every call that skips the direct lookup takes its tuple from a traversal result whose Found flag was tested first; (R01.4) the traversal SQL binds the columns the semantics names (decided with the SQL rules, reported under C04/C06 when those are built). " +
			"Not decided: equality with the reference semantics over all configurations and stores, schedule independence in general, SQL engine semantics.",
		Assumptions: []string{
			"the documented mode table (embedx/config.schema.json, experimental_strict_mode) is the specification of default/strict mode",
			"skipping an already visited subject set is sound within a union",
		},
		Run: runC01,
	})
}

func runC01(c *Ctx) {
	r011(c, "R01.1")
	r012(c)
	r013(c)
	r015(c)
	r016(c)
	r014(c)
	// R01.7 one visited set per check: a set shared by several checks makes one
	// skip what another visited (a skipped sub-check is answered "not a member")
	visitedInstallScope(c, "R01.7")
	// R01.8 schedule independence: what a still running sub-check holds is not rewritten
	handedObjectsNotRewritten(c, "R01.8")
	r019(c)
	// R01.11 the configuration the semantics is defined over is not changed by evaluating a check
	configReadOnly(c, "R01.11")
	// R01.12 the answer depends on the current configuration and store only: no cache in the engines
	singletonState(c, "R01.12")
	// R01.10 the listings the engine evaluates over are complete: keyset paging of
	// GetRelationTuples and of the traversal, and the engine's page loops (the C07 rules)
	c.R.SubRun(func() { runC07(c) }, map[string]string{"R07.1": "R01.10", "R07.2": "R01.10", "R07.5": "R01.10"})
}

// ---- R01.4 the traversal SQL binds the columns the semantics names ------------------------------

func r014(c *Ctx) {
	p, r := c.P, c.R
	m := BuildSQLModel(p)
	if m.Pkg == nil {
		r.Undecide("R01.4", "", "sql model", "", strings.Join(m.Errs, "; "))
		return
	}
	n := 0
	for _, rs := range m.Raw {
		fname := sqlPkgRel + "." + rs.Fn
		if len(rs.Errs) > 0 {
			if strings.Contains(rs.Fn, "Traverse") {
				r.Undecide("R01.4", fname, "traversal statement", p.Pos(rs.Site), strings.Join(rs.Errs, "; "))
			}
			continue
		}
		for i, st := range rs.Parsed {
			if st != nil && st.Kind == "SELECT" && st.Table == tupleTable {
				n++
				checkTraversalSelect(c, m, fname, rs, st, rs.Samples[i], "R01.4")
			}
		}
	}
	if n < 2 {
		r.Undecide("R01.4", "", "traversal SELECT", "", fmt.Sprintf("%d instantiations of the subject-set expansion statement found (floor 2: subject id, subject set)", n))
	}
	// the rewrite traversal: queryWithNetwork + whereQuery(namespace, object, subject) + relation IN (?)
	okIn := false
	for _, wf := range m.Wheres {
		if wf.Fn.Name.Name == "TraverseSubjectSetRewrite" && wf.Expr != nil {
			for _, a := range wf.Expr.Atoms() {
				if core.BaseColumn(a.Left) == "relation" && a.Cmp == "IN" {
					okIn = true
				}
			}
		}
	}
	r.Check(okIn, "R01.4", sqlPkgRel+".(*Traverser).TraverseSubjectSetRewrite", "relation IN (?)", "",
		"the computed-subject-set shortcut restricts the relation column to the rewrite's relations", "the computed-subject-set shortcut no longer restricts the relation column")
}

// ---- R01.1 exhaustiveness ---------------------------------------------------------------

func r011(c *Ctx, rule string) {
	p, r := c.P, c.R
	astP := p.ByPath[astPkg]
	schemaP := p.Pkg("internal/schema")
	checkP := p.Pkg("internal/check")
	if astP == nil || schemaP == nil || checkP == nil {
		r.Undecide(rule, "", "anchor packages", "", "namespace/ast, schema or check package not loaded")
		return
	}
	childT := p.LookupType(astPkg, "Child")
	if childT == nil {
		r.Undecide(rule, "", "anchor ast.Child", "", "interface ast.Child not found")
		return
	}
	childI := childT.Underlying().(*types.Interface)
	// node kinds the parser constructs
	constructed := map[string]token.Pos{}
	for _, f := range schemaP.Syntax {
		if p.IsTestFile(f.Pos()) {
			continue
		}
		ast.Inspect(f, func(n ast.Node) bool {
			cl, ok := n.(*ast.CompositeLit)
			if !ok {
				return true
			}
			t := schemaP.TypesInfo.TypeOf(cl)
			if t == nil {
				return true
			}
			nt := core.NamedOf(t)
			if nt == nil || nt.Obj().Pkg() == nil || nt.Obj().Pkg().Path() != astPkg {
				return true
			}
			if types.Implements(types.NewPointer(nt), childI) || types.Implements(nt, childI) {
				if _, ok := constructed[nt.Obj().Name()]; !ok {
					constructed[nt.Obj().Name()] = cl.Pos()
				}
			}
			return true
		})
	}
	r.Note("ast_nodes_constructed_by_parser", core.SortedKeys(constructed))
	if len(constructed) < 4 {
		r.Undecide(rule, "", "parser-constructed node kinds", "", fmt.Sprintf("only %d ast.Child implementers are constructed in package schema (floor 4)", len(constructed)))
	}
	// operators the parser uses
	opsUsed := map[string]bool{}
	for id, obj := range schemaP.TypesInfo.Uses {
		if cst, ok := obj.(*types.Const); ok && core.IsNamed(cst.Type(), astPkg, "Operator") && !p.IsTestFile(id.Pos()) {
			opsUsed[cst.Name()] = true
		}
	}
	r.Note("operators_used_by_parser", core.SortedKeys(opsUsed))
	nSw := 0
	for _, f := range checkP.Syntax {
		if p.IsTestFile(f.Pos()) {
			continue
		}
		ast.Inspect(f, func(n ast.Node) bool {
			switch sw := n.(type) {
			case *ast.TypeSwitchStmt:
				var x ast.Expr
				switch a := sw.Assign.(type) {
				case *ast.AssignStmt:
					x = a.Rhs[0].(*ast.TypeAssertExpr).X
				case *ast.ExprStmt:
					x = a.X.(*ast.TypeAssertExpr).X
				}
				if x == nil || !types.Identical(checkP.TypesInfo.TypeOf(x), childT) {
					return true
				}
				have := map[string]bool{}
				hasDefault := false
				for _, cc := range sw.Body.List {
					if cc.(*ast.CaseClause).List == nil {
						hasDefault = true
					}
					for _, e := range cc.(*ast.CaseClause).List {
						if nt := core.NamedOf(checkP.TypesInfo.TypeOf(e)); nt != nil {
							have[nt.Obj().Name()] = true
						}
					}
				}
				if !hasDefault {
					// a filter (picks some node kinds out of a list, the rest is
					// handled elsewhere), not a dispatch with a fallback arm
					return true
				}
				nSw++
				var missing []string
				for k := range constructed {
					if !have[k] {
						missing = append(missing, k)
					}
				}
				sort.Strings(missing)
				fd := core.EnclosingFuncDecl(checkP, sw.Pos())
				fn := "?"
				if fd != nil {
					fn = "internal/check." + core.DeclName(fd)
				}
				r.Check(len(missing) == 0, rule, fn, "type switch over ast.Child", p.Pos(sw.Pos()),
					fmt.Sprintf("cases cover all %d node kinds the parser constructs", len(constructed)),
					"no case for "+strings.Join(missing, ", ")+": a configuration the parser accepts reaches the 'not implemented' arm at check time")
			case *ast.SwitchStmt:
				if sw.Tag == nil || !core.IsNamed(checkP.TypesInfo.TypeOf(sw.Tag), astPkg, "Operator") {
					return true
				}
				nSw++
				have := map[string]bool{}
				for _, cc := range sw.Body.List {
					for _, e := range cc.(*ast.CaseClause).List {
						var id *ast.Ident
						switch v := e.(type) {
						case *ast.SelectorExpr:
							id = v.Sel
						case *ast.Ident:
							id = v
						}
						if id != nil {
							if cst, ok := checkP.TypesInfo.Uses[id].(*types.Const); ok {
								have[cst.Name()] = true
							}
						}
					}
				}
				var missing []string
				for k := range opsUsed {
					if !have[k] {
						missing = append(missing, k)
					}
				}
				sort.Strings(missing)
				fd := core.EnclosingFuncDecl(checkP, sw.Pos())
				fn := "?"
				if fd != nil {
					fn = "internal/check." + core.DeclName(fd)
				}
				r.Check(len(missing) == 0, rule, fn, "switch over ast.Operator", p.Pos(sw.Pos()),
					"cases cover every operator the parser emits", "no case for "+strings.Join(missing, ", "))
			}
			return true
		})
	}
	if nSw < 3 {
		r.Undecide(rule, "", "dispatch switches", "", fmt.Sprintf("only %d switches over ast.Child/ast.Operator found in package check (floor 3)", nSw))
	}
}

// ---- R01.2 truth tables --------------------------------------------------------------------

func r012(c *Ctx) {
	p, r := c.P, c.R
	ts, _, err := Transformers(p)
	if err != nil {
		r.Undecide("R01.2", "", "anchor checkgroup.Result", "", err.Error())
		return
	}
	roles := map[string]int{}
	for _, t := range ts {
		roles[t.Role]++
		if t.Role == "drain" {
			continue
		}
		name := core.FuncName(t.Fn)
		construct := "truth table (" + t.Role + ")"
		if t.Role == "unknown" || len(t.Unknown) > 0 {
			r.Undecide("R01.2", name, construct, p.Pos(t.Fn.Pos()), "abstract execution incomplete: "+strings.Join(t.Unknown, "; "), t.TableString()...)
			continue
		}
		var bad []string
		pos := p.Pos(t.Fn.Pos())
		for _, v := range t.Check() {
			if v.Clause != "bool" {
				continue
			}
			bad = append(bad, fmt.Sprintf("input %s: %s (%s)", v.Input, v.Why, v.Out))
			if v.Out.Pos.IsValid() {
				pos = p.Pos(v.Out.Pos)
			}
		}
		if len(bad) > 0 {
			r.Violate("R01.2", name, construct, pos, strings.Join(dedupe(bad), "; "), t.TableString()...)
		} else {
			r.Discharge("R01.2", name, construct, pos, "the decision table over the six abstract results matches the "+t.Role+" contract", t.TableString()...)
		}
	}
	for _, need := range []string{"or", "and", "not", "group"} {
		if roles[need] == 0 {
			r.Undecide("R01.2", "", "combinator role "+need, "", "no function with the role '"+need+"' was found (the operator dispatch or the check group moved)")
		}
	}
}

// ---- R01.3 visited scope ---------------------------------------------------------------------

// freshVisitedFuncs: functions that unconditionally return a context carrying a
// newly allocated visited set.
func freshVisitedFuncs(p *core.Program) map[*ssa.Function]bool {
	out := map[*ssa.Function]bool{}
	// installers: a straight-line function that returns context.WithValue(ctx, key, <its parameter k>)
	installers := map[*ssa.Function]int{}
	for _, fn := range p.KetoFuncs("internal/x/graph") {
		if fn.Parent() != nil || len(fn.Blocks) != 1 {
			continue
		}
		for _, ins := range fn.Blocks[0].Instrs {
			ret, ok := ins.(*ssa.Return)
			if !ok || len(ret.Results) != 1 {
				continue
			}
			call, ok := ret.Results[0].(*ssa.Call)
			if !ok {
				continue
			}
			obj := core.CalleeObj(call.Common())
			if obj == nil || obj.Name() != "WithValue" || obj.Pkg() == nil || obj.Pkg().Path() != "context" {
				continue
			}
			if par, ok := core.Unwrap(call.Common().Args[2]).(*ssa.Parameter); ok {
				for k, q := range fn.Params {
					if q == par {
						installers[fn] = k
					}
				}
			}
		}
	}
	isFreshValue := func(val ssa.Value) bool {
		val = core.Unwrap(val)
		if mk, ok := val.(*ssa.Call); ok {
			if g := mk.Common().StaticCallee(); g != nil && allocatesFresh(g) {
				return true
			}
		}
		_, isAlloc := val.(*ssa.Alloc)
		return isAlloc
	}
	// a straight-line function whose first result is context.WithValue(ctx, key, <new set>) - or what
	// another such function returns (the installation extracted into a helper)
	for changed := true; changed; {
		changed = false
		for _, fn := range p.KetoFuncs("internal/x/graph") {
			if fn.Parent() != nil || len(fn.Blocks) != 1 || out[fn] {
				continue
			}
			for _, ins := range fn.Blocks[0].Instrs {
				ret, ok := ins.(*ssa.Return)
				if !ok || len(ret.Results) < 1 || !core.IsNamed(ret.Results[0].Type(), "context", "Context") {
					continue
				}
				var call *ssa.Call
				switch v := ret.Results[0].(type) {
				case *ssa.Call:
					call = v
				case *ssa.Extract:
					if v.Index == 0 {
						call, _ = v.Tuple.(*ssa.Call)
					}
				}
				if call == nil {
					continue
				}
				if sc := call.Common().StaticCallee(); sc != nil && out[sc] {
					out[fn] = true
					changed = true
					continue
				}
				if sc := call.Common().StaticCallee(); sc != nil {
					if k, isInst := installers[sc]; isInst && k < len(call.Common().Args) && isFreshValue(call.Common().Args[k]) {
						out[fn] = true
						changed = true
						continue
					}
				}
				obj := core.CalleeObj(call.Common())
				if obj == nil || obj.Name() != "WithValue" || obj.Pkg() == nil || obj.Pkg().Path() != "context" {
					continue
				}
				val := core.Unwrap(call.Common().Args[2])
				if mk, ok := val.(*ssa.Call); ok {
					if g := mk.Common().StaticCallee(); g != nil && allocatesFresh(g) {
						out[fn] = true
						changed = true
					}
				}
				if _, ok := val.(*ssa.Alloc); ok {
					out[fn] = true
					changed = true
				}
			}
		}
	}
	return out
}

func allocatesFresh(fn *ssa.Function) bool {
	if fn.Blocks == nil {
		return false
	}
	ok := false
	core.Instrs(fn, func(_ *ssa.BasicBlock, _ int, ins ssa.Instruction) {
		if ret, isRet := ins.(*ssa.Return); isRet && len(ret.Results) == 1 {
			if a, isAlloc := ret.Results[0].(*ssa.Alloc); isAlloc && a.Heap {
				ok = true
			}
		}
	})
	return ok
}

// freshCallOf follows a context value through context-to-context wrapper
// calls to a call of a fresh-visited function.
func freshCallOf(v ssa.Value, fresh map[*ssa.Function]bool) *ssa.Call {
	seen := map[ssa.Value]bool{}
	var walk func(v ssa.Value) *ssa.Call
	walk = func(v ssa.Value) *ssa.Call {
		v = core.ValueOrigin(v)
		if v == nil || seen[v] {
			return nil
		}
		seen[v] = true
		call, ok := v.(*ssa.Call)
		if !ok {
			return nil
		}
		if sc := call.Common().StaticCallee(); sc != nil && fresh[sc] {
			return call
		}
		for _, a := range call.Common().Args {
			if core.IsNamed(a.Type(), "context", "Context") {
				if f := walk(a); f != nil {
					return f
				}
			}
		}
		return nil
	}
	return walk(v)
}

func sameCycle(a, b *ssa.BasicBlock) bool {
	if a == b {
		return core.InLoop(a)
	}
	return core.ReachableFrom(a)[b] && core.ReachableFrom(b)[a]
}

func r013(c *Ctx) {
	p, r := c.P, c.R
	fresh := freshVisitedFuncs(p)
	var fnames []string
	for f := range fresh {
		fnames = append(fnames, core.FuncName(f))
	}
	sort.Strings(fnames)
	r.Note("fresh_visited_set_functions", fnames)
	inEng := map[*ssa.Function]bool{}
	for _, f := range engineFunctions(p) {
		inEng[f] = true
	}
	sig := checkFuncSig(p)
	andVal := int64(-1)
	if cst, ok := p.LookupObj(astPkg, "OperatorAnd").(*types.Const); ok {
		fmt.Sscan(cst.Val().ExactString(), &andVal)
	}
	isAndCond := func(cd core.Cond) (isAnd bool, ok bool) {
		op, x, y, cmp := core.BinCmp(cd.V)
		if !cmp || !core.IsNamed(x.Type(), astPkg, "Operator") {
			return false, false
		}
		k, isK := core.IntConst(y)
		if !isK || k != andVal {
			return false, false
		}
		if op == token.EQL {
			return cd.True, true
		}
		if op == token.NEQ {
			return !cd.True, true
		}
		return false, false
	}
	// freshForAnd: ctx value is a fresh call in the loop of `at`, on every path where the operation is And
	var freshForAnd func(v ssa.Value, at *ssa.BasicBlock, depth int) (bool, string)
	freshForAnd = func(v ssa.Value, at *ssa.BasicBlock, depth int) (bool, string) {
		if depth > 4 {
			return false, "context definition too deep"
		}
		if call := freshCallOf(v, fresh); call != nil {
			if sameCycle(call.Block(), at) {
				return true, ""
			}
			return false, fmt.Sprintf("the fresh visited set is created at %s, outside the operand loop: all operands share one set", p.Pos(call.Pos()))
		}
		o := core.ValueOrigin(v)
		if phi, ok := o.(*ssa.Phi); ok {
			for i, e := range phi.Edges {
				pred := phi.Block().Preds[i]
				// on this edge, is the operation known not to be And?
				notAnd := false
				for _, cd := range core.CondsOnEdge(pred, phi.Block()) {
					if isAnd, ok := isAndCond(cd); ok && !isAnd {
						notAnd = true
					}
				}
				if notAnd {
					continue
				}
				if ok, why := freshForAnd(e, at, depth+1); !ok {
					return false, why
				}
			}
			return true, ""
		}
		return false, "the operand's context is the enclosing context, which carries the visited set shared with the other operands"
	}
	nSites := 0
	cover := map[string]int{} // sites per route: rewrite, negation, and, not
	for _, fn := range p.KetoFuncs("internal/check") {
		top := core.Outermost(fn)
		name := core.FuncName(fn)
		switch {
		case fn.Parent() == nil && inEng[fn] && hasParamOfType(fn, astPkg, "SubjectSetRewrite"):
			// construction route of intersections: engine calls inside the children loop
			core.Instrs(fn, func(b *ssa.BasicBlock, _ int, ins ssa.Instruction) {
				ci, ok := ins.(*ssa.Call)
				if !ok || !core.InLoop(b) {
					return
				}
				sc := ci.Common().StaticCallee()
				if sc == nil || !inEng[sc] {
					return
				}
				for i, par := range sc.Params {
					if !core.IsNamed(par.Type(), "context", "Context") || i >= len(ci.Common().Args) {
						continue
					}
					// calls made only when the operation is not And need no fresh set
					onlyNotAnd := false
					for _, cd := range core.CondsAt(b) {
						if isAnd, ok := isAndCond(cd); ok && !isAnd {
							onlyNotAnd = true
						}
					}
					if onlyNotAnd {
						continue
					}
					nSites++
					cover["rewrite"]++
					ok, why := freshForAnd(ci.Common().Args[i], b, 0)
					r.Check(ok, "R01.3", name, "context building operand via "+sc.Name(), p.Pos(ci.Pos()),
						"when the operation is an intersection the operand is built with a visited set created for it in this iteration",
						"intersection operand built with a shared visited set: "+why)
				}
			})
		case fn.Parent() == nil && inEng[fn] && hasParamOfType(fn, astPkg, "InvertResult"):
			core.Instrs(fn, func(b *ssa.BasicBlock, _ int, ins ssa.Instruction) {
				ci, ok := ins.(*ssa.Call)
				if !ok {
					return
				}
				sc := ci.Common().StaticCallee()
				if sc == nil || !inEng[sc] {
					return
				}
				for i, par := range sc.Params {
					if !core.IsNamed(par.Type(), "context", "Context") || i >= len(ci.Common().Args) {
						continue
					}
					nSites++
					cover["negation"]++
					call := freshCallOf(ci.Common().Args[i], fresh)
					r.Check(call != nil, "R01.3", name, "context building negated child via "+sc.Name(), p.Pos(ci.Pos()),
						"the negated child is built with its own visited set",
						"the negated child is built with the enclosing context's visited set: a subject set visited outside the negation is skipped inside it, and the skip (NotMember) is inverted")
				}
			})
		}
		// invocation routes: dynamic CheckFunc calls in and / not
		role := ""
		if roles := operatorRoles(p); roles[fn] == "and" {
			role = "and"
		} else if fn.Parent() != nil && hasParamOfType(fn.Parent(), astPkg, "InvertResult") {
			role = "not"
		}
		_ = top
		if role == "" {
			continue
		}
		core.Instrs(fn, func(b *ssa.BasicBlock, _ int, ins ssa.Instruction) {
			ci, ok := ins.(ssa.CallInstruction)
			if !ok || ci.Common().IsInvoke() {
				return
			}
			var ctxArg ssa.Value
			if h := ci.Common().StaticCallee(); h != nil {
				// the operand is invoked by a helper that is handed the operand and the context to run it with
				pi := operandCtxParam(h, sig)
				if pi < 0 || pi >= len(ci.Common().Args) {
					return
				}
				ctxArg = ci.Common().Args[pi]
			} else {
				cs, ok := ci.Common().Value.Type().Underlying().(*types.Signature)
				if !ok || sig == nil || !core.SigIdentical(cs, sig) {
					return
				}
				ctxArg = ci.Common().Args[0]
			}
			nSites++
			cover[role]++
			call := freshCallOf(ctxArg, fresh)
			okk := call != nil
			why := "the operand is invoked with the caller's context and therefore with the visited set shared with the other operands"
			if okk && role == "and" && !sameCycle(call.Block(), b) {
				okk = false
				why = "the fresh visited set is created once outside the operand loop: all operands share it"
			}
			r.Check(okk, "R01.3", name, "context invoking "+role+" operand", p.Pos(ins.Pos()),
				"each operand is invoked with a visited set of its own", why)
		})
	}
	// every route on which an operand gets its context has a judged site: the construction of the children of
	// a rewrite and of a negation (in the dispatcher itself, or one call of a helper that builds the child with
	// the context it is given), and the invocation of the operands of "and" and of "not"
	for _, route := range []string{"rewrite", "negation", "and", "not"} {
		if cover[route] == 0 {
			r.Undecide("R01.3", "", "operand sites", "", fmt.Sprintf("no operand context site found on the %s route (%d sites in all)", route, nSites))
		}
	}
	if len(fresh) == 0 {
		r.Undecide("R01.3", "", "fresh visited set function", "", "no function in internal/x/graph unconditionally installs a newly allocated visited set")
	}
}

// ---- R01.5 mode table -------------------------------------------------------------------------

func r015(c *Ctx) {
	p, r := c.P, c.R
	fn := p.Func("(*internal/check.Engine).checkIsAllowed")
	if fn == nil {
		r.Undecide("R01.5", "", "anchor checkIsAllowed", "", "function not found")
		return
	}
	name := core.FuncName(fn)
	var skipPar *ssa.Parameter
	for _, par := range fn.Params {
		if core.BoolType(par.Type()) {
			skipPar = par
		}
	}
	dp := depthParam(fn)
	if skipPar == nil || dp == nil {
		r.Undecide("R01.5", name, "parameters", p.Pos(fn.Pos()), "checkIsAllowed no longer has a depth and a skipDirect parameter")
		return
	}
	// the relation value: result #0 of astRelationFor
	isRelationValue := func(v ssa.Value) bool {
		ex, ok := core.ValueOrigin(v).(*ssa.Extract)
		if !ok || ex.Index != 0 {
			return false
		}
		call, ok := ex.Tuple.(*ssa.Call)
		return ok && core.IsCallTo(call, "astRelationFor")
	}
	n, bad := 0, []string{}
	for mask := 0; mask < 32; mask++ {
		strict, relNil, hasRw, cse, skip := mask&1 != 0, mask&2 != 0, mask&4 != 0, mask&8 != 0, mask&16 != 0
		if relNil && (hasRw || cse) {
			continue // inconsistent: no relation, no rewrite/types
		}
		n++
		added := map[string]bool{}
		w := &core.Walker{Fn: fn}
		w.Oracle = func(v ssa.Value) (core.WVal, bool) {
			switch {
			case v == ssa.Value(skipPar):
				return core.WBool(skip), true
			case v == ssa.Value(dp):
				return core.WInt(5), true
			case core.IsCallTo(v, "StrictMode"):
				return core.WBool(strict), true
			case core.IsCallTo(v, "containsSubjectSetExpand"):
				return core.WBool(cse), true
			}
			if bo0, ok := v.(*ssa.BinOp); ok && (bo0.Op == token.EQL || bo0.Op == token.NEQ) && (core.IsNilConst(bo0.Y) || core.IsNilConst(bo0.X)) {
				bo := &ssa.BinOp{Op: bo0.Op, X: bo0.X, Y: bo0.Y}
				if core.IsNilConst(bo0.X) {
					bo.X, bo.Y = bo0.Y, bo0.X
				}
				isNil, known := false, false
				switch {
				case isRelationValue(bo.X):
					isNil, known = relNil, true
				case types.Identical(bo.X.Type(), types.Universe.Lookup("error").Type()):
					isNil, known = true, true
				default:
					if u, ok := bo.X.(*ssa.UnOp); ok && u.Op == token.MUL {
						if fa, ok := u.X.(*ssa.FieldAddr); ok && isRelationValue(fa.X) {
							// relation.SubjectSetRewrite
							isNil, known = !hasRw, true
						}
					}
				}
				if known {
					return core.WBool(isNil == (bo.Op == token.EQL)), true
				}
			}
			return core.WVal{}, false
		}
		w.OnInstr = func(ins ssa.Instruction, _ *core.Walker) bool {
			ci, ok := ins.(ssa.CallInstruction)
			if !ok || !ci.Common().IsInvoke() || ci.Common().Method.Name() != "Add" || len(ci.Common().Args) != 1 {
				return false
			}
			if call, ok := ci.Common().Args[0].(*ssa.Call); ok {
				if sc := call.Common().StaticCallee(); sc != nil {
					added[sc.Name()] = true
				}
			}
			return false
		}
		w.Run()
		val := fmt.Sprintf("strict=%v relation-configured=%v has-rewrite=%v declares-SubjectSet=%v skipDirect=%v", strict, !relNil, hasRw, cse, skip)
		if w.Err != "" {
			r.Undecide("R01.5", name, "mode table", p.Pos(fn.Pos()), "cannot evaluate the function for "+val+": "+w.Err)
			return
		}
		want := map[string]bool{}
		if hasRw {
			want["checkSubjectSetRewrite"] = true
		}
		if (!strict || !hasRw) && !skip {
			want["checkDirect"] = true
		}
		if !strict || relNil || cse {
			want["checkExpandSubject"] = true
		}
		for _, k := range []string{"checkSubjectSetRewrite", "checkDirect", "checkExpandSubject"} {
			if added[k] != want[k] {
				verb := "is missing from"
				if added[k] {
					verb = "wrongly joins"
				}
				bad = append(bad, fmt.Sprintf("%s: %s %s the union", val, k, verb))
			}
		}
	}
	if len(bad) > 0 {
		if len(bad) > 4 {
			bad = append(bad[:4], fmt.Sprintf("... and %d more valuations", len(bad)-4))
		}
		r.Violate("R01.5", name, "mode table", p.Pos(fn.Pos()), "the sub-checks joined differ from the documented default/strict-mode table: "+strings.Join(bad, "; "))
	} else {
		r.Discharge("R01.5", name, "mode table", p.Pos(fn.Pos()), fmt.Sprintf("the sub-checks joined equal the documented table on all %d consistent valuations", n))
	}
}

// ---- R01.6 skipDirect is justified ----------------------------------------------------------------

// sliceRoot follows a slice value to the call that produced it.
func sliceRoot(v ssa.Value) ssa.Value {
	seen := map[ssa.Value]bool{}
	for i := 0; i < 16 && v != nil && !seen[v]; i++ {
		seen[v] = true
		v = core.ValueOrigin(v)
		switch x := v.(type) {
		case *ssa.Slice:
			v = x.X
		case *ssa.Phi:
			// all edges must share a root
			var root ssa.Value
			for _, e := range x.Edges {
				rr := sliceRoot(e)
				if root == nil {
					root = rr
				} else if rr != root {
					return v
				}
			}
			return root
		case *ssa.Extract:
			return x.Tuple
		case *ssa.Call:
			// a helper that returns (a cut of) the slice it was handed: go on with the argument
			h := x.Common().StaticCallee()
			if h == nil || h.Blocks == nil || x.Common().IsInvoke() || core.FuncPkg(h) == nil || !core.IsKeto(core.FuncPkg(h)) || h.Signature.Results().Len() != 1 {
				return v
			}
			idx := -1
			okAll, nRet := true, 0
			core.Instrs(h, func(_ *ssa.BasicBlock, _ int, ins ssa.Instruction) {
				ret, isRet := ins.(*ssa.Return)
				if !isRet || len(ret.Results) != 1 {
					return
				}
				nRet++
				rr := sliceRoot(ret.Results[0])
				par, isPar := rr.(*ssa.Parameter)
				if !isPar || par.Parent() != h {
					okAll = false
					return
				}
				for i, q := range h.Params {
					if q == par {
						if idx >= 0 && idx != i {
							okAll = false
						}
						idx = i
					}
				}
			})
			if !okAll || nRet == 0 || idx < 0 || idx >= len(x.Common().Args) {
				return v
			}
			v = x.Common().Args[idx]
		default:
			return v
		}
	}
	return v
}

// rangedSliceOf: v is field `To` of an element ranged/indexed from slice S.
func rangedSliceOf(v ssa.Value) ssa.Value {
	u, ok := core.ValueOrigin(v).(*ssa.UnOp)
	if !ok || u.Op != token.MUL {
		return nil
	}
	fa, ok := u.X.(*ssa.FieldAddr)
	if !ok {
		return nil
	}
	elem, ok := core.ValueOrigin(fa.X).(*ssa.UnOp)
	if !ok || elem.Op != token.MUL {
		return nil
	}
	ia, ok := elem.X.(*ssa.IndexAddr)
	if !ok {
		return nil
	}
	return sliceRoot(ia.X)
}

func r016(c *Ctx) {
	p, r := c.P, c.R
	n := 0
	for _, fn := range p.KetoFuncs("internal/check") {
		core.Instrs(fn, func(b *ssa.BasicBlock, _ int, ins ssa.Instruction) {
			ci, ok := ins.(*ssa.Call)
			if !ok {
				return
			}
			sc := ci.Common().StaticCallee()
			if sc == nil || sc.Name() != "checkIsAllowed" {
				return
			}
			var skipIdx, tupIdx = -1, -1
			for i, par := range sc.Params {
				if core.BoolType(par.Type()) {
					skipIdx = i
				}
				if core.IsNamed(par.Type(), relPkg, "RelationTuple") {
					tupIdx = i
				}
			}
			if skipIdx < 0 || tupIdx < 0 {
				return
			}
			k, isConst := ci.Common().Args[skipIdx].(*ssa.Const)
			if isConst && k.Value != nil && k.Value.String() == "false" {
				return
			}
			n++
			name := core.FuncName(fn)
			if !isConst {
				r.Undecide("R01.6", name, "skipDirect argument", p.Pos(ci.Pos()), "skipDirect is not a constant at this call")
				return
			}
			root := rangedSliceOf(ci.Common().Args[tupIdx])
			rootCall, _ := root.(*ssa.Call)
			fromTraversal := rootCall != nil && func() bool {
				obj := core.CalleeObj(rootCall.Common())
				return obj != nil && strings.HasPrefix(obj.Name(), "TraverseSubjectSet")
			}()
			if !fromTraversal {
				r.Violate("R01.6", name, "skipDirect=true", p.Pos(ci.Pos()), "the direct lookup is skipped for a tuple that is not an element of a traversal result: its direct membership is never looked at")
				return
			}
			// a dominating loop over the same results that answers IsMember on .Found
			foundTested := false
			core.Instrs(fn, func(b2 *ssa.BasicBlock, _ int, i2 ssa.Instruction) {
				ifi, ok := i2.(*ssa.If)
				if !ok {
					return
				}
				u, ok := ifi.Cond.(*ssa.UnOp)
				if !ok || u.Op != token.MUL {
					return
				}
				fa, ok := u.X.(*ssa.FieldAddr)
				if !ok {
					return
				}
				st, ok := fa.X.Type().Underlying().(*types.Pointer)
				if !ok {
					return
				}
				s2, ok := st.Elem().Underlying().(*types.Struct)
				if !ok || s2.Field(fa.Field).Name() != "Found" {
					return
				}
				elem, ok := core.ValueOrigin(fa.X).(*ssa.UnOp)
				if !ok {
					return
				}
				ia, ok := elem.X.(*ssa.IndexAddr)
				if !ok || sliceRoot(ia.X) != root {
					return
				}
				// true branch: member answer and leave
				tb := b2.Succs[0]
				member, leaves := false, false
				for _, i3 := range tb.Instrs {
					if c3, ok := i3.(ssa.CallInstruction); ok {
						if c3.Common().IsInvoke() && c3.Common().Method.Name() == "SetIsMember" {
							member = true
						}
						for _, a := range c3.Common().Args {
							if f, ok := a.(*ssa.Function); ok && f.Name() == "IsMemberFunc" {
								member = true
							}
						}
					}
					if _, ok := i3.(*ssa.Return); ok {
						leaves = true
					}
				}
				// the call must not be reachable from the member branch and the test must come first
				if member && leaves && b2.Dominates(ci.Block()) == false && core.ReachableFrom(b2)[ci.Block()] {
					// the Found loop is a separate, earlier loop: its header dominates the call
					for d := ci.Block(); d != nil; d = d.Idom() {
						if core.ReachableFrom(d)[b2] && core.ReachableFrom(b2)[d] {
							// d is in the Found loop and dominates the call
							foundTested = true
						}
					}
				}
			})
			// the scan written with a library helper: if slices.ContainsFunc(results, func(r) bool { return r.Found }) { member; return }
			if !foundTested {
				core.Instrs(fn, func(b2 *ssa.BasicBlock, _ int, i2 ssa.Instruction) {
					ifi, ok := i2.(*ssa.If)
					if !ok {
						return
					}
					call, ok := ifi.Cond.(*ssa.Call)
					if !ok {
						return
					}
					sc := call.Common().StaticCallee()
					if sc != nil && foundScanHelper(sc) >= 0 && foundScanHelper(sc) < len(call.Common().Args) {
						// the scan extracted into a helper of the repository: if anyFound(results) { member; return }
						if sliceRoot(call.Common().Args[foundScanHelper(sc)]) == root && memberAndLeave(b2.Succs[0]) && core.EdgeDominates(b2, 1, ci.Block()) {
							foundTested = true
						}
						return
					}
					if sc == nil || !strings.HasPrefix(sc.Name(), "ContainsFunc") || core.FuncPkg(sc) == nil || core.FuncPkg(sc).Path() != "slices" || len(call.Common().Args) != 2 {
						return
					}
					if sliceRoot(call.Common().Args[0]) != root {
						return
					}
					var pred *ssa.Function
					switch f := call.Common().Args[1].(type) {
					case *ssa.MakeClosure:
						pred, _ = f.Fn.(*ssa.Function)
					case *ssa.Function:
						pred = f
					}
					if pred == nil || len(pred.Params) != 1 || len(pred.Blocks) != 1 {
						return
					}
					// the predicate is exactly "the element's Found flag"
					isFound := false
					for _, pi := range pred.Blocks[0].Instrs {
						if ret, ok := pi.(*ssa.Return); ok && len(ret.Results) == 1 {
							if u, ok := ret.Results[0].(*ssa.UnOp); ok && u.Op == token.MUL {
								if fa, ok := u.X.(*ssa.FieldAddr); ok && fieldVarOf(fa) != nil && fieldVarOf(fa).Name() == "Found" && fa.X == ssa.Value(pred.Params[0]) {
									isFound = true
								}
							}
						}
					}
					if !isFound {
						return
					}
					tb := b2.Succs[0]
					member, leaves := false, false
					for _, i3 := range tb.Instrs {
						if c3, ok := i3.(ssa.CallInstruction); ok {
							if c3.Common().IsInvoke() && c3.Common().Method.Name() == "SetIsMember" {
								member = true
							}
							for _, a := range c3.Common().Args {
								if f, ok := a.(*ssa.Function); ok && f.Name() == "IsMemberFunc" {
									member = true
								}
							}
						}
						if _, ok := i3.(*ssa.Return); ok {
							leaves = true
						}
					}
					if member && leaves && core.EdgeDominates(b2, 1, ci.Block()) {
						foundTested = true
					}
				})
			}
			r.Check(foundTested, "R01.6", name, "skipDirect=true", p.Pos(ci.Pos()),
				"the tuple comes from a traversal result and a preceding loop over the same results answers IsMember whenever Found is set",
				"the direct lookup is skipped but no preceding loop over the same traversal results answers IsMember on Found: direct memberships are dropped")
		})
	}
	if n < 2 {
		r.Undecide("R01.6", "", "skipDirect=true sites", "", fmt.Sprintf("%d sites found, floor 2 (subject-set expansion, computed-subject-set shortcut)", n))
	}
}

// operandCtxParam: h is a helper of the repository that invokes a CheckFunc it is handed (a parameter) with a
// context it is handed (another parameter); the index of that context parameter, or -1.
func operandCtxParam(h *ssa.Function, sig *types.Signature) int {
	if h == nil || h.Blocks == nil || sig == nil || core.FuncPkg(h) == nil || !core.IsKeto(core.FuncPkg(h)) {
		return -1
	}
	res := -1
	core.Instrs(h, func(_ *ssa.BasicBlock, _ int, ins ssa.Instruction) {
		ci, ok := ins.(ssa.CallInstruction)
		if !ok || ci.Common().StaticCallee() != nil || ci.Common().IsInvoke() || len(ci.Common().Args) == 0 {
			return
		}
		if _, isPar := ci.Common().Value.(*ssa.Parameter); !isPar {
			return
		}
		cs, ok := ci.Common().Value.Type().Underlying().(*types.Signature)
		if !ok || !core.SigIdentical(cs, sig) {
			return
		}
		if par, isPar := ci.Common().Args[0].(*ssa.Parameter); isPar {
			for i, q := range h.Params {
				if q == par {
					res = i
				}
			}
		}
	})
	return res
}

// memberAndLeave: the block answers "is a member" and returns.
func memberAndLeave(tb *ssa.BasicBlock) bool {
	member, leaves := false, false
	for _, i3 := range tb.Instrs {
		if c3, ok := i3.(ssa.CallInstruction); ok {
			if c3.Common().IsInvoke() && c3.Common().Method.Name() == "SetIsMember" {
				member = true
			}
			for _, a := range c3.Common().Args {
				if f, ok := a.(*ssa.Function); ok && f.Name() == "IsMemberFunc" {
					member = true
				}
			}
		}
		if _, ok := i3.(*ssa.Return); ok {
			leaves = true
		}
	}
	return member && leaves
}

// foundScanHelper: fn is a repository helper "does one of these traversal results have Found set":
// it returns a bool, ranges over one slice parameter, and returns true from the branch on an
// element's Found flag. The index of that parameter, or -1.
func foundScanHelper(fn *ssa.Function) int {
	if fn == nil || len(fn.Blocks) == 0 || fn.Signature.Results().Len() != 1 || core.FuncPkg(fn) == nil || !core.IsKeto(core.FuncPkg(fn)) {
		return -1
	}
	if b, ok := fn.Signature.Results().At(0).Type().Underlying().(*types.Basic); !ok || b.Kind() != types.Bool {
		return -1
	}
	res := -1
	core.Instrs(fn, func(b2 *ssa.BasicBlock, _ int, i2 ssa.Instruction) {
		ifi, ok := i2.(*ssa.If)
		if !ok {
			return
		}
		u, ok := ifi.Cond.(*ssa.UnOp)
		if !ok || u.Op != token.MUL {
			return
		}
		fa, ok := u.X.(*ssa.FieldAddr)
		if !ok || fieldVarOf(fa) == nil || fieldVarOf(fa).Name() != "Found" {
			return
		}
		elem, ok := core.ValueOrigin(fa.X).(*ssa.UnOp)
		if !ok {
			return
		}
		ia, ok := elem.X.(*ssa.IndexAddr)
		if !ok {
			return
		}
		par, ok := sliceRoot(ia.X).(*ssa.Parameter)
		if !ok {
			return
		}
		for _, i3 := range b2.Succs[0].Instrs {
			if ret, ok := i3.(*ssa.Return); ok && len(ret.Results) == 1 {
				if k, ok := ret.Results[0].(*ssa.Const); ok && k.Value != nil && k.Value.String() == "true" {
					for i, q := range fn.Params {
						if q == par {
							res = i
						}
					}
				}
			}
		}
	})
	return res
}

// ---- R01.9 fan-out completeness -----------------------------------------------------------------

// r019: a loop of the check engine that adds one sub-check per fetched element
// (g.Add of a call into the engine) adds one for every element: from the start
// of the loop body the next iteration is reachable without passing such an Add
// only over an enumerated skip edge -- the element was already visited
// (CheckAndAddVisited), or it is not a subject set (comma-ok type assertion).
// Any other `continue` silently drops a candidate (a false "not a member").
func r019(c *Ctx) {
	p, r := c.P, c.R
	eng := map[*ssa.Function]bool{}
	for _, f := range engineFunctions(p) {
		eng[f] = true
	}
	n := 0
	for _, fn := range p.KetoFuncs("internal/check") {
		// event blocks: g.Add(<engine call>)
		events := map[*ssa.BasicBlock]ssa.Instruction{}
		core.Instrs(fn, func(b *ssa.BasicBlock, _ int, ins ssa.Instruction) {
			ci, ok := ins.(ssa.CallInstruction)
			if !ok || len(ci.Common().Args) == 0 {
				return
			}
			if obj := core.CalleeObj(ci.Common()); obj == nil || obj.Name() != "Add" {
				return
			}
			arg := ci.Common().Args[len(ci.Common().Args)-1]
			if call, ok := core.ValueOrigin(arg).(*ssa.Call); ok {
				if sc := call.Call.StaticCallee(); sc != nil && eng[sc] && core.InLoop(b) {
					events[b] = ins
				}
			}
		})
		for eb, ev := range events {
			// the loop body entry: the block that loads the current element (IndexAddr / range next)
			// = the nearest dominator of eb inside the same cycle whose predecessor set contains the loop header
			var body *ssa.BasicBlock
			for d := eb; d != nil; d = d.Idom() {
				if !sameCycle(d, eb) {
					break
				}
				hasElem := false
				for _, ins := range d.Instrs {
					switch x := ins.(type) {
					case *ssa.IndexAddr:
						if _, isConst := x.Index.(*ssa.Const); !isConst {
							hasElem = true
						}
					case *ssa.Next:
						hasElem = true
					}
				}
				if hasElem {
					body = d
				}
			}
			if body == nil {
				r.Undecide("R01.9", core.FuncName(fn), "fan-out loop", p.Pos(ev.Pos()), "cannot find the block that loads the loop's current element")
				continue
			}
			n++
			// search: from body, reach body again (next iteration) avoiding event blocks and skip edges
			skipEdge := func(from, to *ssa.BasicBlock) bool {
				if len(from.Instrs) == 0 {
					return false
				}
				ifi, ok := from.Instrs[len(from.Instrs)-1].(*ssa.If)
				if !ok {
					return false
				}
				onTrue := from.Succs[0] == to
				v, truth := core.ValueOrigin(ifi.Cond), onTrue
				for i := 0; i < 4; i++ {
					u, ok := v.(*ssa.UnOp)
					if !ok || u.Op != token.NOT {
						break
					}
					v, truth = core.ValueOrigin(u.X), !truth
				}
				ex, ok := v.(*ssa.Extract)
				if !ok {
					return false
				}
				switch t := ex.Tuple.(type) {
				case *ssa.Call:
					return core.IsCallTo(t, "CheckAndAddVisited") && ex.Index == 1 && truth
				case *ssa.TypeAssert:
					return t.CommaOk && ex.Index == 1 && !truth
				}
				return false
			}
			var bad *ssa.BasicBlock
			seen := map[*ssa.BasicBlock]bool{}
			var walk func(b *ssa.BasicBlock, first bool)
			walk = func(b *ssa.BasicBlock, first bool) {
				if bad != nil {
					return
				}
				if !first && b == body {
					bad = b
					return
				}
				if seen[b] {
					return
				}
				seen[b] = true
				if _, isEv := events[b]; isEv {
					return
				}
				for _, s := range b.Succs {
					if !sameCycle(s, body) || skipEdge(b, s) {
						continue
					}
					prev := b
					walk(s, false)
					if bad == s && bad == body {
						bad = prev // report the block that jumps back
						return
					}
				}
			}
			walk(body, true)
			pos := p.Pos(ev.Pos())
			detail := ""
			if bad != nil {
				if len(bad.Instrs) > 0 {
					pos = p.Pos(lastPos(bad))
				}
				detail = "the loop can go on to the next element without adding a sub-check for this one, on a path that is neither the already-visited skip nor the not-a-subject-set skip: a candidate is dropped and the check can answer 'not a member' for a member"
			}
			r.Check(bad == nil, "R01.9", core.FuncName(fn), "fan-out loop", pos,
				"every element of the fetched list adds a sub-check unless it was already visited or is not a subject set", detail)
		}
	}
	if n < 2 {
		r.Undecide("R01.9", "", "fan-out loops", "", fmt.Sprintf("%d found (floor 2: subject-set expansion, tuple-to-subject-set)", n))
	}
}

func lastPos(b *ssa.BasicBlock) token.Pos {
	for i := len(b.Instrs) - 1; i >= 0; i-- {
		if b.Instrs[i].Pos().IsValid() {
			return b.Instrs[i].Pos()
		}
	}
	return token.NoPos
}
