package rules

import (
	"fmt"
	"go/ast"
	"go/constant"
	"go/token"
	"go/types"
	"strings"

	"golang.org/x/tools/go/ssa"

	"ketosa/internal/core"
)

func init() {
	Register(&Property{
		ID: "C10",
		Explanation: "Decides three structural necessary conditions of 'boolean structure follows TypeScript' in the OPL expression parser, and nothing about which spellings are accepted: " +
			"(R10.1) the shape of the tree depends on which binary operator is read: somewhere in the expression parser a branch separates '&&' from '||' (or an ordering comparison is made on a value derived from the operator token, as in a precedence table) outside the function that merely maps the token to the AST label -- a parser that treats the two alike builds the same shape for 'a || b && c' and 'a && b || c', so it cannot give '&&' the tighter binding; " +
			"(R10.2) a '!' applies to one operand: the function that builds the negation node takes its child from the operand parser, or from the expression parser only for a parenthesised group (closing token ')'); " +
			"(R10.3) parentheses override: a '(' recurses with ')' as the closing token and its result is kept as one operand, and the flattening pass merges a child into its parent only under an equality test of their two operators. " +
			"(R10.4) alternatives of the grammar are parsed by sibling arms of a switch or if-chain (the four spellings of a relation's type; the 'related' and 'permits' forms of a traversal body): if one arm accepts an optional ',' after what it parses, every sibling arm that also goes on parsing accepts it -- an arm that differs rejects an input the others accept in the same position. Not decided: that every documented spelling is accepted (T[] / Array<T>, dot / bracket access, optional annotations, quotes, comments, separators), that '&&' rather than '||' is the one that binds tighter, equality of truth tables over all expressions. These would need the parser to be run or modelled, which this family does not do.",
		Assumptions: []string{
			"the expression parser is the set of functions of package schema reachable from the function that loops over the binary operator tokens",
		},
		Run: runC10,
	})
}

func runC10(c *Ctx) {
	p, r := c.P, c.R
	pkgPath := core.KetoMod + "/" + schemaRel
	constOf := func(name string, path string) (int64, bool) {
		k, ok := p.LookupObj(path, name).(*types.Const)
		if !ok || k.Val().Kind() != constant.Int {
			return 0, false
		}
		v, _ := constant.Int64Val(k.Val())
		return v, true
	}
	tokAnd, ok1 := constOf("itemOperatorAnd", pkgPath)
	tokOr, ok2 := constOf("itemOperatorOr", pkgPath)
	opAnd, ok3 := constOf("OperatorAnd", astPkg)
	opOr, ok4 := constOf("OperatorOr", astPkg)
	tokParenR, ok5 := constOf("itemParenRight", pkgPath)
	tokParenL, ok6 := constOf("itemParenLeft", pkgPath)
	if !(ok1 && ok2 && ok3 && ok4 && ok5 && ok6) {
		r.Undecide("R10.1", "", "anchor operator constants", "", "itemOperatorAnd/Or, itemParenLeft/Right or ast.OperatorAnd/Or not found")
		return
	}
	isTokT := func(t types.Type) bool { return core.IsNamed(t, pkgPath, "itemType") }
	isOpT := func(t types.Type) bool { return core.IsNamed(t, astPkg, "Operator") }
	// kind of an operator test: "and" / "or" / ""
	kindOf := func(x, y ssa.Value) string {
		k, ok := core.IntConst(y)
		if !ok {
			return ""
		}
		switch {
		case isTokT(x.Type()) && k == tokAnd, isOpT(x.Type()) && k == opAnd:
			return "and"
		case isTokT(x.Type()) && k == tokOr, isOpT(x.Type()) && k == opOr:
			return "or"
		}
		return ""
	}
	// the binary-level function: tests both operator tokens
	var binFn *ssa.Function
	for _, fn := range p.KetoFuncs(schemaRel) {
		if fn.Parent() != nil {
			continue
		}
		hasAnd, hasOr := false, false
		core.Instrs(fn, func(_ *ssa.BasicBlock, _ int, ins ssa.Instruction) {
			if bo, ok := ins.(*ssa.BinOp); ok && bo.Op == token.EQL {
				_, x, y, _ := core.BinCmp(bo)
				if isTokT(x.Type()) {
					switch kindOf(x, y) {
					case "and":
						hasAnd = true
					case "or":
						hasOr = true
					}
				}
			}
		})
		// the label mapper (token -> ast.Operator) is not the parser
		if res := fn.Signature.Results(); res.Len() == 1 && isOpT(res.At(0).Type()) {
			continue
		}
		if hasAnd && hasOr && (binFn == nil || strings.Contains(fn.Name(), "Expression")) {
			binFn = fn
		}
	}
	if binFn == nil {
		r.Undecide("R10.1", "", "anchor expression parser", "", "no function of package schema tests both binary operator tokens")
		return
	}
	// the expression parser: binFn and what it reaches inside the package
	inParser := map[*ssa.Function]bool{binFn: true}
	work := []*ssa.Function{binFn}
	for len(work) > 0 {
		f := work[0]
		work = work[1:]
		core.Instrs(f, func(_ *ssa.BasicBlock, _ int, ins ssa.Instruction) {
			if ci, ok := ins.(ssa.CallInstruction); ok {
				if sc := ci.Common().StaticCallee(); sc != nil && !inParser[sc] && core.FuncPkg(sc) != nil && core.FuncPkg(sc).Path() == pkgPath {
					inParser[sc] = true
					work = append(work, sc)
				}
			}
		})
	}
	// ---- R10.1
	type test struct {
		kind string
		dest *ssa.BasicBlock
		pos  token.Pos
		fn   *ssa.Function
	}
	var tests []test
	ordering := false
	for f := range inParser {
		if res := f.Signature.Results(); res.Len() == 1 && isOpT(res.At(0).Type()) {
			continue // token -> label
		}
		for _, b := range f.Blocks {
			if len(b.Instrs) == 0 {
				continue
			}
			ifi, ok := b.Instrs[len(b.Instrs)-1].(*ssa.If)
			if !ok {
				continue
			}
			op, x, y, ok := core.BinCmp(ifi.Cond)
			if !ok {
				continue
			}
			switch op {
			case token.EQL, token.NEQ:
				if k := kindOf(x, y); k != "" {
					dest := b.Succs[0]
					if op == token.NEQ {
						dest = b.Succs[1]
					}
					tests = append(tests, test{k, dest, ifi.Cond.Pos(), f})
				}
			case token.LSS, token.LEQ, token.GTR, token.GEQ:
				// a precedence comparison: an operand derived from an operator token / label
				var derived func(v ssa.Value, d int) bool
				derived = func(v ssa.Value, d int) bool {
					if v == nil || d > 6 {
						return false
					}
					if isTokT(v.Type()) || isOpT(v.Type()) {
						return true
					}
					switch z := v.(type) {
					case *ssa.Call:
						for _, a := range z.Call.Args {
							if derived(a, d+1) {
								return true
							}
						}
					case *ssa.Lookup:
						return derived(z.Index, d+1)
					case *ssa.UnOp:
						return derived(z.X, d+1)
					case *ssa.IndexAddr:
						return derived(z.Index, d+1)
					case *ssa.Convert:
						return derived(z.X, d+1)
					case *ssa.Extract:
						return derived(z.Tuple, d+1)
					case *ssa.Phi:
						for _, e := range z.Edges {
							if derived(e, d+1) {
								return true
							}
						}
					}
					return false
				}
				if derived(x, 0) || derived(y, 0) {
					ordering = true
				}
			}
		}
	}
	separating := ordering
	var sepPos token.Pos
	for _, t := range tests {
		shared := false
		for _, u := range tests {
			if u.kind != t.kind && u.fn == t.fn && u.dest == t.dest {
				shared = true
			}
		}
		if !shared {
			separating = true
			sepPos = t.pos
		}
	}
	pos := p.Pos(binFn.Pos())
	if sepPos.IsValid() {
		pos = p.Pos(sepPos)
	}
	r.Check(separating, "R10.1", core.FuncName(binFn), "tree shape depends on the binary operator", pos,
		fmt.Sprintf("a branch of the expression parser separates '&&' from '||' (%d operator tests in %d functions)", len(tests), len(inParser)),
		fmt.Sprintf("every test of the operator token in the expression parser sends '&&' and '||' to the same code (%d tests), and no precedence comparison exists: the two operators differ only in the label stored in the node, so 'a || b && c' and 'a && b || c' get the same shape and '&&' cannot bind tighter than '||' (TypeScript: a || (b && c))", len(tests)))

	// ---- R10.2
	var notFns []*ssa.Function
	for f := range inParser {
		builds := false
		core.Instrs(f, func(_ *ssa.BasicBlock, _ int, ins ssa.Instruction) {
			if al, ok := ins.(*ssa.Alloc); ok {
				if pt, ok := al.Type().Underlying().(*types.Pointer); ok && core.IsNamed(pt.Elem(), astPkg, "InvertResult") {
					builds = true
				}
			}
		})
		if builds {
			notFns = append(notFns, f)
		}
	}
	if len(notFns) == 0 {
		r.Undecide("R10.2", "", "anchor negation builder", "", "no function of the expression parser builds ast.InvertResult")
	}
	for _, f := range notFns {
		var bad []string
		n := 0
		core.Instrs(f, func(_ *ssa.BasicBlock, _ int, ins ssa.Instruction) {
			call, ok := ins.(*ssa.Call)
			if !ok || call.Call.StaticCallee() != binFn {
				return
			}
			n++
			okClose := false
			for _, a := range call.Call.Args {
				if isTokT(a.Type()) {
					if k, isK := core.IntConst(a); isK && k == tokParenR {
						okClose = true
					}
				}
			}
			if !okClose {
				bad = append(bad, fmt.Sprintf("%s: the operand of '!' is parsed by the binary-operator level without ')' as its closing token", p.Pos(call.Pos())))
			}
		})
		if f == binFn {
			continue // the '!' case of the loop delegates to the builder; judged there
		}
		r.Check(len(bad) == 0, "R10.2", core.FuncName(f), "operand of '!'", p.Pos(f.Pos()),
			fmt.Sprintf("the negated child is a single operand or a parenthesised group (%d group call(s) closed by ')')", n),
			strings.Join(bad, "; ")+": '!a && b' would negate 'a && b' (TypeScript: (!a) && b)")
	}

	r104(c)

	// ---- R10.3
	// (a) '(' recursion closes on ')'
	nRec, badRec := 0, 0
	core.Instrs(binFn, func(b *ssa.BasicBlock, _ int, ins ssa.Instruction) {
		call, ok := ins.(*ssa.Call)
		if !ok || call.Call.StaticCallee() != binFn {
			return
		}
		nRec++
		okClose, underParen := false, false
		for _, a := range call.Call.Args {
			if isTokT(a.Type()) {
				if k, isK := core.IntConst(a); isK && k == tokParenR {
					okClose = true
				}
			}
		}
		for _, cd := range core.CondsAt(b) {
			if op, x, y, ok := cd.Holds(); ok && op == token.EQL && isTokT(x.Type()) {
				if k, isK := core.IntConst(y); isK && k == tokParenL {
					underParen = true
				}
			}
		}
		if !okClose || !underParen {
			badRec++
		}
	})
	r.Check(nRec >= 1 && badRec == 0, "R10.3", core.FuncName(binFn), "parenthesised group", p.Pos(binFn.Pos()),
		"a '(' recurses into the expression parser with ')' as the closing token", "the recursion for a parenthesised group is not entered on '(' with ')' as its closing token: parentheses do not delimit a sub-expression")
	// (b) flattening only under operator equality
	var flat *ssa.Function
	for _, fn := range p.KetoFuncs(schemaRel) {
		if fn.Parent() != nil || len(fn.Params) != 1 {
			continue
		}
		// a self-recursive function over *ast.SubjectSetRewrite that stores Children
		rec, stores := false, false
		core.Instrs(fn, func(_ *ssa.BasicBlock, _ int, ins ssa.Instruction) {
			if ci, ok := ins.(ssa.CallInstruction); ok && ci.Common().StaticCallee() == fn {
				rec = true
			}
			if st, ok := ins.(*ssa.Store); ok {
				if fa, ok := st.Addr.(*ssa.FieldAddr); ok {
					if fv := fieldVarOf(fa); fv != nil && fv.Name() == "Children" {
						stores = true
					}
				}
			}
		})
		if rec && stores {
			flat = fn
		}
	}
	if flat == nil {
		r.Discharge("R10.3", "", "flattening pass", "", "no pass merges children into their parent (nothing to check)")
		return
	}
	// the recursive merge (append of the child's children) is dominated by child.Operation == root.Operation
	okEq, nMerge := true, 0
	core.Instrs(flat, func(b *ssa.BasicBlock, _ int, ins ssa.Instruction) {
		ci, ok := ins.(ssa.CallInstruction)
		if !ok || ci.Common().StaticCallee() != flat {
			return
		}
		nMerge++
		dom := false
		for _, cd := range core.CondsAt(b) {
			op, x, y, ok := core.BinCmp(cd.V)
			if !ok || !isOpT(x.Type()) || !isOpT(y.Type()) {
				continue
			}
			if _, isK := y.(*ssa.Const); isK {
				continue
			}
			if (op == token.EQL && cd.True) || (op == token.NEQ && !cd.True) {
				dom = true
			}
		}
		if !dom {
			okEq = false
		}
	})
	r.Check(okEq && nMerge >= 1, "R10.3", core.FuncName(flat), "flattening only of equal operators", p.Pos(flat.Pos()),
		"a child is merged into its parent only where their operators were compared equal", "a child expression is merged into its parent without a test that both have the same operator: '(a || b) && c' loses its grouping")
}

// ---- R10.4 sibling arms agree on the optional separator ------------------------------------------

// r104: alternatives of the grammar are parsed by sibling arms of a switch (or
// of an if/else-if chain). If one arm of a dispatch accepts an optional ','
// (a matcher built by optional(",")) after what it parsed, every sibling arm
// that also goes on parsing must accept it too; an arm that differs rejects an
// input that the others accept in the same position. (Cross-checking sibling
// implementations: Engler et al.) Decided on the typed syntax tree: arms are
// case clauses or the branches of an if/else-if chain.
func r104(c *Ctx) {
	p, r := c.P, c.R
	pkg := p.Pkg(schemaRel)
	if pkg == nil {
		r.Undecide("R10.4", "", "anchor package schema", "", "not loaded")
		return
	}
	info := pkg.TypesInfo
	isOptComma := func(n ast.Node) bool {
		call, ok := n.(*ast.CallExpr)
		if !ok || len(call.Args) == 0 {
			return false
		}
		id, ok := unparen(call.Fun).(*ast.Ident)
		if !ok || id.Name != "optional" {
			return false
		}
		if _, isFn := info.Uses[id].(*types.Func); !isFn {
			return false
		}
		s, ok := core.ConstString(info, call.Args[0])
		return ok && s == "," && len(call.Args) == 1
	}
	isMatch := func(n ast.Node) bool {
		call, ok := n.(*ast.CallExpr)
		if !ok {
			return false
		}
		sel, ok := call.Fun.(*ast.SelectorExpr)
		return ok && (sel.Sel.Name == "match" || sel.Sel.Name == "matchIf" || sel.Sel.Name == "matchPropertyAccess")
	}
	type armInfo struct {
		pos             token.Pos
		opt, parses, ok bool
	}
	judge := func(body []ast.Stmt, pos token.Pos) armInfo {
		a := armInfo{pos: pos, ok: true}
		for _, st := range body {
			ast.Inspect(st, func(n ast.Node) bool {
				switch n.(type) {
				case *ast.FuncLit, *ast.SwitchStmt, *ast.TypeSwitchStmt:
					return false // a nested dispatch is judged on its own
				}
				if isOptComma(n) {
					a.opt = true
				}
				if isMatch(n) {
					a.parses = true
				}
				return true
			})
		}
		return a
	}
	nDispatch, nArms := 0, 0
	report := func(fd *ast.FuncDecl, where token.Pos, arms []armInfo) {
		var with, without []string
		for _, a := range arms {
			if !a.parses {
				continue
			}
			if a.opt {
				with = append(with, p.Pos(a.pos))
			} else {
				without = append(without, p.Pos(a.pos))
			}
		}
		if len(with) == 0 {
			return // no arm of this dispatch takes the separator: nothing to cross-check
		}
		nDispatch++
		nArms += len(with) + len(without)
		fname := schemaRel + "." + fd.Name.Name
		if fd.Recv != nil && len(fd.Recv.List) > 0 {
			fname = "(*" + schemaRel + ".parser)." + fd.Name.Name
		}
		r.Check(len(without) == 0, "R10.4", fname, "sibling arms agree on the optional ','", p.Pos(where),
			fmt.Sprintf("all %d parsing arms of the dispatch accept the optional separator", len(with)),
			fmt.Sprintf("%d arm(s) of this dispatch accept an optional ',' after what they parse (%s) but %d sibling arm(s) that also go on parsing do not (%s): the same position accepts a ',' for one spelling and rejects it for another", len(with), strings.Join(with, ", "), len(without), strings.Join(without, ", ")))
	}
	for _, f := range pkg.Syntax {
		for _, d := range f.Decls {
			fd, ok := d.(*ast.FuncDecl)
			if !ok || fd.Body == nil {
				continue
			}
			elseIf := map[*ast.IfStmt]bool{}
			ast.Inspect(fd.Body, func(n ast.Node) bool {
				switch x := n.(type) {
				case *ast.SwitchStmt:
					var arms []armInfo
					for _, cc := range x.Body.List {
						cl := cc.(*ast.CaseClause)
						arms = append(arms, judge(cl.Body, cl.Pos()))
					}
					report(fd, x.Pos(), arms)
				case *ast.IfStmt:
					if elseIf[x] {
						return true
					}
					var arms []armInfo
					for cur := x; cur != nil; {
						arms = append(arms, judge(cur.Body.List, cur.Body.Pos()))
						switch el := cur.Else.(type) {
						case *ast.IfStmt:
							elseIf[el] = true
							cur = el
						case *ast.BlockStmt:
							arms = append(arms, judge(el.List, el.Pos()))
							cur = nil
						default:
							cur = nil
						}
					}
					if len(arms) >= 2 {
						report(fd, x.Pos(), arms)
					}
				}
				return true
			})
		}
	}
	if nDispatch == 0 {
		r.Discharge("R10.4", "", "sibling arms agree on the optional ','", "", "no dispatch of the parser accepts an optional separator in some arm (nothing to cross-check)")
	}
}
