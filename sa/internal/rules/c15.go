package rules

import (
	"fmt"
	"go/token"
	"go/types"
	"sort"
	"strings"

	"golang.org/x/tools/go/ssa"

	"ketosa/internal/core"
)

func init() {
	Register(&Property{
		ID: "C15",
		Explanation: "Decides five structural necessary conditions of 'every check terminates, honours cancellation and releases its goroutines': (R15.1) every function of type checkgroup.CheckFunc delivers exactly one result on its result channel on every path to return; (R15.2) no goroutine can be left blocked on a send because its receiver may walk away (channel capacity vs select-with-ctx.Done receivers; synchronous senders need capacity); (R15.3) the checkgroup consumer's counted drain, cancel and close(doneCh) run on every exit; (R15.4) every blocking channel operation in check/checkgroup is in a cancellable class; (R15.7) the traversal's internal paging advances (cursor column selected, strict '>', continuation from the last row) and the engine's page loops feed the returned token forward, so no page is fetched forever; (R15.6) every lock taken on the check path (visited set, check group, configuration, registry) is released on every path to a return; (R15.5) every recursive cycle among the engine functions carries a lexicographic (depth, AST node) decreasing measure and a depth guard. " +
			"Not decided: the quantitative bound on the number of storage operations (pagination of tuple-to-subject-set and traversal are run-time quantities), promptness in wall-clock time.",
		Assumptions: []string{
			"go/ssa CFG is faithful; select lowering as documented by x/tools",
			"a CheckFunc value invoked with a result channel delivers exactly once (proved per function by R15.1, used inductively at delegation sites)",
			"namespace ASTs are finite trees (the parser builds them bottom-up), so a strict descent into a child terminates",
		},
		Run: runC15,
	})
}

const (
	checkPkg      = core.KetoMod + "/internal/check"
	checkgroupPkg = core.KetoMod + "/internal/check/checkgroup"
)

func checkFuncSig(p *core.Program) *types.Signature {
	t := p.LookupType(checkgroupPkg, "CheckFunc")
	if t == nil {
		return nil
	}
	s, _ := t.Underlying().(*types.Signature)
	return s
}

func isCheckFuncTyped(fn *ssa.Function, sig *types.Signature) bool {
	return sig != nil && core.SigIdentical(fn.Signature, sig)
}

// engineFuncs: functions (with closures) of check and checkgroup.
func engineFuncs(p *core.Program) []*ssa.Function {
	var out []*ssa.Function
	out = append(out, p.KetoFuncs("internal/check")...)
	out = append(out, p.KetoFuncs("internal/check/checkgroup")...)
	return out
}

func runC15(c *Ctx) {
	sig := checkFuncSig(c.P)
	if sig == nil {
		c.R.Undecide("R15.1", "", "anchor checkgroup.CheckFunc", "", "type checkgroup.CheckFunc not found")
		return
	}
	r151(c, sig)
	r152(c, sig)
	r153(c)
	r154(c, sig)
	r155(c)
	// R15.6 no lock on the check path is left held on an exit: a blocked Lock() cannot be cancelled
	lockPairing(c, "R15.6", []string{"internal/x/graph", "internal/check", "internal/check/checkgroup", "internal/driver/config", "internal/driver", "internal/relationtuple", "internal/persistence/sql"})
	// R15.7 the page loops of the storage layer make progress: cursor/ORDER BY/LIMIT agreement of the traversal (the C07 rule)
	c.R.SubRun(func() { runC07(c) }, map[string]string{"R07.2": "R15.7", "R07.5": "R15.7"})
}

// ---- R15.1 exactly-once delivery ---------------------------------------------------

// deliveryEvents returns the PathCount classifiers for deliveries on ch within fn.
func deliveryEvents(fn *ssa.Function, isCh func(ssa.Value) bool, sig *types.Signature, odd *[]string) (func(ssa.Instruction) int, func(*ssa.Defer) int) {
	var event func(ssa.Instruction) int
	var deferred func(*ssa.Defer) int
	callDelivers := func(cc *ssa.CallCommon) int {
		n := 0
		for _, a := range cc.Args {
			if isCh(a) {
				n++
			}
		}
		if n == 0 {
			return 0
		}
		// the callee takes over the delivery: it must be CheckFunc-typed
		var csig *types.Signature
		if cc.IsInvoke() {
			csig, _ = cc.Method.Type().(*types.Signature)
		} else {
			csig, _ = cc.Value.Type().Underlying().(*types.Signature)
		}
		if csig == nil || !core.SigIdentical(csig, sig) {
			*odd = append(*odd, "result channel handed to a callee that is not a CheckFunc: "+cc.String())
			return 2
		}
		return n
	}
	event = func(ins ssa.Instruction) int {
		switch x := ins.(type) {
		case *ssa.Send:
			if isCh(x.Chan) {
				return 1
			}
		case *ssa.Call:
			return callDelivers(x.Common())
		case *ssa.Go:
			return callDelivers(x.Common())
		case *ssa.Select:
			for _, st := range x.States {
				if st.Dir == types.SendOnly && isCh(st.Chan) {
					*odd = append(*odd, "delivery inside a select")
					return 2
				}
			}
		}
		return 0
	}
	deferred = func(d *ssa.Defer) int {
		cc := d.Common()
		if mc, ok := cc.Value.(*ssa.MakeClosure); ok {
			cf := mc.Fn.(*ssa.Function)
			inner := func(v ssa.Value) bool {
				o := core.ValueOrigin(v)
				return isCh(o)
			}
			ev, df := deliveryEvents(cf, inner, sig, odd)
			res := core.PathCount(cf, ev, df, nil)
			lo, hi := 2, 0
			for _, iv := range res {
				if iv.Lo < lo {
					lo = iv.Lo
				}
				if iv.Hi > hi {
					hi = iv.Hi
				}
			}
			if len(res) == 0 {
				return 0
			}
			if lo == hi {
				return lo
			}
			*odd = append(*odd, fmt.Sprintf("deferred closure delivers between %d and %d times", lo, hi))
			return 2
		}
		return callDelivers(cc)
	}
	return event, deferred
}

func r151(c *Ctx, sig *types.Signature) {
	p, r := c.P, c.R
	for _, fn := range engineFuncs(p) {
		if !isCheckFuncTyped(fn, sig) || len(fn.Params) < 2 {
			continue
		}
		ch := fn.Params[len(fn.Params)-1]
		isCh := func(v ssa.Value) bool { return core.ValueOrigin(v) == ssa.Value(ch) }
		var odd []string
		ev, df := deliveryEvents(fn, isCh, sig, &odd)
		res := core.PathCount(fn, ev, df, nil)
		name := core.FuncName(fn)
		if len(res) == 0 {
			r.Undecide("R15.1", name, "deliver on "+ch.Name(), p.Pos(fn.Pos()), "CheckFunc has no return")
			continue
		}
		var rets []*ssa.Return
		for ret := range res {
			rets = append(rets, ret)
		}
		sort.Slice(rets, func(i, j int) bool { return rets[i].Pos() < rets[j].Pos() })
		bad := false
		for _, ret := range rets {
			iv := res[ret]
			if iv.Lo == 1 && iv.Hi == 1 {
				continue
			}
			bad = true
			pos := ret.Pos()
			if !pos.IsValid() {
				pos = lastPosIn(ret.Block())
			}
			what := "may return without delivering a result (the caller then waits until its context ends)"
			if iv.Lo >= 1 {
				what = "may deliver more than one result (the second send blocks or corrupts the group's count)"
			} else if iv.Hi > 1 {
				what = "delivers between 0 and many results depending on the path"
			}
			r.Violate("R15.1", name, "deliver on "+ch.Name(), p.Pos(pos), fmt.Sprintf("a path to this return delivers [%d,%d] results: %s", iv.Lo, iv.Hi, what), odd...)
		}
		if !bad {
			r.Discharge("R15.1", name, "deliver on "+ch.Name(), p.Pos(fn.Pos()), fmt.Sprintf("exactly one delivery on each of %d return paths", len(res)))
		}
	}
	r.Floor("R15.1", 13, "6 engine closures, checkNotImplemented, 6 in checkgroup")
}

func lastPosIn(b *ssa.BasicBlock) token.Pos {
	var pos token.Pos
	for _, ins := range b.Instrs {
		if ins.Pos().IsValid() {
			pos = ins.Pos()
		}
	}
	if !pos.IsValid() {
		for d := b.Idom(); d != nil && !pos.IsValid(); d = d.Idom() {
			for _, ins := range d.Instrs {
				if ins.Pos().IsValid() {
					pos = ins.Pos()
				}
			}
		}
	}
	return pos
}

// ---- R15.2 abandoned sender --------------------------------------------------------

type chanUse struct {
	fn   *ssa.Function
	ins  ssa.Instruction
	kind string // go-sender | sync-sender | recv | recv-select | send | close | other
}

// usesOfChan collects the uses of a locally made channel (through its cell and
// closures).
func usesOfChan(mk *ssa.MakeChan) []chanUse {
	var uses []chanUse
	seen := map[ssa.Value]bool{}
	var follow func(v ssa.Value)
	follow = func(v ssa.Value) {
		if v == nil || seen[v] || v.Referrers() == nil {
			return
		}
		seen[v] = true
		for _, ref := range *v.Referrers() {
			fn := ref.Parent()
			switch x := ref.(type) {
			case *ssa.Store:
				if x.Val == v {
					if a, ok := x.Addr.(*ssa.Alloc); ok {
						for _, ld := range core.CellLoads(a) {
							follow(ld)
						}
					} else {
						uses = append(uses, chanUse{fn, ref, "escape"})
					}
				}
			case *ssa.ChangeType:
				follow(x)
			case *ssa.Phi:
				follow(x)
			case *ssa.MakeInterface:
				uses = append(uses, chanUse{fn, ref, "escape"})
			case *ssa.Go:
				uses = append(uses, chanUse{fn, ref, "go-sender"})
			case *ssa.Call:
				if b, ok := x.Call.Value.(*ssa.Builtin); ok {
					if b.Name() == "close" {
						uses = append(uses, chanUse{fn, ref, "close"})
					}
					continue
				}
				uses = append(uses, chanUse{fn, ref, "sync-sender"})
			case *ssa.Defer:
				uses = append(uses, chanUse{fn, ref, "deferred-call"})
			case *ssa.UnOp:
				if x.Op == token.ARROW {
					uses = append(uses, chanUse{fn, ref, "recv"})
				}
			case *ssa.Send:
				if x.Chan == v {
					uses = append(uses, chanUse{fn, ref, "send"})
				}
			case *ssa.Select:
				for _, st := range x.States {
					if st.Chan == v {
						k := "recv-select"
						if st.Dir == types.SendOnly {
							k = "send-select"
						}
						if len(x.States) == 1 && x.Blocking {
							k = strings.TrimSuffix(k, "-select")
						}
						uses = append(uses, chanUse{fn, ref, k})
					}
				}
			case *ssa.MakeClosure:
				cf := x.Fn.(*ssa.Function)
				for i, b := range x.Bindings {
					if b == v && i < len(cf.FreeVars) {
						follow(cf.FreeVars[i])
					}
				}
			case *ssa.Return:
				uses = append(uses, chanUse{fn, ref, "escape"})
			}
		}
	}
	follow(mk)
	return uses
}

func r152(c *Ctx, sig *types.Signature) {
	p, r := c.P, c.R
	for _, fn := range engineFuncs(p) {
		core.Instrs(fn, func(_ *ssa.BasicBlock, _ int, ins ssa.Instruction) {
			mk, ok := ins.(*ssa.MakeChan)
			if !ok {
				return
			}
			capacity := int64(-1)
			if k, ok := core.IntConst(mk.Size); ok {
				capacity = k
			}
			uses := usesOfChan(mk)
			var goSenders, syncSenders, plainRecv, selRecv, escapes int
			goInLoop := false
			hasDrain := false
			for _, u := range uses {
				switch u.kind {
				case "go-sender":
					goSenders++
					if core.InLoop(u.ins.Block()) {
						goInLoop = true
					}
					// a go of a drain function (receives only) is not a sender
					if g := u.ins.(*ssa.Go); g.Call.StaticCallee() != nil && isDrainFunc(g.Call.StaticCallee()) {
						goSenders--
						hasDrain = true
					}
				case "recv":
					plainRecv++
					// the drain written in place: go func() { for ...; n-- { <-ch } }() - a closure
					// that only receives and is started as a goroutine
					if u.fn != fn && u.fn.Parent() != nil && isDrainFunc(u.fn) && startedByGo(u.fn) {
						plainRecv--
						hasDrain = true
					}
				case "sync-sender":
					syncSenders++
				case "recv-select":
					selRecv++
				case "escape":
					escapes++
				}
			}
			name := core.FuncName(fn)
			elem := mk.Type().(*types.Chan).Elem().String()
			construct := fmt.Sprintf("make(chan %s)", shortType(elem))
			pos := p.Pos(mk.Pos())
			if escapes > 0 {
				// stored in a struct field or returned: owned by an object, audited by R15.4
				r.Discharge("R15.2", name, construct, pos, "channel belongs to an object (field/return); its operations are audited by R15.4")
				return
			}
			if goSenders == 0 && syncSenders == 0 {
				r.Discharge("R15.2", name, construct, pos, "channel is not handed to any sender")
				return
			}
			facts := []string{fmt.Sprintf("capacity=%d go-senders=%d (in loop: %v) synchronous senders=%d plain receives=%d select receives=%d drain=%v", capacity, goSenders, goInLoop, syncSenders, plainRecv, selRecv, hasDrain)}
			switch {
			case capacity < 0:
				r.Undecide("R15.2", name, construct, pos, "channel capacity is not a constant", facts...)
			case syncSenders > 0 && capacity < 1:
				r.Violate("R15.2", name, construct, pos, "a CheckFunc is called synchronously with this unbuffered channel and the receive comes afterwards: the send can never complete", facts...)
			case goSenders > 0 && plainRecv == 0 && selRecv > 0 && !goInLoop && capacity < 1:
				r.Violate("R15.2", name, construct, pos, "abandoned sender: the goroutine started with this unbuffered channel sends exactly once, but the only receive sits in a select next to ctx.Done(); when the context ends first the function returns and the goroutine blocks in 'chan send' forever", facts...)
			case goInLoop && !hasDrain:
				r.Violate("R15.2", name, construct, pos, "several senders are started on this channel in a loop and the receiver can leave early, but no counted drain is deferred: senders after the first block forever", facts...)
			default:
				r.Discharge("R15.2", name, construct, pos, "every sender can complete its single send even if the receiver has left", facts...)
			}
		})
	}
	r.Floor("R15.2", 6, "CheckRelationTuple, checkInverted, or, and, WithEdge, the consumer's resultCh")
}

func shortType(s string) string {
	return strings.ReplaceAll(s, core.KetoMod+"/internal/check/", "")
}

// isDrainFunc: a function with a (<-chan T, n int) shape that only receives.
func isDrainFunc(fn *ssa.Function) bool {
	if fn.Blocks == nil {
		return false
	}
	recv, send := 0, 0
	core.Instrs(fn, func(_ *ssa.BasicBlock, _ int, ins ssa.Instruction) {
		switch x := ins.(type) {
		case *ssa.UnOp:
			if x.Op == token.ARROW {
				recv++
			}
		case *ssa.Send:
			send++
		}
	})
	return recv > 0 && send == 0
}

// ---- R15.3 counted drain -----------------------------------------------------------

func r153(c *Ctx) {
	p, r := c.P, c.R
	found := 0
	for _, fn := range p.KetoFuncs("internal/check/checkgroup") {
		// the consumer: a function with a blocking select that receives on a
		// locally made Result channel and starts goroutines on it in a loop
		var mk *ssa.MakeChan
		core.Instrs(fn, func(_ *ssa.BasicBlock, _ int, ins ssa.Instruction) {
			if m, ok := ins.(*ssa.MakeChan); ok {
				if core.IsNamed(m.Type().(*types.Chan).Elem(), checkgroupPkg, "Result") {
					mk = m
				}
			}
		})
		if mk == nil {
			continue
		}
		uses := usesOfChan(mk)
		var gos []*ssa.Go
		var sels []*ssa.Select
		for _, u := range uses {
			if u.fn != fn {
				continue
			}
			switch x := u.ins.(type) {
			case *ssa.Go:
				if core.InLoop(x.Block()) {
					gos = append(gos, x)
				}
			case *ssa.Select:
				sels = append(sels, x)
			}
		}
		if len(gos) == 0 || len(sels) == 0 {
			continue
		}
		found++
		name := core.FuncName(fn)
		// the deferred drain: a deferred closure that receives from the result channel as many
		// times as senders are outstanding - by calling (or starting) a drain function with that
		// count, or by a receive loop of its own. The count is a linear expression over counters of
		// the consumer (started - finished, or one counter of pending results).
		var drain *ssa.Function     // the function that loops
		var countFV *ssa.FreeVar    // for a drain closure: the captured count it loops over
		lin := map[*ssa.Alloc]int{} // the count as sum of coefficient * counter
		var deferredCancel, deferredClose bool
		var linOf func(v ssa.Value, sign int, depth int, out map[*ssa.Alloc]int) bool
		linOf = func(v ssa.Value, sign int, depth int, out map[*ssa.Alloc]int) bool {
			if depth > 6 {
				return false
			}
			if bo, ok := v.(*ssa.BinOp); ok {
				switch bo.Op {
				case token.SUB:
					return linOf(bo.X, sign, depth+1, out) && linOf(bo.Y, -sign, depth+1, out)
				case token.ADD:
					return linOf(bo.X, sign, depth+1, out) && linOf(bo.Y, sign, depth+1, out)
				}
				return false
			}
			a, ok := cellOfLoad(v)
			if !ok {
				return false
			}
			if a.Parent() == fn {
				out[a] += sign
				return true
			}
			// a copy taken in the deferred closure: outstanding := pending
			if sts := core.CellStores(a); len(sts) == 1 {
				return linOf(sts[0].Val, sign, depth+1, out)
			}
			return false
		}
		core.Instrs(fn, func(_ *ssa.BasicBlock, _ int, ins ssa.Instruction) {
			d, ok := ins.(*ssa.Defer)
			if !ok {
				return
			}
			if b, ok := d.Call.Value.(*ssa.Builtin); ok && b.Name() == "close" {
				if fa, ok := fieldOfLoad(d.Call.Args[0]); ok && fa == "doneCh" {
					deferredClose = true
				}
				return
			}
			if fa, ok := fieldOfLoad(d.Call.Value); ok && fa == "cancel" {
				deferredCancel = true
				return
			}
			mc, ok := d.Call.Value.(*ssa.MakeClosure)
			if !ok {
				return
			}
			cf := mc.Fn.(*ssa.Function)
			core.Instrs(cf, func(_ *ssa.BasicBlock, _ int, in2 ssa.Instruction) {
				ci, ok := in2.(ssa.CallInstruction)
				if !ok {
					return
				}
				// (a) drainFunc(resultCh, <count>)
				if sc := ci.Common().StaticCallee(); sc != nil && isDrainFunc(sc) && len(ci.Common().Args) == 2 {
					if _, isLit := ci.Common().Value.(*ssa.MakeClosure); !isLit {
						if core.ValueOrigin(ci.Common().Args[0]) != ssa.Value(mk) {
							return
						}
						l := map[*ssa.Alloc]int{}
						if linOf(ci.Common().Args[1], 1, 0, l) && len(l) > 0 {
							drain, lin = sc, l
						}
						return
					}
				}
				// (b) go func() { for ; n > 0; n-- { <-resultCh } }() with n a captured copy of the count
				lit, ok := ci.Common().Value.(*ssa.MakeClosure)
				if !ok {
					return
				}
				lf := lit.Fn.(*ssa.Function)
				if !isDrainFunc(lf) {
					return
				}
				receivesCh := false
				for i, bnd := range lit.Bindings {
					if i >= len(lf.FreeVars) {
						continue
					}
					if chanCell, ok := core.ValueOrigin(bnd).(*ssa.Alloc); ok {
						for _, st := range core.CellStores(chanCell) {
							if core.ValueOrigin(st.Val) == ssa.Value(mk) {
								receivesCh = true
							}
						}
					}
					if fvb, ok := bnd.(*ssa.FreeVar); ok {
						if chanCell, ok := core.FreeVarBinding(fvb).(*ssa.Alloc); ok {
							for _, st := range core.CellStores(chanCell) {
								if core.ValueOrigin(st.Val) == ssa.Value(mk) {
									receivesCh = true
								}
							}
						}
					}
					if core.ValueOrigin(bnd) == ssa.Value(mk) {
						receivesCh = true
					}
				}
				if !receivesCh {
					return
				}
				for i, bnd := range lit.Bindings {
					cell, ok := bnd.(*ssa.Alloc)
					if !ok || i >= len(lf.FreeVars) || cell.Parent() != cf {
						continue
					}
					if pt, ok := cell.Type().Underlying().(*types.Pointer); !ok || !types.Identical(pt.Elem(), types.Typ[types.Int]) {
						continue
					}
					// the copy is taken in the deferred closure, before the goroutine starts
					var initial ssa.Value
					n := 0
					for _, st := range core.CellStores(cell) {
						if st.Parent() == cf {
							initial = st.Val
							n++
						}
					}
					if n != 1 {
						continue
					}
					l := map[*ssa.Alloc]int{}
					if linOf(initial, 1, 0, l) && len(l) > 0 {
						drain, lin, countFV = lf, l, lf.FreeVars[i]
					}
				}
			})
		})
		r.Check(deferredCancel, "R15.3", name, "defer g.cancel()", p.Pos(fn.Pos()),
			"the sub-check context is cancelled on every exit of the consumer", "the consumer does not defer the cancel of the sub-check context: sub-checks keep running after the group is done")
		r.Check(deferredClose, "R15.3", name, "defer close(g.doneCh)", p.Pos(fn.Pos()),
			"doneCh is closed on every exit, releasing every waiter", "the consumer does not defer close(doneCh): Result()/CheckFunc() waiters block forever on some exit")
		if drain == nil {
			r.Violate("R15.3", name, "deferred counted drain", p.Pos(fn.Pos()), "no deferred closure drains the result channel by (started - finished): sub-check goroutines that have not delivered yet block forever on their send")
			continue
		}
		var linDesc []string
		for a, cf := range lin {
			linDesc = append(linDesc, fmt.Sprintf("%+d*%s", cf, a.Comment))
		}
		sort.Strings(linDesc)
		r.Discharge("R15.3", name, "deferred counted drain", p.Pos(fn.Pos()), fmt.Sprintf("deferred closure drains the result channel %s times through %s", strings.Join(linDesc, " "), core.FuncName(drain)))
		// the drain loops exactly n times
		loopsOK := false
		if countFV == nil {
			loopsOK = drainLoopsN(drain)
		} else {
			loopsOK = drainClosureLoopsN(drain, countFV)
		}
		r.Check(loopsOK, "R15.3", core.FuncName(drain), "receives exactly n times", p.Pos(drain.Pos()),
			"the drain loop receives once per iteration, bounded by its count", "the drain does not receive exactly its count times")
		// the count goes up by one exactly where a sender is started and down by one exactly where a
		// result is received: per block, the sum of coefficient * (increments - decrements)
		delta := map[*ssa.BasicBlock]int{}
		stray := false
		for a, coef := range lin {
			for _, st := range core.CellStores(a) {
				if st.Parent() != fn {
					stray = true // written elsewhere
					continue
				}
				if b, ok := st.Val.(*ssa.BinOp); ok && (b.Op == token.ADD || b.Op == token.SUB) {
					if k, ok := core.IntConst(b.Y); ok && k == 1 {
						if ca, _ := cellOfLoad(b.X); ca == a {
							if b.Op == token.ADD {
								delta[st.Block()] += coef
							} else {
								delta[st.Block()] -= coef
							}
							continue
						}
					}
				}
				if k, ok := core.IntConst(st.Val); ok && k == 0 && st.Block() == fn.Blocks[0] {
					continue // initialisation
				}
				stray = true
			}
		}
		goBlocks := map[*ssa.BasicBlock]bool{}
		for _, g := range gos {
			goBlocks[g.Block()] = true
		}
		recvBlocks := map[*ssa.BasicBlock]bool{}
		for _, s := range sels {
			for i, st := range s.States {
				if core.ValueOrigin(st.Chan) == ssa.Value(mk) && st.Dir == types.RecvOnly {
					if b := selectArmBody(s, i); b != nil {
						recvBlocks[b] = true
					}
				}
			}
		}
		okT, okD := !stray, !stray
		for b := range goBlocks {
			if delta[b] != 1 {
				okT = false
			}
		}
		for b := range recvBlocks {
			if delta[b] != -1 {
				okD = false
			}
		}
		for b, d := range delta {
			if d > 0 && !goBlocks[b] {
				okT = false
			}
			if d < 0 && !recvBlocks[b] {
				okD = false
			}
		}
		r.Check(okT, "R15.3", name, "started-counter", p.Pos(fn.Pos()),
			"the drain count goes up by one exactly in the blocks that start a sender on the result channel",
			"the started counter is not incremented exactly where senders are started: the drain count is wrong (leaked sender or blocked drain)")
		r.Check(okD, "R15.3", name, "finished-counter", p.Pos(fn.Pos()),
			"the drain count goes down by one exactly in the select arm that received a result",
			"the finished counter is not incremented exactly where a result is received: the drain count is wrong")
	}
	if found == 0 {
		r.Undecide("R15.3", "", "checkgroup consumer", "", "no function in checkgroup has the consumer shape (Result channel made locally, senders started in a loop, select receive)")
	}
}

func fieldOfLoad(v ssa.Value) (string, bool) {
	u, ok := v.(*ssa.UnOp)
	if !ok || u.Op != token.MUL {
		return "", false
	}
	fa, ok := u.X.(*ssa.FieldAddr)
	if !ok {
		return "", false
	}
	pt, ok := fa.X.Type().Underlying().(*types.Pointer)
	if !ok {
		return "", false
	}
	st, ok := pt.Elem().Underlying().(*types.Struct)
	if !ok {
		return "", false
	}
	return st.Field(fa.Field).Name(), true
}

func cellOfLoad(v ssa.Value) (*ssa.Alloc, bool) {
	u, ok := v.(*ssa.UnOp)
	if !ok || u.Op != token.MUL {
		return nil, false
	}
	switch a := u.X.(type) {
	case *ssa.Alloc:
		return a, true
	case *ssa.FreeVar:
		if b, ok := core.FreeVarBinding(a).(*ssa.Alloc); ok {
			return b, true
		}
	}
	return nil, false
}

// selectArmBody returns the block entered when select state i fires.
func selectArmBody(s *ssa.Select, i int) *ssa.BasicBlock {
	if s.Referrers() == nil {
		return nil
	}
	for _, ref := range *s.Referrers() {
		ex, ok := ref.(*ssa.Extract)
		if !ok || ex.Index != 0 || ex.Referrers() == nil {
			continue
		}
		for _, r2 := range *ex.Referrers() {
			b, ok := r2.(*ssa.BinOp)
			if !ok || b.Op != token.EQL {
				continue
			}
			if k, ok := core.IntConst(b.Y); ok && int(k) == i && b.Referrers() != nil {
				for _, r3 := range *b.Referrers() {
					if ifi, ok := r3.(*ssa.If); ok {
						return ifi.Block().Succs[0]
					}
				}
			}
		}
	}
	return nil
}

func drainLoopsN(fn *ssa.Function) bool {
	// whatever the form of the loop (counting up to n, counting n down, ...): walking the function
	// with n = 0, 1, 2, 5 (and a negative n) executes the receive exactly max(n, 0) times
	if len(fn.Params) != 2 {
		return false
	}
	n := fn.Params[1]
	for _, k := range []int64{-1, 0, 1, 2, 5} {
		recv := int64(0)
		w := &core.Walker{Fn: fn}
		w.Oracle = func(v ssa.Value) (core.WVal, bool) {
			if v == ssa.Value(n) {
				return core.WInt(k), true
			}
			return core.WVal{}, false
		}
		w.OnInstr = func(ins ssa.Instruction, _ *core.Walker) bool {
			if u, ok := ins.(*ssa.UnOp); ok && u.Op == token.ARROW {
				recv++
			}
			return false
		}
		w.Run()
		want := k
		if want < 0 {
			want = 0
		}
		if w.Err != "" || recv != want {
			return false
		}
	}
	return true
}

// ---- R15.4 blocking-op audit -------------------------------------------------------

func r154(c *Ctx, sig *types.Signature) {
	p, r := c.P, c.R
	// field channels whose receiver sits in a select with a ctx.Done() arm
	recvMayWalkAway := map[string]string{}
	for _, fn := range engineFuncs(p) {
		core.Instrs(fn, func(_ *ssa.BasicBlock, _ int, ins ssa.Instruction) {
			sel, ok := ins.(*ssa.Select)
			if !ok {
				return
			}
			hasCtx := false
			for _, st := range sel.States {
				if core.IsCtxDone(st.Chan) {
					hasCtx = true
				}
			}
			if !hasCtx {
				return
			}
			for _, st := range sel.States {
				if st.Dir == types.RecvOnly {
					if f, ok := fieldOfLoad(st.Chan); ok {
						recvMayWalkAway[f] = core.FuncName(fn)
					}
				}
			}
		})
	}
	for _, fn := range engineFuncs(p) {
		name := core.FuncName(fn)
		isCF := isCheckFuncTyped(fn, sig)
		core.Instrs(fn, func(b *ssa.BasicBlock, _ int, ins ssa.Instruction) {
			switch x := ins.(type) {
			case *ssa.Select:
				if !x.Blocking {
					return
				}
				hasCtx, hasDone := false, false
				var arms []string
				for _, st := range x.States {
					if core.IsCtxDone(st.Chan) {
						hasCtx = true
						arms = append(arms, "ctx.Done()")
						continue
					}
					if f, ok := fieldOfLoad(st.Chan); ok {
						arms = append(arms, f)
						if f == "doneCh" {
							hasDone = true
						}
					} else {
						arms = append(arms, st.Chan.Name())
					}
				}
				construct := "select[" + strings.Join(arms, ",") + "]"
				switch {
				case hasCtx:
					r.Discharge("R15.4", name, construct, p.Pos(x.Pos()), "blocking select has a ctx.Done() arm")
				case hasDone:
					r.Discharge("R15.4", name, construct, p.Pos(x.Pos()), "blocking select has a doneCh arm; doneCh is closed on every consumer exit (R15.3) and the consumer's own select has a ctx.Done() arm")
				default:
					r.Undecide("R15.4", name, construct, p.Pos(x.Pos()), "blocking select without a ctx.Done() or doneCh arm: not in a recognised cancellable class")
				}
			case *ssa.Send:
				o := core.ValueOrigin(x.Chan)
				construct := "send " + x.Chan.Name()
				if par, ok := o.(*ssa.Parameter); ok && isChanOfResult(par.Type()) {
					r.Discharge("R15.4", name, "send on result parameter", p.Pos(x.Pos()), "delivery on the caller's result channel: the caller buffers it or drains it (R15.2/R15.3)")
					return
				}
				if f, ok := fieldOfLoad(x.Chan); ok {
					construct = "send " + f
					// a buffered field channel receiving its first token in the consumer prologue
					if mkCap := fieldChanCapacity(p, fn, f); mkCap >= 1 && !core.InLoop(b) {
						r.Discharge("R15.4", name, construct, p.Pos(x.Pos()), fmt.Sprintf("single send outside any loop on a field channel made with capacity %d", mkCap))
						return
					}
				}
				_ = isCF
				if f, ok := fieldOfLoad(x.Chan); ok && fieldChanCapacity(p, fn, f) == 0 && recvMayWalkAway[f] != "" {
					r.Violate("R15.4", name, construct, p.Pos(x.Pos()), "plain send on the unbuffered field channel "+f+" outside a select: its receiver ("+recvMayWalkAway[f]+") selects on ctx.Done() as well and can leave, after which this send blocks forever and cancellation cannot reach it")
					return
				}
				r.Undecide("R15.4", name, construct, p.Pos(x.Pos()), "plain blocking send not in a recognised class (result delivery, buffered prologue token)")
			case *ssa.UnOp:
				if x.Op != token.ARROW {
					return
				}
				if f, ok := fieldOfLoad(x.X); ok && f == "doneCh" {
					r.Discharge("R15.4", name, "recv doneCh", p.Pos(x.Pos()), "doneCh is closed on every consumer exit (R15.3); the consumer itself is cancellable")
					return
				}
				if isDrainFunc(fn) && !isCF {
					r.Discharge("R15.4", name, "recv in drain", p.Pos(x.Pos()), "drain receive: every counted sender delivers exactly once (R15.1), so the drain completes")
					return
				}
				r.Undecide("R15.4", name, "recv "+x.X.Name(), p.Pos(x.Pos()), "plain blocking receive not in a recognised class")
			}
		})
	}
	r.Floor("R15.4", 20, "blocking operations of check and checkgroup")
}

func isChanOfResult(t types.Type) bool {
	ch, ok := t.Underlying().(*types.Chan)
	return ok && core.IsNamed(ch.Elem(), checkgroupPkg, "Result")
}

// fieldChanCapacity finds the constant capacity the named field is made with
// in package checkgroup (the constructor), or -1.
func fieldChanCapacity(p *core.Program, _ *ssa.Function, field string) int64 {
	capa := int64(-1)
	for _, fn := range p.KetoFuncs("internal/check/checkgroup") {
		core.Instrs(fn, func(_ *ssa.BasicBlock, _ int, ins ssa.Instruction) {
			st, ok := ins.(*ssa.Store)
			if !ok {
				return
			}
			fa, ok := st.Addr.(*ssa.FieldAddr)
			if !ok {
				return
			}
			pt, ok := fa.X.Type().Underlying().(*types.Pointer)
			if !ok {
				return
			}
			s, ok := pt.Elem().Underlying().(*types.Struct)
			if !ok || s.Field(fa.Field).Name() != field {
				return
			}
			if mk, ok := st.Val.(*ssa.MakeChan); ok {
				if k, ok := core.IntConst(mk.Size); ok {
					capa = k
				}
			}
		})
	}
	return capa
}

// ---- R15.5 termination certificates (A6) ----------------------------------------------

func r155(c *Ctx) {
	certs := core.TerminationCerts(c.P, []string{"internal/check", "internal/check/checkgroup"})
	for _, ct := range certs {
		if ct.OK {
			c.R.Discharge("R15.5", strings.Join(ct.Funcs, ", "), "recursive cycle", ct.Pos, ct.Detail, ct.Edges...)
		} else {
			c.R.Violate("R15.5", strings.Join(ct.Funcs, ", "), "recursive cycle", ct.Pos, ct.Detail, ct.Edges...)
		}
	}
	c.R.Floor("R15.5", 1, "the engine's mutually recursive functions")
}

// startedByGo: the closure fn is the callee of a go statement.
func startedByGo(fn *ssa.Function) bool {
	par := fn.Parent()
	if par == nil {
		return false
	}
	found := false
	core.Instrs(par, func(_ *ssa.BasicBlock, _ int, ins ssa.Instruction) {
		if g, ok := ins.(*ssa.Go); ok {
			if mc, ok := g.Call.Value.(*ssa.MakeClosure); ok && mc.Fn == ssa.Value(fn) {
				found = true
			}
		}
	})
	return found
}

// drainClosureLoopsN: walking the closure with its captured count set to 0, 1, 2, 5 (and a
// negative value) executes the receive exactly max(n, 0) times.
func drainClosureLoopsN(fn *ssa.Function, count *ssa.FreeVar) bool {
	for _, k := range []int64{-1, 0, 1, 2, 5} {
		recv := int64(0)
		w := &core.Walker{Fn: fn, InitCells: map[ssa.Value]core.WVal{count: core.WInt(k)}}
		w.OnInstr = func(ins ssa.Instruction, _ *core.Walker) bool {
			if u, ok := ins.(*ssa.UnOp); ok && u.Op == token.ARROW {
				recv++
			}
			return false
		}
		w.Run()
		want := k
		if want < 0 {
			want = 0
		}
		if w.Err != "" || recv != want {
			return false
		}
	}
	return true
}
