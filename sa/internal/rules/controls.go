package rules

import (
	_ "embed"
	"encoding/json"
	"os"
	"path/filepath"
	"strings"
)

// controls2.json: further controls with multi-line / multi-file edits
// (generated from the current source when they were written; located by text).
//
//go:embed controls2.json
var controls2JSON []byte

type ctl2 struct {
	Props    []string `json:"props"`
	Name     string   `json:"name"`
	Positive bool     `json:"positive"`
	Rule     string   `json:"rule"`
	Edits    []struct {
		File, Old, New string
	} `json:"edits"`
}

func (c ctl2) edit(repo string) (map[string][]byte, bool) {
	out := map[string][]byte{}
	for _, e := range c.Edits {
		path := filepath.Join(repo, e.File)
		b, ok := out[path]
		if !ok {
			var err error
			if b, err = os.ReadFile(path); err != nil {
				return nil, false
			}
		}
		if !strings.Contains(string(b), e.Old) {
			return nil, false
		}
		out[path] = []byte(strings.Replace(string(b), e.Old, e.New, 1))
	}
	return out, len(out) > 0
}

// Controls (thorough tier): semantic edits of the *current* source applied
// through a go/packages overlay, nothing is written to disk. A positive
// control must make the named rule fire; a negative control (a
// behaviour-preserving rewrite) must leave every rule silent. A control whose
// locator does not apply to the current tree is skipped, so a modified /repo
// cannot break a check through its controls.

type ctl struct {
	props    []string
	name     string
	positive bool
	rule     string
	file     string
	old, new string
	all      bool // replace every occurrence
}

func (c ctl) edit(repo string) (map[string][]byte, bool) {
	path := filepath.Join(repo, c.file)
	b, err := os.ReadFile(path)
	if err != nil {
		return nil, false
	}
	s := string(b)
	if !strings.Contains(s, c.old) {
		return nil, false
	}
	if c.all {
		s = strings.ReplaceAll(s, c.old, c.new)
	} else {
		s = strings.Replace(s, c.old, c.new, 1)
	}
	return map[string][]byte{path: []byte(s)}, true
}

var controlTable = []ctl{
	// ---- positive controls
	{[]string{"C01", "C02"}, "and-continues-on-unknown", true, "", "internal/check/binop.go", "result.Membership != checkgroup.IsMember {", "result.Membership == checkgroup.NotMember {", false},
	{[]string{"C01"}, "strict-mode-drops-direct", true, "R01.5", "internal/check/engine.go", "(!strictMode || !hasRewrite) && !skipDirect", "!strictMode && !hasRewrite && !skipDirect", false},
	{[]string{"C01"}, "and-shares-visited-set", true, "R01.3", "internal/check/binop.go", "check(graph.ResetVisited(ctx), resultCh)", "check(func() context.Context { graph.ResetVisited(ctx); return ctx }(), resultCh)", false},
	{[]string{"C02"}, "clamp-keeps-zero", true, "R02.1", "internal/check/engine.go", "restDepth <= 0 || globalMaxDepth < restDepth {", "restDepth < 0 || globalMaxDepth < restDepth {", false},
	{[]string{"C02"}, "truncation-without-mark", true, "R02.3", "internal/check/engine.go", "\t\t\tcheckgroup.MarkCutOff(ctx)\n", "", false},
	{[]string{"C02"}, "negation-ignores-cutoff", true, "R02.3", "internal/check/rewrites.go", "if cutOff.Load() {", "if false && cutOff.Load() {", false},
	{[]string{"C03"}, "traversal-error-becomes-not-member", true, "R03.1", "internal/check/engine.go", "} else if err != nil {\n\t\t\tg.Add(checkgroup.ErrorFunc(err))", "} else if err != nil {\n\t\t\tg.Add(checkgroup.NotMemberFunc)", false},
	{[]string{"C03"}, "negation-flips-failed-check", true, "R03.3", "internal/check/rewrites.go", "\t\t\tif result.Err != nil {\n\t\t\t\tresultCh <- checkgroup.Result{Err: result.Err}\n\t\t\t\treturn\n\t\t\t}\n", "", false},
	{[]string{"C04"}, "insert-columns-swapped", true, "R04.2", "internal/persistence/sql/relationtuples.go", "(shard_id, nid, namespace, object, relation, subject_id,", "(shard_id, nid, namespace, relation, object, subject_id,", false},
	{[]string{"C04"}, "subject-set-bound-to-wrong-field", true, "R04.3", "internal/persistence/sql/relationtuples.go", "Where(\"subject_set_namespace = ?\", s.Namespace).", "Where(\"subject_set_namespace = ?\", s.Relation).", false},
	{[]string{"C05"}, "delete-on-raw-connection", true, "R05.2", "internal/persistence/sql/relationtuples.go", "if err := p.Connection(ctx).RawQuery(q, args...).Exec(); err != nil {\n\t\t\t\treturn sqlcon.HandleError(err)\n\t\t\t}\n\t\t}\n\t\treturn nil\n\t})\n}\n\nfunc (p *Persister) DeleteAllRelationTuples", "if err := p.conn.RawQuery(q, args...).Exec(); err != nil {\n\t\t\t\treturn sqlcon.HandleError(err)\n\t\t\t}\n\t\t}\n\t\treturn nil\n\t})\n}\n\nfunc (p *Persister) DeleteAllRelationTuples", false},
	{[]string{"C05"}, "insert-error-swallowed", true, "R05.3", "internal/persistence/sql/relationtuples.go", "if err := p.Connection(ctx).RawQuery(q, args...).Exec(); err != nil {\n\t\t\t\treturn sqlcon.HandleError(err)\n\t\t\t}\n\t\t}\n\t\treturn nil\n\t})\n}\n\nfunc (p *Persister) TransactRelationTuples", "if err := p.Connection(ctx).RawQuery(q, args...).Exec(); err != nil {\n\t\t\t\tp.d.Logger().WithError(err).Warn(\"insert failed\")\n\t\t\t}\n\t\t}\n\t\treturn nil\n\t})\n}\n\nfunc (p *Persister) TransactRelationTuples", false},
	{[]string{"C06"}, "query-scoped-to-default-network", true, "R06.1", "internal/persistence/sql/persister.go", "Where(\"nid = ?\", p.NetworkID(ctx))", "Where(\"nid = ?\", p.nid)", false},
	{[]string{"C06", "C04"}, "delete-nid-under-or", true, "", "internal/persistence/sql/relationtuples.go", "WHERE (%s) AND nid = ?", "WHERE (%s OR nid = ?)", false},
	{[]string{"C04", "C06"}, "delete-nid-placeholder-misaligned", true, "", "internal/persistence/sql/relationtuples.go", "WHERE (%s) AND nid = ?", "WHERE nid = ? AND (%s)", false},
	{[]string{"C06"}, "subselect-not-correlated", true, "R06.2", "internal/persistence/sql/traverser.go", "WHERE nid = current.nid AND\n", "WHERE\n", false},
	{[]string{"C07"}, "cursor-not-strict", true, "R07.1", "internal/persistence/sql/relationtuples.go", "Where(\"shard_id > ?\", pagination.LastID)", "Where(\"shard_id >= ?\", pagination.LastID)", false},
	{[]string{"C07"}, "limit-without-extra-row", true, "R07.1", "internal/persistence/sql/relationtuples.go", "Limit(pagination.PerPage + 1)", "Limit(pagination.PerPage)", false},
	{[]string{"C08"}, "mirror-writes-404", true, "R08.3", "internal/check/handler.go", "h.d.Writer().WriteCode(w, r, http.StatusForbidden, &CheckPermissionResult{Allowed: allowed})\n}\n\nfunc (h *Handler) getCheck(", "h.d.Writer().WriteCode(w, r, http.StatusNotFound, &CheckPermissionResult{Allowed: allowed})\n}\n\nfunc (h *Handler) getCheck(", false},
	{[]string{"C08"}, "batch-writes-slot-zero", true, "R08.4", "internal/check/engine.go", "results[i] = e.CheckRelationTuple(ctx, internalTuple[0], maxDepth)", "results[0] = e.CheckRelationTuple(ctx, internalTuple[0], maxDepth)", false},
	{[]string{"C09"}, "expand-ignores-visited", true, "R09.2", "internal/expand/engine.go", "\tif wasAlreadyVisited {\n\t\treturn nil, nil\n\t}\n", "\t_ = wasAlreadyVisited\n", false},
	{[]string{"C09"}, "expand-depth-not-decreasing", true, "R09.1", "internal/expand/engine.go", "e.buildTreeRecursive(ctx, r.Subject, restDepth-1)", "e.buildTreeRecursive(ctx, r.Subject, restDepth)", false},
	{[]string{"C11"}, "computed-subject-set-unchecked", true, "R11.2", "internal/schema/parser.go", "\tp.addCheck(checkCurrentNamespaceHasRelation(&p.namespace, relation))\n\treturn &ast.ComputedSubjectSet{Relation: relation.Val}", "\treturn &ast.ComputedSubjectSet{Relation: relation.Val}", false},
	{[]string{"C12", "C13"}, "expression-depth-not-decreasing", true, "", "internal/schema/parser.go", "child := p.parsePermissionExpressions(itemParenRight, depth-1)\n\t\t\tif child == nil {\n\t\t\t\treturn nil\n\t\t\t}\n\t\t\troot = addChild(root, child)\n\t\t\texpectExpression = false\n\n\t\tcase item.Typ == finalToken:", "child := p.parsePermissionExpressions(itemParenRight, depth)\n\t\t\tif child == nil {\n\t\t\t\treturn nil\n\t\t\t}\n\t\t\troot = addChild(root, child)\n\t\t\texpectExpression = false\n\n\t\tcase item.Typ == finalToken:", false},
	{[]string{"C12"}, "lexer-emits-in-loop", true, "R12.2", "internal/schema/lexer.go", "\t\tcase '\\n', eof:\n\t\t\tl.backup()\n\t\t\tl.emit(itemComment)\n\t\t\treturn lexCode\n\t\t}", "\t\tcase '\\n', eof:\n\t\t\tl.backup()\n\t\t\tl.emit(itemComment)\n\t\t\treturn lexCode\n\t\tcase '/':\n\t\t\tl.emit(itemComment)\n\t\t}", false},
	{[]string{"C13"}, "patch-null-delta-unchecked", true, "R13.1", "internal/relationtuple/transact_server.go", "\t\tif d == nil {\n\t\t\th.d.Writer().WriteError(w, r, herodot.ErrBadRequest.WithError(\"patch delta must not be null\"))\n\t\t\treturn\n\t\t}\n", "", false},
	{[]string{"C13"}, "max-depth-raw-parse-error", true, "R13.2", "internal/x/max_depth.go", "return 0, herodot.ErrBadRequest.WithErrorf(\"unable to parse 'max-depth' query parameter to int: %s\", err)", "_ = herodot.ErrBadRequest\n\t\treturn 0, err", false},
	{[]string{"C14"}, "visited-set-unlocked", true, "R14.1", "internal/x/graph/graph_utils.go", "\ts.l.Lock()\n\tdefer s.l.Unlock()\n\n\tif _, found := s.m[el.String()]; found {", "\tif _, found := s.m[el.String()]; found {", false},
	{[]string{"C14", "C01"}, "batch-installs-shared-visited-set", true, "", "internal/check/engine.go", "\tmapper := e.d.ReadOnlyMapper()\n\tresults := make([]checkgroup.Result, len(tuples))", "\tctx = graph.InitVisited(ctx)\n\tmapper := e.d.ReadOnlyMapper()\n\tresults := make([]checkgroup.Result, len(tuples))", false},
	{[]string{"C15"}, "withedge-unbuffered", true, "R15.2", "internal/check/checkgroup/definitions.go", "childCh := make(chan Result, 1)", "childCh := make(chan Result)", false},
	{[]string{"C15"}, "drain-counter-not-incremented", true, "R15.3", "internal/check/checkgroup/concurrent_checkgroup.go", "finishedChecks++", "_ = finishedChecks", false},
	{[]string{"C15"}, "traverse-depth-not-decreasing", true, "R15.5", "internal/check/rewrites.go", "\t\t\t\t\t\tSubject:   tuple.Subject,\n\t\t\t\t\t}, restDepth-1, false))", "\t\t\t\t\t\tSubject:   tuple.Subject,\n\t\t\t\t\t}, restDepth, false))", false},
	{[]string{"C15"}, "traverse-error-path-silent", true, "R15.1", "internal/check/rewrites.go", "\t\t\t\tg.Add(checkgroup.ErrorFunc(err))\n\t\t\t\tbreak\n", "\t\t\t\tg.Add(checkgroup.ErrorFunc(err))\n\t\t\t\treturn\n", false},
	{[]string{"C16"}, "subject-reads-object-slot", true, "R16.1", "internal/relationtuple/uuid_mapping.go", "mt.Subject = &SubjectID{u[i*2]}", "mt.Subject = &SubjectID{u[i*2+1]}", false},
	{[]string{"C16"}, "double-subject-appends-three", true, "R16.1", "internal/relationtuple/uuid_mapping.go", "\t\t} else if t.SubjectSet != nil {\n\t\t\tn, err := nm.GetNamespaceByName(ctx, t.SubjectSet.Namespace)", "\t\t}\n\t\tif t.SubjectSet != nil {\n\t\t\tn, err := nm.GetNamespaceByName(ctx, t.SubjectSet.Namespace)", false},
	{[]string{"C17", "C08"}, "check-uses-writing-mapper", true, "", "internal/check/handler.go", "it, err := h.d.ReadOnlyMapper().FromTuple(ctx, tuple)", "it, err := h.d.Mapper().FromTuple(ctx, tuple)", false},
	{[]string{"C17"}, "delete-route-on-read-router", true, "R17.5", "internal/relationtuple/handler.go", "\tr.GET(ReadRouteBase, h.getRelations)\n", "\tr.GET(ReadRouteBase, h.getRelations)\n\tr.DELETE(ReadRouteBase, h.deleteRelations)\n", false},
	{[]string{"C18"}, "url-key-mismatch", true, "R18.1", "ketoapi/enc_url_query.go", "v.Add(SubjectSetObjectKey, q.SubjectSet.Object)", "v.Add(ObjectKey, q.SubjectSet.Object)", false},
	{[]string{"C18"}, "string-separator-mismatch", true, "R18.3", "ketoapi/enc_string.go", "sb.WriteRune('#')", "sb.WriteRune('|')", false},
	{[]string{"C19", "C14"}, "recursive-read-lock", true, "", "internal/driver/config/namespace_memory.go", "\tnn, _ := s.Namespaces(context.Background())\n\n\treturn !reflect.DeepEqual(newValue, nn)", "\ts.RLock()\n\tdefer s.RUnlock()\n\tnn, _ := s.Namespaces(context.Background())\n\n\treturn !reflect.DeepEqual(newValue, nn)", false},
	{[]string{"C19"}, "publish-despite-errors", true, "R19.1", "internal/driver/config/opl_config_namespace_watcher.go", "\t\treturn false\n\t}\n\tnw.set(namespaces)", "\t}\n\tnw.set(namespaces)", false},
	{[]string{"C19"}, "set-merges-into-live-map", true, "R19.6", "internal/driver/config/namespace_memory.go", "\ts.byName = make(map[string]*namespace.Namespace, len(nn))\n", "\tif s.byName == nil {\n\t\ts.byName = make(map[string]*namespace.Namespace, len(nn))\n\t}\n", false},

	{[]string{"C13"}, "recovery-not-first", true, "R13.3", "internal/driver/daemon.go", "is := []grpc.UnaryServerInterceptor{\n\t\tgrpcRecovery.UnaryServerInterceptor(grpcRecovery.WithRecoveryHandler(r.grpcRecoveryHandler)),\n\t}", "is := []grpc.UnaryServerInterceptor{\n\t\therodot.UnaryErrorUnwrapInterceptor,\n\t\tgrpcRecovery.UnaryServerInterceptor(grpcRecovery.WithRecoveryHandler(r.grpcRecoveryHandler)),\n\t}", false},
	{[]string{"C15"}, "add-blocks-uncancellably", true, "R15.4", "internal/check/checkgroup/concurrent_checkgroup.go", "\t\tselect {\n\t\tcase g.addCheckCh <- check:\n\t\tcase <-g.subcheckCtx.Done():\n\t\t}\n", "\t\tg.addCheckCh <- check\n", false},
	{[]string{"C03"}, "storage-layer-logs-query-error", true, "R03.5", "internal/persistence/sql/traverser.go", "\t\terr = query.Where(\"relation IN (?)\", relations).Limit(1).All(&rows)\n\t\tif err != nil {\n\t\t\treturn nil, sqlcon.HandleError(err)\n\t\t}", "\t\terr = query.Where(\"relation IN (?)\", relations).Limit(1).All(&rows)\n\t\tif err != nil {\n\t\t\tt.d.Logger().WithError(sqlcon.HandleError(err)).Warn(\"lookup failed\")\n\t\t}", false},
	// ---- negative controls
	{[]string{"C13"}, "neg-chain-built-by-append", false, "", "internal/driver/daemon.go", "is := []grpc.UnaryServerInterceptor{\n\t\tgrpcRecovery.UnaryServerInterceptor(grpcRecovery.WithRecoveryHandler(r.grpcRecoveryHandler)),\n\t}", "is := make([]grpc.UnaryServerInterceptor, 0, 8)\n\tis = append(is, grpcRecovery.UnaryServerInterceptor(grpcRecovery.WithRecoveryHandler(r.grpcRecoveryHandler)))", false},
	{[]string{"C01", "C02", "C03"}, "neg-or-condition-reordered", false, "", "internal/check/binop.go", "if result.Err != nil || result.Membership == checkgroup.IsMember {", "if result.Membership == checkgroup.IsMember || result.Err != nil {", false},
	{[]string{"C03", "C15"}, "neg-error-wrapped-before-errorfunc", false, "", "internal/check/engine.go", "} else if err != nil {\n\t\t\tg.Add(checkgroup.ErrorFunc(err))", "} else if err != nil {\n\t\t\tg.Add(checkgroup.ErrorFunc(errors.WithStack(err)))", false},
	{[]string{"C01", "C04", "C06", "C07"}, "neg-sql-reformatted", false, "", "internal/persistence/sql/traverser.go", "WHERE current.nid = ? AND\n      current.shard_id > ? AND", "WHERE   current.nid = ?   AND\n\n      current.shard_id > ?\n AND", false},
	{[]string{"C07"}, "neg-limit-parenthesised", false, "", "internal/persistence/sql/relationtuples.go", "Limit(pagination.PerPage + 1)", "Limit((pagination.PerPage) + 1)", false},
	{[]string{"C15"}, "neg-withedge-capacity-two", false, "", "internal/check/checkgroup/definitions.go", "childCh := make(chan Result, 1)", "childCh := make(chan Result, 2)", false},
	{[]string{"C02"}, "neg-clamp-with-min", false, "", "internal/check/engine.go", "if globalMaxDepth := e.d.Config(ctx).MaxReadDepth(); restDepth <= 0 || globalMaxDepth < restDepth {\n\t\trestDepth = globalMaxDepth\n\t}\n\n\tresultCh", "globalMaxDepth := e.d.Config(ctx).MaxReadDepth()\n\tif restDepth <= 0 {\n\t\trestDepth = globalMaxDepth\n\t}\n\trestDepth = min(restDepth, globalMaxDepth)\n\n\tresultCh", false},
	{[]string{"C19"}, "neg-errs-renamed", false, "", "internal/driver/config/opl_config_namespace_watcher.go", "errs", "parseErrs", true},
	{[]string{"C08"}, "neg-mirror-if-else", false, "", "internal/check/handler.go", "\tif allowed {\n\t\th.d.Writer().Write(w, r, &CheckPermissionResult{Allowed: allowed})\n\t\treturn\n\t}\n\n\th.d.Writer().WriteCode(w, r, http.StatusForbidden, &CheckPermissionResult{Allowed: allowed})\n}\n\nfunc (h *Handler) getCheck(", "\tif allowed {\n\t\th.d.Writer().Write(w, r, &CheckPermissionResult{Allowed: allowed})\n\t} else {\n\t\th.d.Writer().WriteCode(w, r, http.StatusForbidden, &CheckPermissionResult{Allowed: allowed})\n\t}\n}\n\nfunc (h *Handler) getCheck(", false},
	{[]string{"C12"}, "neg-setoperation-if-form", false, "", "internal/schema/parser.go", "\tswitch typ {\n\tcase itemOperatorAnd:\n\t\treturn ast.OperatorAnd\n\tcase itemOperatorOr:\n\t\treturn ast.OperatorOr\n\t}\n\tpanic(\"not reached\")", "\tif typ == itemOperatorAnd {\n\t\treturn ast.OperatorAnd\n\t}\n\tif typ == itemOperatorOr {\n\t\treturn ast.OperatorOr\n\t}\n\tpanic(\"not reached\")", false},
	{[]string{"C14", "C19"}, "neg-explicit-unlock", false, "", "internal/driver/config/namespace_memory.go", "\ts.RLock()\n\tdefer s.RUnlock()\n\n\tif n, ok := s.byName[name]; ok {\n\t\treturn n, nil\n\t}\n", "\ts.RLock()\n\tn, ok := s.byName[name]\n\ts.RUnlock()\n\tif ok {\n\t\treturn n, nil\n\t}\n", false},
	{[]string{"C05"}, "neg-tx-ctx-renamed", false, "", "internal/persistence/sql/relationtuples.go", "\treturn p.Transaction(ctx, func(ctx context.Context) error {\n\t\tsqlQuery := p.queryWithNetwork(ctx)\n\t\terr := p.whereQuery(ctx, sqlQuery, query)", "\treturn p.Transaction(ctx, func(txCtx context.Context) error {\n\t\tsqlQuery := p.queryWithNetwork(txCtx)\n\t\terr := p.whereQuery(txCtx, sqlQuery, query)", false},
	{[]string{"C13"}, "neg-nil-safe-getter", false, "", "internal/expand/handler.go", "switch sub := req.GetSubject().GetRef().(type) {", "subj := req.GetSubject()\n\tswitch sub := subj.GetRef().(type) {", false},
	{[]string{"C16"}, "neg-index-commuted", false, "", "internal/relationtuple/uuid_mapping.go", "mt.Object = u[i*2+1]", "mt.Object = u[2*i+1]", false},
}

func init() {
	var c2 []ctl2
	if err := json.Unmarshal(controls2JSON, &c2); err != nil {
		panic(err)
	}
	for _, c := range c2 {
		c := c
		for _, id := range c.Props {
			if p := registry[id]; p != nil {
				p.Controls = append(p.Controls, Control{Name: c.Name, Positive: c.Positive, Rule: c.Rule, Edit: c.edit})
			}
		}
	}
	for _, c := range controlTable {
		c := c
		for _, id := range c.props {
			if p := registry[id]; p != nil {
				p.Controls = append(p.Controls, Control{Name: c.name, Positive: c.positive, Rule: c.rule, Edit: c.edit})
			}
		}
	}
}
