package rules

import (
	"fmt"
	"go/ast"
	"go/constant"
	"go/token"
	"go/types"
	"reflect"
	"sort"
	"strings"

	"golang.org/x/tools/go/packages"
	"golang.org/x/tools/go/ssa"

	"ketosa/internal/core"
)

func init() {
	Register(&Property{
		ID: "C18",
		Explanation: "Decides that both directions of each relationship encoding talk about the same keys, fields and separators: (R18.1) the set of (URL key, struct field) pairs written by ToURLQuery equals the set read by FromURLQuery, for queries and subject sets, the subject-id and subject-set key groups are disjoint, and every key write is guarded by presence tests only (never by the value); (R18.2) the protobuf decoders read the same (message field, struct field) pairs the encoders write, and discriminate the subject oneof by its presence (a type switch on the wrapper), never by the emptiness of a value; (R18.3) the separators the string form writes, in order, are the separators FromString cuts on, in order, and the relation-tuple file parser hands each trimmed line to FromString unmodified (comments are recognised by prefix only); (R18.5) inside a loop the receiver of a ketoapi decoder is allocated in that loop (decoders leave fields they do not find untouched, so a reused receiver carries the previous value's fields over); (R18.4) every exported field of the API structs has a JSON name and no two fields of a struct share one. " +
			"Not decided: round-trip equality over all strings, escaping, the documented domain restriction of the string form.",
		Assumptions: []string{"encoding/json is symmetric for tagged exported fields"},
		Run:         runC18,
	})
}

const apiRel = "ketoapi"

func constName(info *types.Info, e ast.Expr) (string, bool) {
	e = ast.Unparen(e)
	if tv, ok := info.Types[e]; ok && tv.Value != nil && tv.Value.Kind() == constant.String {
		return constant.StringVal(tv.Value), true
	}
	return "", false
}

// fieldPathOf: q.Namespace, *q.Namespace, q.SubjectSet.Namespace -> "Namespace", "SubjectSet.Namespace"
func fieldPathOf(e ast.Expr) string { return fieldPathOfA(e, nil) }

func fieldPathOfA(e ast.Expr, localAlias func(*ast.Ident) ast.Expr) string {
	e = ast.Unparen(e)
	switch x := e.(type) {
	case *ast.StarExpr:
		return fieldPathOfA(x.X, localAlias)
	case *ast.UnaryExpr:
		return fieldPathOfA(x.X, localAlias)
	case *ast.SelectorExpr:
		inner := fieldPathOfA(x.X, localAlias)
		if inner == "" {
			return x.Sel.Name
		}
		return inner + "." + x.Sel.Name
	case *ast.Ident:
		if localAlias != nil {
			if init := localAlias(x); init != nil {
				return fieldPathOfA(init, localAlias)
			}
		}
		return ""
	}
	return "?"
}

// localAliasesOf resolves a local variable that is defined once and never assigned again
// (subjectSet := q.SubjectSet) to its initialiser.
func localAliasesOf(info *types.Info, fd *ast.FuncDecl) func(*ast.Ident) ast.Expr {
	inits := map[types.Object]ast.Expr{}
	spoiled := map[types.Object]bool{}
	ast.Inspect(fd.Body, func(n ast.Node) bool {
		switch x := n.(type) {
		case *ast.AssignStmt:
			for i, l := range x.Lhs {
				id, ok := ast.Unparen(l).(*ast.Ident)
				if !ok {
					continue
				}
				if o := info.Defs[id]; o != nil && x.Tok == token.DEFINE && len(x.Lhs) == len(x.Rhs) {
					inits[o] = x.Rhs[i]
				} else if o := info.Uses[id]; o != nil {
					spoiled[o] = true
				}
			}
		case *ast.UnaryExpr:
			if id, ok := ast.Unparen(x.X).(*ast.Ident); ok && x.Op == token.AND {
				if o := info.Uses[id]; o != nil {
					spoiled[o] = true
				}
			}
		case *ast.IncDecStmt:
			if id, ok := ast.Unparen(x.X).(*ast.Ident); ok {
				if o := info.Uses[id]; o != nil {
					spoiled[o] = true
				}
			}
		case *ast.RangeStmt:
			for _, e := range []ast.Expr{x.Key, x.Value} {
				if id, ok := e.(*ast.Ident); ok {
					if o := info.Uses[id]; o != nil {
						spoiled[o] = true
					}
				}
			}
		}
		return true
	})
	return func(id *ast.Ident) ast.Expr {
		o := info.Uses[id]
		if o == nil || spoiled[o] {
			return nil
		}
		return inits[o]
	}
}

func urlPairsWritten(pkg *packages.Package, fd *ast.FuncDecl) map[string]string {
	out := map[string]string{}
	localAlias := localAliasesOf(pkg.TypesInfo, fd)
	ast.Inspect(fd.Body, func(n ast.Node) bool {
		switch x := n.(type) {
		case *ast.CallExpr:
			if sel, ok := x.Fun.(*ast.SelectorExpr); ok && (sel.Sel.Name == "Add" || sel.Sel.Name == "Set") && len(x.Args) == 2 {
				if k, ok := constName(pkg.TypesInfo, x.Args[0]); ok {
					out[k] = fieldPathOfA(x.Args[1], localAlias)
				}
			}
		case *ast.CompositeLit:
			// url.Values{Key: []string{s.Field}}
			for _, el := range x.Elts {
				kv, ok := el.(*ast.KeyValueExpr)
				if !ok {
					continue
				}
				if k, ok := constName(pkg.TypesInfo, kv.Key); ok {
					if cl, ok := kv.Value.(*ast.CompositeLit); ok && len(cl.Elts) == 1 {
						out[k] = fieldPathOfA(cl.Elts[0], localAlias)
					}
				}
			}
		}
		return true
	})
	return out
}

func urlPairsRead(pkg *packages.Package, fd *ast.FuncDecl) map[string]string {
	out := map[string]string{}
	getKey := func(e ast.Expr) (string, bool) {
		var key string
		found := false
		ast.Inspect(e, func(n ast.Node) bool {
			if c, ok := n.(*ast.CallExpr); ok {
				if sel, ok := c.Fun.(*ast.SelectorExpr); ok && sel.Sel.Name == "Get" && len(c.Args) == 1 {
					if k, ok := constName(pkg.TypesInfo, c.Args[0]); ok {
						key, found = k, true
					}
				}
			}
			return true
		})
		return key, found
	}
	var prefix []string
	var walk func(n ast.Node)
	walk = func(n ast.Node) {
		ast.Inspect(n, func(n ast.Node) bool {
			switch x := n.(type) {
			case *ast.AssignStmt:
				for i := range x.Lhs {
					if i >= len(x.Rhs) {
						break
					}
					if cl := compositeOf(x.Rhs[i]); cl != nil {
						// q.SubjectSet = &SubjectSet{Namespace: query.Get(K), ...}
						base := fieldPathOf(x.Lhs[i])
						for _, el := range cl.Elts {
							if kv, ok := el.(*ast.KeyValueExpr); ok {
								if k, ok := getKey(kv.Value); ok {
									f := kv.Key.(*ast.Ident).Name
									if base != "" {
										f = base + "." + f
									}
									out[k] = f
								}
							}
						}
						continue
					}
					if k, ok := getKey(x.Rhs[i]); ok {
						out[k] = fieldPathOf(x.Lhs[i])
					}
				}
				return false
			}
			return true
		})
	}
	_ = prefix
	walk(fd.Body)
	return out
}

func compositeOf(e ast.Expr) *ast.CompositeLit {
	switch x := ast.Unparen(e).(type) {
	case *ast.CompositeLit:
		return x
	case *ast.UnaryExpr:
		if cl, ok := x.X.(*ast.CompositeLit); ok {
			return cl
		}
	}
	return nil
}

func pairsString(m map[string]string) []string {
	var out []string
	for k, v := range m {
		out = append(out, k+"<->"+v)
	}
	sort.Strings(out)
	return out
}

func runC18(c *Ctx) {
	p, r := c.P, c.R
	pkg := p.Pkg(apiRel)
	if pkg == nil {
		r.Undecide("R18.1", "", "anchor package ketoapi", "", "not loaded")
		return
	}
	// ---- R18.1
	for _, typ := range []string{"RelationQuery", "SubjectSet"} {
		w, rd := core.FuncDecl(pkg, typ+".ToURLQuery"), core.FuncDecl(pkg, typ+".FromURLQuery")
		name := apiRel + "." + typ
		if w == nil || rd == nil {
			r.Undecide("R18.1", name, "ToURLQuery/FromURLQuery", "", "not found")
			continue
		}
		pw, pr := urlPairsWritten(pkg, w), urlPairsRead(pkg, rd)
		// on the SSA form the reads are followed through helpers (a helper that is handed the key,
		// one that returns the decoded subject): use it when it sees at least what the AST match sees
		if fn := p.Func("(*" + apiRel + "." + typ + ").FromURLQuery"); fn != nil {
			if ps := urlPairsReadSSA(fn, typ); len(ps) >= len(pr) {
				pr = ps
			}
		}
		sw, sr := pairsString(pw), pairsString(pr)
		r.Check(strings.Join(sw, ",") == strings.Join(sr, ",") && len(sw) >= 3, "R18.1", name, "URL key <-> field table", p.Pos(w.Pos()),
			fmt.Sprintf("writer and reader agree on %d (key, field) pairs: %v", len(sw), sw),
			fmt.Sprintf("the URL encoder and decoder disagree: written %v, read %v", sw, sr))
		// a key is written whenever its field is present: the only guards of a write are
		// nil tests (presence); a guard on the *value* (e.g. != "") makes the writer drop
		// a key that the reader requires, or merge two different values
		var valueGuards []string
		ast.Inspect(w.Body, func(n ast.Node) bool {
			call, ok := n.(*ast.CallExpr)
			if !ok {
				return true
			}
			sel, ok := call.Fun.(*ast.SelectorExpr)
			if !ok || (sel.Sel.Name != "Add" && sel.Sel.Name != "Set") || len(call.Args) != 2 {
				return true
			}
			if _, ok := constName(pkg.TypesInfo, call.Args[0]); !ok {
				return true
			}
			for _, g := range guardsOf(w.Body, call) {
				conj := []ast.Expr{g.Cond}
				if g.True {
					conj = nil
					var split func(e ast.Expr)
					split = func(e ast.Expr) {
						if be, ok := unparen(e).(*ast.BinaryExpr); ok && be.Op == token.LAND {
							split(be.X)
							split(be.Y)
							return
						}
						conj = append(conj, e)
					}
					split(g.Cond)
				}
				for _, cj := range conj {
					_, _, y, ok := cmpParts(pkg.TypesInfo, cj)
					if ok && isNilExpr(pkg.TypesInfo, y) {
						continue
					}
					valueGuards = append(valueGuards, fmt.Sprintf("%s is written only if %s (%s)", types.ExprString(call.Args[0]), types.ExprString(cj), p.Pos(call.Pos())))
				}
			}
			return true
		})
		r.Check(len(valueGuards) == 0, "R18.1", name, "keys written whenever the field is present", p.Pos(w.Pos()),
			"every key write is guarded by presence (nil) tests only", strings.Join(valueGuards, "; ")+": the decoder requires the key (or distinguishes absent from empty), so some values do not survive the round trip")
		if typ == "RelationQuery" {
			// key groups disjoint
			idKeys, setKeys := map[string]bool{}, map[string]bool{}
			for k, f := range pw {
				if f == "SubjectID" {
					idKeys[k] = true
				}
				if strings.HasPrefix(f, "SubjectSet.") {
					setKeys[k] = true
				}
			}
			disjoint := len(idKeys) == 1 && len(setKeys) == 3
			for k := range idKeys {
				if setKeys[k] {
					disjoint = false
				}
			}
			r.Check(disjoint, "R18.1", name, "subject key groups", p.Pos(w.Pos()),
				"one key for the subject id, three distinct keys for the subject set", "the subject-id and subject-set URL keys are not one plus three distinct keys: the two subject kinds are confused")
		}
	}
	r182(c, pkg)
	r183(c, pkg)
	r184(c, pkg)
	freshDecodeReceivers(c, "R18.5")
}

// ---- R18.2 protobuf --------------------------------------------------------------------------------

// protoWriterPairs: fields set in the &rts.X{...} literal of an encoder.
func protoWriterPairs(pkg *packages.Package, fd *ast.FuncDecl) (map[string]string, map[string]bool) {
	pairs := map[string]string{}
	subj := map[string]bool{}
	ast.Inspect(fd.Body, func(n ast.Node) bool {
		switch x := n.(type) {
		case *ast.CompositeLit:
			for _, el := range x.Elts {
				if kv, ok := el.(*ast.KeyValueExpr); ok {
					if id, ok := kv.Key.(*ast.Ident); ok {
						if f := fieldPathOf(kv.Value); f != "" && f != "?" {
							pairs[id.Name] = f
						}
					}
				}
			}
		case *ast.CallExpr:
			if sel, ok := x.Fun.(*ast.SelectorExpr); ok {
				switch sel.Sel.Name {
				case "NewSubjectID":
					subj["Id<-"+fieldPathOf(x.Args[0])] = true
				case "NewSubjectSet":
					var fs []string
					for _, a := range x.Args {
						fs = append(fs, fieldPathOf(a))
					}
					subj["Set<-"+strings.Join(fs, ",")] = true
				}
			}
		}
		return true
	})
	return pairs, subj
}

func r182(c *Ctx, pkg *packages.Package) {
	p, r := c.P, c.R
	type dec struct {
		typ, enc, decFn string
	}
	for _, d := range []dec{
		{"RelationTuple", "RelationTuple.ToProto", "RelationTuple.FromProto"},
		{"RelationTuple", "RelationTuple.ToProto", "RelationTuple.FromDataProvider"},
		{"RelationQuery", "RelationQuery.ToProto", "RelationQuery.FromDataProvider"},
	} {
		enc, de := core.FuncDecl(pkg, d.enc), core.FuncDecl(pkg, d.decFn)
		name := apiRel + "." + d.decFn
		if enc == nil || de == nil {
			r.Undecide("R18.2", name, "encoder/decoder", "", "not found")
			continue
		}
		wp, ws := protoWriterPairs(pkg, enc)
		// decoder: assignments r.X = d.GetX() / proto.GetX() / literal fields
		rp := map[string]string{}
		ast.Inspect(de.Body, func(n ast.Node) bool {
			get := func(e ast.Expr) string {
				name := ""
				ast.Inspect(e, func(n2 ast.Node) bool {
					if cc, ok := n2.(*ast.CallExpr); ok {
						if sel, ok := cc.Fun.(*ast.SelectorExpr); ok && strings.HasPrefix(sel.Sel.Name, "Get") && name == "" {
							name = strings.TrimPrefix(sel.Sel.Name, "Get")
						}
					}
					return true
				})
				if name == "" {
					if f := fieldPathOf(e); f != "" && f != "?" && !strings.Contains(f, ".") {
						name = f
					}
				}
				return name
			}
			switch x := n.(type) {
			case *ast.AssignStmt:
				for i := range x.Lhs {
					if i < len(x.Rhs) {
						if f := fieldPathOf(x.Lhs[i]); f != "" && !strings.Contains(f, ".") && f != "?" {
							if g := get(x.Rhs[i]); g != "" && g != "Subject" && g != "Ref" {
								rp[g] = f
							}
						}
					}
				}
			case *ast.KeyValueExpr:
				if id, ok := x.Key.(*ast.Ident); ok {
					if g := get(x.Value); g != "" && g != "Subject" && g != "Ref" && (id.Name == "Namespace" || id.Name == "Object" || id.Name == "Relation") {
						if _, isLit := x.Value.(*ast.CompositeLit); !isLit {
							// only top-level tuple fields (subject-set literal fields are Set.X)
							if !strings.Contains(types.ExprString(x.Value), ".Set") {
								rp[g] = id.Name
							}
						}
					}
				}
			}
			return true
		})
		var bad []string
		for _, f := range []string{"Namespace", "Object", "Relation"} {
			if wp[f] != f {
				bad = append(bad, fmt.Sprintf("the encoder writes message field %s from %q", f, wp[f]))
			}
			if rp[f] != f {
				bad = append(bad, fmt.Sprintf("the decoder fills %q from message field %s", rp[f], f))
			}
		}
		if !ws["Id<-SubjectID"] || !ws["Set<-SubjectSet.Namespace,SubjectSet.Object,SubjectSet.Relation"] {
			bad = append(bad, fmt.Sprintf("the encoder does not build the subject oneof from SubjectID / SubjectSet{Namespace,Object,Relation}: %v", core.SortedKeys(ws)))
		}
		r.Check(len(bad) == 0, "R18.2", name, "message field <-> struct field table", p.Pos(de.Pos()),
			"namespace/object/relation and the subject oneof are written and read from the same struct fields", strings.Join(bad, "; "))
		// oneof discrimination by presence
		fn := p.Func("(*ketoapi." + strings.Replace(d.decFn, ".", ").", 1))
		if fn == nil {
			r.Undecide("R18.2", name, "oneof discrimination", p.Pos(de.Pos()), "SSA function not found")
			continue
		}
		asserts := map[string]bool{}
		valueGetter := ""
		core.Instrs(fn, func(_ *ssa.BasicBlock, _ int, ins ssa.Instruction) {
			switch x := ins.(type) {
			case *ssa.TypeAssert:
				if n := core.NamedOf(x.AssertedType); n != nil {
					asserts[n.Obj().Name()] = true
				}
			case *ssa.Call:
				if obj := core.CalleeObj(x.Common()); obj != nil && (obj.Name() == "GetId" || obj.Name() == "GetSet") {
					valueGetter = obj.Name()
				}
			}
		})
		okDisc := asserts["Subject_Id"] && asserts["Subject_Set"] && valueGetter == ""
		why := "the subject oneof is not decoded by a type switch over both wrappers"
		if valueGetter != "" {
			why = "the subject oneof is decoded through the value getter " + valueGetter + "(): a present-but-empty subject id is indistinguishable from an absent subject, so such a query silently matches (or deletes) everything"
		}
		r.Check(okDisc, "R18.2", name, "oneof discrimination", p.Pos(de.Pos()),
			"the subject kind is decided by the presence of the oneof wrapper (type switch on Subject_Id / Subject_Set)", why)
	}
	r.Floor("R18.2", 6, "3 decoders x (table, discrimination)")
}

// ---- R18.3 string form ---------------------------------------------------------------------------------

func r183(c *Ctx, pkg *packages.Package) {
	p, r := c.P, c.R
	seps := func(fd *ast.FuncDecl, writer bool) []string {
		var out []string
		ast.Inspect(fd.Body, func(n ast.Node) bool {
			// a + ":" + b + "#" + c: the constant operands of a concatenation, left to right
			if be, ok := n.(*ast.BinaryExpr); ok && writer && be.Op == token.ADD {
				if tv, ok := pkg.TypesInfo.Types[be]; ok && tv.Type != nil && isStringT2(tv.Type) && tv.Value == nil {
					var flat func(e ast.Expr)
					flat = func(e ast.Expr) {
						e = unparen(e)
						if b2, ok := e.(*ast.BinaryExpr); ok && b2.Op == token.ADD {
							flat(b2.X)
							flat(b2.Y)
							return
						}
						if tv, ok := pkg.TypesInfo.Types[e]; ok && tv.Value != nil && tv.Value.Kind() == constant.String {
							if s := constant.StringVal(tv.Value); s != "" {
								out = append(out, s)
							}
						}
					}
					flat(be)
					return false
				}
			}
			call, ok := n.(*ast.CallExpr)
			if !ok {
				return true
			}
			// the cut may go through a helper of the package that is handed the separator:
			// field, rest, err := cutField(s, ":", ...)
			if fid, isID := call.Fun.(*ast.Ident); isID && !writer {
				if fo, ok := pkg.TypesInfo.Uses[fid].(*types.Func); ok && fo.Pkg() == pkg.Types {
					for _, f := range pkg.Syntax {
						for _, d := range f.Decls {
							hd, ok := d.(*ast.FuncDecl)
							if !ok || pkg.TypesInfo.Defs[hd.Name] != types.Object(fo) || hd.Body == nil {
								continue
							}
							// which parameter is the separator of a strings.Cut in the helper?
							var params []types.Object
							for _, fl := range hd.Type.Params.List {
								for _, nm := range fl.Names {
									params = append(params, pkg.TypesInfo.Defs[nm])
								}
							}
							ast.Inspect(hd.Body, func(n2 ast.Node) bool {
								c2, ok := n2.(*ast.CallExpr)
								if !ok || len(c2.Args) != 2 {
									return true
								}
								s2, ok := c2.Fun.(*ast.SelectorExpr)
								if !ok || s2.Sel.Name != "Cut" {
									return true
								}
								if sid, ok := unparen(c2.Args[1]).(*ast.Ident); ok {
									for k, po := range params {
										if po != nil && pkg.TypesInfo.Uses[sid] == po && k < len(call.Args) {
											if sv, ok := constName(pkg.TypesInfo, call.Args[k]); ok {
												out = append(out, sv)
											}
										}
									}
								}
								return true
							})
						}
					}
				}
				return true
			}
			sel, ok := call.Fun.(*ast.SelectorExpr)
			if !ok {
				return true
			}
			switch {
			case writer && sel.Sel.Name == "WriteString" && len(call.Args) == 1:
				if tv, ok := pkg.TypesInfo.Types[call.Args[0]]; ok && tv.Value != nil && tv.Value.Kind() == constant.String {
					if s := constant.StringVal(tv.Value); s != "" && !strings.HasPrefix(s, "<") {
						out = append(out, s)
					}
				}
			case writer && sel.Sel.Name == "WriteRune" && len(call.Args) == 1:
				if tv, ok := pkg.TypesInfo.Types[call.Args[0]]; ok && tv.Value != nil {
					if v, ok := constant.Int64Val(tv.Value); ok {
						out = append(out, string(rune(v)))
					}
				}
			case writer && sel.Sel.Name == "Sprintf" && len(call.Args) >= 1:
				if f, ok := constName(pkg.TypesInfo, call.Args[0]); ok {
					for _, part := range strings.Split(f, "%s") {
						if part != "" {
							out = append(out, part)
						}
					}
				}
			case !writer && sel.Sel.Name == "Cut" && len(call.Args) == 2:
				if s, ok := constName(pkg.TypesInfo, call.Args[1]); ok {
					out = append(out, s)
				}
			}
			return true
		})
		return out
	}
	// relation tuple: order matters
	w, rd := core.FuncDecl(pkg, "RelationTuple.String"), core.FuncDecl(pkg, "RelationTuple.FromString")
	if w == nil || rd == nil {
		r.Undecide("R18.3", apiRel+".RelationTuple", "String/FromString", "", "not found")
	} else {
		sw, sr := seps(w, true), seps(rd, false)
		r.Check(strings.Join(sw, " ") == strings.Join(sr, " ") && len(sw) == 3, "R18.3", apiRel+".RelationTuple", "separator sequence", p.Pos(w.Pos()),
			fmt.Sprintf("String writes %v and FromString cuts on %v, in the same order", sw, sr),
			fmt.Sprintf("String writes the separators %v but FromString cuts on %v", sw, sr))
	}
	w, rd = core.FuncDecl(pkg, "SubjectSet.String"), core.FuncDecl(pkg, "SubjectSet.FromString")
	if w == nil || rd == nil {
		r.Undecide("R18.3", apiRel+".SubjectSet", "String/FromString", "", "not found")
	} else {
		sw, sr := seps(w, true), seps(rd, false)
		// the longest format is the full form; as sets
		set := func(xs []string) string {
			m := map[string]bool{}
			for _, x := range xs {
				m[x] = true
			}
			return strings.Join(core.SortedKeys(m), " ")
		}
		r.Check(set(sw) == set(sr) && set(sw) == "# :", "R18.3", apiRel+".SubjectSet", "separator set", p.Pos(w.Pos()),
			"String writes ':' and '#' and FromString cuts on '#' and ':'", fmt.Sprintf("String writes %v but FromString cuts on %v", sw, sr))
	}
	// the file parser hands each trimmed line to FromString unmodified
	pf := p.Func("cmd/relationtuple.parseFile")
	if pf == nil {
		r.Undecide("R18.3", "cmd/relationtuple.parseFile", "line handling", "", "not found")
		return
	}
	n := 0
	core.Instrs(pf, func(_ *ssa.BasicBlock, _ int, ins ssa.Instruction) {
		call, ok := ins.(*ssa.Call)
		if !ok || !core.IsCallTo(call, "FromString") {
			return
		}
		n++
		arg := call.Common().Args[len(call.Common().Args)-1]
		var chain []string
		okChain := true
		v := arg
		for i := 0; i < 8; i++ {
			v = core.ValueOrigin(v)
			cl, isCall := v.(*ssa.Call)
			if !isCall {
				break
			}
			obj := core.CalleeObj(cl.Common())
			if obj == nil {
				break
			}
			chain = append(chain, obj.Name())
			if obj.Pkg() != nil && obj.Pkg().Path() == "strings" && obj.Name() == "TrimSpace" {
				v = cl.Common().Args[0]
				continue
			}
			okChain = false
			break
		}
		// the base must be an element of the split file (a phi of the range element / its trimmed form)
		if ex, isEx := v.(*ssa.Extract); isEx {
			if c2, isC := ex.Tuple.(*ssa.Call); isC {
				if obj := core.CalleeObj(c2.Common()); obj != nil {
					chain = append(chain, obj.Name())
					okChain = false
				}
			}
		}
		r.Check(okChain, "R18.3", core.FuncName(pf), "text handed to FromString", p.Pos(call.Pos()),
			"each line is passed to FromString after whitespace trimming only", fmt.Sprintf("the line is transformed by %v before it is parsed: text that is part of a relationship (a subject containing the cut pattern) is dropped silently", chain))
	})
	if n == 0 {
		r.Undecide("R18.3", core.FuncName(pf), "text handed to FromString", "", "no FromString call found")
	}
}

// ---- R18.4 JSON names -------------------------------------------------------------------------------------

func r184(c *Ctx, pkg *packages.Package) {
	p, r := c.P, c.R
	n := 0
	for _, tn := range []string{"RelationTuple", "SubjectSet", "RelationQuery", "PatchDelta", "GetResponse", "ParseError", "SourcePosition", "CheckOPLSyntaxResponse"} {
		t := p.LookupType(core.KetoMod+"/"+apiRel, tn)
		if t == nil {
			continue
		}
		st, ok := t.Underlying().(*types.Struct)
		if !ok {
			continue
		}
		n++
		seen := map[string]string{}
		var bad []string
		for i := 0; i < st.NumFields(); i++ {
			f := st.Field(i)
			if !f.Exported() || f.Embedded() {
				continue
			}
			tag := reflect.StructTag(st.Tag(i)).Get("json")
			name := strings.Split(tag, ",")[0]
			if name == "" {
				bad = append(bad, "field "+f.Name()+" has no JSON name")
				continue
			}
			if name == "-" {
				continue
			}
			if prev, dup := seen[name]; dup {
				bad = append(bad, fmt.Sprintf("fields %s and %s share the JSON name %q", prev, f.Name(), name))
			}
			seen[name] = f.Name()
		}
		r.Check(len(bad) == 0, "R18.4", apiRel+"."+tn, "JSON names", "", fmt.Sprintf("%d distinct JSON names", len(seen)), strings.Join(bad, "; "))
	}
	if n < 5 {
		r.Undecide("R18.4", "", "API structs", "", fmt.Sprintf("%d found (floor 5)", n))
	}
	_ = token.NoPos
}

// ---- R18.5 every decoded value gets a fresh receiver -------------------------------------------------

// freshDecodeReceivers: the decoders (FromDataProvider, FromProto, FromURLQuery,
// FromString, Unmarshal*) set the fields they find and leave the others alone.
// Decoding several values into one variable that lives across loop iterations
// carries fields of the previous value into the next (a subject id surviving
// into a subject-set tuple). Inside a loop the receiver of a decoder is
// allocated in that loop.
func freshDecodeReceivers(c *Ctx, rule string) {
	p, r := c.P, c.R
	n := 0
	var bad []string
	for _, rel := range []string{"internal/relationtuple", "internal/check", "internal/expand", "ketoapi", "cmd/relationtuple", "cmd/check", "cmd/expand"} {
		for _, fn := range p.KetoFuncs(rel) {
			core.Instrs(fn, func(b *ssa.BasicBlock, _ int, ins ssa.Instruction) {
				call, ok := ins.(*ssa.Call)
				if !ok {
					return
				}
				obj := core.CalleeObj(&call.Call)
				if obj == nil || !(strings.HasPrefix(obj.Name(), "From") || strings.HasPrefix(obj.Name(), "Unmarshal")) {
					return
				}
				if obj.Pkg() == nil || !strings.HasSuffix(obj.Pkg().Path(), "/ketoapi") {
					return
				}
				sig := obj.Type().(*types.Signature)
				if sig.Recv() == nil || len(call.Call.Args) == 0 {
					return
				}
				if _, isPtr := sig.Recv().Type().Underlying().(*types.Pointer); !isPtr {
					return
				}
				n++
				if !core.InLoop(b) {
					return
				}
				al, ok := core.ValueOrigin(call.Call.Args[0]).(*ssa.Alloc)
				if !ok {
					return
				}
				if !sameCycle(al.Block(), b) {
					bad = append(bad, fmt.Sprintf("%s: %s decodes into %s, which is allocated outside the loop at %s", p.Pos(call.Pos()), obj.Name(), al.Comment, p.Pos(al.Pos())))
				}
			})
		}
	}
	if n < 8 {
		r.Undecide(rule, "", "decoder calls", "", fmt.Sprintf("%d calls of ketoapi decoders found (floor 8)", n))
		return
	}
	r.Check(len(bad) == 0, rule, "handlers and CLI", "decoders in loops get fresh receivers", "",
		fmt.Sprintf("none of the %d decoder calls reuses a receiver across loop iterations", n),
		strings.Join(bad, "; ")+": fields the decoder does not set keep the value of the previous iteration (e.g. the subject id of the tuple before)")
}

// urlPairsReadSSA: URL key -> field path for every store into a field of the decoded value (and of
// the struct literals stored there) whose value derives from query.Get(<constant key>), followed
// through helpers of the package: parameters stand for the arguments of the call we came through,
// results for what the helper returns.
func urlPairsReadSSA(fn *ssa.Function, typ string) map[string]string {
	out := map[string]string{}
	type frame struct {
		call *ssa.Call
		fn   *ssa.Function
	}
	paramArg := func(par *ssa.Parameter, stack []frame) (ssa.Value, []frame, bool) {
		for i := len(stack) - 1; i >= 0; i-- {
			if stack[i].fn == par.Parent() {
				for k, q := range par.Parent().Params {
					if q == par && k < len(stack[i].call.Call.Args) {
						return stack[i].call.Call.Args[k], stack[:i], true
					}
				}
			}
		}
		return nil, nil, false
	}
	var constKey func(v ssa.Value, stack []frame) (string, bool)
	constKey = func(v ssa.Value, stack []frame) (string, bool) {
		v = core.ValueOrigin(v)
		if k, ok := v.(*ssa.Const); ok && k.Value != nil && k.Value.Kind() == constant.String {
			return constant.StringVal(k.Value), true
		}
		if par, ok := v.(*ssa.Parameter); ok {
			if a, st2, ok := paramArg(par, stack); ok {
				return constKey(a, st2)
			}
		}
		return "", false
	}
	isKetoHelper := func(h *ssa.Function) bool {
		return h != nil && h.Blocks != nil && core.FuncPkg(h) != nil && core.FuncPkg(h) == core.FuncPkg(fn)
	}
	var keys func(v ssa.Value, stack []frame, depth int) []string
	keys = func(v ssa.Value, stack []frame, depth int) []string {
		if v == nil || depth > 12 {
			return nil
		}
		v = core.ValueOrigin(v)
		var out []string
		switch x := v.(type) {
		case *ssa.Parameter:
			if a, st2, ok := paramArg(x, stack); ok {
				return keys(a, st2, depth+1)
			}
		case *ssa.Phi:
			for _, e := range x.Edges {
				out = append(out, keys(e, stack, depth+1)...)
			}
		case *ssa.Alloc:
			for _, st := range core.CellStores(x) {
				out = append(out, keys(st.Val, stack, depth+1)...)
			}
		case *ssa.Extract:
			if call, ok := x.Tuple.(*ssa.Call); ok {
				if h := call.Call.StaticCallee(); isKetoHelper(h) && len(stack) < 3 {
					st2 := append(append([]frame{}, stack...), frame{call, h})
					core.Instrs(h, func(_ *ssa.BasicBlock, _ int, ins ssa.Instruction) {
						if ret, ok := ins.(*ssa.Return); ok && x.Index < len(ret.Results) {
							out = append(out, keys(ret.Results[x.Index], st2, depth+1)...)
						}
					})
				}
			}
		case *ssa.Call:
			if obj := core.CalleeObj(x.Common()); obj != nil && obj.Name() == "Get" && obj.Pkg() != nil && obj.Pkg().Path() == "net/url" {
				if k, ok := constKey(x.Call.Args[len(x.Call.Args)-1], stack); ok {
					return []string{k}
				}
				return nil
			}
			if h := x.Call.StaticCallee(); isKetoHelper(h) && len(stack) < 3 {
				st2 := append(append([]frame{}, stack...), frame{x, h})
				core.Instrs(h, func(_ *ssa.BasicBlock, _ int, ins ssa.Instruction) {
					if ret, ok := ins.(*ssa.Return); ok && len(ret.Results) == 1 {
						out = append(out, keys(ret.Results[0], st2, depth+1)...)
					}
				})
				return out
			}
			// any other call may change the value (TrimSpace, ToLower, ...): only the pointer-of
			// helper hands it on as it is
			if obj := core.CalleeObj(x.Common()); obj != nil && obj.Name() == "Ptr" && obj.Pkg() != nil && strings.HasSuffix(obj.Pkg().Path(), "pointerx") {
				for _, a := range x.Call.Args {
					out = append(out, keys(a, stack, depth+1)...)
				}
			}
		}
		return out
	}
	// for a pointer to a struct literal: field -> keys
	var fields func(v ssa.Value, stack []frame, depth int) map[string][]string
	fields = func(v ssa.Value, stack []frame, depth int) map[string][]string {
		res := map[string][]string{}
		if v == nil || depth > 12 {
			return res
		}
		merge := func(m map[string][]string) {
			for k, vs := range m {
				res[k] = append(res[k], vs...)
			}
		}
		v = core.ValueOrigin(v)
		switch x := v.(type) {
		case *ssa.Parameter:
			if a, st2, ok := paramArg(x, stack); ok {
				merge(fields(a, st2, depth+1))
			}
		case *ssa.Phi:
			for _, e := range x.Edges {
				merge(fields(e, stack, depth+1))
			}
		case *ssa.Extract:
			if call, ok := x.Tuple.(*ssa.Call); ok {
				if h := call.Call.StaticCallee(); isKetoHelper(h) && len(stack) < 3 {
					st2 := append(append([]frame{}, stack...), frame{call, h})
					core.Instrs(h, func(_ *ssa.BasicBlock, _ int, ins ssa.Instruction) {
						if ret, ok := ins.(*ssa.Return); ok && x.Index < len(ret.Results) {
							merge(fields(ret.Results[x.Index], st2, depth+1))
						}
					})
				}
			}
		case *ssa.Alloc:
			if _, isStruct := deref(x.Type()).Underlying().(*types.Struct); isStruct && x.Referrers() != nil {
				for _, ref := range *x.Referrers() {
					fa, ok := ref.(*ssa.FieldAddr)
					if !ok || fa.Referrers() == nil || fieldVarOf(fa) == nil {
						continue
					}
					for _, r2 := range *fa.Referrers() {
						if st, ok := r2.(*ssa.Store); ok && st.Addr == ssa.Value(fa) {
							res[fieldVarOf(fa).Name()] = append(res[fieldVarOf(fa).Name()], keys(st.Val, stack, depth+1)...)
						}
					}
				}
			} else {
				for _, st := range core.CellStores(x) {
					merge(fields(st.Val, stack, depth+1))
				}
			}
		}
		return res
	}
	for _, g := range core.Closures(fn) {
		core.Instrs(g, func(_ *ssa.BasicBlock, _ int, ins ssa.Instruction) {
			st, ok := ins.(*ssa.Store)
			if !ok {
				return
			}
			fa, ok := st.Addr.(*ssa.FieldAddr)
			if !ok || fieldVarOf(fa) == nil {
				return
			}
			if n := core.NamedOf(fa.X.Type()); n == nil || n.Obj().Name() != typ {
				return
			}
			f := fieldVarOf(fa).Name()
			for _, k := range keys(st.Val, nil, 0) {
				out[k] = f
			}
			for sub, ks := range fields(st.Val, nil, 0) {
				for _, k := range ks {
					out[k] = f + "." + sub
				}
			}
		})
	}
	return out
}

func deref(t types.Type) types.Type {
	if pt, ok := t.Underlying().(*types.Pointer); ok {
		return pt.Elem()
	}
	return t
}
