package rules

import (
	"fmt"
	"go/token"
	"go/types"
	"strings"

	"golang.org/x/tools/go/ssa"

	"ketosa/internal/core"
)

func init() {
	Register(&Property{
		ID: "C09",
		Explanation: "Decides structural necessary conditions of expand: (R09.1) the recursion carries a guarded, strictly decreasing depth (termination certificate); (R09.2) the listing of a subject set is reached only through the not-yet-visited branch of the visited gate on that same subject, the context returned by the gate is the one handed to the recursive calls (one shared set per request), and the gate keys the set by an identity that reads namespace, object and relation; (R09.3) every child stored in the tree is the recursive result for, or a leaf carrying, the subject of a tuple taken from the listing of this node; (R09.4) the paging loop feeds the returned token into the next call and ends on the empty token; (R09.5) the depth continues from eff(request, global) as in check; (R09.8) every error of a listing or of a recursive expansion escapes into the returned error on every path (a swallowed error renders an incomplete tree as complete); (R09.7) the storage query behind the listing binds namespace, object and relation each to its own field under that field's non-nil guard, so a node's children are exactly the stored tuples of that subject set; (R09.6) with decrement c on the recursive edge and leaf guard depth<=k the tree has at most (d-k)/c+1 levels, which needs k>=c. " +
			"Not decided: completeness of the leaves with respect to check, equality of expand and check.",
		Assumptions: []string{"relationship data reachable within the depth is finite; the store returns every page"},
		Run:         runC09,
	})
}

func runC09(c *Ctx) {
	p, r := c.P, c.R
	// R09.1 termination
	certs := core.TerminationCerts(p, []string{"internal/expand"})
	for _, ct := range certs {
		if ct.OK {
			r.Discharge("R09.1", strings.Join(ct.Funcs, ", "), "recursive cycle", ct.Pos, ct.Detail, ct.Edges...)
		} else {
			r.Violate("R09.1", strings.Join(ct.Funcs, ", "), "recursive cycle", ct.Pos, ct.Detail, ct.Edges...)
		}
	}
	r.Floor("R09.1", 1, "buildTreeRecursive")

	// the recursive expand function: the function of internal/expand with a depth parameter that
	// applies the visited gate and lies on a cycle of static calls (it may recurse through a
	// helper the loop over the children was extracted into)
	callees := func(fn *ssa.Function) []*ssa.Function {
		var out []*ssa.Function
		for _, g := range core.Closures(fn) {
			core.Instrs(g, func(_ *ssa.BasicBlock, _ int, ins ssa.Instruction) {
				if ci, ok := ins.(ssa.CallInstruction); ok {
					if sc := ci.Common().StaticCallee(); sc != nil && sc.Blocks != nil && core.FuncPkg(sc) != nil && core.FuncPkg(sc) == core.FuncPkg(fn) {
						out = append(out, sc)
					}
				}
			})
		}
		return out
	}
	var rec *ssa.Function
	cycle := map[*ssa.Function]bool{} // the functions through which rec reaches itself
	for _, fn := range p.KetoFuncs("internal/expand") {
		if fn.Parent() != nil || depthParam(fn) == nil {
			continue
		}
		hasGate := false
		core.Instrs(fn, func(_ *ssa.BasicBlock, _ int, ins ssa.Instruction) {
			if ci, ok := ins.(*ssa.Call); ok && core.IsCallTo(ci, "CheckAndAddVisited") {
				hasGate = true
			}
		})
		// functions reachable from fn that reach fn
		reach := map[*ssa.Function]bool{}
		var dfs func(f *ssa.Function, depth int)
		dfs = func(f *ssa.Function, depth int) {
			if reach[f] || depth > 4 {
				return
			}
			reach[f] = true
			for _, c2 := range callees(f) {
				dfs(c2, depth+1)
			}
		}
		for _, c2 := range callees(fn) {
			dfs(c2, 0)
		}
		if !reach[fn] {
			continue
		}
		if rec == nil || hasGate {
			rec = fn
			cycle = map[*ssa.Function]bool{}
			for f := range reach {
				back := map[*ssa.Function]bool{}
				var d2 func(g *ssa.Function, depth int) bool
				d2 = func(g *ssa.Function, depth int) bool {
					if g == fn {
						return true
					}
					if back[g] || depth > 4 {
						return false
					}
					back[g] = true
					for _, c2 := range callees(g) {
						if d2(c2, depth+1) {
							return true
						}
					}
					return false
				}
				if f == fn || d2(f, 0) {
					cycle[f] = true
				}
			}
		}
	}
	if rec == nil {
		r.Undecide("R09.2", "", "anchor recursive expand function", "", "no recursive function with a depth parameter in internal/expand")
		return
	}
	name := core.FuncName(rec)

	// R09.2 visited gate
	var gate *ssa.Call
	var listing *ssa.Call
	var recCalls []*ssa.Call
	wrappersC09 := listingWrappers(p)
	isListingWrapper := func(f *ssa.Function) bool { _, ok := wrappersC09[f]; return ok }
	core.Instrs(rec, func(_ *ssa.BasicBlock, _ int, ins ssa.Instruction) {
		ci, ok := ins.(*ssa.Call)
		if !ok {
			return
		}
		switch {
		case core.IsCallTo(ci, "CheckAndAddVisited"):
			gate = ci
		case ci.Common().IsInvoke() && ci.Common().Method.Name() == "GetRelationTuples":
			listing = ci
		case ci.Common().StaticCallee() != nil && isListingWrapper(ci.Common().StaticCallee()):
			listing = ci // one page fetched through a helper
		case ci.Common().StaticCallee() != nil && cycle[ci.Common().StaticCallee()]:
			recCalls = append(recCalls, ci)
		}
	})
	// the helpers on the cycle hand their own context on
	var helperBad []string
	ctxArgOf := func(ci *ssa.Call) ssa.Value {
		for _, a := range ci.Common().Args {
			if core.IsNamed(a.Type(), "context", "Context") {
				return a
			}
		}
		return nil
	}
	for h := range cycle {
		if h == rec {
			continue
		}
		var hctx ssa.Value
		for _, par := range h.Params {
			if core.IsNamed(par.Type(), "context", "Context") {
				hctx = par
			}
		}
		for _, g := range core.Closures(h) {
			core.Instrs(g, func(_ *ssa.BasicBlock, _ int, ins ssa.Instruction) {
				if ci, ok := ins.(*ssa.Call); ok && ci.Common().StaticCallee() != nil && cycle[ci.Common().StaticCallee()] {
					if a := ctxArgOf(ci); a == nil || hctx == nil || core.ValueOrigin(a) != hctx {
						helperBad = append(helperBad, core.FuncName(h)+" does not hand the context it was given to the recursive call at "+p.Pos(ci.Pos()))
					}
				}
			})
		}
	}
	if gate == nil || listing == nil || len(recCalls) == 0 {
		r.Undecide("R09.2", name, "visited gate", p.Pos(rec.Pos()), "cannot find the visited gate, the listing call or the recursive call")
		return
	}
	var subjPar *ssa.Parameter
	for _, par := range rec.Params {
		if core.IsNamed(par.Type(), relPkg, "Subject") {
			subjPar = par
		}
	}
	var gateCtx, gateVisited ssa.Value
	if gate.Referrers() != nil {
		for _, ref := range *gate.Referrers() {
			if ex, ok := ref.(*ssa.Extract); ok {
				if ex.Index == 0 {
					gateCtx = ex
				} else {
					gateVisited = ex
				}
			}
		}
	}
	var bad []string
	if subjPar == nil || core.ValueOrigin(gate.Common().Args[1]) != ssa.Value(subjPar) {
		bad = append(bad, "the gate is not applied to the subject being expanded")
	}
	// listing dominated by visited == false
	okDom := false
	for _, cd := range core.CondsAt(listing.Block()) {
		// strip negations: !(!visited) etc.
		v, truth := core.ValueOrigin(cd.V), cd.True
		for i := 0; i < 4; i++ {
			u, ok := v.(*ssa.UnOp)
			if !ok || u.Op != token.NOT {
				break
			}
			v, truth = core.ValueOrigin(u.X), !truth
		}
		if v == gateVisited && !truth {
			okDom = true
		}
	}
	if !okDom {
		bad = append(bad, "the listing of the subject set is not confined to the not-yet-visited branch of the gate: a subject set is expanded more than once (and cyclic data does not terminate)")
	}
	bad = append(bad, helperBad...)
	for _, rc := range recCalls {
		if a := ctxArgOf(rc); a == nil || core.ValueOrigin(a) != gateCtx {
			bad = append(bad, "a recursive call is not given the context returned by the gate: the visited set is not shared along the recursion")
		}
	}
	if core.ValueOrigin(listing.Common().Args[0]) != gateCtx && !ctxDerivedFrom(listing.Common().Args[0], gateCtx, 0) {
		// harmless, not required
	}
	r.Check(len(bad) == 0, "R09.2", name, "visited gate", p.Pos(gate.Pos()),
		"the listing is reached only when the gate reports the subject as new, and the gate's context is passed on", strings.Join(bad, "; "))

	// the gate's key
	r092key(c)

	// R09.3 children derive from the listing
	var listRes ssa.Value
	if listing.Referrers() != nil {
		for _, ref := range *listing.Referrers() {
			if ex, ok := ref.(*ssa.Extract); ok && ex.Index == 0 {
				listRes = ex
			}
		}
	}
	// the values a parameter of an unexported function of the package stands for: the arguments
	// at its (static, live) call sites - a helper sees the listing / the subject through them
	kg := p.KG()
	live, _ := kg.Live()
	var argsOf func(par *ssa.Parameter, depth int) ([]ssa.Value, bool)
	argsOf = func(par *ssa.Parameter, depth int) ([]ssa.Value, bool) {
		fn := par.Parent()
		if fn == rec || depth > 3 || core.FuncPkg(fn) != core.FuncPkg(rec) || (fn.Object() != nil && fn.Object().Exported()) {
			return nil, false
		}
		idx := -1
		for i, q := range fn.Params {
			if q == par {
				idx = i
			}
		}
		var out []ssa.Value
		for _, e := range kg.In[fn] {
			if !live[e.Caller] {
				continue
			}
			ci, ok := e.Site.(ssa.CallInstruction)
			if !ok || e.Kind != "static" || idx < 0 || idx >= len(ci.Common().Args) {
				return nil, false
			}
			out = append(out, ci.Common().Args[idx])
		}
		return out, len(out) > 0
	}
	var isListing func(v ssa.Value, depth int) bool
	isListing = func(v ssa.Value, depth int) bool {
		if sliceRoot(v) == ssa.Value(listing) || core.ValueOrigin(v) == listRes {
			return true
		}
		if par, ok := core.ValueOrigin(v).(*ssa.Parameter); ok {
			args, ok := argsOf(par, depth)
			if !ok {
				return false
			}
			for _, a := range args {
				if !isListing(a, depth+1) {
					return false
				}
			}
			return true
		}
		return false
	}
	fromListing := func(v ssa.Value) bool {
		// v is r.Subject for r := range <the listing>
		u, ok := core.ValueOrigin(v).(*ssa.UnOp)
		if !ok || u.Op != token.MUL {
			return false
		}
		fa, ok := u.X.(*ssa.FieldAddr)
		if !ok || fieldVarOf(fa) == nil || fieldVarOf(fa).Name() != "Subject" {
			return false
		}
		elem, ok := core.ValueOrigin(fa.X).(*ssa.UnOp)
		if !ok {
			return false
		}
		ia, ok := elem.X.(*ssa.IndexAddr)
		if !ok {
			return false
		}
		if _, isConst := ia.Index.(*ssa.Const); isConst {
			return false // a fixed element of the listing, not the tuple of this iteration
		}
		return isListing(ia.X, 0)
	}
	// a subject that may label a node or be expanded: the subject being expanded, or the subject
	// of a listed tuple - also when it reaches the place through a helper's parameter
	var subjectOK func(v ssa.Value, depth int) bool
	subjectOK = func(v ssa.Value, depth int) bool {
		o := core.ValueOrigin(core.Unwrap(v))
		if o == ssa.Value(subjPar) || fromListing(v) {
			return true
		}
		// MakeInterface of the type-asserted parameter is the parameter itself
		if ta, ok := o.(*ssa.TypeAssert); ok && core.ValueOrigin(ta.X) == ssa.Value(subjPar) {
			return true
		}
		if ex, ok := o.(*ssa.Extract); ok {
			if ta, ok := ex.Tuple.(*ssa.TypeAssert); ok && core.ValueOrigin(ta.X) == ssa.Value(subjPar) {
				return true
			}
		}
		if par, ok := o.(*ssa.Parameter); ok {
			args, ok := argsOf(par, depth)
			if !ok {
				return false
			}
			for _, a := range args {
				if !subjectOK(a, depth+1) {
					return false
				}
			}
			return true
		}
		return false
	}
	subjArg := func(ci *ssa.Call) ssa.Value {
		for _, a := range ci.Common().Args {
			if core.IsNamed(a.Type(), relPkg, "Subject") {
				return a
			}
		}
		return nil
	}
	okRec := true
	nRecCalls := 0
	for f := range cycle {
		for _, g := range core.Closures(f) {
			core.Instrs(g, func(_ *ssa.BasicBlock, _ int, ins ssa.Instruction) {
				ci, ok := ins.(*ssa.Call)
				if !ok || ci.Common().StaticCallee() != rec {
					return
				}
				nRecCalls++
				if a := subjArg(ci); a == nil || !fromListing(a) {
					okRec = false
				}
			})
		}
	}
	r.Check(okRec && nRecCalls > 0, "R09.3", name, "recursive call subject", p.Pos(recCalls[0].Pos()),
		"each recursive expansion is for the subject of a tuple of this node's listing", "a recursive expansion is made for a subject that does not come from this node's listing: the tree gets edges that are not stored relationships")
	// Tree literals: Subject field store, in the recursive function and in the helpers it uses
	nLit, okLit := 0, true
	var builders []*ssa.Function
	for _, fn := range p.KetoFuncs("internal/expand") {
		if fn == rec || cycle[core.Outermost(fn)] {
			builders = append(builders, fn)
			continue
		}
		// a node constructor called from the cycle
		for _, e := range kg.In[core.Outermost(fn)] {
			if cycle[core.Outermost(e.Caller)] && e.Kind == "static" && fn.Parent() == nil && !(fn.Object() != nil && fn.Object().Exported()) {
				builders = append(builders, fn)
				break
			}
		}
	}
	for _, bf := range builders {
		core.Instrs(bf, func(_ *ssa.BasicBlock, _ int, ins ssa.Instruction) {
			st, ok := ins.(*ssa.Store)
			if !ok {
				return
			}
			fa, ok := st.Addr.(*ssa.FieldAddr)
			if !ok || fieldVarOf(fa) == nil || fieldVarOf(fa).Name() != "Subject" || !core.IsNamed(fa.X.Type(), relPkg, "Tree") {
				return
			}
			nLit++
			if !subjectOK(st.Val, 0) {
				okLit = false
			}
		})
	}
	r.Check(okLit && nLit >= 1, "R09.3", name, "Tree.Subject of every node built", p.Pos(rec.Pos()),
		fmt.Sprintf("all %d tree nodes built carry the expanded subject or the subject of a listed tuple", nLit), "a tree node is built with a subject that is neither the expanded subject nor a listed tuple's subject")

	// R09.4 paging, R09.5 clamp
	r075(c, "R09.4")
	r021Expand(c)
	for _, o := range r.Obls {
		if o.Rule == "R02.1" {
			o.Rule = "R09.5"
		}
	}

	// R09.6 level count: decrement c, leaf guard depth <= k
	dp := depthParam(rec)
	var dec, leafK int64 = -1, -1
	for _, rc := range recCalls {
		for i, par := range rec.Params {
			if par == dp {
				if bo, ok := rc.Common().Args[i].(*ssa.BinOp); ok && bo.Op == token.SUB {
					if k, ok := core.IntConst(bo.Y); ok {
						dec = k
					}
				}
			}
		}
		for _, cd := range core.CondsAt(rc.Block()) {
			op, x, y, ok := core.BinCmp(cd.V)
			if !ok {
				continue
			}
			k, isK := core.IntConst(y)
			if !isK {
				continue
			}
			o := core.ValueOrigin(x)
			isDepth := o == ssa.Value(dp)
			if phi, ok := o.(*ssa.Phi); ok {
				for _, e := range phi.Edges {
					if e == ssa.Value(dp) {
						isDepth = true
					}
				}
			}
			if !isDepth {
				continue
			}
			switch {
			case op == token.LEQ && !cd.True:
				leafK = k
			case op == token.LSS && !cd.True:
				leafK = k - 1
			case op == token.GTR && cd.True:
				leafK = k
			case op == token.GEQ && cd.True:
				leafK = k - 1
			}
		}
	}
	r.Check(dec >= 1 && leafK >= dec, "R09.6", name, "levels <= effective depth", p.Pos(rec.Pos()),
		fmt.Sprintf("decrement %d per level, leaf at depth <= %d: a tree rooted at effective depth d has (d-%d)/%d+1 <= d levels", dec, leafK, leafK, dec),
		fmt.Sprintf("decrement %d per level with leaf guard depth <= %d: the tree can have more levels than the effective max-depth", dec, leafK))
	// R09.7 the listing of a node matches exactly the namespace, object and relation of the subject set (the C04 predicate rules)
	r.SubRun(func() { runC04(c) }, map[string]string{"R04.3": "R09.7", "R04.4": "R09.7"})
	// R09.8 a failed listing below the root is reported, not rendered as a leaf (the C03 error discipline on expand)
	r.SubRun(func() { runC03(c) }, map[string]string{"R03.1": "R09.8", "R03.5": "R09.8"})
}

// r092key: the visited gate keys the set by an identity that reads all three
// identifying fields of a subject set.
func r092key(c *Ctx) {
	p, r := c.P, c.R
	gate := p.Func("internal/x/graph.CheckAndAddVisited")
	if gate == nil {
		r.Undecide("R09.2", "", "anchor graph.CheckAndAddVisited", "", "not found")
		return
	}
	// which fields of a subject set does the key depend on? Follow the value
	// added to the set through interface calls on the subject (to the
	// *SubjectSet implementation) and through helper functions.
	ssT := p.LookupType(relPkg, "SubjectSet")
	if ssT == nil {
		r.Undecide("R09.2", "", "anchor relationtuple.SubjectSet", "", "not found")
		return
	}
	st := ssT.Underlying().(*types.Struct)
	read := map[string]bool{}
	seenFn := map[*ssa.Function]bool{}
	var scan func(fn *ssa.Function, depth int)
	scan = func(fn *ssa.Function, depth int) {
		if fn == nil || fn.Blocks == nil || seenFn[fn] || depth > 4 {
			return
		}
		seenFn[fn] = true
		notSubjectSet := map[*ssa.BasicBlock]bool{}
		for _, b := range fn.Blocks {
			for _, cd := range core.CondsAt(b) {
				if ex, ok := cd.V.(*ssa.Extract); ok && ex.Index == 1 && !cd.True {
					if ta, ok := ex.Tuple.(*ssa.TypeAssert); ok && core.IsNamed(ta.AssertedType, relPkg, "SubjectSet") {
						notSubjectSet[b] = true // on this path the subject is not a subject set
					}
				}
			}
		}
		core.Instrs(fn, func(b *ssa.BasicBlock, _ int, ins ssa.Instruction) {
			if notSubjectSet[b] {
				return
			}
			switch x := ins.(type) {
			case *ssa.FieldAddr:
				if core.IsNamed(x.X.Type(), relPkg, "SubjectSet") && x.Referrers() != nil && len(*x.Referrers()) > 0 {
					if fv := fieldVarOf(x); fv != nil {
						read[fv.Name()] = true
					}
				}
			case *ssa.Field:
				if core.IsNamed(x.X.Type(), relPkg, "SubjectSet") {
					read[x.X.Type().Underlying().(*types.Struct).Field(x.Field).Name()] = true
				}
			case ssa.CallInstruction:
				cc := x.Common()
				if cc.IsInvoke() && core.IsNamed(cc.Value.Type(), relPkg, "Subject") {
					if sel := types.NewMethodSet(types.NewPointer(ssT)).Lookup(cc.Method.Pkg(), cc.Method.Name()); sel != nil {
						scan(p.SSA.MethodValue(sel), depth+1)
					}
				} else if sc := cc.StaticCallee(); sc != nil && core.IsKeto(core.FuncPkg(sc)) {
					takesSubject := false
					for _, a := range cc.Args {
						if core.IsNamed(a.Type(), relPkg, "Subject") || core.IsNamed(a.Type(), relPkg, "SubjectSet") {
							takesSubject = true
						}
					}
					if takesSubject && !strings.Contains(sc.Name(), "addNoDuplicate") {
						scan(sc, depth+1)
					}
				}
			}
		})
	}
	scan(gate, 0)
	var missing []string
	for i := 0; i < st.NumFields(); i++ {
		if !read[st.Field(i).Name()] {
			missing = append(missing, st.Field(i).Name())
		}
	}
	r.Check(len(missing) == 0, "R09.2", core.FuncName(gate), "visited key reads every identifying field", p.Pos(gate.Pos()),
		"the key of the visited set depends on the subject set's namespace, object and relation",
		"the key of the visited set ignores "+strings.Join(missing, ", ")+" of a subject set: subject sets that differ only there share one visited entry and one of them is never expanded")
}
