package rules

import (
	"fmt"
	"go/token"
	"go/types"
	"strings"

	"golang.org/x/tools/go/ssa"

	"ketosa/internal/core"
)

func init() {
	Register(&Property{
		ID: "C05",
		Explanation: "Decides that the transaction envelope of multi-relationship writes is structurally complete: (R05.1) every write statement of persistence/sql executes inside a function literal passed to a Transaction call; (R05.2) inside such a literal every context argument derives from the literal's own ctx parameter (which carries the transaction), and every statement runs on a connection obtained inside the literal from that ctx -- never on a captured connection or the persister's raw conn; (R05.3) inside such a literal no error is dropped: every non-nil path of every error returned by a call reaches the literal's return; (R05.4) in each write handler the mapping (Mapper().FromTuple) and the storage write happen in the same Transaction literal; (R05.5) a function that performs more than one write operation performs all of them inside one single Transaction literal, and that literal's Transaction call is not inside a loop; (R05.8) in the relationship handlers and their helpers the error of every ketoapi decoder or validator escapes on every non-nil path; (R05.7) no case folding in the write handlers and API types (a validation that folds case accepts a delta that the exact filter then drops); (R05.6) a write function iterates its input tuples whole (range, slices.Chunk) or in tiles where each chunk starts where the previous one ended. " +
			"Not decided: isolation level, popx.Transaction's commit-on-nil / rollback-on-error (trusted), crash behaviour of the database.",
		Assumptions: []string{
			"popx.Transaction commits iff the callback returns nil and joins an ambient transaction found in ctx",
			"popx.GetConnection(ctx, ...) returns the transaction's connection when ctx carries one",
		},
		Run: runC05,
	})
}

// txClosures: function literals passed to a Transaction(ctx, func(ctx) error) call.
func txClosures(p *core.Program) map[*ssa.Function]ssa.CallInstruction {
	out := map[*ssa.Function]ssa.CallInstruction{}
	for _, rel := range []string{sqlPkgRel, "internal/relationtuple", "internal/check", "internal/expand"} {
		for _, fn := range p.KetoFuncs(rel) {
			core.Instrs(fn, func(_ *ssa.BasicBlock, _ int, ins ssa.Instruction) {
				ci, ok := ins.(ssa.CallInstruction)
				if !ok {
					return
				}
				obj := core.CalleeObj(ci.Common())
				if obj == nil || obj.Name() != "Transaction" {
					return
				}
				for _, a := range ci.Common().Args {
					if mc, ok := a.(*ssa.MakeClosure); ok {
						cf := mc.Fn.(*ssa.Function)
						if cf.Signature.Params().Len() >= 1 && core.IsNamed(cf.Signature.Params().At(0).Type(), "context", "Context") {
							out[cf] = ci
						}
					}
				}
			})
		}
	}
	// helpers the body of a literal was extracted into: a function with a context parameter
	// every live call of which is a static call inside a transaction literal (or inside such a
	// helper) that passes a context derived from the literal's own ctx. It runs in the
	// caller's transaction on every call, so it is treated like the literal itself.
	kg := p.KG()
	live, _ := kg.Live()
	for changed := true; changed; {
		changed = false
		for _, fn := range p.KetoFuncs(sqlPkgRel) {
			if _, done := out[fn]; done || fn.Parent() != nil || txCtx(fn) == nil || isMigrationOrTestHelper(fn) {
				continue
			}
			idx := -1
			for i, par := range fn.Params {
				if par == txCtx(fn) {
					idx = i
				}
			}
			n, all := 0, true
			var first ssa.CallInstruction
			for _, e := range kg.In[fn] {
				if !live[e.Caller] || p.IsTestFile(e.Site.Pos()) {
					continue
				}
				n++
				ci, isCall := e.Site.(ssa.CallInstruction)
				lit := enclosingTx(e.Caller, out)
				if e.Kind != "static" || !isCall || lit == nil || idx >= len(ci.Common().Args) || !ctxDerivedFrom(ci.Common().Args[idx], txCtx(lit), 0) {
					all = false
					break
				}
				if first == nil {
					first = ci
				}
			}
			if n > 0 && all {
				out[fn] = first
				changed = true
			}
		}
	}
	return out
}

// txCtx: the context parameter of a transaction literal or helper (the first parameter of
// type context.Context).
func txCtx(fn *ssa.Function) *ssa.Parameter {
	for _, par := range fn.Params {
		if core.IsNamed(par.Type(), "context", "Context") {
			return par
		}
	}
	return nil
}

// enclosingTx returns the transaction literal fn is (nested in), or nil.
func enclosingTx(fn *ssa.Function, tx map[*ssa.Function]ssa.CallInstruction) *ssa.Function {
	for f := fn; f != nil; f = f.Parent() {
		if _, ok := tx[f]; ok {
			return f
		}
	}
	return nil
}

// ctxDerivedFrom: v derives from root through context-returning calls.
func ctxDerivedFrom(v ssa.Value, root ssa.Value, depth int) bool {
	if depth > 10 || v == nil {
		return false
	}
	v = core.ValueOrigin(v)
	if v == root {
		return true
	}
	switch x := v.(type) {
	case *ssa.Call:
		for _, a := range x.Common().Args {
			if core.IsNamed(a.Type(), "context", "Context") && ctxDerivedFrom(a, root, depth+1) {
				return true
			}
		}
	case *ssa.Extract:
		return ctxDerivedFrom(x.Tuple, root, depth+1)
	case *ssa.Phi:
		for _, e := range x.Edges {
			if !ctxDerivedFrom(e, root, depth+1) {
				return false
			}
		}
		return len(x.Edges) > 0
	case *ssa.Alloc:
		sts := core.CellStores(x)
		for _, st := range sts {
			if !ctxDerivedFrom(st.Val, root, depth+1) {
				return false
			}
		}
		return len(sts) > 0
	case *ssa.FreeVar:
		// a variable of an enclosing literal: resolve its binding
		if b := core.FreeVarBinding(x); b != nil {
			return ctxDerivedFrom(b, root, depth+1)
		}
	}
	return false
}

func runC05(c *Ctx) {
	p, r := c.P, c.R
	tx := txClosures(p)
	var txNames []string
	for f := range tx {
		txNames = append(txNames, core.FuncName(f))
	}
	r.Note("transaction_literals", dedupe(sortStrings(txNames)))
	if len(tx) < 7 {
		r.Undecide("R05.1", "", "transaction literals", "", fmt.Sprintf("%d function literals passed to Transaction found (floor 7: 5 in the persister, 3 in the handlers, minus shared)", len(tx)))
	}

	// the write set: functions containing a write statement, and their callers inside persistence/sql
	writeOps := map[*ssa.Function]bool{}
	for _, s := range p.StmtSites() {
		if !s.Write || isMigrationOrTestHelper(s.Fn) {
			continue
		}
		pk := core.FuncPkg(s.Fn)
		if pk == nil || pk.Path() != sqlPkgPath {
			continue
		}
		name := core.FuncName(s.Fn)
		top := core.Outermost(s.Fn)
		writeOps[top] = true
		// R05.1
		etx := enclosingTx(s.Fn, tx)
		r.Check(etx != nil, "R05.1", name, "write statement "+s.Callee.Name(), p.Pos(s.Call.Pos()),
			"executes inside a Transaction literal", "a write statement executes outside any Transaction literal: with several statements (chunks) a failure leaves the earlier ones applied")
		if etx == nil {
			continue
		}
		// R05.2 (connection): the statement's chain root is Connection(ctx')/queryWithNetwork(ctx') inside the literal on the literal's ctx
		root, _ := popChainRoot(s.Call.Common().Args[0])
		ctxPar := ssa.Value(txCtx(etx))
		okConn, why := false, "cannot find where the statement's connection comes from"
		if root != nil {
			cur := root
			for i := 0; i < 6 && cur != nil; i++ {
				obj := core.CalleeObj(cur.Common())
				if obj == nil {
					break
				}
				if obj.Name() == "queryWithNetwork" || obj.Name() == "Connection" {
					inLit := enclosingTx(cur.Parent(), tx) == etx
					var ctxArg ssa.Value
					for _, a := range cur.Common().Args {
						if core.IsNamed(a.Type(), "context", "Context") {
							ctxArg = a
						}
					}
					switch {
					case !inLit:
						why = "the connection is obtained outside the transaction literal and captured"
					case ctxArg == nil || !ctxDerivedFrom(ctxArg, ctxPar, 0):
						why = "the connection is obtained from a context other than the literal's own ctx (which carries the transaction)"
					default:
						okConn = true
					}
					break
				}
				// RawQuery(...) on a connection: follow the receiver
				if len(cur.Common().Args) == 0 {
					break
				}
				recv := core.ValueOrigin(cur.Common().Args[0])
				if fv, ok := recv.(*ssa.FreeVar); ok {
					why = "the statement runs on a captured value (" + fv.Name() + ") obtained outside the transaction literal"
					break
				}
				if u, ok := recv.(*ssa.UnOp); ok {
					if fa, ok := u.X.(*ssa.FieldAddr); ok {
						if fv := fieldVarOf(fa); fv != nil && fv.Name() == "conn" {
							why = "the statement runs on the persister's raw connection, bypassing the transaction in ctx"
							break
						}
					}
				}
				next, ok := recv.(*ssa.Call)
				if !ok {
					break
				}
				cur = next
			}
		}
		r.Check(okConn, "R05.2", name, "connection of "+s.Callee.Name(), p.Pos(s.Call.Pos()),
			"the statement runs on Connection(ctx) obtained inside the literal from the literal's own ctx", why)
	}
	// floor: the write statements judged above are what the persister's write operations execute:
	// at least four exported methods of the persister reach one (relationships written, deleted,
	// deleted by query, transacted; names mapped) - a count of statement sites would depend on
	// whether two operations share the code that executes their statement
	{
		sites := map[*ssa.Function]bool{}
		for _, s2 := range p.StmtSites() {
			if s2.Write && !isMigrationOrTestHelper(s2.Fn) {
				if pk := core.FuncPkg(s2.Fn); pk != nil && pk.Path() == sqlPkgPath {
					sites[core.Outermost(s2.Fn)] = true
				}
			}
		}
		nOps := 0
		for _, fn := range p.KetoFuncs(sqlPkgRel) {
			if fn.Parent() != nil || fn.Object() == nil || !fn.Object().Exported() || fn.Signature.Recv() == nil || isMigrationOrTestHelper(fn) {
				continue
			}
			seen := map[*ssa.Function]bool{}
			var reach func(f *ssa.Function, depth int) bool
			reach = func(f *ssa.Function, depth int) bool {
				if sites[f] {
					return true
				}
				if seen[f] || depth > 3 {
					return false
				}
				seen[f] = true
				hit := false
				for _, g := range core.Closures(f) {
					core.Instrs(g, func(_ *ssa.BasicBlock, _ int, ins ssa.Instruction) {
						if ci, ok := ins.(ssa.CallInstruction); ok && !hit {
							if sc := ci.Common().StaticCallee(); sc != nil && sc.Blocks != nil && core.FuncPkg(sc) != nil && core.FuncPkg(sc).Path() == sqlPkgPath {
								hit = reach(core.Outermost(sc), depth+1)
							}
						}
					})
				}
				return hit
			}
			if reach(fn, 0) {
				nOps++
			}
		}
		if nOps < 4 {
			r.Undecide("R05.1", "", "write operations of the persister", "", fmt.Sprintf("%d exported methods of the persister reach a write statement (floor 4)", nOps))
		}
	}
	r.Floor("R05.1", 1, "write statements")
	closeWriteOps(p, writeOps)

	// R05.2 (contexts): every context argument inside a transaction literal derives from its ctx
	for f := range tx {
		for _, g := range core.Closures(f) {
			core.Instrs(g, func(_ *ssa.BasicBlock, _ int, ins ssa.Instruction) {
				ci, ok := ins.(ssa.CallInstruction)
				if !ok {
					return
				}
				for _, a := range ci.Common().Args {
					if !core.IsNamed(a.Type(), "context", "Context") {
						continue
					}
					obj := core.CalleeObj(ci.Common())
					cname := "call"
					if obj != nil {
						cname = obj.Name()
					}
					ok2 := ctxDerivedFrom(a, txCtx(f), 0)
					// a nested Transaction literal's own ctx is fine as well
					if !ok2 {
						if inner := enclosingTx(g, tx); inner != nil && inner != f {
							ok2 = ctxDerivedFrom(a, txCtx(inner), 0)
						}
					}
					r.Check(ok2, "R05.2", core.FuncName(g), "ctx passed to "+cname, p.Pos(ins.Pos()),
						"derives from the transaction literal's own ctx",
						"a call inside a transaction literal is given a context that does not derive from the literal's ctx: it runs outside the transaction")
				}
			})
		}
	}

	// R05.3 error discipline inside transaction literals
	var txFns []*ssa.Function
	for f := range tx {
		txFns = append(txFns, core.Closures(f)...)
	}
	isSource := func(obj *types.Func) bool {
		if obj.Pkg() == nil {
			return false
		}
		switch obj.Pkg().Path() {
		case "github.com/pkg/errors", "errors", "fmt", "github.com/ory/x/sqlcon":
			return false
		}
		return true
	}
	pol := core.ErrPolicy{}
	n3 := 0
	for _, site := range core.ErrSites(txFns, isSource) {
		n3++
		v := p.CheckErrEscape(site, pol)
		name := core.FuncName(site.Fn)
		construct := "error of " + core.ObjName(site.Callee)
		if v.OK {
			r.Discharge("R05.3", name, construct, p.Pos(site.Call.Pos()), "returned from the transaction literal on every non-nil path")
		} else {
			r.Violate("R05.3", name, construct, p.Pos(v.BadPos), "inside a transaction literal: "+v.Detail+" -- the transaction commits although a statement failed")
		}
	}
	if n3 < 8 {
		r.Undecide("R05.3", "", "error sources in transaction literals", "", fmt.Sprintf("%d found (floor 8)", n3))
	}

	// R05.4 handlers: mapping and storage write in the same literal
	entries, _ := p.Entries()
	var roots []*ssa.Function
	for _, e := range entries {
		if e.Kind == "write" {
			roots = append(roots, e.Fn)
		}
	}
	served := p.KG().ReachLive(roots, nil)
	n4 := 0
	judged4 := map[*ssa.Function]bool{}
	for _, fn := range p.KetoFuncs("internal/relationtuple") {
		if !served.Has(fn) {
			continue
		}
		core.Instrs(fn, func(_ *ssa.BasicBlock, _ int, ins ssa.Instruction) {
			ci, ok := ins.(ssa.CallInstruction)
			if !ok || !ci.Common().IsInvoke() || !core.IsNamed(ci.Common().Value.Type(), relPkg, "Manager") {
				return
			}
			name := ci.Common().Method.Name()
			if name != "WriteRelationTuples" && name != "TransactRelationTuples" && name != "DeleteRelationTuples" {
				return
			}
			n4++
			judged4[core.Outermost(fn)] = true
			etx := enclosingTx(fn, tx)
			// the FromTuple call that feeds it
			sameLit := false
			if etx != nil {
				core.Instrs(fn, func(_ *ssa.BasicBlock, _ int, i2 ssa.Instruction) {
					if c2, ok := i2.(*ssa.Call); ok && core.IsCallTo(c2, "FromTuple") {
						sameLit = true
					}
				})
			}
			r.Check(etx != nil && sameLit, "R05.4", core.FuncName(fn), "FromTuple + "+name, p.Pos(ins.Pos()),
				"the name mapping (which inserts mapping rows) and the storage write run in the same Transaction literal",
				"the mapping and the storage write are not in one Transaction literal: a failure of the write leaves the mapping rows, or of a later tuple leaves earlier ones")
		})
	}
	// floor: every write entry reaches a storage call judged above (its own, or that of a helper
	// the handlers share)
	hits := 0
	for _, root := range roots {
		reach := p.KG().ReachLive([]*ssa.Function{root}, nil)
		for f := range judged4 {
			if reach.Has(f) {
				hits++
				break
			}
		}
	}
	if n4 < 1 || hits < 3 {
		r.Undecide("R05.4", "", "write handler storage calls", "", fmt.Sprintf("%d storage calls judged, reached by %d of the %d write entries (floor 1 and 3: create, patch, transact)", n4, hits, len(roots)))
	}

	// R05.5 several write operations in one function => one literal
	for _, fn := range p.KetoFuncs(sqlPkgRel) {
		if fn.Parent() != nil || isMigrationOrTestHelper(fn) {
			continue
		}
		type op struct {
			ins ssa.Instruction
			lit *ssa.Function
			rep bool
		}
		var ops []op
		for _, g := range core.Closures(fn) {
			core.Instrs(g, func(b *ssa.BasicBlock, _ int, ins ssa.Instruction) {
				ci, ok := ins.(ssa.CallInstruction)
				if !ok {
					return
				}
				isWrite := false
				if obj := core.CalleeObj(ci.Common()); obj != nil {
					if st, w := core.IsStmtCall(obj); st && w {
						isWrite = true
					}
				}
				if sc := ci.Common().StaticCallee(); sc != nil && writeOps[sc] && sc != fn {
					isWrite = true
				}
				if isWrite {
					rep := core.InLoop(b)
					for q := g; q != nil && q != fn; q = q.Parent() {
						if strings.Contains(q.Synthetic, "range-over-func") {
							rep = true // the body of `for x := range seq` runs once per element
						}
					}
					ops = append(ops, op{ins, enclosingTx(g, tx), rep})
				}
			})
		}
		multi := len(ops) > 1
		for _, o := range ops {
			if o.rep {
				multi = true
			}
		}
		if !multi {
			continue
		}
		lits := map[*ssa.Function]bool{}
		outside := false
		for _, o := range ops {
			if o.lit == nil {
				outside = true
			} else {
				// the outermost literal within fn
				l := o.lit
				for q := l.Parent(); q != nil; q = q.Parent() {
					if _, ok := tx[q]; ok {
						l = q
					}
				}
				lits[l] = true
			}
		}
		// the one literal must be entered once: its Transaction call is not in a loop
		repeated := false
		for l := range lits {
			if site, ok := tx[l]; ok {
				if core.InLoop(site.Block()) {
					repeated = true
				}
				for q := site.Parent(); q != nil && q != fn; q = q.Parent() {
					if strings.Contains(q.Synthetic, "range-over-func") {
						repeated = true
					}
				}
			}
		}
		why := fmt.Sprintf("the function performs several write operations that are not all inside one single Transaction literal (%d literal(s), outside any: %v): a failure between them leaves a partial result", len(lits), outside)
		if !outside && len(lits) == 1 && repeated {
			why = "the Transaction call that encloses the write operations is itself inside a loop: each iteration commits on its own, a failure in a later iteration leaves the earlier ones stored"
		}
		r.Check(!outside && len(lits) == 1 && !repeated, "R05.5", core.FuncName(fn), fmt.Sprintf("%d write operations", len(ops)), p.Pos(fn.Pos()),
			"all write operations of the function run inside one Transaction literal that is entered once", why)
	}
	r.Floor("R05.5", 2, "the transacting write and at least one chunked writer (how many depends on whether writers share their chunk loop)")

	inputTuplesCovered(c, "R05.6", writeOps)
	// R05.8 a delta that cannot be decoded or validated fails the whole request: in the write handlers and
	// their helpers the error of every ketoapi decoder / validator escapes on every non-nil path
	{
		var hf []*ssa.Function
		for _, fn := range p.KetoFuncs("internal/relationtuple") {
			hf = append(hf, fn)
		}
		apiSrc := func(obj *types.Func) bool {
			return obj.Pkg() != nil && strings.HasSuffix(obj.Pkg().Path(), "/ketoapi") && obj.Type().(*types.Signature).Recv() != nil
		}
		pol := core.ErrPolicy{
			IsSink: func(obj *types.Func, _ *ssa.CallCommon) bool {
				return obj.Pkg() != nil && obj.Pkg().Path() == herodotPkg && strings.HasPrefix(obj.Name(), "WriteError")
			},
			HandledIs: func(ssa.Value) bool { return false },
		}
		n8 := 0
		for _, site := range core.ErrSites(hf, apiSrc) {
			n8++
			v := p.CheckErrEscape(site, pol)
			name := core.FuncName(site.Fn)
			construct := "error of " + core.ObjName(site.Callee)
			if v.OK {
				r.Discharge("R05.8", name, construct, p.Pos(site.Call.Pos()), v.Detail)
			} else {
				r.Violate("R05.8", name, construct, p.Pos(v.BadPos), v.Detail+": the request goes on with the deltas decoded so far and reports success for a part of it")
			}
		}
		if n8 < 3 {
			r.Undecide("R05.8", "", "decoder/validator calls in the write handlers", "", fmt.Sprintf("%d found (floor 3)", n8))
		}
	}
	// R05.7 the validation of a request and the code that applies it compare actions and names the same way
	noCaseFolding(c, "R05.7", []string{"internal/relationtuple", "ketoapi"})
}

func sortStrings(in []string) []string {
	out := append([]string{}, in...)
	for i := 1; i < len(out); i++ {
		for j := i; j > 0 && strings.Compare(out[j-1], out[j]) > 0; j-- {
			out[j-1], out[j] = out[j], out[j-1]
		}
	}
	return out
}

// inputTuplesCovered: every input tuple reaches a statement: a write function
// iterates its input slice whole (range, slices.Chunk) or cuts it into tiles
// that cover it.
func inputTuplesCovered(c *Ctx, rule string, writeOps map[*ssa.Function]bool) {
	p, r := c.P, c.R
	// R05.6 every input tuple reaches a statement: a write function iterates its
	// input slice whole (range, slices.Chunk) or cuts it into tiles that cover it
	nIn := 0
	for top := range writeOps {
		var inputs []ssa.Value
		for _, par := range top.Params {
			if sl, ok := par.Type().Underlying().(*types.Slice); ok {
				if pt, ok := sl.Elem().(*types.Pointer); ok && core.IsNamed(pt.Elem(), relPkg, "RelationTuple") {
					inputs = append(inputs, par)
				}
			}
		}
		if len(inputs) == 0 {
			continue
		}
		nIn++
		isInput := func(v ssa.Value) bool {
			o := core.ValueOrigin(v)
			if fv, ok := o.(*ssa.FreeVar); ok {
				o = core.ValueOrigin(core.FreeVarBinding(fv))
			}
			for _, in := range inputs {
				if o == in {
					return true
				}
			}
			return false
		}
		var bad []string
		nSlices := 0
		for _, g := range core.Closures(top) {
			core.Instrs(g, func(b *ssa.BasicBlock, _ int, ins ssa.Instruction) {
				sl, ok := ins.(*ssa.Slice)
				if !ok || !isInput(sl.X) {
					return
				}
				nSlices++
				lowZero := sl.Low == nil
				if k, isK := core.IntConst(sl.Low); sl.Low != nil && isK && k == 0 {
					lowZero = true
				}
				if lowZero && sl.High == nil {
					return // rs[:]
				}
				// a tile: low = phi(0, high)
				if ph, ok := sl.Low.(*ssa.Phi); ok && core.InLoop(b) {
					okTile := true
					for _, e := range ph.Edges {
						if k, isK := core.IntConst(e); isK && k == 0 {
							continue
						}
						if e == sl.High || core.ValueOrigin(e) == core.ValueOrigin(sl.High) {
							continue
						}
						// an index window: lo += K with hi = min(lo+K, len(rs)) - the stride is the window size
						if k, ok := plusConstOf(e, ph); ok && highIsWindow(sl.High, ph, k, isInput) {
							continue
						}
						okTile = false
					}
					if okTile {
						return
					}
					bad = append(bad, fmt.Sprintf("%s: the chunks rs[lo:hi] do not tile the input: the next chunk does not start where this one ends, so tuples at the seams are skipped (or written twice)", p.Pos(sl.Pos())))
					return
				}
				bad = append(bad, fmt.Sprintf("%s: the input slice is cut (%s) in a way that is not a recognised full iteration or tiling", p.Pos(sl.Pos()), sl.String()))
			})
		}
		r.Check(len(bad) == 0, rule, core.FuncName(top), "input tuples covered", p.Pos(top.Pos()),
			fmt.Sprintf("the input slice is only iterated whole or tiled (%d sub-slice expressions)", nSlices), strings.Join(bad, "; "))
	}
	if nIn < 1 {
		r.Undecide(rule, "", "write functions with a tuple slice parameter", "", fmt.Sprintf("%d found (floor 1)", nIn))
	}
}

// plusConstOf: v == base + K (either operand order) for an integer constant K > 0.
func plusConstOf(v ssa.Value, base ssa.Value) (int64, bool) {
	bo, ok := v.(*ssa.BinOp)
	if !ok || bo.Op != token.ADD {
		return 0, false
	}
	if bo.X == base {
		if k, ok := core.IntConst(bo.Y); ok && k > 0 {
			return k, true
		}
	}
	if bo.Y == base {
		if k, ok := core.IntConst(bo.X); ok && k > 0 {
			return k, true
		}
	}
	return 0, false
}

// highIsWindow: hi == min(lo+k, len(input)) (argument order free).
func highIsWindow(hi ssa.Value, lo ssa.Value, k int64, isInput func(ssa.Value) bool) bool {
	c, ok := hi.(*ssa.Call)
	if !ok {
		return false
	}
	bi, ok := c.Call.Value.(*ssa.Builtin)
	if !ok || bi.Name() != "min" || len(c.Call.Args) != 2 {
		return false
	}
	hasEnd, hasLen := false, false
	for _, a := range c.Call.Args {
		if k2, ok := plusConstOf(a, lo); ok && k2 == k {
			hasEnd = true
		}
		if lc, ok := a.(*ssa.Call); ok {
			if b2, ok := lc.Call.Value.(*ssa.Builtin); ok && b2.Name() == "len" && len(lc.Call.Args) == 1 && isInput(lc.Call.Args[0]) {
				hasLen = true
			}
		}
	}
	return hasEnd && hasLen
}

// closeWriteOps: a function of persistence/sql that calls a writing function writes as well (the
// statement may have been extracted into a helper).
func closeWriteOps(p *core.Program, writeOps map[*ssa.Function]bool) {
	for changed := true; changed; {
		changed = false
		for _, fn := range p.KetoFuncs(sqlPkgRel) {
			if fn.Parent() != nil || writeOps[fn] || isMigrationOrTestHelper(fn) {
				continue
			}
			for _, g := range core.Closures(fn) {
				core.Instrs(g, func(_ *ssa.BasicBlock, _ int, ins ssa.Instruction) {
					if ci, ok := ins.(ssa.CallInstruction); ok {
						if sc := ci.Common().StaticCallee(); sc != nil && writeOps[sc] && !writeOps[fn] {
							writeOps[fn] = true
							changed = true
						}
					}
				})
			}
		}
	}
}
