package rules

import (
	"fmt"
	"go/types"
	"sort"
	"strings"

	"golang.org/x/tools/go/ssa"

	"ketosa/internal/core"
)

const astPkg = core.KetoMod + "/internal/namespace/ast"

// Transformer is a function that receives a Result and produces one, with the
// role the repository gives it and its abstract decision table.
type Transformer struct {
	Fn      *ssa.Function
	Role    string // or | and | not | group | pass | drain | unknown
	Rc      core.Receive
	Table   map[core.AbsRes][]core.PathOutcome
	Unknown []string
	CtxArms [][]core.PathOutcome // outcomes of the ctx.Done() arms of the same select
}

var absInputs = []core.AbsRes{
	{M: core.MU, Err: false}, {M: core.MI, Err: false}, {M: core.MN, Err: false},
	{M: core.MU, Err: true}, {M: core.MI, Err: true}, {M: core.MN, Err: true},
}

// operatorRoles maps functions to "or"/"and" by following the function value
// selected under `rewrite.Operation == ast.OperatorOr/And`.
func operatorRoles(p *core.Program) map[*ssa.Function]string {
	roles := map[*ssa.Function]string{}
	opVal := map[int64]string{}
	for name, role := range map[string]string{"OperatorOr": "or", "OperatorAnd": "and"} {
		if c, ok := p.LookupObj(astPkg, name).(*types.Const); ok {
			var n int64
			fmt.Sscan(c.Val().ExactString(), &n)
			opVal[n] = role
		}
	}
	for _, fn := range p.KetoFuncs("internal/check") {
		core.Instrs(fn, func(b *ssa.BasicBlock, _ int, ins ssa.Instruction) {
			if st, ok := ins.(*ssa.Store); ok {
				// op is captured by a closure: a heap cell assigned per switch arm
				if f, ok := st.Val.(*ssa.Function); ok {
					for _, cd := range core.CondsAt(b) {
						op, x, y, ok := cd.Holds()
						if !ok || op.String() != "==" {
							continue
						}
						if k, ok := core.IntConst(y); ok && core.IsNamed(x.Type(), astPkg, "Operator") {
							if role, ok := opVal[k]; ok {
								roles[f] = role
							}
						}
					}
				}
				return
			}
			phi, ok := ins.(*ssa.Phi)
			if !ok {
				return
			}
			if _, isSig := phi.Type().Underlying().(*types.Signature); !isSig {
				return
			}
			for i, e := range phi.Edges {
				f, ok := e.(*ssa.Function)
				if !ok {
					continue
				}
				pred := phi.Block().Preds[i]
				for _, cd := range core.CondsOnEdge(pred, phi.Block()) {
					op, x, y, ok := cd.Holds()
					if !ok || op.String() != "==" {
						continue
					}
					if k, ok := core.IntConst(y); ok && core.IsNamed(x.Type(), astPkg, "Operator") {
						if role, ok := opVal[k]; ok {
							roles[f] = role
						}
					}
				}
			}
		})
	}
	return roles
}

// Transformers enumerates and tabulates every Result receiver in check/checkgroup.
func Transformers(p *core.Program) ([]*Transformer, *core.ResultInfo, error) {
	ri, err := p.ResultInfo(checkgroupPkg)
	if err != nil {
		return nil, nil, err
	}
	roles := operatorRoles(p)
	var out []*Transformer
	for _, fn := range engineFuncs(p) {
		for _, rc := range ri.Receives(fn) {
			t := &Transformer{Fn: fn, Rc: rc, Table: map[core.AbsRes][]core.PathOutcome{}, Role: "unknown"}
			switch {
			case roles[fn] != "":
				t.Role = roles[fn]
			case isDrainFunc(fn):
				t.Role = "drain"
			case hasParamOfType(fn.Parent(), astPkg, "InvertResult"):
				t.Role = "not"
			case storesResultField(fn, ri):
				t.Role = "group"
			default:
				t.Role = "pass"
			}
			seenU := map[string]bool{}
			for _, in := range absInputs {
				oc, unk := ri.Run(rc, in)
				t.Table[in] = oc
				for _, u := range unk {
					if !seenU[u] {
						seenU[u] = true
						t.Unknown = append(t.Unknown, u)
					}
				}
			}
			// the other arms of the same select that wait on ctx.Done()
			if rc.Sel != nil {
				for i, st := range rc.Sel.States {
					if i == rc.Arm || !core.IsCtxDone(st.Chan) {
						continue
					}
					body := core.SelectArmBody(rc.Sel, i)
					if body == nil {
						continue
					}
					oc, unk := ri.Run(core.Receive{Fn: fn, Start: body, Head: rc.Head, Sel: rc.Sel, Arm: i}, core.AbsRes{})
					t.CtxArms = append(t.CtxArms, oc)
					t.Unknown = append(t.Unknown, unk...)
				}
			}
			out = append(out, t)
		}
	}
	// a helper that waits for the result on behalf of its callers (result, ok := awaitResult(ctx, ch))
	// answers a cancellation to its caller, not to the check's result channel: what the cancellation
	// arm "answers" is what each caller makes of the helper's return on that path
	byFn := map[*ssa.Function][]*Transformer{}
	for _, t := range out {
		byFn[t.Fn] = append(byFn[t.Fn], t)
	}
	for _, c := range out {
		if c.Rc.Call == nil {
			continue
		}
		h := c.Rc.Call.Call.StaticCallee()
		for _, ht := range byFn[h] {
			if ht.Rc.Sel == nil {
				continue
			}
			ht.CtxArms = nil // judged in the callers
			for i, st := range ht.Rc.Sel.States {
				if i == ht.Rc.Arm || !core.IsCtxDone(st.Chan) {
					continue
				}
				body := core.SelectArmBody(ht.Rc.Sel, i)
				if body == nil {
					continue
				}
				// the returns of that arm: value of the Result, constants of the other results
				seenB := map[*ssa.BasicBlock]bool{}
				var walk func(b *ssa.BasicBlock)
				walk = func(b *ssa.BasicBlock) {
					if seenB[b] || !body.Dominates(b) {
						return
					}
					seenB[b] = true
					if len(b.Instrs) > 0 {
						if ret, ok := b.Instrs[len(b.Instrs)-1].(*ssa.Return); ok && len(ret.Results) > 0 {
							oc, unk := ri.Run(core.Receive{Fn: h, Start: b, Head: ht.Rc.Head, Sel: ht.Rc.Sel, Arm: i}, core.AbsRes{})
							c.Unknown = append(c.Unknown, unk...)
							for _, o := range oc {
								if o.Kind != "return" {
									continue
								}
								rc2 := c.Rc
								rc2.Flags = map[ssa.Value]int{}
								if c.Rc.Call.Referrers() != nil {
									for _, ref := range *c.Rc.Call.Referrers() {
										ex, ok := ref.(*ssa.Extract)
										if !ok || ex.Index == 0 || ex.Index >= len(ret.Results) {
											continue
										}
										if k, ok := ret.Results[ex.Index].(*ssa.Const); ok && k.Value != nil && core.BoolType(k.Type()) {
											rc2.Flags[ex] = 0
											if k.Value.String() == "true" {
												rc2.Flags[ex] = 1
											}
										}
									}
								}
								oc2, unk2 := ri.Run(rc2, o.Val)
								c.CtxArms = append(c.CtxArms, oc2)
								c.Unknown = append(c.Unknown, unk2...)
							}
						}
					}
					for _, sc := range b.Succs {
						walk(sc)
					}
				}
				walk(body)
			}
		}
	}
	sort.Slice(out, func(i, j int) bool { return core.FuncName(out[i].Fn) < core.FuncName(out[j].Fn) })
	return out, ri, nil
}

func hasParamOfType(fn *ssa.Function, pkg, name string) bool {
	if fn == nil {
		return false
	}
	for _, par := range fn.Params {
		if core.IsNamed(par.Type(), pkg, name) {
			return true
		}
	}
	return false
}

func storesResultField(fn *ssa.Function, ri *core.ResultInfo) bool {
	found := false
	core.Instrs(fn, func(_ *ssa.BasicBlock, _ int, ins ssa.Instruction) {
		if st, ok := ins.(*ssa.Store); ok {
			if fa, ok := st.Addr.(*ssa.FieldAddr); ok && ri.IsResult(st.Val.Type()) {
				_ = fa
				found = true
			}
		}
	})
	return found
}

// TableString renders a decision table.
func (t *Transformer) TableString() []string {
	var out []string
	for _, in := range absInputs {
		var os []string
		for _, o := range t.Table[in] {
			os = append(os, o.String())
		}
		out = append(out, in.String()+" -> "+strings.Join(os, " | "))
	}
	return out
}

// Contract violations of a transformer for its role. Each violation names the
// abstract input and the offending outcome. clause selects which part of the
// contract is reported: "bool" (IsMember/NotMember truth table, C01),
// "err" (error pairing, C03), "unknown" (cut-off handling, C02).
type ContractViolation struct {
	Clause string
	Input  core.AbsRes
	Out    core.PathOutcome
	Why    string
}

func (t *Transformer) Check() []ContractViolation {
	var vs []ContractViolation
	add := func(clause string, in core.AbsRes, o core.PathOutcome, why string) {
		vs = append(vs, ContractViolation{clause, in, o, why})
	}
	produced := func(o core.PathOutcome) bool {
		return o.Kind == "return" || o.Kind == "send" || o.Kind == "store"
	}
	for _, in := range absInputs {
		ocs := t.Table[in]
		anyProduced, anyContinue := false, false
		for _, o := range ocs {
			if produced(o) {
				anyProduced = true
			}
			if o.Kind == "continue" {
				anyContinue = true
			}
		}
		for _, o := range ocs {
			if produced(o) {
				// inductive invariant: never (IsMember, err) out, given never
				// (IsMember, err) in
				if o.Val.Err && o.Val.M == core.MI && !(in.Err && in.M == core.MI) {
					add("err", in, o, "produces IsMember together with an error")
				}
				if o.Val.M < 0 {
					add("bool", in, o, "produces a membership the analysis cannot determine")
				}
			}
			switch t.Role {
			case "or", "group":
				switch {
				case in.Err:
					if o.Kind == "continue" {
						add("err", in, o, "goes on to the next sub-check after receiving an error: the error is dropped")
					}
					if produced(o) && !o.Val.Err {
						add("err", in, o, "answers without the error it received")
					}
				case in.M == core.MI:
					if o.Kind == "continue" {
						add("bool", in, o, "a union goes on after a member result: the final answer can become 'not a member'")
					}
					if produced(o) && o.Val.M != core.MI {
						add("bool", in, o, "a union answers "+o.Val.String()+" for a sub-check that is a member")
					}
				default: // (N|U, nil)
					if produced(o) && (o.Val.M == core.MI || o.Val.Err) {
						add("bool", in, o, "a union answers "+o.Val.String()+" after a sub-check that is not a member")
					}
				}
			case "and":
				switch {
				case in.Err:
					if o.Kind == "continue" {
						add("err", in, o, "goes on to the next operand after receiving an error: the error is dropped")
					}
					if produced(o) && !o.Val.Err {
						add("err", in, o, "answers without the error it received")
					}
				case in.M == core.MI:
					if produced(o) && o.Val.M != core.MI {
						add("bool", in, o, "an intersection answers "+o.Val.String()+" although this operand is a member and no other said otherwise")
					}
				default:
					if o.Kind == "continue" {
						add("bool", in, o, "an intersection goes on after an operand that is not a member: the final answer can become 'is a member'")
					}
					if produced(o) && (o.Val.M == core.MI || o.Val.Err) {
						add("bool", in, o, "an intersection answers "+o.Val.String()+" after an operand that is not a member")
					}
				}
			case "not":
				if !produced(o) {
					continue
				}
				switch {
				case in.Err:
					if !o.Val.Err {
						add("err", in, o, "a negation answers without the error it received")
					}
				case in.M == core.MI:
					if o.Val.M == core.MI {
						add("bool", in, o, "a negation answers IsMember for a child that is a member")
					}
				case in.M == core.MN:
					if o.Val.M == core.MN {
						add("bool", in, o, "a negation answers NotMember for a child that is not a member")
					}
				case in.M == core.MU:
					if o.Val.M == core.MI {
						add("unknown", in, o, "a negation turns a cut-off (Unknown) into IsMember")
					}
				}
			case "pass":
				if produced(o) && in.Err && !o.Val.Err {
					add("err", in, o, "a pass-through stage answers without the error it received")
				}
				if produced(o) && (o.Val.M != in.M || o.Val.Err != in.Err) {
					add("bool", in, o, "a pass-through stage changes the decision from "+in.String()+" to "+o.Val.String())
				}
			}
		}
		switch t.Role {
		case "or", "group", "and", "not", "pass":
			if !anyProduced && !anyContinue {
				add("bool", in, core.PathOutcome{Kind: "none"}, "no outcome found for this input (analysis lost the path)")
			}
		}
		if t.Role == "not" || t.Role == "pass" {
			if anyContinue {
				add("bool", in, core.PathOutcome{Kind: "continue"}, "single-result stage loops back to the receive")
			}
		}
	}
	// ctx.Done() arms must answer with an error and never IsMember
	for _, arm := range t.CtxArms {
		for _, o := range arm {
			if produced(o) && (!o.Val.Err || o.Val.M == core.MI) {
				add("err", core.AbsRes{}, o, "the cancellation arm answers "+o.Val.String()+" instead of an error")
			}
		}
	}
	return vs
}
