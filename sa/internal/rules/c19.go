package rules

import (
	"fmt"
	"go/token"
	"go/types"
	"strings"

	"golang.org/x/tools/go/ssa"

	"ketosa/internal/core"
)

func init() {
	Register(&Property{
		ID: "C19",
		Explanation: "Decides structural necessary conditions of keep-last-good, never-partial reloads: (R19.1) namespaces parsed from files are published (set) only on the false branch of a non-emptiness test of an error list into which every error of schema.Parse / io.ReadAll of that function is appended, and when a changed file does not parse its previous content is restored or its new entry removed, on every path of the failed branch; (R19.2) in the legacy watcher the entry of a file whose new content does not parse keeps its last parsed namespace (only its raw contents are updated); (R19.3) no namespace manager stores a one-shot stream (io.Reader without Seek/ReadAt) that is read again on a later event; (R19.4) lock discipline and no re-entrant locking in the managers and Config; (R19.5) every read method of a namespace manager answers under its lock; (R19.6) publishing replaces the visible set as a whole (a fresh map), never merges into the live one; (R19.10) the change handlers read the event's own reader to the end (no limiting or filtering wrapper); (R19.9) the handler of a watcher error event writes nothing into its manager; (R19.8) in the watchers' event loop every event received reaches a handler call before the loop goes on (no debounce or filter drops a version of a file); (R19.7) for every kind of namespace configuration the value handed to ShouldReload has the dynamic type that the matching manager's ShouldReload compares against, so an unrelated configuration change does not tear down the manager (and with it the last good versions). " +
			"Not decided: eventual delivery of file events (watcherx, the OS), what is visible between events of different files.",
		Assumptions: []string{"schema.Parse(\"\") yields no namespaces and no error (read in the parser)"},
		Run:         runC19,
	})
}

const cfgRel = "internal/driver/config"
const cfgPkg = core.KetoMod + "/" + cfgRel

func runC19(c *Ctx) {
	p, r := c.P, c.R
	r191(c)
	r192(c)
	r193(c)
	// R19.4 / R19.5
	n := reportLocks(c, "R19.4", []string{cfgRel}, nil)
	if n < 8 {
		r.Undecide("R19.4", "", "guarded accesses in driver/config", "", fmt.Sprintf("%d found (floor 8)", n))
	}
	r195(c)
	r196(c)
	r197(c)
	r198(c)
	r199(c)
	r1910(c)
	_ = p
}

// ---- R19.1 the publish gate ------------------------------------------------------------------------

func r191(c *Ctx) {
	p, r := c.P, c.R
	n := 0
	for _, fn := range p.KetoFuncs(cfgRel) {
		core.Instrs(fn, func(b *ssa.BasicBlock, _ int, ins ssa.Instruction) {
			call, ok := ins.(*ssa.Call)
			if !ok {
				return
			}
			sc := call.Common().StaticCallee()
			if sc == nil || sc.Name() != "set" || !strings.Contains(core.FuncName(sc), "memoryNamespaceManager") {
				return
			}
			// only publishers of freshly parsed data: the function (or a helper of the package it
			// calls) also calls schema.Parse
			var parses []*ssa.Call
			parsesIn := func(f *ssa.Function) []*ssa.Call {
				var out []*ssa.Call
				core.Instrs(f, func(_ *ssa.BasicBlock, _ int, i2 ssa.Instruction) {
					if c2, ok := i2.(*ssa.Call); ok {
						if s2 := c2.Common().StaticCallee(); s2 != nil && s2.Name() == "Parse" && core.FuncPkg(s2).Path() == schemaPkg {
							out = append(out, c2)
						}
					}
				})
				return out
			}
			parses = parsesIn(fn)
			core.Instrs(fn, func(_ *ssa.BasicBlock, _ int, i2 ssa.Instruction) {
				if c2, ok := i2.(*ssa.Call); ok {
					if s2 := c2.Common().StaticCallee(); s2 != nil && s2.Blocks != nil && core.FuncPkg(s2) == core.FuncPkg(fn) && s2 != fn {
						parses = append(parses, parsesIn(s2)...)
					}
				}
			})
			if len(parses) == 0 {
				return
			}
			n++
			name := core.FuncName(fn)
			// the gate: set dominated by !(len(errs) > 0)
			var errsCell ssa.Value
			for _, cd := range core.CondsAt(b) {
				op, x, y, ok := core.BinCmp(cd.V)
				if !ok {
					continue
				}
				lc, isLen := x.(*ssa.Call)
				if !isLen {
					continue
				}
				bi, isB := lc.Call.Value.(*ssa.Builtin)
				k, isK := core.IntConst(y)
				if !isB || bi.Name() != "len" || !isK || k != 0 {
					continue
				}
				if (op == token.GTR && !cd.True) || (op == token.EQL && cd.True) || (op == token.NEQ && !cd.True) {
					errsCell = sliceRootValue(lc.Call.Args[0])
				}
			}
			var bad []string
			if errsCell == nil {
				bad = append(bad, "the publish is not on the 'no errors' branch of a test of an error list")
			} else {
				// every Parse error flows into that list
				for _, pc := range parses {
					if !errorsAppendedTo(pc, errsCell) {
						bad = append(bad, fmt.Sprintf("the errors of schema.Parse at %s are not appended to the tested error list", p.Pos(pc.Pos())))
					}
				}
			}
			r.Check(len(bad) == 0, "R19.1", name, "publish gate", p.Pos(call.Pos()),
				"namespaces are published only when the list collecting every parse error is empty", strings.Join(bad, "; "))
		})
	}
	if n < 1 {
		r.Undecide("R19.1", "", "publishers of parsed namespaces", "", "no function both parses OPL and calls set")
	}
	// the change handler restores the previous content when parsing fails
	hc := p.Func("(*internal/driver/config.oplConfigWatcher).handleChange")
	if hc == nil {
		r.Undecide("R19.1", "", "anchor oplConfigWatcher.handleChange", "", "not found")
		return
	}
	restores := false
	// a map update / delete (of the staged entry), directly or in a helper of the package
	var isRestoreIns func(ins ssa.Instruction, depth int) bool
	isRestoreIns = func(ins ssa.Instruction, depth int) bool {
		switch x := ins.(type) {
		case *ssa.MapUpdate:
			return true
		case *ssa.Call:
			if bi, ok := x.Call.Value.(*ssa.Builtin); ok && bi.Name() == "delete" {
				return true
			}
			if sc := x.Common().StaticCallee(); sc != nil && sc.Blocks != nil && depth < 1 && core.FuncPkg(sc) == core.FuncPkg(hc) && !core.IsCallTo(x, "parseFiles") {
				found := false
				core.Instrs(sc, func(_ *ssa.BasicBlock, _ int, i2 ssa.Instruction) {
					if isRestoreIns(i2, depth+1) {
						found = true
					}
				})
				return found
			}
		}
		return false
	}
	core.Instrs(hc, func(b *ssa.BasicBlock, _ int, ins ssa.Instruction) {
		// on the branch where parseFiles returned false
		if !isRestoreIns(ins, 0) {
			return
		}
		for _, cd := range core.CondsAt(b) {
			if pc, ok := cd.V.(*ssa.Call); ok && core.IsCallTo(pc, "parseFiles") && !cd.True {
				restores = true
			}
			if u, ok := cd.V.(*ssa.UnOp); ok && u.Op == token.NOT && cd.True {
				if pc, ok := u.X.(*ssa.Call); ok && core.IsCallTo(pc, "parseFiles") {
					restores = true
				}
			}
		}
	})
	// and on every path: from the failed branch of parseFiles no return is reachable
	// without passing a restore/delete of the staged entry
	if restores {
		isRestoreBlock := func(b *ssa.BasicBlock) bool {
			for _, ins := range b.Instrs {
				if isRestoreIns(ins, 0) {
					return true
				}
			}
			return false
		}
		for _, b := range hc.Blocks {
			if len(b.Instrs) == 0 {
				continue
			}
			ifi, ok := b.Instrs[len(b.Instrs)-1].(*ssa.If)
			if !ok {
				continue
			}
			failIdx := -1
			if pc, ok := ifi.Cond.(*ssa.Call); ok && core.IsCallTo(pc, "parseFiles") {
				failIdx = 1
			}
			if u, ok := ifi.Cond.(*ssa.UnOp); ok && u.Op == token.NOT {
				if pc, ok := u.X.(*ssa.Call); ok && core.IsCallTo(pc, "parseFiles") {
					failIdx = 0
				}
			}
			if failIdx < 0 {
				continue
			}
			seen := map[*ssa.BasicBlock]bool{}
			var leak func(x *ssa.BasicBlock) bool
			leak = func(x *ssa.BasicBlock) bool {
				if seen[x] {
					return false
				}
				seen[x] = true
				if isRestoreBlock(x) {
					return false
				}
				if len(x.Succs) == 0 {
					return true
				}
				for _, sc := range x.Succs {
					if leak(sc) {
						return true
					}
				}
				return false
			}
			if leak(b.Succs[failIdx]) {
				restores = false
			}
		}
	}
	r.Check(restores, "R19.1", core.FuncName(hc), "keep the last valid content of the changed file", p.Pos(hc.Pos()),
		"when the re-parse fails, the changed file's previous content is restored (or the new entry removed)",
		"a file whose new content does not parse stays in the set of files that every later event re-parses: it blocks all later valid changes")
}

func sliceRootValue(v ssa.Value) ssa.Value {
	v = core.ValueOrigin(v)
	if u, ok := v.(*ssa.UnOp); ok {
		return u.X
	}
	return v
}

// errorsAppendedTo: the error result of the Parse call is ranged over and each
// element appended to the list held in cell.
func errorsAppendedTo(parse *ssa.Call, cell ssa.Value) bool {
	fn := parse.Parent()
	var errRes ssa.Value
	if parse.Referrers() != nil {
		for _, ref := range *parse.Referrers() {
			if ex, ok := ref.(*ssa.Extract); ok && ex.Index == 1 {
				errRes = ex
			}
		}
	}
	if errRes == nil {
		return false
	}
	found := false
	core.Instrs(fn, func(_ *ssa.BasicBlock, _ int, ins ssa.Instruction) {
		call, ok := ins.(*ssa.Call)
		if !ok {
			return
		}
		bi, ok := call.Call.Value.(*ssa.Builtin)
		if !ok || bi.Name() != "append" {
			return
		}
		// appended to the same list
		dst := sliceRootValue(call.Call.Args[0])
		if dst != cell {
			if phi, ok := core.ValueOrigin(call.Call.Args[0]).(*ssa.Phi); ok {
				_ = phi
			}
		}
		// the appended elements derive from errRes
		for _, a := range call.Call.Args[1:] {
			for _, el := range append(variadicElems(a), a) {
				v := core.Unwrap(el)
				if u, ok := v.(*ssa.UnOp); ok {
					if ia, ok := u.X.(*ssa.IndexAddr); ok && core.ValueOrigin(ia.X) == errRes {
						found = true
					}
				}
				if core.ValueOrigin(v) == errRes {
					found = true
				}
			}
		}
	})
	return found
}

// ---- R19.2 legacy watcher keeps the last parsed namespace -------------------------------------------

func r192(c *Ctx) {
	p, r := c.P, c.R
	fn := p.Func("(*internal/driver/config.NamespaceWatcher).handleChange")
	if fn == nil {
		r.Undecide("R19.2", "", "anchor NamespaceWatcher.handleChange", "", "not found")
		return
	}
	// no path reaches a write of nw.namespaces[source] on which the new content did not parse
	// (namespace == nil) while an entry for the source exists (comma-ok of the lookup): the facts
	// are collected along each path, so the form of the tests (nested ifs, a combined condition
	// with an early return, ...) does not matter; a fact that is not tested counts as possible
	n := 0
	var bad []string
	type fact struct {
		b           *ssa.BasicBlock
		nilP, found int // -1 false, +1 true, 0 unknown
	}
	edgeFact := func(from *ssa.BasicBlock, k int, f fact) (fact, bool) {
		if len(from.Instrs) == 0 {
			return f, true
		}
		ifi, ok := from.Instrs[len(from.Instrs)-1].(*ssa.If)
		if !ok || from.Succs[0] == from.Succs[1] {
			return f, true
		}
		v, truth := ifi.Cond, k == 0
		for {
			u, isNot := v.(*ssa.UnOp)
			if !isNot || u.Op != token.NOT {
				break
			}
			v, truth = u.X, !truth
		}
		set := func(cur *int, val bool) bool {
			w := -1
			if val {
				w = 1
			}
			if *cur != 0 && *cur != w {
				return false // contradicts what the path already established
			}
			*cur = w
			return true
		}
		if op, x, y, ok := core.BinCmp(v); ok && core.IsNilConst(y) && (op == token.EQL || op == token.NEQ) {
			if u, ok := x.(*ssa.UnOp); ok {
				if fa, ok := u.X.(*ssa.FieldAddr); ok && fieldVarOf(fa) != nil && fieldVarOf(fa).Name() == "namespace" {
					if !set(&f.nilP, (op == token.EQL) == truth) {
						return f, false
					}
				}
			}
		}
		if ex, ok := v.(*ssa.Extract); ok && ex.Index == 1 {
			if _, isLookup := ex.Tuple.(*ssa.Lookup); isLookup {
				if !set(&f.found, truth) {
					return f, false
				}
			}
		}
		return f, true
	}
	seen := map[fact]bool{}
	var walk func(f fact)
	walk = func(f fact) {
		if seen[f] {
			return
		}
		seen[f] = true
		for _, ins := range f.b.Instrs {
			if mu, ok := ins.(*ssa.MapUpdate); ok {
				if f.nilP != -1 && f.found != -1 {
					switch {
					case f.nilP == 0 && f.found == 0:
						bad = append(bad, fmt.Sprintf("the entry is written at %s without distinguishing whether the new content parsed", p.Pos(mu.Pos())))
					default:
						bad = append(bad, fmt.Sprintf("the entry is overwritten at %s although the new content did not parse and an entry may exist", p.Pos(mu.Pos())))
					}
				}
			}
		}
		for k, sc := range f.b.Succs {
			if g, ok := edgeFact(f.b, k, fact{sc, f.nilP, f.found}); ok {
				walk(g)
			}
		}
	}
	walk(fact{fn.Blocks[0], 0, 0})
	core.Instrs(fn, func(_ *ssa.BasicBlock, _ int, ins ssa.Instruction) {
		if _, ok := ins.(*ssa.MapUpdate); ok {
			n++
		}
	})
	bad = dedupe(sortStrings(bad))
	r.Check(len(bad) == 0 && n >= 1, "R19.2", core.FuncName(fn), "keep-last-good branch shape", p.Pos(fn.Pos()),
		"the file's entry is replaced only when the new content parsed, or when no entry existed yet", strings.Join(bad, "; "))
}

// ---- R19.3 no stored one-shot streams ------------------------------------------------------------------

func r193(c *Ctx) {
	p, r := c.P, c.R
	mgr := p.LookupType(core.KetoMod+"/internal/namespace", "Manager")
	pk := p.Pkg(cfgRel)
	if mgr == nil || pk == nil {
		r.Undecide("R19.3", "", "anchor namespace.Manager", "", "not found")
		return
	}
	iface := mgr.Underlying().(*types.Interface)
	n := 0
	isStream := func(t types.Type) bool {
		it, ok := t.Underlying().(*types.Interface)
		if !ok {
			return false
		}
		hasRead, hasSeek := false, false
		for i := 0; i < it.NumMethods(); i++ {
			switch it.Method(i).Name() {
			case "Read":
				hasRead = true
			case "Seek", "ReadAt":
				hasSeek = true
			}
		}
		return hasRead && !hasSeek
	}
	var walk func(t types.Type, path string, depth int) []string
	walk = func(t types.Type, path string, depth int) []string {
		if depth > 4 {
			return nil
		}
		var out []string
		switch x := t.(type) {
		case *types.Pointer:
			return walk(x.Elem(), path, depth+1)
		case *types.Slice:
			return walk(x.Elem(), path+"[]", depth+1)
		case *types.Map:
			return walk(x.Elem(), path+"[k]", depth+1)
		case *types.Named:
			if isStream(x) {
				return []string{path + " (" + x.Obj().Name() + ")"}
			}
			if st, ok := x.Underlying().(*types.Struct); ok && x.Obj().Pkg() != nil && x.Obj().Pkg().Path() == cfgPkg {
				for i := 0; i < st.NumFields(); i++ {
					out = append(out, walk(st.Field(i).Type(), path+"."+st.Field(i).Name(), depth+1)...)
				}
			}
		case *types.Interface:
			if isStream(x) {
				return []string{path}
			}
		case *types.Alias:
			return walk(types.Unalias(x), path, depth)
		}
		return out
	}
	sc := pk.Types.Scope()
	for _, nm := range sc.Names() {
		tn, ok := sc.Lookup(nm).(*types.TypeName)
		if !ok {
			continue
		}
		if _, isStruct := tn.Type().Underlying().(*types.Struct); !isStruct {
			continue
		}
		if !types.Implements(types.NewPointer(tn.Type()), iface) && !types.Implements(tn.Type(), iface) {
			continue
		}
		n++
		streams := walk(tn.Type(), tn.Name(), 0)
		r.Check(len(streams) == 0, "R19.3", cfgRel+"."+tn.Name(), "no stored one-shot stream", p.Pos(tn.Pos()),
			"the manager holds no io.Reader-like value between events",
			"the manager stores a one-shot stream in "+strings.Join(streams, ", ")+": it is empty when read again on a later event, and an empty document parses to no namespaces without an error")
	}
	if n < 3 {
		r.Undecide("R19.3", "", "namespace manager types", "", fmt.Sprintf("%d found (floor 3)", n))
	}
}

// ---- R19.5 read methods answer under the lock -------------------------------------------------------------

func r195(c *Ctx) {
	p, r := c.P, c.R
	n := 0
	for _, fn := range p.KetoFuncs(cfgRel) {
		if fn.Parent() != nil || fn.Signature.Recv() == nil {
			continue
		}
		switch fn.Name() {
		case "GetNamespaceByName", "GetNamespaceByConfigID", "Namespaces":
		default:
			continue
		}
		n++
		// takes a (read) lock of its receiver, released by defer, before anything else that touches fields
		locked := false
		core.Instrs(fn, func(b *ssa.BasicBlock, _ int, ins ssa.Instruction) {
			if ci, ok := ins.(ssa.CallInstruction); ok {
				if obj := core.CalleeObj(ci.Common()); obj != nil && obj.Pkg() != nil && obj.Pkg().Path() == "sync" && (obj.Name() == "RLock" || obj.Name() == "Lock") && b == fn.Blocks[0] {
					locked = true
				}
			}
		})
		r.Check(locked, "R19.5", core.FuncName(fn), "answers under one lock", p.Pos(fn.Pos()),
			"the read method takes the manager's lock on entry: it answers from one consistent snapshot", "a read method of a namespace manager does not take the lock on entry: it can observe a half-applied reload")
	}
	if n < 6 {
		r.Undecide("R19.5", "", "manager read methods", "", fmt.Sprintf("%d found (floor 6)", n))
	}
}

// ---- R19.6 publishing replaces the visible set -----------------------------------------------------------------

func r196(c *Ctx) {
	p, r := c.P, c.R
	fn := p.Func("(*internal/driver/config.memoryNamespaceManager).set")
	if fn == nil {
		r.Undecide("R19.6", "", "anchor memoryNamespaceManager.set", "", "not found")
		return
	}
	var bad []string
	nUpd := 0
	freshStored := false
	core.Instrs(fn, func(_ *ssa.BasicBlock, _ int, ins ssa.Instruction) {
		switch x := ins.(type) {
		case *ssa.MapUpdate:
			nUpd++
			// the map written into must be one made in this call
			m := core.ValueOrigin(x.Map)
			if _, ok := m.(*ssa.MakeMap); !ok {
				// a load of the field right after the fresh map was stored unconditionally
				okLoad := false
				if u, ok := x.Map.(*ssa.UnOp); ok {
					if fa, ok := u.X.(*ssa.FieldAddr); ok {
						// find a dominating store of a MakeMap to the same field
						core.Instrs(fn, func(_ *ssa.BasicBlock, _ int, i2 ssa.Instruction) {
							if st, ok := i2.(*ssa.Store); ok {
								if f2, ok := st.Addr.(*ssa.FieldAddr); ok && f2.Field == fa.Field {
									if _, isMk := st.Val.(*ssa.MakeMap); isMk && core.InstrDominates(st, x) && st.Block() == fn.Blocks[0] {
										okLoad = true
									}
								}
							}
						})
					}
				}
				if !okLoad {
					bad = append(bad, fmt.Sprintf("the update at %s writes into the map that is currently published", p.Pos(x.Pos())))
				}
			}
		case *ssa.Store:
			if _, isMk := x.Val.(*ssa.MakeMap); isMk {
				if fa, ok := x.Addr.(*ssa.FieldAddr); ok && fieldVarOf(fa) != nil && fieldVarOf(fa).Name() == "byName" && x.Block() == fn.Blocks[0] {
					freshStored = true
				}
			}
		}
	})
	if !freshStored {
		bad = append(bad, "no unconditional assignment of a fresh map to byName")
	}
	r.Check(len(bad) == 0 && nUpd > 0, "R19.6", core.FuncName(fn), "publish replaces the set", p.Pos(fn.Pos()),
		"set installs a fresh map unconditionally and fills only that map: namespaces of the previous version that are gone disappear",
		"set merges into the live map: "+strings.Join(bad, "; ")+" -- namespaces removed or renamed by a valid new version stay visible forever")
}

// ---- R19.7 ShouldReload type agreement ---------------------------------------------------------------------

func r197(c *Ctx) {
	p, r := c.P, c.R
	ncT := p.LookupType(cfgPkg, "namespaceConfig")
	pk := p.Pkg(cfgRel)
	if ncT == nil || pk == nil {
		r.Undecide("R19.7", "", "anchor namespaceConfig", "", "interface not found")
		return
	}
	iface := ncT.Underlying().(*types.Interface)
	sc := pk.Types.Scope()
	n := 0
	for _, nm := range sc.Names() {
		tn, ok := sc.Lookup(nm).(*types.TypeName)
		if !ok || !types.Implements(tn.Type(), iface) {
			continue
		}
		if _, isIface := tn.Type().Underlying().(*types.Interface); isIface {
			continue
		}
		n++
		name := cfgRel + "." + tn.Name()
		ms := types.NewMethodSet(tn.Type())
		var valFn, newFn *ssa.Function
		if sel := ms.Lookup(pk.Types, "value"); sel != nil {
			valFn = p.SSA.MethodValue(sel)
		}
		if sel := ms.Lookup(pk.Types, "newManager"); sel != nil {
			newFn = p.SSA.MethodValue(sel)
		}
		if valFn == nil || newFn == nil {
			r.Undecide("R19.7", name, "value()/newManager()", p.Pos(tn.Pos()), "methods not found")
			continue
		}
		// dynamic type of value()
		var valT types.Type
		core.Instrs(valFn, func(_ *ssa.BasicBlock, _ int, ins ssa.Instruction) {
			if ret, ok := ins.(*ssa.Return); ok && len(ret.Results) == 1 {
				if mi, ok := ret.Results[0].(*ssa.MakeInterface); ok {
					valT = mi.X.Type()
				}
			}
		})
		// the manager type built by newManager()'s closure
		var mgrT types.Type
		for _, cf := range core.Closures(newFn) {
			core.Instrs(cf, func(_ *ssa.BasicBlock, _ int, ins ssa.Instruction) {
				if ret, ok := ins.(*ssa.Return); ok && len(ret.Results) == 2 {
					v := core.Unwrap(ret.Results[0])
					if ex, ok := v.(*ssa.Extract); ok {
						v = ex.Tuple
					}
					if call, ok := v.(*ssa.Call); ok {
						if sc2 := call.Common().StaticCallee(); sc2 != nil && sc2.Signature.Results().Len() > 0 {
							mgrT = sc2.Signature.Results().At(0).Type()
						}
					}
				}
			})
		}
		if valT == nil || mgrT == nil {
			r.Undecide("R19.7", name, "value()/newManager()", p.Pos(tn.Pos()), "cannot determine the value type or the manager type")
			continue
		}
		// what does the manager's ShouldReload compare its argument with?
		sel := types.NewMethodSet(mgrT).Lookup(pk.Types, "ShouldReload")
		if sel == nil {
			r.Undecide("R19.7", name, "ShouldReload of "+mgrT.String(), p.Pos(tn.Pos()), "method not found")
			continue
		}
		sr := p.SSA.MethodValue(sel)
		// follow promoted-method wrappers
		for i := 0; i < 3 && sr != nil && sr.Synthetic != ""; i++ {
			var next *ssa.Function
			core.Instrs(sr, func(_ *ssa.BasicBlock, _ int, ins ssa.Instruction) {
				if ci, ok := ins.(ssa.CallInstruction); ok {
					if s2 := ci.Common().StaticCallee(); s2 != nil && s2.Name() == "ShouldReload" {
						next = s2
					}
				}
			})
			if next == nil {
				break
			}
			sr = next
		}
		var expects []types.Type
		if sr != nil {
			core.Instrs(sr, func(_ *ssa.BasicBlock, _ int, ins ssa.Instruction) {
				switch x := ins.(type) {
				case *ssa.TypeAssert:
					if core.ValueOrigin(x.X) == ssa.Value(sr.Params[1]) {
						expects = append(expects, x.AssertedType)
					}
				case *ssa.Call:
					if core.IsCallTo(x, "DeepEqual") {
						for _, a := range x.Common().Args {
							if mi, ok := a.(*ssa.MakeInterface); ok {
								expects = append(expects, mi.X.Type())
							}
						}
					}
				}
			})
		}
		okT := false
		var es []string
		for _, e := range expects {
			es = append(es, e.String())
			if types.Identical(e, valT) {
				okT = true
			}
		}
		r.Check(okT, "R19.7", name, "value() type vs "+core.FuncName(sr), p.Pos(tn.Pos()),
			"value() yields a "+valT.String()+", which is what the manager's ShouldReload compares against",
			fmt.Sprintf("value() yields a %s but %s compares its argument with %v: the comparison can never say 'unchanged', so every change of the main configuration tears the manager down and rebuilds it from the files as they are now -- a file that is currently invalid loses its last good version (namespaces vanish)", valT.String(), core.FuncName(sr), es))
	}
	if n < 3 {
		r.Undecide("R19.7", "", "namespaceConfig implementations", "", fmt.Sprintf("%d found (floor 3)", n))
	}
}

// ---- R19.8 every file event is handled -------------------------------------------------------------

// r198: in the event loop of the namespace watchers every event received from
// the watcher reaches a handler call (handleChange / handleRemove /
// handleError, or the logged default of the type switch). An event that is
// skipped on some condition (debounce, filter) is a version of the file that
// is never read; nothing re-reads the file later, so the last valid version
// does not take effect.
func r198(c *Ctx) {
	p, r := c.P, c.R
	fn := p.Func("internal/driver/config.startEventHandler")
	if fn == nil {
		r.Undecide("R19.8", "", "anchor startEventHandler", "", "not found")
		return
	}
	// the receive of an event: a Select with a state whose channel is the EventChannel parameter
	var sel *ssa.Select
	evIdx := -1
	core.Instrs(fn, func(_ *ssa.BasicBlock, _ int, ins ssa.Instruction) {
		if s, ok := ins.(*ssa.Select); ok {
			for i, st := range s.States {
				if n := core.NamedOf(st.Chan.Type()); n != nil && n.Obj().Name() == "EventChannel" {
					sel, evIdx = s, i
				}
			}
		}
	})
	if sel == nil {
		r.Undecide("R19.8", core.FuncName(fn), "event receive", p.Pos(fn.Pos()), "no select on the watcher's event channel found")
		return
	}
	// the block entered when the event arm fires: the true successor of `index == evIdx`
	var start *ssa.BasicBlock
	core.Instrs(fn, func(b *ssa.BasicBlock, _ int, ins ssa.Instruction) {
		ifi, ok := ins.(*ssa.If)
		if !ok {
			return
		}
		op, x, y, ok := core.BinCmp(ifi.Cond)
		if !ok || op != token.EQL {
			return
		}
		if ex, ok := x.(*ssa.Extract); ok && ex.Tuple == ssa.Value(sel) && ex.Index == 0 {
			if k, ok := core.IntConst(y); ok && int(k) == evIdx {
				start = b.Succs[0]
			}
		}
	})
	if start == nil {
		r.Undecide("R19.8", core.FuncName(fn), "event receive", p.Pos(sel.Pos()), "cannot find the branch taken when an event arrives")
		return
	}
	handled := func(b *ssa.BasicBlock) bool {
		for _, ins := range b.Instrs {
			if ci, ok := ins.(ssa.CallInstruction); ok {
				name := ""
				if ci.Common().IsInvoke() {
					name = ci.Common().Method.Name()
				} else if obj := core.CalleeObj(ci.Common()); obj != nil {
					name = obj.Name()
				}
				if strings.HasPrefix(name, "handle") || name == "Warnf" {
					return true
				}
			}
		}
		return false
	}
	selBlock := sel.Block()
	seen := map[*ssa.BasicBlock]bool{}
	var bad *ssa.BasicBlock
	var walk func(b *ssa.BasicBlock)
	walk = func(b *ssa.BasicBlock) {
		if seen[b] || bad != nil {
			return
		}
		seen[b] = true
		if handled(b) {
			return
		}
		for _, sc := range b.Succs {
			if sc == selBlock || (len(sc.Instrs) > 0 && sc.Dominates(selBlock) && sc != b) {
				// back to the top of the loop without a handler call: allowed only when the channel was closed (returns) --
				// a jump back means the event was dropped
				bad = b
				return
			}
			walk(sc)
		}
	}
	walk(start)
	pos := p.Pos(sel.Pos())
	if bad != nil {
		pos = p.Pos(lastPos(bad))
	}
	r.Check(bad == nil, "R19.8", core.FuncName(fn), "every event reaches a handler", pos,
		"from the receipt of an event every path calls handleChange/handleRemove/handleError (or logs the unknown type) before the loop goes on",
		"an event can be skipped: the loop goes back to waiting without calling a handler, so that version of the file is never read and nothing re-reads it later")
}

// ---- R19.9 a watcher error event changes nothing that is served ---------------------------------------

// r199: the event loop hands *watcherx.ErrorEvent (the file could not be read
// when the change was noticed) to the handler's error method. Keep-last-good
// means that method only reports: it stores nothing into the manager and
// deletes nothing from it.
func r199(c *Ctx) {
	p, r := c.P, c.R
	loop := p.Func("internal/driver/config.startEventHandler")
	if loop == nil {
		r.Undecide("R19.9", "", "anchor startEventHandler", "", "not found")
		return
	}
	// the interface method called with the ErrorEvent
	var meth *types.Func
	core.Instrs(loop, func(_ *ssa.BasicBlock, _ int, ins ssa.Instruction) {
		ci, ok := ins.(ssa.CallInstruction)
		if !ok || !ci.Common().IsInvoke() || len(ci.Common().Args) != 1 {
			return
		}
		if pt, ok := ci.Common().Args[0].Type().Underlying().(*types.Pointer); ok && core.NamedOf(pt.Elem()) != nil && core.NamedOf(pt.Elem()).Obj().Name() == "ErrorEvent" {
			meth = ci.Common().Method
		}
	})
	if meth == nil {
		r.Undecide("R19.9", core.FuncName(loop), "error-event dispatch", p.Pos(loop.Pos()), "no interface call that receives *watcherx.ErrorEvent found")
		return
	}
	n := 0
	for _, impl := range p.KG().Implementers(meth) {
		if pk := core.FuncPkg(impl); pk == nil || !core.IsKeto(pk) || impl.Blocks == nil {
			continue
		}
		n++
		var bad []string
		recv := impl.Params[0]
		core.Instrs(impl, func(_ *ssa.BasicBlock, _ int, ins ssa.Instruction) {
			rooted := func(v ssa.Value) bool {
				for i := 0; i < 6 && v != nil; i++ {
					switch x := v.(type) {
					case *ssa.FieldAddr:
						v = x.X
					case *ssa.IndexAddr:
						v = x.X
					case *ssa.UnOp:
						v = x.X
					case *ssa.Parameter:
						return x == recv
					default:
						return false
					}
				}
				return false
			}
			switch x := ins.(type) {
			case *ssa.Store:
				if rooted(x.Addr) {
					bad = append(bad, "store at "+p.Pos(x.Pos()))
				}
			case *ssa.MapUpdate:
				if rooted(x.Map) {
					bad = append(bad, "map update at "+p.Pos(x.Pos()))
				}
			case *ssa.Call:
				if bi, ok := x.Call.Value.(*ssa.Builtin); ok && bi.Name() == "delete" && rooted(x.Call.Args[0]) {
					bad = append(bad, "delete at "+p.Pos(x.Pos()))
				}
			}
		})
		r.Check(len(bad) == 0, "R19.9", core.FuncName(impl), "error event leaves the served state alone", p.Pos(impl.Pos()),
			"the error handler writes nothing into its manager", strings.Join(bad, "; ")+": a read fault at notification time removes or replaces what was served, instead of keeping the last valid version")
	}
	if n < 2 {
		r.Undecide("R19.9", "", "error-event handlers", "", fmt.Sprintf("%d implementations found (floor 2)", n))
	}
}

// ---- R19.10 a changed file is read whole ---------------------------------------------------------------

// r1910: what io.ReadAll reads in the change handlers is the event's own
// reader. A wrapper that limits or filters it (io.LimitReader, a scanner)
// makes the watcher parse a prefix of the new version: a class boundary in the
// prefix publishes part of a version, a cut inside a class rejects a valid one.
func r1910(c *Ctx) {
	p, r := c.P, c.R
	n := 0
	for _, fn := range p.KetoFuncs(cfgRel) {
		core.Instrs(fn, func(_ *ssa.BasicBlock, _ int, ins ssa.Instruction) {
			call, ok := ins.(*ssa.Call)
			if !ok {
				return
			}
			obj := core.CalleeObj(&call.Call)
			if obj == nil || obj.Pkg() == nil || obj.Pkg().Path() != "io" || obj.Name() != "ReadAll" {
				return
			}
			n++
			src := core.ValueOrigin(call.Call.Args[0])
			okSrc, what := false, fmt.Sprintf("%T", src)
			switch x := src.(type) {
			case *ssa.Call:
				if x.Call.IsInvoke() && x.Call.Method.Name() == "Reader" {
					okSrc = true
				} else if o2 := core.CalleeObj(&x.Call); o2 != nil {
					what = core.ObjName(o2)
					if o2.Name() == "Reader" || o2.Name() == "NewReader" || o2.Name() == "Open" {
						okSrc = true
					}
				}
			case *ssa.Parameter:
				okSrc = true // a reader handed in by the caller (judged at the call site)
			case *ssa.MakeInterface:
				okSrc = true // a concrete reader (bytes.Reader, *os.File)
			case *ssa.Extract:
				okSrc = true // os.Open result
			}
			r.Check(okSrc, "R19.10", core.FuncName(fn), "whole file read", p.Pos(call.Pos()),
				"io.ReadAll reads the event's / file's own reader",
				"io.ReadAll reads through "+what+", not the event's reader itself: a limited or filtered reader hands the parser a prefix of the new version")
		})
	}
	if n < 2 {
		r.Undecide("R19.10", "", "io.ReadAll in the configuration watchers", "", fmt.Sprintf("%d found (floor 2)", n))
	}
}
