package rules

import (
	"fmt"
	"go/ast"
	"go/token"
	"go/types"
	"sort"
	"strings"

	"golang.org/x/tools/go/ssa"

	"ketosa/internal/core"
)

func init() {
	Register(&Property{
		ID: "C12",
		Explanation: "Decides the absence of the structural ways for the OPL parser to panic or hang: (R12.1) the two explicit panics are unreachable -- every value handed to match/matchIf (also through matchPropertyAccess) has one of the static types the type switch handles, and setOperation is only called where the token type is one of its cases; (R12.2) every lexer state function emits at most a bounded number of items per call, never on a CFG cycle, and that bound is below the capacity of the items channel (the lexer runs on the parser's goroutine, so an overfull channel blocks forever); nextItem calls a state only after draining; (R12.4) every write to the lexer position outside next/backup advances by the length of a prefix that was just tested; (R12.5) every loop of the parser makes progress (consumes a token through a parser method) or leaves; (R12.6) every recursive cycle of package schema (expression nesting, the recursive type check, simplifyExpression) has a guarded decreasing depth or a strict descent into the AST; (R12.7) every index into the source rows in ParseError.Error is preceded by a length test; (R12.10) token text of the request enters an error message only through %q, so every message is valid UTF-8 and can be rendered on both transports; (R12.9) every count handed to strings.Repeat / make in package schema is a length, a non-negative constant or bounded from below by a dominating test; (R12.8) the REST and gRPC syntax handlers both parse the complete request content and map every error, and ToAPI/ToProto are built from the same three sources. " +
			"Not decided: linear running time; the typestate of lexer.backup (R12.3 of the design is not built: its only effect is a mis-positioned token, not a hang or panic).",
		Assumptions: []string{"every *parser method other than peek/addErr/addFatal/addCheck consumes at least one token or sets the fatal flag"},
		Run:         runC12,
	})
}

const schemaRel = "internal/schema"
const schemaPkg = core.KetoMod + "/" + schemaRel

func runC12(c *Ctx) {
	r121(c)
	r122(c)
	r124(c)
	r125(c)
	// R12.6
	for _, ct := range core.TerminationCerts(c.P, []string{schemaRel}) {
		if ct.OK {
			c.R.Discharge("R12.6", strings.Join(ct.Funcs, ", "), "recursive cycle", ct.Pos, ct.Detail, ct.Edges...)
		} else {
			c.R.Violate("R12.6", strings.Join(ct.Funcs, ", "), "recursive cycle", ct.Pos, ct.Detail, ct.Edges...)
		}
	}
	c.R.Floor("R12.6", 3, "expression nesting, recursive type check, simplifyExpression")
	r127(c)
	r129(c)
	rawTextVerbs(c, "R12.10")
	r128(c)
}

// ---- R12.1 explicit panics ------------------------------------------------------------------

func r121(c *Ctx) {
	p, r := c.P, c.R
	match := p.Func("(*internal/schema.parser).match")
	if match == nil {
		r.Undecide("R12.1", "", "anchor parser.match", "", "not found")
		return
	}
	// the types the switch handles
	var handled []types.Type
	core.Instrs(match, func(_ *ssa.BasicBlock, _ int, ins ssa.Instruction) {
		if ta, ok := ins.(*ssa.TypeAssert); ok {
			handled = append(handled, ta.AssertedType)
		}
	})
	isHandled := func(t types.Type) bool {
		for _, h := range handled {
			if types.Identical(h, t) {
				return true
			}
		}
		return false
	}
	var hs []string
	for _, h := range handled {
		hs = append(hs, types.TypeString(h, func(p *types.Package) string { return p.Name() }))
	}
	r.Note("match_handles_types", hs)
	// possible static types of an interface-typed value
	var typesOf func(v ssa.Value, depth int) ([]types.Type, bool)
	typesOf = func(v ssa.Value, depth int) ([]types.Type, bool) {
		switch x := v.(type) {
		case *ssa.MakeInterface:
			return []types.Type{x.X.Type()}, true
		case *ssa.Parameter:
			if depth > 3 {
				return nil, false
			}
			fn := x.Parent()
			idx := -1
			for i, q := range fn.Params {
				if q == x {
					idx = i
				}
			}
			var out []types.Type
			found := false
			for _, caller := range p.KetoFuncs(schemaRel) {
				core.Instrs(caller, func(_ *ssa.BasicBlock, _ int, ins ssa.Instruction) {
					ci, ok := ins.(ssa.CallInstruction)
					if !ok || ci.Common().StaticCallee() != fn || idx >= len(ci.Common().Args) {
						return
					}
					found = true
					ts, ok := typesOf(ci.Common().Args[idx], depth+1)
					if !ok {
						out = append(out, nil)
					}
					out = append(out, ts...)
				})
			}
			for _, t := range out {
				if t == nil {
					return nil, false
				}
			}
			return out, found
		}
		return nil, false
	}
	n := 0
	for _, fn := range p.KetoFuncs(schemaRel) {
		core.Instrs(fn, func(_ *ssa.BasicBlock, _ int, ins ssa.Instruction) {
			ci, ok := ins.(ssa.CallInstruction)
			if !ok {
				return
			}
			sc := ci.Common().StaticCallee()
			if sc == nil || (sc.Name() != "match" && sc.Name() != "matchIf") || core.FuncPkg(sc).Path() != schemaPkg {
				return
			}
			args := ci.Common().Args
			variadic := args[len(args)-1]
			elems := variadicElems(variadic)
			if len(elems) == 0 {
				if _, isSlice := variadic.(*ssa.Slice); !isSlice {
					// forwarded tokens... (matchIf -> match)
					if par, ok := variadic.(*ssa.Parameter); ok && par.Parent() == fn {
						return
					}
				}
			}
			n++
			var bad []string
			for _, el := range elems {
				ts, ok := typesOf(el, 0)
				if !ok {
					bad = append(bad, "cannot determine the static type of a token argument")
					continue
				}
				for _, t := range ts {
					if !isHandled(t) {
						bad = append(bad, "a value of type "+t.String()+" is passed, which the type switch of match does not handle (it panics)")
					}
				}
			}
			r.Check(len(bad) == 0, "R12.1", core.FuncName(fn), "tokens passed to "+sc.Name(), p.Pos(ins.Pos()),
				"every token argument has a type handled by match's type switch", strings.Join(dedupe(bad), "; "))
		})
	}
	if n < 20 {
		r.Undecide("R12.1", "", "match call sites", "", fmt.Sprintf("%d call sites found, floor 20", n))
	}
	// setOperation
	so := p.Func("internal/schema.setOperation")
	if so == nil {
		r.Undecide("R12.1", "", "anchor setOperation", "", "not found")
		return
	}
	cases := map[int64]bool{}
	core.Instrs(so, func(_ *ssa.BasicBlock, _ int, ins ssa.Instruction) {
		if bo, ok := ins.(*ssa.BinOp); ok && bo.Op == token.EQL {
			if k, ok := core.IntConst(bo.Y); ok {
				cases[k] = true
			}
		}
	})
	nso := 0
	for _, fn := range p.KetoFuncs(schemaRel) {
		core.Instrs(fn, func(b *ssa.BasicBlock, _ int, ins ssa.Instruction) {
			ci, ok := ins.(*ssa.Call)
			if !ok || ci.Common().StaticCallee() != so {
				return
			}
			nso++
			arg := core.ValueOrigin(ci.Common().Args[0])
			ok2 := false
			// some dominator of the call is entered only through true edges of
			// comparisons of the same value with one of the cases
			for d := b; d != nil && !ok2; d = d.Idom() {
				if len(d.Preds) == 0 {
					continue
				}
				all := true
				for _, pred := range d.Preds {
					edgeOK := false
					if len(pred.Instrs) > 0 {
						if ifi, isIf := pred.Instrs[len(pred.Instrs)-1].(*ssa.If); isIf && pred.Succs[0] == d {
							if op, x, y, isCmp := core.BinCmp(ifi.Cond); isCmp && op == token.EQL {
								if k, isK := core.IntConst(y); isK && cases[k] && sameLoad(core.ValueOrigin(x), arg) {
									edgeOK = true
								}
							}
						}
					}
					if !edgeOK {
						all = false
					}
				}
				ok2 = all
			}
			r.Check(ok2, "R12.1", core.FuncName(fn), "call of setOperation", p.Pos(ci.Pos()),
				"reached only where the token type equals one of setOperation's cases", "setOperation can be reached with a token type outside its cases: it panics")
		})
	}
	if nso == 0 {
		r.Undecide("R12.1", "", "setOperation call sites", "", "none found")
	}
}

// sameLoad: two values are the same SSA value or loads of the same field of the same base.
func sameLoad(a, b ssa.Value) bool {
	if a == b {
		return true
	}
	fa, ok1 := a.(*ssa.Field)
	fb, ok2 := b.(*ssa.Field)
	if ok1 && ok2 {
		return fa.Field == fb.Field && core.ValueOrigin(fa.X) == core.ValueOrigin(fb.X)
	}
	ua, ok1 := a.(*ssa.UnOp)
	ub, ok2 := b.(*ssa.UnOp)
	if ok1 && ok2 {
		xa, ok1 := ua.X.(*ssa.FieldAddr)
		xb, ok2 := ub.X.(*ssa.FieldAddr)
		if ok1 && ok2 {
			return xa.Field == xb.Field && core.ValueOrigin(xa.X) == core.ValueOrigin(xb.X)
		}
	}
	return false
}

// ---- R12.2 lexer emission --------------------------------------------------------------------

func r122(c *Ctx) {
	p, r := c.P, c.R
	stateT := p.LookupType(schemaPkg, "stateFn")
	if stateT == nil {
		r.Undecide("R12.2", "", "anchor stateFn", "", "type not found")
		return
	}
	sig := stateT.Underlying().(*types.Signature)
	// channel capacity
	capacity := int64(-1)
	for _, fn := range p.KetoFuncs(schemaRel) {
		core.Instrs(fn, func(_ *ssa.BasicBlock, _ int, ins ssa.Instruction) {
			if mk, ok := ins.(*ssa.MakeChan); ok {
				if ch, ok := mk.Type().Underlying().(*types.Chan); ok && core.IsNamed(ch.Elem(), schemaPkg, "item") {
					if k, ok := core.IntConst(mk.Size); ok {
						capacity = k
					}
				}
			}
		})
	}
	isEmit := func(ins ssa.Instruction) bool {
		switch x := ins.(type) {
		case *ssa.Send:
			if ch, ok := x.Chan.Type().Underlying().(*types.Chan); ok && core.IsNamed(ch.Elem(), schemaPkg, "item") {
				return true
			}
		case ssa.CallInstruction:
			if sc := x.Common().StaticCallee(); sc != nil && core.FuncPkg(sc) != nil && core.FuncPkg(sc).Path() == schemaPkg && (sc.Name() == "emit" || sc.Name() == "errorf") {
				return true
			}
		}
		return false
	}
	n := 0
	for _, fn := range p.KetoFuncs(schemaRel) {
		if fn.Parent() != nil || !core.SigIdentical(fn.Signature, sig) {
			continue
		}
		n++
		name := core.FuncName(fn)
		inLoop := ""
		core.Instrs(fn, func(b *ssa.BasicBlock, _ int, ins ssa.Instruction) {
			if isEmit(ins) && core.InLoop(b) {
				inLoop = p.Pos(ins.Pos())
			}
		})
		res := core.PathCount(fn, func(ins ssa.Instruction) int {
			if isEmit(ins) {
				return 1
			}
			return 0
		}, nil, nil)
		maxHi := 0
		for _, iv := range res {
			if iv.Hi > maxHi {
				maxHi = iv.Hi
			}
		}
		switch {
		case inLoop != "":
			r.Violate("R12.2", name, "items emitted per state call", inLoop, fmt.Sprintf("an item is emitted on a loop inside one state call: the lexer runs on the parser's goroutine, so once the %d-slot channel is full the send blocks forever", capacity))
		case maxHi >= 2 && capacity < 2 || capacity < 1:
			r.Violate("R12.2", name, "items emitted per state call", p.Pos(fn.Pos()), fmt.Sprintf("up to %d items per call with channel capacity %d", maxHi, capacity))
		default:
			r.Discharge("R12.2", name, "items emitted per state call", p.Pos(fn.Pos()), fmt.Sprintf("at most %d item(s) per call, none on a cycle; channel capacity %d", maxHi, capacity))
		}
	}
	if n < 4 {
		r.Undecide("R12.2", "", "state functions", "", fmt.Sprintf("%d found, floor 4", n))
	}
	// nextItem: state called only in the default arm of a non-blocking receive
	ni := p.Func("(*internal/schema.lexer).nextItem")
	if ni == nil {
		r.Undecide("R12.2", "", "anchor nextItem", "", "not found")
		return
	}
	okDrain := false
	core.Instrs(ni, func(b *ssa.BasicBlock, _ int, ins ssa.Instruction) {
		ci, ok := ins.(*ssa.Call)
		if !ok || ci.Common().StaticCallee() != nil || ci.Common().IsInvoke() {
			return
		}
		// dynamic call of the state: dominated by a non-blocking select's default edge
		for _, cd := range core.CondsAt(b) {
			if bo, ok := cd.V.(*ssa.BinOp); ok && !cd.True {
				if ex, ok := bo.X.(*ssa.Extract); ok {
					if sel, ok := ex.Tuple.(*ssa.Select); ok && !sel.Blocking {
						okDrain = true
					}
				}
			}
		}
	})
	r.Check(okDrain, "R12.2", core.FuncName(ni), "state runs only when the channel is empty", p.Pos(ni.Pos()),
		"the next state function is called only from the default arm of a non-blocking receive, i.e. with an empty channel", "nextItem may run a state function while items are still queued: the per-call bound no longer keeps the channel from filling up")
}

// ---- R12.4 position writes --------------------------------------------------------------------

func r124(c *Ctx) {
	p, r := c.P, c.R
	n := 0
	for _, fn := range p.KetoFuncs(schemaRel) {
		if fn.Name() == "next" || fn.Name() == "backup" {
			continue
		}
		core.Instrs(fn, func(b *ssa.BasicBlock, _ int, ins ssa.Instruction) {
			st, ok := ins.(*ssa.Store)
			if !ok {
				return
			}
			fa, ok := st.Addr.(*ssa.FieldAddr)
			if !ok || !core.IsNamed(fa.X.Type(), schemaPkg, "lexer") || fieldVarOf(fa) == nil || fieldVarOf(fa).Name() != "pos" {
				return
			}
			n++
			name := core.FuncName(fn)
			bo, ok := st.Val.(*ssa.BinOp)
			if !ok || bo.Op != token.ADD {
				r.Violate("R12.4", name, "write to lexer.pos", p.Pos(st.Pos()), "the position is set to something other than pos + n")
				return
			}
			// the increment and the dominating prefix test
			okGuard := false
			for _, cd := range core.CondsAt(b) {
				call, isCall := cd.V.(*ssa.Call)
				if !isCall || !cd.True || !core.IsCallTo(call, "HasPrefix") {
					continue
				}
				prefix := call.Common().Args[1]
				if k, isK := core.IntConst(bo.Y); isK {
					if pc, ok := prefix.(*ssa.Const); ok && pc.Value != nil && int64(len(strings.Trim(pc.Value.ExactString(), `"`))) >= k {
						okGuard = true
					}
				} else if lc, isLen := bo.Y.(*ssa.Call); isLen {
					if bi, ok := lc.Call.Value.(*ssa.Builtin); ok && bi.Name() == "len" && core.ValueOrigin(lc.Call.Args[0]) == core.ValueOrigin(prefix) {
						okGuard = true
					}
				}
			}
			r.Check(okGuard, "R12.4", name, "write to lexer.pos", p.Pos(st.Pos()),
				"the position advances by the length of a prefix that strings.HasPrefix just found at pos", "the position is advanced without a dominating prefix test of at least that length: it can run past the input, and the next slice panics")
		})
	}
	if n < 1 {
		r.Undecide("R12.4", "", "position writes", "", fmt.Sprintf("%d found, floor 1", n))
	}
}

// ---- R12.5 parser loops make progress ---------------------------------------------------------------

func r125(c *Ctx) {
	p, r := c.P, c.R
	noProgress := map[string]bool{"peek": true, "addErr": true, "addFatal": true, "addCheck": true, "typeCheck": true, "query": true}
	n := 0
	for _, fn := range p.KetoFuncs(schemaRel) {
		top := core.Outermost(fn)
		if top.Signature.Recv() == nil || !core.IsNamed(top.Signature.Recv().Type(), schemaPkg, "parser") {
			// closures of parser helpers (optional) take the parser as a parameter
			isParserFn := false
			for _, par := range fn.Params {
				if core.IsNamed(par.Type(), schemaPkg, "parser") {
					isParserFn = true
				}
			}
			if !isParserFn {
				continue
			}
		}
		progress := map[*ssa.BasicBlock]bool{}
		core.Instrs(fn, func(b *ssa.BasicBlock, _ int, ins ssa.Instruction) {
			ci, ok := ins.(ssa.CallInstruction)
			if !ok {
				return
			}
			sc := ci.Common().StaticCallee()
			if sc != nil && sc.Signature.Recv() != nil && core.IsNamed(sc.Signature.Recv().Type(), schemaPkg, "parser") && !noProgress[sc.Name()] {
				progress[b] = true
			}
			if _, ok := ins.(*ssa.Return); ok {
				progress[b] = true
			}
		})
		for _, h := range fn.Blocks {
			isHeader := false
			for _, pred := range h.Preds {
				if h.Dominates(pred) {
					isHeader = true
				}
			}
			if !isHeader {
				continue
			}
			// loops over a finite collection (range over slice/map/string, counted
			// loops against len) end by themselves
			bounded := false
			for _, hb := range append([]*ssa.BasicBlock{h}, h.Succs...) {
				if len(hb.Instrs) == 0 {
					continue
				}
				if ifi, ok := hb.Instrs[len(hb.Instrs)-1].(*ssa.If); ok {
					if op, _, y, ok := core.BinCmp(ifi.Cond); ok && op == token.LSS {
						if lc, ok := y.(*ssa.Call); ok {
							if bi, ok := lc.Call.Value.(*ssa.Builtin); ok && bi.Name() == "len" {
								bounded = true
							}
						}
					}
					if ex, ok := ifi.Cond.(*ssa.Extract); ok {
						if _, ok := ex.Tuple.(*ssa.Next); ok {
							bounded = true
						}
					}
				}
			}
			if bounded {
				continue
			}
			n++
			// a cycle through h that avoids every progress block?
			seen := map[*ssa.BasicBlock]bool{}
			var stack []*ssa.BasicBlock
			if !progress[h] {
				stack = append(stack, h.Succs...)
			}
			bad := false
			for len(stack) > 0 {
				b := stack[len(stack)-1]
				stack = stack[:len(stack)-1]
				if b == h {
					bad = true
					break
				}
				if seen[b] || progress[b] {
					continue
				}
				seen[b] = true
				stack = append(stack, b.Succs...)
			}
			pos := lastPosIn(h)
			r.Check(!bad, "R12.5", core.FuncName(fn), fmt.Sprintf("loop at block %d", h.Index), p.Pos(pos),
				"every way around the loop calls a token-consuming parser method", "there is a way around this loop that consumes no token and does not leave: the parser spins forever on that input")
		}
	}
	if n < 5 {
		r.Undecide("R12.5", "", "parser loops", "", fmt.Sprintf("%d found, floor 5", n))
	}
}

// ---- R12.7 index guards ------------------------------------------------------------------------

func r127(c *Ctx) {
	p, r := c.P, c.R
	fn := p.Func("(*internal/schema.ParseError).Error")
	if fn == nil {
		r.Undecide("R12.7", "", "anchor ParseError.Error", "", "not found")
		return
	}
	var rows ssa.Value
	core.Instrs(fn, func(_ *ssa.BasicBlock, _ int, ins ssa.Instruction) {
		if call, ok := ins.(*ssa.Call); ok && core.IsCallTo(call, "rows") {
			rows = call
		}
	})
	n := 0
	core.Instrs(fn, func(b *ssa.BasicBlock, _ int, ins ssa.Instruction) {
		ia, ok := ins.(*ssa.IndexAddr)
		if !ok || core.ValueOrigin(ia.X) != rows {
			return
		}
		n++
		guarded := false
		for d := b; d != nil; d = d.Idom() {
			for _, i2 := range d.Instrs {
				if bo, ok := i2.(*ssa.BinOp); ok {
					for _, op := range []ssa.Value{bo.X, bo.Y} {
						if lc, ok := op.(*ssa.Call); ok {
							if bi, ok := lc.Call.Value.(*ssa.Builtin); ok && bi.Name() == "len" && core.ValueOrigin(lc.Call.Args[0]) == rows {
								guarded = true
							}
						}
					}
				}
			}
		}
		r.Check(guarded, "R12.7", core.FuncName(fn), "rows[i]", p.Pos(ia.Pos()),
			"an index into the source rows is preceded by a comparison with len(rows)", "an index into the source rows is not preceded by any length test: rendering the message can panic")
	})
	if n < 3 {
		r.Undecide("R12.7", "", "rows[i] sites", "", fmt.Sprintf("%d found, floor 3", n))
	}
}

// ---- R12.8 REST/gRPC agreement ---------------------------------------------------------------------

func r128(c *Ctx) {
	p, r := c.P, c.R
	// mapper agreement
	srcs := func(fname string) (map[string]bool, bool) {
		fn := p.Func(fname)
		if fn == nil {
			return nil, false
		}
		out := map[string]bool{}
		core.Instrs(fn, func(_ *ssa.BasicBlock, _ int, ins ssa.Instruction) {
			switch x := ins.(type) {
			case *ssa.FieldAddr:
				if fv := fieldVarOf(x); fv != nil && (core.IsNamed(x.X.Type(), schemaPkg, "ParseError") || core.IsNamed(x.X.Type(), schemaPkg, "item")) {
					if x.Referrers() != nil && len(*x.Referrers()) > 0 {
						out["field "+fv.Name()] = true
					}
				}
			case *ssa.Call:
				if core.IsCallTo(x, "toSrcPos") {
					// which item field feeds it
					if u, ok := x.Common().Args[1].(*ssa.UnOp); ok {
						if fa, ok := u.X.(*ssa.FieldAddr); ok {
							if fv := fieldVarOf(fa); fv != nil {
								out["toSrcPos("+fv.Name()+")"] = true
							}
						}
					}
				}
			}
		})
		return out, true
	}
	a, ok1 := srcs("(*internal/schema.ParseError).ToAPI")
	b, ok2 := srcs("(*internal/schema.ParseError).ToProto")
	if !ok1 || !ok2 {
		r.Undecide("R12.8", "", "anchor ToAPI/ToProto", "", "not found")
	} else {
		ka, kb := core.SortedKeys(a), core.SortedKeys(b)
		need := []string{"field msg", "toSrcPos(End)", "toSrcPos(Start)"}
		okAll := strings.Join(ka, ",") == strings.Join(kb, ",")
		for _, nd := range need {
			if !a[nd] || !b[nd] {
				okAll = false
			}
		}
		r.Check(okAll, "R12.8", schemaRel+".(*ParseError).ToAPI/ToProto", "same sources", "",
			"both mappers are built from the message, toSrcPos(item.Start) and toSrcPos(item.End)",
			fmt.Sprintf("the REST and gRPC error mappers read different sources: ToAPI %v, ToProto %v", ka, kb))
	}
	// handlers
	entries, _ := p.Entries()
	n := 0
	for _, e := range entries {
		if e.Kind != "syntax" {
			continue
		}
		n++
		fn := e.Fn
		name := core.FuncName(fn)
		var parse *ssa.Call
		core.Instrs(fn, func(_ *ssa.BasicBlock, _ int, ins ssa.Instruction) {
			if call, ok := ins.(*ssa.Call); ok {
				if sc := call.Common().StaticCallee(); sc != nil && sc.Name() == "Parse" && core.FuncPkg(sc).Path() == schemaPkg {
					parse = call
				}
			}
		})
		if parse == nil {
			r.Violate("R12.8", name, "handler parses the request", e.Pos, "the syntax handler does not call schema.Parse")
			continue
		}
		// the input: string(<content>) where content is the full request content
		src := core.ValueOrigin(core.Unwrap(parse.Common().Args[0]))
		var why string
		okSrc := false
		switch x := src.(type) {
		case *ssa.Call:
			if core.IsCallTo(x, "GetContent") {
				okSrc = true
			} else {
				why = "input comes from " + x.String()
			}
		case *ssa.Extract:
			if call, ok := x.Tuple.(*ssa.Call); ok && core.IsCallTo(call, "ReadAll") {
				// ReadAll(r.Body) directly
				arg := core.ValueOrigin(core.Unwrap(call.Common().Args[0]))
				if u, ok := arg.(*ssa.UnOp); ok {
					if fa, ok := u.X.(*ssa.FieldAddr); ok && fieldVarOf(fa) != nil && fieldVarOf(fa).Name() == "Body" {
						okSrc = true
					}
				}
				if !okSrc {
					why = "io.ReadAll does not read the request body directly (" + arg.String() + "): a wrapping reader can truncate the document silently"
				}
			}
		default:
			why = "input has an unrecognised origin " + src.String()
		}
		// every error is mapped: a range over the parse errors writing index i of a slice made with len(errors)
		mapped := false
		core.Instrs(fn, func(_ *ssa.BasicBlock, _ int, ins ssa.Instruction) {
			if call, ok := ins.(*ssa.Call); ok && (core.IsCallTo(call, "ToAPI") || core.IsCallTo(call, "ToProto")) && core.InLoop(call.Block()) {
				mapped = true
			}
		})
		var bad []string
		if !okSrc {
			bad = append(bad, why)
		}
		if !mapped {
			bad = append(bad, "the parse errors are not mapped one by one into the response")
		}
		r.Check(len(bad) == 0, "R12.8", name, "handler parses the complete request content", e.Pos,
			"Parse is given the complete request content and every error is mapped into the response", strings.Join(bad, "; "))
	}
	if n < 2 {
		r.Undecide("R12.8", "", "syntax entry points", "", fmt.Sprintf("%d found, floor 2", n))
	}
	_ = sort.Strings
}

// ---- R12.9 counts handed to panicking builtins are non-negative --------------------------------

// r129: strings.Repeat / bytes.Repeat and make([]T, n) panic on a negative
// count. In package schema (parser, lexer, error rendering: everything that
// runs on request input) every such count is a constant, a len/cap, a max(0, …),
// or is dominated by a test that bounds it from below.
func r129(c *Ctx) {
	p, r := c.P, c.R
	n := 0
	for _, fn := range p.KetoFuncs(schemaRel) {
		core.Instrs(fn, func(b *ssa.BasicBlock, _ int, ins ssa.Instruction) {
			var counts []ssa.Value
			what := ""
			switch x := ins.(type) {
			case *ssa.MakeSlice:
				counts, what = []ssa.Value{x.Len, x.Cap}, "make"
			case *ssa.Call:
				if obj := core.CalleeObj(&x.Call); obj != nil && obj.Name() == "Repeat" && obj.Pkg() != nil && (obj.Pkg().Path() == "strings" || obj.Pkg().Path() == "bytes") && len(x.Call.Args) == 2 {
					counts, what = []ssa.Value{x.Call.Args[1]}, obj.Pkg().Path()+".Repeat"
				}
			}
			if what == "" {
				return
			}
			n++
			var nonNeg func(v ssa.Value, d int) bool
			nonNeg = func(v ssa.Value, d int) bool {
				if d > 6 || v == nil {
					return false
				}
				if k, ok := core.IntConst(v); ok {
					return k >= 0
				}
				switch x := v.(type) {
				case *ssa.Call:
					if bi, ok := x.Call.Value.(*ssa.Builtin); ok {
						switch bi.Name() {
						case "len", "cap":
							return true
						case "max":
							for _, a := range x.Call.Args {
								if nonNeg(a, d+1) {
									return true
								}
							}
						case "min":
							for _, a := range x.Call.Args {
								if !nonNeg(a, d+1) {
									return false
								}
							}
							return true
						}
					}
				case *ssa.BinOp:
					switch x.Op {
					case token.ADD, token.MUL:
						return nonNeg(x.X, d+1) && nonNeg(x.Y, d+1)
					}
				case *ssa.Convert:
					return nonNeg(x.X, d+1)
				case *ssa.Phi:
					for _, e := range x.Edges {
						if !nonNeg(e, d+1) {
							return false
						}
					}
					return true
				}
				// dominated by a lower bound on v itself, or (for a-b) by a >= b
				for _, cd := range core.CondsAt(b) {
					op, cx, cy, ok := core.BinCmp(cd.V)
					if !ok {
						continue
					}
					if !cd.True {
						switch op {
						case token.LSS:
							op = token.GEQ
						case token.LEQ:
							op = token.GTR
						case token.GTR:
							op = token.LEQ
						case token.GEQ:
							op = token.LSS
						default:
							continue
						}
					}
					if cx == v {
						if k, isK := core.IntConst(cy); isK && ((op == token.GEQ && k >= 0) || (op == token.GTR && k >= -1)) {
							return true
						}
					}
					if sub, isSub := v.(*ssa.BinOp); isSub && sub.Op == token.SUB {
						if (cx == sub.X && cy == sub.Y && (op == token.GEQ || op == token.GTR)) || (cx == sub.Y && cy == sub.X && (op == token.LEQ || op == token.LSS)) {
							return true
						}
					}
				}
				return false
			}
			okAll := true
			for _, cv := range counts {
				if !nonNeg(cv, 0) {
					okAll = false
				}
			}
			r.Check(okAll, "R12.9", core.FuncName(fn), "count of "+what, p.Pos(ins.Pos()),
				"the count is a length, a non-negative constant or bounded from below by a dominating test",
				"the count handed to "+what+" can be negative on some input (no dominating lower bound): it panics, on the goroutine that parses or renders errors for a request")
		})
	}
	if n < 2 {
		r.Undecide("R12.9", "", "counted allocations in package schema", "", fmt.Sprintf("%d found (floor 2: the two error-list allocations of the handlers)", n))
	}
}

// ---- R12.10 request text enters messages only through %q -------------------------------------------

// rawTextVerbs: the OPL source is a byte string from the request. A token's
// text formatted into an error message with %s / %v reaches the response
// unescaped: invalid UTF-8 in a string literal then makes the gRPC response
// (a proto3 string field) fail to marshal, and the client gets codes.Internal
// instead of the diagnosis. Every verb that consumes a token (an `item`, or
// its Val) in package schema is %q.
func rawTextVerbs(c *Ctx, rule string) {
	p, r := c.P, c.R
	pkg := p.Pkg(schemaRel)
	if pkg == nil {
		r.Undecide(rule, "", "anchor package schema", "", "not loaded")
		return
	}
	info := pkg.TypesInfo
	isItem := func(t types.Type) bool { return t != nil && core.IsNamed(t, core.KetoMod+"/"+schemaRel, "item") }
	isTokenText := func(e ast.Expr) bool {
		e = unparen(e)
		if isItem(info.TypeOf(e)) {
			return true
		}
		if sel, ok := e.(*ast.SelectorExpr); ok && sel.Sel.Name == "Val" && isItem(info.TypeOf(sel.X)) {
			return true
		}
		return false
	}
	n := 0
	var bad []string
	for _, f := range pkg.Syntax {
		// exempt: the Stringer of item itself (the definition of its debug form), and the case
		// clause that handles an error item (its Val is a message built by the lexer, not source text)
		exempt := map[ast.Node]bool{}
		ast.Inspect(f, func(nd ast.Node) bool {
			switch x := nd.(type) {
			case *ast.FuncDecl:
				if x.Name.Name == "String" && x.Recv != nil && len(x.Recv.List) == 1 && isItem(info.TypeOf(x.Recv.List[0].Type)) {
					exempt[x] = true
				}
			case *ast.CaseClause:
				for _, e := range x.List {
					if id, ok := unparen(e).(*ast.Ident); ok && id.Name == "itemError" {
						exempt[x] = true
					}
				}
			}
			return true
		})
		var stack []ast.Node
		ast.Inspect(f, func(nd ast.Node) bool {
			if nd == nil {
				stack = stack[:len(stack)-1]
				return true
			}
			stack = append(stack, nd)
			call, ok := nd.(*ast.CallExpr)
			if !ok {
				return true
			}
			for _, anc := range stack {
				if exempt[anc] {
					return true
				}
			}
			// find the format argument: the first constant string argument containing a verb
			fi := -1
			var format string
			for i, a := range call.Args {
				if s, ok := core.ConstString(info, a); ok && strings.Contains(s, "%") {
					fi, format = i, s
					break
				}
			}
			if fi < 0 {
				return true
			}
			// verbs in order
			var verbs []byte
			for i := 0; i < len(format); i++ {
				if format[i] != '%' {
					continue
				}
				j := i + 1
				for j < len(format) && strings.ContainsRune("+-# 0123456789.*[]", rune(format[j])) {
					j++
				}
				if j < len(format) {
					if format[j] != '%' {
						verbs = append(verbs, format[j])
					}
					i = j
				}
			}
			args := call.Args[fi+1:]
			for k, a := range args {
				if k >= len(verbs) || !isTokenText(a) {
					continue
				}
				n++
				if verbs[k] != 'q' {
					bad = append(bad, fmt.Sprintf("%s: token text %s is formatted with %%%c", p.Pos(call.Pos()), types.ExprString(a), verbs[k]))
				}
			}
			return true
		})
	}
	if n < 5 {
		r.Undecide(rule, "", "token text in messages", "", fmt.Sprintf("%d formatted token texts found (floor 5)", n))
		return
	}
	r.Check(len(bad) == 0, rule, schemaRel, "token text is quoted in messages", "",
		fmt.Sprintf("all %d token texts that enter a message are formatted with %%q", n),
		strings.Join(bad, "; ")+": the raw bytes of the request reach the response; invalid UTF-8 in them makes the gRPC answer fail to marshal (codes.Internal instead of the diagnosis)")
}
