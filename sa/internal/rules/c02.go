package rules

import (
	"encoding/json"
	"fmt"
	"go/token"
	"go/types"
	"os"
	"path/filepath"
	"sort"
	"strings"

	"golang.org/x/tools/go/ssa"

	"ketosa/internal/core"
)

func init() {
	Register(&Property{
		ID: "C02",
		Explanation: "Decides structural necessary conditions of 'limits fail closed and a request can only lower the depth': (R02.1) at every call that enters the recursive check engine from outside it, and in expand, the depth handed on equals eff(r,g) = (r<=0 or r>g) ? g : r for every ordering of the request depth r, zero and the global limit g -- decided by evaluating the function's own branch predicates on representatives of every ordering, followed through callers when a function passes its parameter on unclamped; (R02.2) every engine function with a depth parameter returns the cut-off result under a guard depth<=0 / depth<0 that dominates all its other engine calls; (R02.3) a cut-off always reaches every negation: out of band -- every cut-off site calls the marker, the negation flips NotMember to IsMember only on the false branch of a read of the flag, marks its own enclosing negation otherwise -- also when the child's result is undetermined --, and installs the same flag object in both contexts it hands to its child; no engine code creates a root context; additionally no combinator turns Unknown into IsMember (tables); (R02.5) the width limit is read only in a function that marks the cut-off; (R02.6) every comparison of the remaining depth with a constant in the engine answers with the cut-off result on its exhausted side -- none merely skips work; (R02.4) the width truncation slice is in range given the schema's minimum for max_read_width. " +
			"Not decided: that a request behaves exactly like a server whose global limit is eff beyond the clamp itself.",
		Assumptions: []string{
			"limit.max_read_depth >= 1 and limit.max_read_width >= 1 (embedx/config.schema.json minimums, read by the check)",
			"the context handed to a sub-check descends from the context its builder or invoker received (no root contexts: checked)",
		},
		Run: runC02,
	})
}

// engineFunctions: functions of package check that return a CheckFunc and take
// an int (the remaining depth).
func engineFunctions(p *core.Program) []*ssa.Function {
	sig := checkFuncSig(p)
	var out []*ssa.Function
	for _, fn := range p.KetoFuncs("internal/check") {
		if fn.Parent() != nil || depthParam(fn) == nil {
			continue
		}
		res := fn.Signature.Results()
		if res.Len() != 1 {
			continue
		}
		rs, ok := res.At(0).Type().Underlying().(*types.Signature)
		if !ok || sig == nil || !core.SigIdentical(rs, sig) {
			continue
		}
		out = append(out, fn)
	}
	return out
}

func depthParam(fn *ssa.Function) *ssa.Parameter {
	var found *ssa.Parameter
	n := 0
	for _, par := range fn.Params {
		if b, ok := par.Type().Underlying().(*types.Basic); ok && b.Kind() == types.Int {
			found = par
			n++
		}
	}
	if n == 1 {
		return found
	}
	return nil
}

func isMaxReadDepthCall(v ssa.Value) bool { return core.IsCallTo(v, "MaxReadDepth") }

// effTable evaluates the value of `arg` when control reaches `site` in fn, for
// every (g, r) representative; the depth parameter of fn is bound to in(g,r).
type effFn func(g, r int64) (int64, string)

func evalAt(fn *ssa.Function, site ssa.Instruction, arg ssa.Value, in effFn) effFn {
	return func(g, r int64) (int64, string) {
		rv, e := in(g, r)
		if e != "" {
			return 0, e
		}
		par := depthParam(fn)
		var res core.WVal
		got := false
		w := &core.Walker{Fn: fn, Target: site}
		w.Oracle = func(v ssa.Value) (core.WVal, bool) {
			if par != nil && v == ssa.Value(par) {
				return core.WInt(rv), true
			}
			if isMaxReadDepthCall(v) {
				return core.WInt(g), true
			}
			return core.WVal{}, false
		}
		w.OnInstr = func(ins ssa.Instruction, w *core.Walker) bool {
			if ins == site {
				if x, ok := w.Eval(arg); ok && x.Kind == 'i' {
					res, got = x, true
				}
				return true
			}
			return false
		}
		w.Run()
		if !got {
			if w.Err != "" {
				return 0, w.Err
			}
			return 0, "the walk did not reach the call site with a known depth"
		}
		return res.I, ""
	}
}

func effExpected(g, r int64) int64 {
	if r <= 0 || r > g {
		return g
	}
	return r
}

var effGs = []int64{1, 3, 5}

func checkEff(f effFn) (ok bool, detail string, n int) {
	var bad []string
	for _, g := range effGs {
		for r := int64(-2); r <= g+2; r++ {
			n++
			got, e := f(g, r)
			if e != "" {
				return false, "undecided: " + e, n
			}
			if want := effExpected(g, r); got != want {
				bad = append(bad, fmt.Sprintf("request depth %d, global %d: effective %d, expected %d", r, g, got, want))
			}
		}
	}
	if len(bad) > 0 {
		if len(bad) > 4 {
			bad = append(bad[:4], fmt.Sprintf("... and %d more", len(bad)-4))
		}
		return false, strings.Join(bad, "; "), n
	}
	return true, "", n
}

// liftToParent: when site is inside a closure and arg is a captured value,
// return the enclosing function, the MakeClosure site and the bound value.
func liftSite(fn *ssa.Function, site ssa.Instruction, arg ssa.Value) (*ssa.Function, ssa.Instruction, ssa.Value) {
	for fn.Parent() != nil {
		o := core.ValueOrigin(arg)
		if o.Parent() == fn {
			break
		}
		var mk ssa.Instruction
		par := fn.Parent()
		core.Instrs(par, func(_ *ssa.BasicBlock, _ int, ins ssa.Instruction) {
			if mc, ok := ins.(*ssa.MakeClosure); ok && mc.Fn == fn {
				mk = ins
			}
		})
		if mk == nil {
			break
		}
		fn, site, arg = par, mk, o
	}
	return fn, site, arg
}

// clampChain builds the composed effective-depth function for a call that
// passes `arg` at `site` in fn, following callers while fn passes its own
// parameter through.
func clampChain(p *core.Program, fn *ssa.Function, site ssa.Instruction, arg ssa.Value, depth int, trail *[]string) []effFn {
	fn, site, arg = liftSite(fn, site, arg)
	*trail = append(*trail, core.FuncName(fn))
	identity := func(g, r int64) (int64, string) { return r, "" }
	here := evalAt(fn, site, arg, identity)
	// does fn clamp against g at all? (value differs from r for some r>g)
	usesG := false
	for _, g := range effGs {
		if v, e := here(g, g+2); e == "" && v != g+2 {
			usesG = true
		}
		if v, e := here(g, 0); e == "" && v != 0 {
			usesG = true
		}
	}
	par := depthParam(fn)
	if usesG || par == nil || depth >= 3 {
		return []effFn{here}
	}
	// follow the callers of fn
	var out []effFn
	idx := -1
	for i, q := range fn.Params {
		if q == par {
			idx = i
		}
	}
	top := core.Outermost(fn)
	_ = top
	callers := 0
	for _, pk := range p.KetoPackages() {
		for _, cf := range p.KetoFuncs(core.RelPath(pk.PkgPath)) {
			core.Instrs(cf, func(_ *ssa.BasicBlock, _ int, ins ssa.Instruction) {
				c, ok := ins.(ssa.CallInstruction)
				if !ok || c.Common().StaticCallee() != fn || idx >= len(c.Common().Args) {
					return
				}
				callers++
				for _, up := range clampChain(p, cf, ins, c.Common().Args[idx], depth+1, trail) {
					up := up
					out = append(out, evalAt(fn, site, arg, up))
				}
			})
		}
	}
	if callers == 0 || fn.Object() != nil && fn.Object().Exported() {
		// an API entry: its parameter is the request depth itself
		out = append(out, here)
	}
	return out
}

func runC02(c *Ctx) {
	p, r := c.P, c.R
	engs := engineFunctions(p)
	inEng := map[*ssa.Function]bool{}
	for _, f := range engs {
		inEng[f] = true
	}
	var names []string
	for _, f := range engs {
		names = append(names, core.FuncName(f))
	}
	r.Note("engine_functions", names)

	// ---- R02.1 check: every call into the engine from outside it
	for _, fn := range p.KetoFuncs("internal/check") {
		if inEng[core.Outermost(fn)] {
			continue
		}
		core.Instrs(fn, func(_ *ssa.BasicBlock, _ int, ins ssa.Instruction) {
			ci, ok := ins.(ssa.CallInstruction)
			if !ok {
				return
			}
			// go e.checkIsAllowed(...)(ctx, ch): the engine call is the callee value
			var calls []*ssa.Call
			if sc := ci.Common().StaticCallee(); sc != nil && inEng[sc] {
				if cv, ok := ins.(*ssa.Call); ok {
					calls = append(calls, cv)
				}
			}
			for _, cv := range calls {
				if cv.Block() != ins.Block() && ins != ssa.Instruction(cv) {
					continue
				}
				sc := cv.Common().StaticCallee()
				dp := depthParam(sc)
				idx := -1
				for i, q := range sc.Params {
					if q == dp {
						idx = i
					}
				}
				if idx < 0 {
					continue
				}
				var trail []string
				chain := clampChain(p, fn, cv, cv.Common().Args[idx], 0, &trail)
				name := core.FuncName(fn)
				construct := "depth passed to " + sc.Name()
				allOK := true
				total := 0
				for _, f := range chain {
					ok, detail, n := checkEff(f)
					total += n
					if !ok {
						allOK = false
						if strings.HasPrefix(detail, "undecided") {
							r.Undecide("R02.1", name, construct, p.Pos(cv.Pos()), detail, "call chain: "+strings.Join(trail, " <- "))
						} else {
							r.Violate("R02.1", name, construct, p.Pos(cv.Pos()), "the depth that enters the engine is not eff(request, global): "+detail, "call chain: "+strings.Join(trail, " <- "))
						}
					}
				}
				if allOK && len(chain) > 0 {
					r.Discharge("R02.1", name, construct, p.Pos(cv.Pos()), fmt.Sprintf("effective depth equals eff(r,g) on %d (r,g) representatives covering every ordering, over %d caller chain(s)", total, len(chain)), "call chain: "+strings.Join(trail, " <- "))
				}
				if len(chain) == 0 {
					r.Undecide("R02.1", name, construct, p.Pos(cv.Pos()), "no caller chain could be evaluated")
				}
			}
		})
	}
	// expand: the depth the recursion continues with
	r021Expand(c)
	r.Floor("R02.1", 2, "check engine entry, expand recursion")

	// ---- R02.2 guards
	unknownFn := p.Func("internal/check/checkgroup.UnknownMemberFunc")
	if unknownFn == nil {
		r.Undecide("R02.2", "", "anchor UnknownMemberFunc", "", "checkgroup.UnknownMemberFunc not found")
	}
	for _, fn := range engs {
		dp := depthParam(fn)
		name := core.FuncName(fn)
		// the guard: If on dp <= c / dp < c whose true successor returns UnknownMemberFunc
		var guard *ssa.If
		for _, b := range fn.Blocks {
			if len(b.Instrs) == 0 {
				continue
			}
			ifi, ok := b.Instrs[len(b.Instrs)-1].(*ssa.If)
			if !ok {
				continue
			}
			op, x, y, ok := core.BinCmp(ifi.Cond)
			if !ok || core.ValueOrigin(x) != ssa.Value(dp) {
				continue
			}
			k, isK := core.IntConst(y)
			if !isK || k != 0 || (op != token.LEQ && op != token.LSS) {
				continue
			}
			// true branch returns the cut-off function
			retOK := false
			for _, ins := range b.Succs[0].Instrs {
				if ret, ok := ins.(*ssa.Return); ok && len(ret.Results) == 1 {
					if f, ok := ret.Results[0].(*ssa.Function); ok && f == unknownFn {
						retOK = true
					}
				}
			}
			if retOK {
				guard = ifi
			}
		}
		if guard == nil {
			// a helper extracted from a guarded function: every live call of it is a direct call,
			// on the far side of the caller's own depth guard, that hands over the caller's depth
			// unchanged - the guard of the caller is the guard of the helper
			if why, ok := guardedAtCallers(p, fn, dp, unknownFn, inEng); ok {
				r.Discharge("R02.2", name, "depth guard", p.Pos(fn.Pos()), why)
				continue
			}
			r.Violate("R02.2", name, "depth guard", p.Pos(fn.Pos()), "no guard 'depth <= 0' / 'depth < 0' returning the cut-off result (UnknownMemberFunc) found: the function keeps expanding below the limit")
			continue
		}
		// every engine call (incl. those inside returned closures) is dominated by the false edge
		bad := ""
		for _, f2 := range core.Closures(fn) {
			core.Instrs(f2, func(_ *ssa.BasicBlock, _ int, ins ssa.Instruction) {
				ci, ok := ins.(ssa.CallInstruction)
				if !ok {
					return
				}
				sc := ci.Common().StaticCallee()
				isStorage := false
				if obj := core.CalleeObj(ci.Common()); obj != nil && storageSource(obj) && !strings.HasPrefix(obj.Name(), "astRelationFor") {
					isStorage = true
				}
				if (sc == nil || !inEng[sc]) && !isStorage {
					return
				}
				// lift to fn
				at := ins
				for at.Parent() != fn {
					cf := at.Parent()
					var mk ssa.Instruction
					core.Instrs(cf.Parent(), func(_ *ssa.BasicBlock, _ int, i2 ssa.Instruction) {
						if mc, ok := i2.(*ssa.MakeClosure); ok && mc.Fn == cf {
							mk = i2
						}
					})
					if mk == nil {
						bad = "cannot lift a closure call to " + name
						return
					}
					at = mk
				}
				if !core.EdgeDominates(guard.Block(), 1, at.Block()) {
					bad = fmt.Sprintf("the call at %s is not dominated by the depth guard", p.Pos(ins.Pos()))
				}
			})
		}
		if bad != "" {
			r.Violate("R02.2", name, "depth guard", p.Pos(guard.Pos()), bad)
		} else {
			r.Discharge("R02.2", name, "depth guard", p.Pos(guard.Pos()), "cut-off result returned under 'depth "+guardOp(guard)+" 0'; every engine and storage call of the function is on the other side of the guard")
		}
	}
	r.Floor("R02.2", 7, "7 depth-taking engine functions")

	// ---- R02.6 every branch on the remaining depth is a cut-off: in the engine
	// functions (and the closures they return) a comparison of the depth with a
	// constant may only decide between "go on" and "answer with the cut-off
	// result"; a side that merely skips work answers NotMember for an unexplored
	// branch, which a negation turns into 'allowed'
	n26 := 0
	for _, fn := range engs {
		dp := depthParam(fn)
		for _, f2 := range core.Closures(fn) {
			for _, b := range f2.Blocks {
				if len(b.Instrs) == 0 {
					continue
				}
				ifi, ok := b.Instrs[len(b.Instrs)-1].(*ssa.If)
				if !ok {
					continue
				}
				op, x, y, ok := core.BinCmp(ifi.Cond)
				if !ok {
					continue
				}
				isDepth := func(v ssa.Value) bool {
					o := core.ValueOrigin(v)
					if bo, ok := o.(*ssa.BinOp); ok && (bo.Op == token.SUB || bo.Op == token.ADD) {
						if _, isK := core.IntConst(bo.Y); isK {
							o = core.ValueOrigin(bo.X)
						}
					}
					if fv, ok := o.(*ssa.FreeVar); ok {
						o = core.ValueOrigin(core.FreeVarBinding(fv))
					}
					return o == ssa.Value(dp)
				}
				if !isDepth(x) {
					continue
				}
				if _, isK := core.IntConst(y); !isK {
					continue
				}
				// which successor is the exhausted side (depth small)?
				exhausted := -1
				switch op {
				case token.LEQ, token.LSS, token.EQL:
					exhausted = 0
				case token.GTR, token.GEQ, token.NEQ:
					exhausted = 1
				}
				if exhausted < 0 {
					continue
				}
				n26++
				// every path from the exhausted side to a return passes a cut-off marker
				marker := func(blk *ssa.BasicBlock) bool {
					for _, ins := range blk.Instrs {
						switch z := ins.(type) {
						case *ssa.Return:
							if len(z.Results) == 1 {
								if f, ok := z.Results[0].(*ssa.Function); ok && f == unknownFn {
									return true
								}
							}
						case ssa.CallInstruction:
							if obj := core.CalleeObj(z.Common()); obj != nil && obj.Name() == "MarkCutOff" {
								return true
							}
						}
					}
					return false
				}
				seen := map[*ssa.BasicBlock]bool{}
				var leak *ssa.BasicBlock
				var walk func(blk *ssa.BasicBlock)
				walk = func(blk *ssa.BasicBlock) {
					if seen[blk] || leak != nil {
						return
					}
					seen[blk] = true
					if marker(blk) {
						return
					}
					if len(blk.Succs) == 0 {
						leak = blk
						return
					}
					for _, sc := range blk.Succs {
						walk(sc)
					}
				}
				walk(b.Succs[exhausted])
				r.Check(leak == nil, "R02.6", core.FuncName(f2), "branch on the remaining depth", p.Pos(ifi.Cond.Pos()),
					"the depth-exhausted side of the comparison answers with the cut-off result",
					"the depth-exhausted side of this comparison goes on to return without the cut-off result (UnknownMemberFunc) or the cut-off marker: the skipped work is reported as 'not a member', which an enclosing negation turns into 'allowed'")
			}
		}
	}
	if n26 < 7 {
		r.Undecide("R02.6", "", "branches on the remaining depth", "", fmt.Sprintf("%d found (floor 7: the guards of R02.2)", n26))
	}

	// ---- R02.5 who may read the width limit: a second place that limits the
	// number of candidates without marking the cut-off disagrees with the
	// engine's own 'len(results) > max' test
	nW := 0
	belowCheck := map[*ssa.Function]bool{}
	if root := p.Func("(*internal/check.Engine).CheckRelationTuple"); root != nil {
		for f := range p.KG().ReachLive([]*ssa.Function{root}, nil).Parent {
			belowCheck[f] = true
		}
	}
	for _, pk := range p.KetoPackages() {
		for _, fn := range p.KetoFuncs(core.RelPath(pk.PkgPath)) {
			if !belowCheck[fn] && !belowCheck[core.Outermost(fn)] {
				continue // only code that runs below a check can cut a check off
			}
			core.Instrs(fn, func(_ *ssa.BasicBlock, _ int, ins ssa.Instruction) {
				ci, ok := ins.(ssa.CallInstruction)
				if !ok {
					return
				}
				obj := core.CalleeObj(ci.Common())
				if obj == nil || obj.Name() != "MaxReadWidth" || obj.Pkg() == nil || !strings.HasSuffix(obj.Pkg().Path(), "/internal/driver/config") {
					return
				}
				nW++
				// the reading function must mark the cut-off
				marks := false
				for _, g := range core.Closures(core.Outermost(fn)) {
					core.Instrs(g, func(_ *ssa.BasicBlock, _ int, i2 ssa.Instruction) {
						if c2, ok := i2.(ssa.CallInstruction); ok {
							if o2 := core.CalleeObj(c2.Common()); o2 != nil && o2.Name() == "MarkCutOff" {
								marks = true
							}
						}
					})
				}
				r.Check(marks, "R02.5", core.FuncName(fn), "read of the width limit", p.Pos(ins.Pos()),
					"the width limit is read where the truncation marks the cut-off",
					"the width limit is read in a function that never marks a cut-off: limiting the candidates here is invisible to the negation (the engine only recognises a truncation it performs itself)")
			})
		}
	}
	if nW < 1 {
		r.Undecide("R02.5", "", "reads of the width limit", "", "none found (floor 1)")
	}

	r023(c, inEng)
	r024(c)

	// tables: no combinator turns Unknown into IsMember
	ts, _, err := Transformers(p)
	if err != nil {
		r.Undecide("R02.3", "", "tables", "", err.Error())
		return
	}
	for _, t := range ts {
		if t.Role == "drain" {
			continue
		}
		var bad []string
		for _, in := range absInputs {
			if in.M != core.MU || in.Err {
				continue
			}
			for _, o := range t.Table[in] {
				if (o.Kind == "return" || o.Kind == "send" || o.Kind == "store") && o.Val.M == core.MI {
					bad = append(bad, "a cut-off (Unknown,nil) input produces "+o.String())
				}
			}
		}
		name := core.FuncName(t.Fn)
		if len(bad) > 0 {
			r.Violate("R02.3", name, "Unknown never becomes IsMember ("+t.Role+")", p.Pos(t.Fn.Pos()), strings.Join(bad, "; "), t.TableString()...)
		} else {
			r.Discharge("R02.3", name, "Unknown never becomes IsMember ("+t.Role+")", p.Pos(t.Fn.Pos()), "no outcome for input (Unknown,nil) is IsMember", t.TableString()...)
		}
	}
}

func guardOp(ifi *ssa.If) string {
	if op, _, _, ok := core.BinCmp(ifi.Cond); ok {
		return op.String()
	}
	return "?"
}

func r021Expand(c *Ctx) {
	p, r := c.P, c.R
	nClamping := 0
	defer func() {
		if nClamping == 0 {
			r.Undecide("R02.1", "", "depth of the expand recursion", "", "no recursive function of internal/expand compares its depth with Config().MaxReadDepth(): the limit the recursion runs under is not the configured one (or is read somewhere this rule does not follow)")
		}
	}()
	for _, fn := range p.KetoFuncs("internal/expand") {
		if fn.Parent() != nil || depthParam(fn) == nil {
			continue
		}
		// only the function that clamps the depth against the global limit (a helper on the cycle
		// passes its depth on unchanged; the decrease along the cycle is R09.1's)
		clamps := false
		core.Instrs(fn, func(_ *ssa.BasicBlock, _ int, ins ssa.Instruction) {
			if v, ok := ins.(ssa.Value); ok && isMaxReadDepthCall(v) {
				clamps = true
			}
			// the clamp may sit in a helper of the package that is handed the depth
			if ci, ok := ins.(*ssa.Call); ok {
				if h := ci.Common().StaticCallee(); h != nil && h.Blocks != nil && h != fn && core.FuncPkg(h) == core.FuncPkg(fn) && h.Signature.Results().Len() == 1 && types.Identical(h.Signature.Results().At(0).Type(), types.Typ[types.Int]) {
					passesDepth := false
					for _, a := range ci.Common().Args {
						if core.ValueOrigin(a) == ssa.Value(depthParam(fn)) {
							passesDepth = true
						}
					}
					if passesDepth {
						core.Instrs(h, func(_ *ssa.BasicBlock, _ int, i2 ssa.Instruction) {
							if v, ok := i2.(ssa.Value); ok && isMaxReadDepthCall(v) {
								clamps = true
							}
						})
					}
				}
			}
		})
		if !clamps {
			continue
		}
		nClamping++
		// the recursive call: to fn itself, or to a helper of the package that calls back into fn
		// (the loop over the children extracted into a function)
		reachesFn := func(g *ssa.Function) bool {
			seen := map[*ssa.Function]bool{}
			var dfs func(f *ssa.Function, depth int) bool
			dfs = func(f *ssa.Function, depth int) bool {
				if f == fn {
					return true
				}
				if seen[f] || depth > 3 || f.Blocks == nil || core.FuncPkg(f) != core.FuncPkg(fn) {
					return false
				}
				seen[f] = true
				found := false
				for _, cl := range core.Closures(f) {
					core.Instrs(cl, func(_ *ssa.BasicBlock, _ int, ins ssa.Instruction) {
						if ci, ok := ins.(ssa.CallInstruction); ok && !found {
							if sc := ci.Common().StaticCallee(); sc != nil && dfs(sc, depth+1) {
								found = true
							}
						}
					})
				}
				return found
			}
			return dfs(g, 0)
		}
		core.Instrs(fn, func(_ *ssa.BasicBlock, _ int, ins ssa.Instruction) {
			cv, ok := ins.(*ssa.Call)
			if !ok || cv.Common().StaticCallee() == nil {
				return
			}
			callee := cv.Common().StaticCallee()
			if callee != fn && !(depthParam(callee) != nil && reachesFn(callee)) {
				return
			}
			dp := depthParam(callee)
			idx := -1
			for i, q := range callee.Params {
				if q == dp {
					idx = i
				}
			}
			if idx < 0 || idx >= len(cv.Common().Args) {
				return
			}
			arg := cv.Common().Args[idx]
			// the value the recursion continues with is X in X-1
			bo, ok := arg.(*ssa.BinOp)
			if !ok || bo.Op != token.SUB {
				r.Undecide("R02.1", core.FuncName(fn), "depth of the expand recursion", p.Pos(cv.Pos()), "recursive depth argument is not of the form depth-1")
				return
			}
			f := evalAt(fn, cv, bo.X, func(g, rr int64) (int64, string) { return rr, "" })
			// the recursive call is only reached for eff >= 2; compare where reachable
			ok2, detail, n := checkEffWhere(f, func(g, rr int64) bool { return effExpected(g, rr) >= 2 })
			if ok2 {
				r.Discharge("R02.1", core.FuncName(fn), "depth of the expand recursion", p.Pos(cv.Pos()), fmt.Sprintf("the depth the recursion continues from equals eff(r,g) on %d representatives", n))
			} else if strings.HasPrefix(detail, "undecided") {
				r.Undecide("R02.1", core.FuncName(fn), "depth of the expand recursion", p.Pos(cv.Pos()), detail)
			} else {
				r.Violate("R02.1", core.FuncName(fn), "depth of the expand recursion", p.Pos(cv.Pos()), "expand does not continue from eff(request, global): "+detail)
			}
		})
	}
}

func checkEffWhere(f effFn, where func(g, r int64) bool) (bool, string, int) {
	var bad []string
	n := 0
	for _, g := range effGs {
		for r := int64(-2); r <= g+2; r++ {
			if !where(g, r) {
				continue
			}
			n++
			got, e := f(g, r)
			if e != "" {
				return false, "undecided: " + e, n
			}
			if want := effExpected(g, r); got != want {
				bad = append(bad, fmt.Sprintf("request depth %d, global %d: effective %d, expected %d", r, g, got, want))
			}
		}
	}
	if n == 0 {
		return false, "undecided: no representative reaches the site", 0
	}
	if len(bad) > 0 {
		return false, strings.Join(bad, "; "), n
	}
	return true, "", n
}

// ---- R02.3 out-of-band cut-off marker ------------------------------------------------

type markerInfo struct {
	mark    *ssa.Function // M(ctx)
	install *ssa.Function // W(ctx, flag) context.Context
}

func isAtomicBoolPtr(t types.Type) bool {
	pt, ok := t.(*types.Pointer)
	return ok && core.IsNamed(pt.Elem(), "sync/atomic", "Bool")
}

func findMarker(p *core.Program) markerInfo {
	var mi markerInfo
	for _, fn := range p.KetoFuncs("internal/check/checkgroup") {
		if fn.Parent() != nil {
			continue
		}
		storesTrue, readsCtxValue, withValue := false, false, false
		core.Instrs(fn, func(_ *ssa.BasicBlock, _ int, ins ssa.Instruction) {
			ci, ok := ins.(ssa.CallInstruction)
			if !ok {
				return
			}
			obj := core.CalleeObj(ci.Common())
			if obj == nil {
				return
			}
			switch {
			case obj.Name() == "Store" && obj.Pkg() != nil && obj.Pkg().Path() == "sync/atomic":
				if len(ci.Common().Args) == 2 {
					if k, ok := ci.Common().Args[1].(*ssa.Const); ok && k.Value != nil && k.Value.String() == "true" {
						storesTrue = true
					}
				}
			case obj.Name() == "Value" && ci.Common().IsInvoke() && core.IsNamed(ci.Common().Value.Type(), "context", "Context"):
				readsCtxValue = true
			case obj.Name() == "WithValue" && obj.Pkg() != nil && obj.Pkg().Path() == "context":
				for _, a := range ci.Common().Args {
					if isAtomicBoolPtr(core.Unwrap(a).Type()) {
						withValue = true
					}
				}
			}
		})
		if storesTrue && readsCtxValue && len(fn.Params) == 1 {
			mi.mark = fn
		}
		if withValue && len(fn.Params) == 2 {
			mi.install = fn
		}
	}
	return mi
}

func r023(c *Ctx, inEng map[*ssa.Function]bool) {
	p, r := c.P, c.R
	mi := findMarker(p)
	if mi.mark == nil || mi.install == nil {
		r.Violate("R02.3", "", "cut-off marker", "", "neither form holds: the combinators collapse Unknown into NotMember (see the decision tables of or/and/check group) and no out-of-band cut-off marker (a function storing true into an *atomic.Bool taken from the context, and one installing it) exists: a cut-off below a negation is inverted into IsMember")
		return
	}
	r.Note("cutoff_marker", core.FuncName(mi.mark))
	r.Note("cutoff_installer", core.FuncName(mi.install))
	callsMark := func(ins ssa.Instruction, ctx ssa.Value) bool {
		ci, ok := ins.(ssa.CallInstruction)
		if !ok || ci.Common().StaticCallee() != mi.mark {
			return false
		}
		return ctx == nil || core.ValueOrigin(ci.Common().Args[0]) == core.ValueOrigin(ctx)
	}
	// (i-a) the cut-off function marks with the context it is invoked with
	if uf := p.Func("internal/check/checkgroup.UnknownMemberFunc"); uf != nil && len(uf.Params) == 2 {
		res := core.PathCount(uf, func(ins ssa.Instruction) int {
			if callsMark(ins, uf.Params[0]) {
				return 1
			}
			return 0
		}, nil, nil)
		ok := len(res) > 0
		for _, iv := range res {
			if iv.Lo < 1 {
				ok = false
			}
		}
		r.Check(ok, "R02.3", core.FuncName(uf), "cut-off site: depth", p.Pos(uf.Pos()),
			"every path of the cut-off function marks the cut-off in the context it is invoked with",
			"the cut-off function does not mark the cut-off on every path: a depth cut-off below a negation is inverted into IsMember")
	} else {
		r.Undecide("R02.3", "", "cut-off site: depth", "", "UnknownMemberFunc not found")
	}
	// (i-b) the width truncation marks
	nTrunc := 0
	for _, fn := range p.KetoFuncs("internal/check") {
		core.Instrs(fn, func(b *ssa.BasicBlock, _ int, ins ssa.Instruction) {
			sl, ok := ins.(*ssa.Slice)
			if !ok || sl.High == nil || !isTraversalSlice(sl.X.Type()) {
				return
			}
			nTrunc++
			marked := false
			var ctxPar ssa.Value
			for _, par := range fn.Params {
				if core.IsNamed(par.Type(), "context", "Context") {
					ctxPar = par
				}
			}
			for _, i2 := range b.Instrs {
				if callsMark(i2, ctxPar) {
					marked = true
				}
			}
			r.Check(marked, "R02.3", core.FuncName(fn), "cut-off site: width truncation", p.Pos(sl.Pos()),
				"the block that truncates the traversal results marks the cut-off in the check's context",
				"the width truncation drops candidates without marking the cut-off: a truncated expansion below a negation is inverted into IsMember")
		})
	}
	if nTrunc == 0 {
		r.Undecide("R02.3", "", "cut-off site: width truncation", "", "no truncation of traversal results found in package check (anchor moved)")
	}
	// (ii)+(iii) every negation
	nNot := 0
	for _, fn := range p.KetoFuncs("internal/check") {
		if fn.Parent() == nil || !hasParamOfType(fn.Parent(), astPkg, "InvertResult") {
			continue
		}
		ri, err := p.ResultInfo(checkgroupPkg)
		if err != nil {
			continue
		}
		if len(ri.Receives(fn)) == 0 {
			continue
		}
		nNot++
		name := core.FuncName(fn)
		parent := fn.Parent()
		// the flip
		var flip *ssa.Store
		core.Instrs(fn, func(_ *ssa.BasicBlock, _ int, ins ssa.Instruction) {
			st, ok := ins.(*ssa.Store)
			if !ok {
				return
			}
			fa, ok := st.Addr.(*ssa.FieldAddr)
			if !ok || !ri.IsResultPtr(fa.X.Type()) || fa.Field != ri.MField {
				return
			}
			if k, ok := core.IntConst(st.Val); ok && k == ri.MemberVals["IsMember"] {
				flip = st
			}
		})
		// the inversion may have been extracted into a helper of the package that is handed the
		// child's result: the flip, the flag test and the marking are then judged in the helper
		// (whose returns are what the closure sends on)
		bodyFn := fn
		var helperCall *ssa.Call
		if flip == nil {
			core.Instrs(fn, func(_ *ssa.BasicBlock, _ int, ins ssa.Instruction) {
				call, ok := ins.(*ssa.Call)
				if !ok || flip != nil {
					return
				}
				h := call.Common().StaticCallee()
				if h == nil || h.Blocks == nil || core.FuncPkg(h) != core.FuncPkg(fn) {
					return
				}
				takesResult := false
				for _, a := range call.Common().Args {
					if ri.IsResult(a.Type()) {
						takesResult = true
					}
				}
				if !takesResult {
					return
				}
				core.Instrs(h, func(_ *ssa.BasicBlock, _ int, i2 ssa.Instruction) {
					st, ok := i2.(*ssa.Store)
					if !ok {
						return
					}
					fa, ok := st.Addr.(*ssa.FieldAddr)
					if !ok || !ri.IsResultPtr(fa.X.Type()) || fa.Field != ri.MField {
						return
					}
					if k, ok := core.IntConst(st.Val); ok && k == ri.MemberVals["IsMember"] {
						flip, bodyFn, helperCall = st, h, call
					}
				})
			})
		}
		if flip == nil {
			r.Undecide("R02.3", name, "negation flip", p.Pos(fn.Pos()), "no store of IsMember found in the negation closure")
			continue
		}
		// on every feasible path to the flip the cut-off flag was read and found unset - whatever
		// the form of the tests (nested, or one combined case `NotMember && flag.Load()` followed
		// by a plain NotMember case): paths are followed with what they establish about the flag
		// and about "membership == NotMember", contradictory ones are dropped
		var flag ssa.Value
		var loadIf *ssa.BasicBlock
		isLoad := func(v ssa.Value) *ssa.Call {
			call, ok := v.(*ssa.Call)
			if !ok {
				return nil
			}
			if obj := core.CalleeObj(call.Common()); obj != nil && obj.Name() == "Load" && obj.Pkg() != nil && obj.Pkg().Path() == "sync/atomic" {
				return call
			}
			return nil
		}
		for _, b := range bodyFn.Blocks {
			if len(b.Instrs) == 0 {
				continue
			}
			if ifi, ok := b.Instrs[len(b.Instrs)-1].(*ssa.If); ok {
				v := ifi.Cond
				if u, ok := v.(*ssa.UnOp); ok && u.Op == token.NOT {
					v = u.X
				}
				if ph, ok := v.(*ssa.Phi); ok {
					for _, e := range ph.Edges {
						if isLoad(e) != nil {
							v = e
						}
					}
				}
				if call := isLoad(v); call != nil {
					flag = core.ValueOrigin(call.Common().Args[0])
					loadIf = b
				}
			}
		}
		type pf struct {
			b, pred    *ssa.BasicBlock
			unset, mNM int // -1 false, +1 true, 0 not established
		}
		flipReachedWithout := false
		seenPF := map[pf]bool{}
		var walkPF func(f pf)
		walkPF = func(f pf) {
			if seenPF[f] {
				return
			}
			seenPF[f] = true
			if f.b == flip.Block() && f.unset != 1 {
				flipReachedWithout = true
			}
			for k, sc := range f.b.Succs {
				g := pf{sc, f.b, f.unset, f.mNM}
				feasible := true
				if ifi, ok := f.b.Instrs[len(f.b.Instrs)-1].(*ssa.If); ok && f.b.Succs[0] != f.b.Succs[1] {
					v, truth := ifi.Cond, k == 0
					for i := 0; i < 4; i++ {
						if u, isNot := v.(*ssa.UnOp); isNot && u.Op == token.NOT {
							v, truth = u.X, !truth
							continue
						}
						// `a && b` of a switch case is a phi: it has the value of the edge we came in on
						if ph, isPhi := v.(*ssa.Phi); isPhi && ph.Block() == f.b && f.pred != nil {
							for j, pr := range f.b.Preds {
								if pr == f.pred && j < len(ph.Edges) {
									v = ph.Edges[j]
								}
							}
							if kc, isK := v.(*ssa.Const); isK && kc.Value != nil {
								if (kc.Value.String() == "true") != truth {
									feasible = false
								}
							}
							continue
						}
						break
					}
					if isLoad(v) != nil {
						g.unset = -1
						if !truth {
							g.unset = 1
						}
					}
					if op, x, y, ok := core.BinCmp(v); ok && (op == token.EQL || op == token.NEQ) && core.IsNamed(x.Type(), checkgroupPkg, "Membership") {
						if kk, isK := core.IntConst(y); isK && kk == ri.MemberVals["NotMember"] {
							is := (op == token.EQL) == truth
							w := -1
							if is {
								w = 1
							}
							if f.mNM != 0 && f.mNM != w {
								feasible = false
							}
							g.mNM = w
						}
					}
				}
				if feasible {
					walkPF(g)
				}
			}
		}
		walkPF(pf{bodyFn.Blocks[0], nil, 0, 0})
		if helperCall != nil {
			// the helper works on the closure's own flag and context
			if par, ok := flag.(*ssa.Parameter); ok {
				for k, q := range bodyFn.Params {
					if q == par && k < len(helperCall.Common().Args) {
						flag = core.ValueOrigin(helperCall.Common().Args[k])
					}
				}
			}
			for k, q := range bodyFn.Params {
				if core.IsNamed(q.Type(), "context", "Context") && k < len(helperCall.Common().Args) {
					var own ssa.Value
					for _, fp := range fn.Params {
						if core.IsNamed(fp.Type(), "context", "Context") {
							own = fp
						}
					}
					if core.ValueOrigin(helperCall.Common().Args[k]) != own {
						flipReachedWithout = true // marks some other context
					}
				}
			}
		}
		if flag == nil || loadIf == nil || flipReachedWithout {
			r.Violate("R02.3", name, "negation flip", p.Pos(flip.Pos()), "NotMember is inverted to IsMember without first reading the cut-off flag: a cut-off below this negation becomes 'allowed'")
			continue
		}
		// the other branch: marks the enclosing negation with the closure's own ctx and does not produce IsMember
		tb := loadIf.Succs[0]
		if u, ok := loadIf.Instrs[len(loadIf.Instrs)-1].(*ssa.If).Cond.(*ssa.UnOp); ok && u.Op == token.NOT {
			tb = loadIf.Succs[1] // if !flag.Load() {...} else {<set>}
		}
		var ctxPar ssa.Value
		for _, par := range bodyFn.Params {
			if core.IsNamed(par.Type(), "context", "Context") {
				ctxPar = par
			}
		}
		marks, setsMember := false, false
		for _, ins := range tb.Instrs {
			if callsMark(ins, ctxPar) {
				marks = true
			}
			if st, ok := ins.(*ssa.Store); ok {
				if k, ok := core.IntConst(st.Val); ok && k == ri.MemberVals["IsMember"] {
					setsMember = true
				}
			}
		}
		r.Check(marks && !setsMember, "R02.3", name, "negation flip", p.Pos(flip.Pos()),
			"IsMember is produced only when the cut-off flag is unset; otherwise the negation answers without IsMember and marks its own enclosing negation",
			"when the cut-off flag is set the negation must not answer IsMember and must mark the cut-off in its own context (so an enclosing negation learns of it)")
		// (ii-b) an undetermined child result (neither IsMember nor NotMember) is passed on only after
		// marking the enclosing negation: an intersection above folds Unknown to NotMember, and the
		// enclosing negation must not flip that
		{
			// "the membership differs from <want>" holds under the branch condition cd
			memDiffers := func(cd core.Cond, want string) bool {
				op, x, y, ok := cd.Holds()
				if !ok || op != token.NEQ || !core.IsNamed(x.Type(), checkgroupPkg, "Membership") {
					return false
				}
				k, isK := core.IntConst(y)
				return isK && k == ri.MemberVals[want]
			}
			// the edge taken when the result is neither: the first block entered with both
			// "membership != IsMember" and "membership != NotMember" established, whatever the
			// order and the form (switch, if-chain, == or !=) of the two tests
			var undet *ssa.BasicBlock
			for _, b := range bodyFn.Blocks {
				if len(b.Preds) != 1 || undet != nil {
					continue
				}
				notIs, notNot, byEdge := false, false, false
				conds := core.CondsOnEdge(b.Preds[0], b)
				for i, cd := range conds {
					own := i == len(conds)-1 && cd.At == b.Preds[0]
					if memDiffers(cd, "IsMember") {
						notIs = true
						byEdge = byEdge || own
					}
					if memDiffers(cd, "NotMember") {
						notNot = true
						byEdge = byEdge || own
					}
				}
				if notIs && notNot && byEdge {
					undet = b
				}
			}
			if undet == nil {
				r.Undecide("R02.3", name, "undetermined child result", p.Pos(fn.Pos()), "cannot find the path on which the negated child's result is neither IsMember nor NotMember")
			} else {
				seen := map[*ssa.BasicBlock]bool{}
				leak := false
				var walk func(b *ssa.BasicBlock)
				walk = func(b *ssa.BasicBlock) {
					if seen[b] || leak {
						return
					}
					seen[b] = true
					for _, ins := range b.Instrs {
						if callsMark(ins, ctxPar) {
							return
						}
						if _, isSend := ins.(*ssa.Send); isSend {
							leak = true
							return
						}
						if _, isRet := ins.(*ssa.Return); isRet && bodyFn != fn {
							leak = true
							return
						}
					}
					for _, sc := range b.Succs {
						walk(sc)
					}
				}
				walk(undet)
				r.Check(!leak, "R02.3", name, "undetermined child result", p.Pos(lastPos(undet)),
					"a child result that is neither IsMember nor NotMember is passed on only after the enclosing negation was marked",
					"when the negated child comes back undetermined (cut off) the negation passes that on without marking the cut-off in its own context: an intersection above folds it to NotMember and the enclosing negation turns that into 'allowed' (!(!a && b) at the depth limit)")
			}
		}
		// (iii) the same flag is installed on both routes
		installedWith := func(ctxArg ssa.Value) bool {
			seen := map[ssa.Value]bool{}
			var walk func(v ssa.Value) bool
			walk = func(v ssa.Value) bool {
				v = core.ValueOrigin(v)
				if v == nil || seen[v] {
					return false
				}
				seen[v] = true
				switch x := v.(type) {
				case *ssa.Call:
					if x.Common().StaticCallee() == mi.install {
						return core.ValueOrigin(x.Common().Args[1]) == flag
					}
					// a context-to-context wrapper applied on top of the installed one
					for _, a := range x.Common().Args {
						if core.IsNamed(a.Type(), "context", "Context") && walk(a) {
							return true
						}
					}
				case *ssa.Phi:
					for _, e := range x.Edges {
						if !walk(e) {
							return false
						}
					}
					return len(x.Edges) > 0
				case *ssa.Alloc:
					sts := core.CellStores(x)
					if len(sts) == 0 {
						return false
					}
					// the last store before use: require that some store installs the
					// flag and that every later store keeps it
					okAny := false
					for _, st := range sts {
						if walk(st.Val) {
							okAny = true
						}
					}
					return okAny
				}
				return false
			}
			return walk(ctxArg)
		}
		// construction route: calls in the parent that build the child
		nBuild, okBuild := 0, true
		core.Instrs(parent, func(_ *ssa.BasicBlock, _ int, ins ssa.Instruction) {
			ci, ok := ins.(*ssa.Call)
			if !ok {
				return
			}
			sc := ci.Common().StaticCallee()
			if sc == nil || !inEng[sc] {
				return
			}
			for i, par := range sc.Params {
				if core.IsNamed(par.Type(), "context", "Context") && i < len(ci.Common().Args) {
					nBuild++
					if !installedWith(ci.Common().Args[i]) {
						okBuild = false
					}
				}
			}
		})
		r.Check(okBuild && nBuild > 0, "R02.3", core.FuncName(parent), "flag installed for the child's construction", p.Pos(parent.Pos()),
			fmt.Sprintf("all %d context-taking calls that build the negated child receive a context carrying this negation's flag", nBuild),
			"the context used to build the negated child does not carry this negation's cut-off flag: sub-checks bind the construction-time context, so cut-offs below the first level never reach the negation")
		// invocation route: the dynamic call of the child CheckFunc in the closure
		nInv, okInv := 0, true
		sig := checkFuncSig(p)
		core.Instrs(fn, func(_ *ssa.BasicBlock, _ int, ins ssa.Instruction) {
			ci, ok := ins.(ssa.CallInstruction)
			if !ok || ci.Common().StaticCallee() != nil || ci.Common().IsInvoke() {
				return
			}
			cs, ok := ci.Common().Value.Type().Underlying().(*types.Signature)
			if !ok || !core.SigIdentical(cs, sig) {
				return
			}
			nInv++
			if !installedWith(ci.Common().Args[0]) {
				okInv = false
			}
		})
		r.Check(okInv && nInv > 0, "R02.3", name, "flag installed for the child's invocation", p.Pos(fn.Pos()),
			"the negated child is invoked with a context carrying this negation's flag",
			"the negated child is invoked with a context that does not carry this negation's cut-off flag")
	}
	if nNot == 0 {
		r.Undecide("R02.3", "", "negation", "", "no negation closure (receiver of a Result inside the function handling *ast.InvertResult) found")
	}
	// (iv) no root context in the engine
	nRoot := 0
	for _, fn := range engineFuncs(p) {
		core.Instrs(fn, func(_ *ssa.BasicBlock, _ int, ins ssa.Instruction) {
			if ci, ok := ins.(ssa.CallInstruction); ok {
				if obj := core.CalleeObj(ci.Common()); obj != nil && obj.Pkg() != nil && obj.Pkg().Path() == "context" && (obj.Name() == "Background" || obj.Name() == "TODO") {
					nRoot++
					r.Violate("R02.3", core.FuncName(fn), "root context", p.Pos(ins.Pos()), "engine code creates a root context: sub-checks run under it cannot see the visited set or the cut-off flag of the request")
				}
			}
		})
	}
	if nRoot == 0 {
		r.Discharge("R02.3", "", "no root context in check/checkgroup", "", "no call to context.Background/TODO in the engine packages")
	}
}

func isTraversalSlice(t types.Type) bool {
	sl, ok := t.Underlying().(*types.Slice)
	if !ok {
		return false
	}
	return core.IsNamed(sl.Elem(), relPkg, "TraversalResult")
}

// ---- R02.4 width slice in range ------------------------------------------------------

func schemaMinimum(repo, key string) (float64, bool) {
	b, err := os.ReadFile(filepath.Join(repo, "embedx", "config.schema.json"))
	if err != nil {
		return 0, false
	}
	var doc map[string]any
	if json.Unmarshal(b, &doc) != nil {
		return 0, false
	}
	var find func(v any) (float64, bool)
	find = func(v any) (float64, bool) {
		switch x := v.(type) {
		case map[string]any:
			if sub, ok := x[key].(map[string]any); ok {
				if m, ok := sub["minimum"].(float64); ok {
					return m, true
				}
			}
			ks := make([]string, 0, len(x))
			for k := range x {
				ks = append(ks, k)
			}
			sort.Strings(ks)
			for _, k := range ks {
				if m, ok := find(x[k]); ok {
					return m, true
				}
			}
		case []any:
			for _, e := range x {
				if m, ok := find(e); ok {
					return m, true
				}
			}
		}
		return 0, false
	}
	return find(doc)
}

func r024(c *Ctx) {
	p, r := c.P, c.R
	minW, okW := schemaMinimum(p.Cfg.Dir, "max_read_width")
	minD, okD := schemaMinimum(p.Cfg.Dir, "max_read_depth")
	r.Check(okW && minW >= 1, "R02.4", "", "schema: limit.max_read_width minimum", "embedx/config.schema.json",
		fmt.Sprintf("minimum %v >= 1", minW), "the configuration schema no longer enforces max_read_width >= 1: results[:w-1] can be out of range")
	r.Check(okD && minD >= 1, "R02.4", "", "schema: limit.max_read_depth minimum", "embedx/config.schema.json",
		fmt.Sprintf("minimum %v >= 1", minD), "the configuration schema no longer enforces max_read_depth >= 1")
	for _, fn := range p.KetoFuncs("internal/check") {
		core.Instrs(fn, func(b *ssa.BasicBlock, _ int, ins ssa.Instruction) {
			sl, ok := ins.(*ssa.Slice)
			if !ok || sl.High == nil || !isTraversalSlice(sl.X.Type()) {
				return
			}
			// High = w - k (k>=0) or w; dominated by len(X) > w
			var w ssa.Value
			high := sl.High
			if bo, ok := high.(*ssa.BinOp); ok && bo.Op == token.SUB {
				if k, ok := core.IntConst(bo.Y); ok && k >= 0 {
					w = bo.X
				}
			} else {
				w = high
			}
			okDom := false
			for _, cd := range core.CondsAt(b) {
				op, x, y, ok := cd.Holds()
				if !ok {
					continue
				}
				isLen := func(v ssa.Value) bool {
					cl, ok := v.(*ssa.Call)
					if !ok {
						return false
					}
					bi, ok := cl.Call.Value.(*ssa.Builtin)
					return ok && bi.Name() == "len" && core.ValueOrigin(cl.Call.Args[0]) == core.ValueOrigin(sl.X)
				}
				if (op == token.GTR || op == token.GEQ) && isLen(x) && y == w {
					okDom = true
				}
				if (op == token.LSS || op == token.LEQ) && isLen(y) && x == w {
					okDom = true
				}
			}
			fromCfg := w != nil && core.IsCallTo(core.ValueOrigin(w), "MaxReadWidth")
			r.Check(okDom && fromCfg, "R02.4", core.FuncName(fn), "results[:w-k]", p.Pos(sl.Pos()),
				"the truncation bound is max_read_width minus a non-negative constant and the slice is dominated by len(results) > w: in range and only shrinks the candidate set",
				"the width truncation is not dominated by len(results) > w with w = MaxReadWidth(): the slice can be out of range or grow the set")
		})
	}
	r.Floor("R02.4", 3, "two schema minimums and the truncation slice")
}

// depthGuardOf: the If of fn that tests its depth parameter dp against 0 (<= or <) and returns the
// cut-off result on the true side.
func depthGuardOf(fn *ssa.Function, dp *ssa.Parameter, unknownFn *ssa.Function) *ssa.If {
	var guard *ssa.If
	for _, b := range fn.Blocks {
		if len(b.Instrs) == 0 {
			continue
		}
		ifi, ok := b.Instrs[len(b.Instrs)-1].(*ssa.If)
		if !ok {
			continue
		}
		op, x, y, ok := core.BinCmp(ifi.Cond)
		if !ok || core.ValueOrigin(x) != ssa.Value(dp) {
			continue
		}
		k, isK := core.IntConst(y)
		if !isK || k != 0 || (op != token.LEQ && op != token.LSS) {
			continue
		}
		for _, ins := range b.Succs[0].Instrs {
			if ret, ok := ins.(*ssa.Return); ok && len(ret.Results) == 1 {
				if f, ok := ret.Results[0].(*ssa.Function); ok && f == unknownFn {
					guard = ifi
				}
			}
		}
	}
	return guard
}

func guardedAtCallers(p *core.Program, fn *ssa.Function, dp *ssa.Parameter, unknownFn *ssa.Function, inEng map[*ssa.Function]bool) (string, bool) {
	if dp == nil || (fn.Object() != nil && fn.Object().Exported()) {
		return "", false
	}
	idx := -1
	for i, q := range fn.Params {
		if q == dp {
			idx = i
		}
	}
	kg := p.KG()
	live, _ := kg.Live()
	n := 0
	var callers []string
	for _, e := range kg.In[fn] {
		if !live[e.Caller] {
			continue
		}
		ci, isCall := e.Site.(ssa.CallInstruction)
		top := core.Outermost(e.Caller)
		if e.Kind != "static" || !isCall || idx < 0 || idx >= len(ci.Common().Args) || !inEng[top] || e.Caller != top {
			return "", false
		}
		cdp := depthParam(top)
		if cdp == nil || core.ValueOrigin(ci.Common().Args[idx]) != ssa.Value(cdp) {
			return "", false
		}
		g := depthGuardOf(top, cdp, unknownFn)
		if g == nil || !core.EdgeDominates(g.Block(), 1, e.Site.Block()) {
			return "", false
		}
		n++
		callers = append(callers, core.FuncName(top))
	}
	if n == 0 {
		return "", false
	}
	return "no guard of its own: it is only called, with the caller's depth unchanged, on the far side of the depth guard of " + strings.Join(dedupe(sortStrings(callers)), ", "), true
}
