package rules

import (
	"fmt"
	"go/token"
	"go/types"
	"sort"
	"strings"

	"golang.org/x/tools/go/ssa"

	"ketosa/internal/core"
)

func init() {
	Register(&Property{
		ID: "C14",
		Explanation: "Decides lock discipline and sharing shapes: (R14.1) every field that some method writes while holding a mutex of its object is accessed everywhere else under that mutex (exclusively for writes), or from a function all of whose callers hold it, or on an object allocated in the same function; no method re-acquires a lock of its receiver that it already holds; (R14.2) no registry getter that can run on a request goroutine writes a registry field without a lock, unless the getter is already called in the sequential set-up of the first server; (R14.3) a function literal run by go/errgroup.Go writes captured state only through an index that is private to its loop iteration; (R14.4) the check group's result is read only after doneCh and written only by the consumer; (R14.5) a visited set is created only inside package graph and lives only in a context value; (R14.6) an object handed to a concurrently running sub-check is not written afterwards; (R14.7) a visited set is installed only below a single check/expand, never by code that fans out several checks; (R14.8) request bodies are decoded into fresh values; (R14.11) the engines never write into, or reorder in place, the shared namespace configuration; (R14.10) every Lock/RLock in keto is released on every path to a return (deferred, or an unlock every path passes); (R14.9) the request-serving singletons (engines, handlers, mappers, persister, traverser) hold no caching/coalescing field and no container written after construction. " +
			"Not decided: absence of data races in general, result equality under concurrency.",
		Assumptions: []string{"mutex-protected fields are only touched through the struct's own package (checked: the accesses found are all in the declaring package)"},
		Run:         runC14,
	})
}

var lockPkgs = []string{"internal/x/graph", "internal/driver/config", "internal/driver", "internal/relationtuple", "internal/check", "internal/check/checkgroup", "internal/expand", "internal/persistence/sql"}

func reportLocks(c *Ctx, rule string, rels []string, filter func(string) bool) int {
	p, r := c.P, c.R
	findings, guarded := core.LockDiscipline(p, rels)
	r.Note("guarded_fields_inferred", guarded)
	n := 0
	for _, f := range findings {
		name := core.FuncName(f.Fn)
		if filter != nil && !filter(name) {
			continue
		}
		if strings.Contains(name, "ManagerWrapper") || p.IsTestFile(f.Pos.Pos()) {
			continue
		}
		n++
		if f.OK {
			r.Discharge(rule, name, "access "+f.Field, p.Pos(f.Pos.Pos()), f.Detail)
		} else {
			r.Violate(rule, name, "access "+f.Field, p.Pos(f.Pos.Pos()), f.Detail)
		}
	}
	return n
}

func runC14(c *Ctx) {
	r := c.R
	if n := reportLocks(c, "R14.1", lockPkgs, nil); n < 15 {
		r.Undecide("R14.1", "", "guarded field accesses", "", fmt.Sprintf("%d found (floor 15)", n))
	}
	r142(c)
	r143(c)
	r144(c)
	r145(c)
	r146(c)
	r147(c)
	r085(c, "R14.8", []string{"internal/check", "internal/relationtuple", "internal/expand"})
	singletonState(c, "R14.9")
	lockPairing(c, "R14.10", allKetoRels(c.P))
	configReadOnly(c, "R14.11")
}

// callOnlyReach: functions reachable through calls (not mere references).
func callOnlyReach(g *core.KGraph, roots []*ssa.Function, exclude map[*ssa.Function]bool) map[*ssa.Function]bool {
	r := g.ReachLive(roots, func(e *core.KEdge) bool {
		if e.Kind == "ref" || e.Kind == "lib-callback" {
			return true
		}
		return exclude[e.Callee]
	})
	out := map[*ssa.Function]bool{}
	for f := range r.Parent {
		out[f] = true
	}
	return out
}

// ---- R14.2 lazy initialisation on request paths ------------------------------------------------

func r142(c *Ctx) {
	p, r := c.P, c.R
	g := p.KG()
	entries, _ := p.Entries()
	var roots []*ssa.Function
	for _, e := range entries {
		roots = append(roots, e.Fn)
	}
	reqReach := g.ReachLive(roots, nil)
	// the first serve function's sequential set-up
	var firstServe *ssa.Function
	if sa := p.Func("(*internal/driver.RegistryDefault).ServeAll"); sa != nil {
		core.Instrs(sa, func(_ *ssa.BasicBlock, _ int, ins ssa.Instruction) {
			st, ok := ins.(*ssa.Store)
			if !ok {
				return
			}
			ia, ok := st.Addr.(*ssa.IndexAddr)
			if !ok {
				return
			}
			if k, ok := core.IntConst(ia.Index); ok && k == 0 {
				if mc, ok := st.Val.(*ssa.MakeClosure); ok && firstServe == nil {
					for _, f := range p.KG().TraceFuncOf(mc) {
						firstServe = f
					}
				}
			}
		})
	}
	setup := map[*ssa.Function]bool{}
	if firstServe != nil {
		excl := map[*ssa.Function]bool{}
		for _, a := range firstServe.AnonFuncs {
			excl[a] = true
		}
		setup = callOnlyReach(g, []*ssa.Function{firstServe}, excl)
		r.Note("first_serve_function", core.FuncName(firstServe))
	} else {
		r.Undecide("R14.2", "", "first serve function", "", "cannot determine which serve function is set up first in ServeAll")
	}
	n := 0
	for _, fn := range p.KetoFuncs("internal/driver") {
		if fn.Parent() != nil || fn.Signature.Recv() == nil || !core.IsNamed(fn.Signature.Recv().Type(), core.KetoMod+"/internal/driver", "RegistryDefault") {
			continue
		}
		if !reqReach.Has(fn) {
			continue
		}
		// unsynchronised stores to receiver fields
		var stores []*ssa.Store
		for _, g2 := range core.Closures(fn) {
			core.Instrs(g2, func(_ *ssa.BasicBlock, _ int, ins ssa.Instruction) {
				st, ok := ins.(*ssa.Store)
				if !ok {
					return
				}
				fa, ok := st.Addr.(*ssa.FieldAddr)
				if !ok || !core.IsNamed(fa.X.Type(), core.KetoMod+"/internal/driver", "RegistryDefault") {
					return
				}
				stores = append(stores, st)
			})
		}
		if len(stores) == 0 {
			continue
		}
		n++
		name := core.FuncName(fn)
		locked := false
		// a lock of the receiver dominating every store, or the stores are inside sync.Once.Do
		lf, _ := core.LockDiscipline(p, []string{"internal/driver"})
		_ = lf
		allLocked := true
		for _, st := range stores {
			ok := false
			core.Instrs(st.Parent(), func(_ *ssa.BasicBlock, _ int, ins ssa.Instruction) {
				if ci, isCall := ins.(ssa.CallInstruction); isCall {
					if obj := core.CalleeObj(ci.Common()); obj != nil && obj.Pkg() != nil && obj.Pkg().Path() == "sync" && obj.Name() == "Lock" && core.InstrDominates(ins, st) {
						ok = true
					}
				}
			})
			// inside a closure passed to sync.Once.Do
			if par := st.Parent().Parent(); par != nil {
				core.Instrs(par, func(_ *ssa.BasicBlock, _ int, ins ssa.Instruction) {
					if ci, isCall := ins.(ssa.CallInstruction); isCall {
						if obj := core.CalleeObj(ci.Common()); obj != nil && obj.Name() == "Do" && obj.Pkg() != nil && obj.Pkg().Path() == "sync" {
							for _, a := range ci.Common().Args {
								if mc, isMC := a.(*ssa.MakeClosure); isMC && mc.Fn == st.Parent() {
									ok = true
								}
							}
						}
					}
				})
			}
			if !ok {
				allLocked = false
			}
		}
		locked = allLocked
		switch {
		case locked:
			r.Discharge("R14.2", name, "lazy initialisation", p.Pos(fn.Pos()), "the getter writes registry fields only under a lock / inside sync.Once")
		case setup[fn]:
			r.Discharge("R14.2", name, "lazy initialisation", p.Pos(fn.Pos()), "unsynchronised lazy getter, but it is already called in the sequential set-up of the first server ("+core.FuncName(firstServe)+"), before any request goroutine exists")
		default:
			r.Violate("R14.2", name, "lazy initialisation", p.Pos(stores[0].Pos()), "this getter writes a registry field without synchronisation and its first call can be inside a request handler: concurrent first requests race on the field")
		}
	}
	if n < 5 {
		r.Undecide("R14.2", "", "lazy getters on request paths", "", fmt.Sprintf("%d found (floor 5)", n))
	}
}

// ---- R14.3 goroutine-closure writes ---------------------------------------------------------------

func goClosures(p *core.Program, rels []string) map[*ssa.Function]ssa.Instruction {
	out := map[*ssa.Function]ssa.Instruction{}
	for _, rel := range rels {
		for _, fn := range p.KetoFuncs(rel) {
			core.Instrs(fn, func(_ *ssa.BasicBlock, _ int, ins ssa.Instruction) {
				switch x := ins.(type) {
				case *ssa.Go:
					if mc, ok := x.Call.Value.(*ssa.MakeClosure); ok {
						out[mc.Fn.(*ssa.Function)] = ins
					}
				case *ssa.Call:
					if obj := core.CalleeObj(x.Common()); obj != nil && obj.Name() == "Go" && obj.Pkg() != nil && strings.HasSuffix(obj.Pkg().Path(), "errgroup") {
						for _, a := range x.Common().Args {
							if mc, ok := a.(*ssa.MakeClosure); ok {
								out[mc.Fn.(*ssa.Function)] = ins
							}
						}
					}
				}
			})
		}
	}
	return out
}

func r143(c *Ctx) {
	p, r := c.P, c.R
	gcs := goClosures(p, []string{"internal/check", "internal/expand", "internal/relationtuple"})
	n := 0
	for cf, site := range gcs {
		core.Instrs(cf, func(_ *ssa.BasicBlock, _ int, ins ssa.Instruction) {
			st, ok := ins.(*ssa.Store)
			if !ok {
				return
			}
			// stores whose address is rooted at a captured variable
			var root ssa.Value = st.Addr
			var idx ssa.Value
			for i := 0; i < 6; i++ {
				switch a := root.(type) {
				case *ssa.IndexAddr:
					idx = a.Index
					root = a.X
					continue
				case *ssa.FieldAddr:
					root = a.X
					continue
				case *ssa.UnOp:
					root = a.X
					continue
				}
				break
			}
			fv, ok := root.(*ssa.FreeVar)
			if !ok {
				return
			}
			n++
			name := core.FuncName(cf)
			okStore := false
			why := "a captured variable is written by a goroutine without an index private to it"
			if idx != nil {
				// the index comes from a captured cell that is allocated per loop iteration
				if u, ok := idx.(*ssa.UnOp); ok {
					if ifv, ok := u.X.(*ssa.FreeVar); ok {
						if al, ok := core.FreeVarBinding(ifv).(*ssa.Alloc); ok && core.InLoop(al.Block()) && sameCycle(al.Block(), site.Block()) {
							okStore = true
						} else {
							why = "the index " + ifv.Name() + " is shared by all goroutines of the loop (not a per-iteration copy)"
						}
					}
				} else if _, isConst := idx.(*ssa.Const); isConst {
					why = "every goroutine writes the same constant index"
				}
			} else if al, ok := core.FreeVarBinding(fv).(*ssa.Alloc); ok && core.InLoop(al.Block()) && sameCycle(al.Block(), site.Block()) {
				// slot := &xs[i] taken per iteration: the captured pointer is private to the
				// iteration when it is assigned once, from an element address whose index is the
				// loop's own counter
				if sts := core.CellStores(al); len(sts) == 1 {
					if ia, ok := sts[0].Val.(*ssa.IndexAddr); ok && sameCycle(ia.Block(), site.Block()) && loopCounter(ia.Index) {
						okStore = true
					} else {
						why = "the captured pointer " + fv.Name() + " is not the address of this iteration's own element"
					}
				}
			}
			r.Check(okStore, "R14.3", name, "write to captured "+fv.Name(), p.Pos(st.Pos()),
				"the goroutine writes only its own slot (index captured per iteration)", why)
		})
	}
	if n < 1 {
		r.Undecide("R14.3", "", "goroutine closure writes", "", fmt.Sprintf("%d found (floor 1: the batch check's result slots)", n))
	}
}

// loopCounter: v is the counter of a loop (a phi of the loop header, or that phi plus a
// constant as in go/ssa's range-over-slice loops).
func loopCounter(v ssa.Value) bool {
	v = core.ValueOrigin(v)
	if bo, ok := v.(*ssa.BinOp); ok && bo.Op == token.ADD {
		if _, isK := core.IntConst(bo.Y); isK {
			v = bo.X
		}
	}
	ph, ok := v.(*ssa.Phi)
	return ok && core.InLoop(ph.Block())
}

// ---- R14.4 publish-then-read -------------------------------------------------------------------------

func r144(c *Ctx) {
	p, r := c.P, c.R
	n := 0
	for _, fn := range p.KetoFuncs("internal/check/checkgroup") {
		core.Instrs(fn, func(b *ssa.BasicBlock, _ int, ins ssa.Instruction) {
			fa, ok := ins.(*ssa.FieldAddr)
			if !ok || fieldVarOf(fa) == nil || fieldVarOf(fa).Name() != "result" || !core.IsNamed(fa.X.Type(), checkgroupPkg, "concurrentCheckgroup") || fa.Referrers() == nil {
				return
			}
			for _, ref := range *fa.Referrers() {
				switch x := ref.(type) {
				case *ssa.UnOp:
					n++
					// dominated by a receive from doneCh (plain or select arm)
					okRead := false
					for d := b; d != nil; d = d.Idom() {
						for _, i2 := range d.Instrs {
							if d == b && i2 == ref {
								break
							}
							if u, ok := i2.(*ssa.UnOp); ok && u.Op == token.ARROW {
								if f, ok := fieldOfLoad(u.X); ok && f == "doneCh" {
									okRead = true
								}
							}
						}
					}
					for _, cd := range core.CondsAt(b) {
						// select arm on doneCh: index == k for the doneCh state
						if bo, ok := cd.V.(*ssa.BinOp); ok && cd.True {
							if ex, ok := bo.X.(*ssa.Extract); ok {
								if sel, ok := ex.Tuple.(*ssa.Select); ok {
									if k, ok := core.IntConst(bo.Y); ok && int(k) < len(sel.States) {
										if f, ok := fieldOfLoad(sel.States[k].Chan); ok && f == "doneCh" {
											okRead = true
										}
									}
								}
							}
						}
					}
					if !okRead {
						// not one dominating receive, but a receive on every path to the read
						// (select { case <-doneCh: ...; case <-ctx.Done(): cancel(); <-doneCh }; read)
						okRead = doneOnEveryPath(fn, x)
					}
					r.Check(okRead, "R14.4", core.FuncName(fn), "read of g.result", p.Pos(x.Pos()),
						"the result is read only after doneCh was received from (closed by the consumer after its single write)",
						"the group's result is read without first waiting for doneCh: it races with the consumer's write")
				case *ssa.Store:
					n++
					// the consumer goroutine: the function (or one whose deferred/inline closures we are in)
					// that is started by exactly one go statement and called from nowhere else
					inConsumer := false
					for f := fn; f != nil && !inConsumer; f = f.Parent() {
						goSites, others := startSites(p, f)
						if goSites == 1 && others == 0 {
							inConsumer = true
						}
						if goSites > 0 {
							break // a closure started as a goroutine of its own: its parent is another goroutine
						}
					}
					r.Check(inConsumer, "R14.4", core.FuncName(fn), "write of g.result", p.Pos(x.Pos()),
						"the result is written only by the consumer goroutine", "the group's result is written outside the consumer goroutine")
				}
			}
		})
	}
	if n < 3 {
		r.Undecide("R14.4", "", "accesses of g.result", "", fmt.Sprintf("%d found (floor 3)", n))
	}
}

// ---- R14.5 visited sets live only in context values -------------------------------------------------------

func r145(c *Ctx) {
	p, r := c.P, c.R
	n := 0
	for _, pk := range p.KetoPackages() {
		for _, fn := range p.KetoFuncs(core.RelPath(pk.PkgPath)) {
			core.Instrs(fn, func(_ *ssa.BasicBlock, _ int, ins ssa.Instruction) {
				call, ok := ins.(*ssa.Call)
				if !ok || call.Common().StaticCallee() == nil || call.Common().StaticCallee().Name() != "newStringSet" {
					return
				}
				n++
				okUse := true
				why := ""
				if call.Referrers() != nil {
					for _, ref := range *call.Referrers() {
						switch x := ref.(type) {
						case *ssa.MakeInterface:
							// must go into context.WithValue
							if x.Referrers() != nil {
								for _, r2 := range *x.Referrers() {
									if ci, ok := r2.(ssa.CallInstruction); ok {
										if obj := core.CalleeObj(ci.Common()); obj == nil || obj.Name() != "WithValue" {
											okUse, why = false, "the set is passed to "+r2.String()
										}
									}
								}
							}
						case *ssa.Store:
							if _, isLocal := x.Addr.(*ssa.Alloc); !isLocal {
								okUse, why = false, "the set is stored into "+x.Addr.String()
							}
						case *ssa.Return, *ssa.Phi, ssa.CallInstruction, *ssa.DebugRef:
						}
					}
				}
				r.Check(okUse, "R14.5", core.FuncName(fn), "newStringSet()", p.Pos(call.Pos()),
					"a new visited set goes only into a context value (or a local)", "a visited set is kept outside a request context: "+why)
			})
		}
	}
	if n < 1 {
		r.Undecide("R14.5", "", "newStringSet call sites", "", fmt.Sprintf("%d found (floor 1)", n))
	}
	// no struct field or package variable of that type
	if t := p.LookupType(core.KetoMod+"/internal/x/graph", "stringSet"); t != nil {
		bad := ""
		for _, pk := range p.KetoPackages() {
			if pk.Types == nil {
				continue
			}
			sc := pk.Types.Scope()
			for _, nm := range sc.Names() {
				switch o := sc.Lookup(nm).(type) {
				case *types.Var:
					if strings.Contains(o.Type().String(), "graph.stringSet") {
						bad = "package variable " + o.Name()
					}
				case *types.TypeName:
					if st, ok := o.Type().Underlying().(*types.Struct); ok {
						for i := 0; i < st.NumFields(); i++ {
							if strings.Contains(st.Field(i).Type().String(), "graph.stringSet") {
								bad = "field " + o.Name() + "." + st.Field(i).Name()
							}
						}
					}
				}
			}
		}
		r.Check(bad == "", "R14.5", "", "no field or package variable holds a visited set", "", "the visited set type appears only in locals and context values", "a visited set is held by "+bad+": it is shared between requests")
	}
}

// ---- R14.6 handed-over objects are not written afterwards ---------------------------------------------

func instrReaches(from, to ssa.Instruction, avoid ssa.Instruction) bool {
	// instruction-level reachability in one function, not passing through avoid
	fb, tb := from.Block(), to.Block()
	pos := func(b *ssa.BasicBlock, i ssa.Instruction) int {
		for k, x := range b.Instrs {
			if x == i {
				return k
			}
		}
		return -1
	}
	if fb == tb && pos(fb, from) < pos(tb, to) {
		ai := -1
		if avoid != nil && avoid.Block() == fb {
			ai = pos(fb, avoid)
		}
		if ai < 0 || ai < pos(fb, from) || ai > pos(tb, to) {
			return true
		}
	}
	// leave fb after `from` (unless avoid follows in fb)
	if avoid != nil && avoid.Block() == fb && pos(fb, avoid) > pos(fb, from) {
		return false
	}
	seen := map[*ssa.BasicBlock]bool{}
	stack := append([]*ssa.BasicBlock{}, fb.Succs...)
	for len(stack) > 0 {
		b := stack[len(stack)-1]
		stack = stack[:len(stack)-1]
		if seen[b] {
			continue
		}
		seen[b] = true
		ai := -1
		if avoid != nil && avoid.Block() == b {
			ai = pos(b, avoid)
		}
		if b == tb {
			if ai < 0 || ai > pos(b, to) {
				return true
			}
			continue
		}
		if ai >= 0 {
			continue // the path passes the (re-)allocation
		}
		stack = append(stack, b.Succs...)
	}
	return false
}

func r146(c *Ctx) { handedObjectsNotRewritten(c, "R14.6") }

func handedObjectsNotRewritten(c *Ctx, rule string) {
	p, r := c.P, c.R
	n := 0
	for _, rel := range []string{"internal/check", "internal/expand"} {
		for _, fn := range p.KetoFuncs(rel) {
			core.Instrs(fn, func(_ *ssa.BasicBlock, _ int, ins ssa.Instruction) {
				al, ok := ins.(*ssa.Alloc)
				if !ok || !al.Heap || al.Referrers() == nil {
					return
				}
				if _, isStruct := al.Type().(*types.Pointer).Elem().Underlying().(*types.Struct); !isStruct {
					return
				}
				var escapes, writes []ssa.Instruction
				for _, ref := range *al.Referrers() {
					switch x := ref.(type) {
					case ssa.CallInstruction:
						for _, a := range x.Common().Args {
							if a == ssa.Value(al) {
								escapes = append(escapes, ref)
							}
						}
					case *ssa.MakeClosure:
						escapes = append(escapes, ref)
					case *ssa.Store:
						if x.Val == ssa.Value(al) {
							if _, local := x.Addr.(*ssa.Alloc); !local {
								escapes = append(escapes, ref)
							}
						}
					case *ssa.FieldAddr:
						if x.Referrers() != nil {
							for _, r2 := range *x.Referrers() {
								if st, ok := r2.(*ssa.Store); ok && st.Addr == ssa.Value(x) {
									writes = append(writes, st)
								}
							}
						}
					}
				}
				if len(escapes) == 0 || len(writes) == 0 {
					return
				}
				n++
				bad := ""
				for _, e := range escapes {
					for _, w := range writes {
						if instrReaches(e, w, al) {
							bad = fmt.Sprintf("written at %s after it was handed over at %s", p.Pos(w.Pos()), p.Pos(e.Pos()))
						}
					}
				}
				r.Check(bad == "", rule, core.FuncName(fn), "object "+al.Comment+" handed to a sub-check", p.Pos(al.Pos()),
					"the object is fully initialised before it is handed over and not written afterwards",
					"an object is "+bad+" without being re-allocated: the sub-check that received it runs concurrently and sees the later values")
			})
		}
	}
	if n < 3 {
		r.Undecide(rule, "", "objects handed to sub-checks", "", fmt.Sprintf("%d found (floor 3)", n))
	}
}

// ---- R14.7 a visited set is installed only below a single check / expand --------------------------------

func r147(c *Ctx) { visitedInstallScope(c, "R14.7") }

func visitedInstallScope(c *Ctx, rule string) {
	p, r := c.P, c.R
	g := p.KG()
	var roots []*ssa.Function
	for _, nm := range []string{"(*internal/check.Engine).CheckRelationTuple", "(*internal/expand.Engine).BuildTree"} {
		if f := p.Func(nm); f != nil {
			roots = append(roots, f)
		}
	}
	if len(roots) < 2 {
		r.Undecide(rule, "", "anchor single-request roots", "", "CheckRelationTuple / BuildTree not found")
		return
	}
	below := map[*ssa.Function]bool{}
	for f := range g.ReachLive(roots, nil).Parent {
		below[f] = true
	}
	for _, root := range roots {
		delete(below, root)
	}
	installers := map[string]bool{"InitVisited": true, "ResetVisited": true, "CheckAndAddVisited": true}
	n := 0
	for _, pk := range p.KetoPackages() {
		if strings.HasSuffix(pk.PkgPath, "/internal/x/graph") {
			continue
		}
		for _, fn := range p.KetoFuncs(core.RelPath(pk.PkgPath)) {
			core.Instrs(fn, func(_ *ssa.BasicBlock, _ int, ins ssa.Instruction) {
				ci, ok := ins.(ssa.CallInstruction)
				if !ok {
					return
				}
				sc := ci.Common().StaticCallee()
				if sc == nil || !installers[sc.Name()] || core.FuncPkg(sc).Path() != core.KetoMod+"/internal/x/graph" {
					return
				}
				n++
				top := core.Outermost(fn)
				okSite := below[top] || below[fn]
				// the roots themselves may not install a set that outlives... they run one request: allowed
				for _, root := range roots {
					if top == root {
						okSite = true
					}
				}
				r.Check(okSite, rule, core.FuncName(fn), "call of graph."+sc.Name(), p.Pos(ins.Pos()),
					"the visited set is installed inside the evaluation of a single check / expand",
					"a visited set is installed by code that is not below a single CheckRelationTuple/BuildTree (it fans out several checks with one context): the checks share cycle-detection state and one skips what another visited")
			})
		}
	}
	if n < 4 {
		r.Undecide(rule, "", "visited-set installer call sites", "", fmt.Sprintf("%d found (floor 4)", n))
	}
}

// ---- lock pairing: every lock is released on every exit (R14.10 / R15.6 / R19.4) ---------------------

func lockPairing(c *Ctx, rule string, rels []string) {
	p, r := c.P, c.R
	n := 0
	for _, f := range core.LockPairing(p, rels) {
		n++
		name := core.FuncName(f.Fn)
		construct := "release of " + f.Mutex
		if f.OK {
			r.Discharge(rule, name, construct, p.Pos(f.Pos.Pos()), f.Detail)
		} else {
			r.Violate(rule, name, construct, p.Pos(f.Pos.Pos()), f.Detail)
		}
	}
	if n < 3 {
		r.Undecide(rule, "", "lock acquisitions", "", fmt.Sprintf("%d found (floor 3)", n))
	}
}

func allKetoRels(p *core.Program) []string {
	var out []string
	for _, pk := range p.KetoPackages() {
		rel := core.RelPath(pk.PkgPath)
		if strings.HasPrefix(rel, "proto") || strings.HasPrefix(rel, "internal/httpclient") {
			continue
		}
		out = append(out, rel)
	}
	sort.Strings(out)
	return out
}

// ---- R14.11 the namespace configuration is read-only on request paths --------------------------------

// configReadOnly: the parsed namespaces (internal/namespace and .../ast values
// handed out by the namespace manager) are shared by every request. The check
// and expand engines only read them: no store through a pointer into such a
// value, no in-place sort/reverse of one of its slices (a copied slice header
// still points at the shared elements).
func configReadOnly(c *Ctx, rule string) {
	p, r := c.P, c.R
	isCfgType := func(t types.Type) bool {
		n := core.NamedOf(t)
		if n == nil || n.Obj().Pkg() == nil {
			return false
		}
		pth := n.Obj().Pkg().Path()
		return pth == core.KetoMod+"/internal/namespace" || pth == core.KetoMod+"/internal/namespace/ast"
	}
	// inCfg(addr): the address points into a shared configuration value.
	// aliasCfg(v): the value (pointer, slice, interface) refers to such memory.
	var inCfg, aliasCfg func(v ssa.Value, d int) bool
	inCfg = func(v ssa.Value, d int) bool {
		if v == nil || d > 8 {
			return false
		}
		switch x := v.(type) {
		case *ssa.FieldAddr:
			if isCfgType(x.X.Type()) {
				if _, fresh := core.ValueOrigin(x.X).(*ssa.Alloc); !fresh {
					return true
				}
			}
			return aliasCfg(x.X, d+1)
		case *ssa.IndexAddr:
			return aliasCfg(x.X, d+1)
		}
		return false // a local cell is not configuration memory, whatever it holds
	}
	aliasCfg = func(v ssa.Value, d int) bool {
		if v == nil || d > 8 {
			return false
		}
		switch x := v.(type) {
		case *ssa.FieldAddr, *ssa.IndexAddr:
			return inCfg(v, d+1)
		case *ssa.UnOp:
			if al, ok := x.X.(*ssa.Alloc); ok {
				// a load of a local variable: it aliases what was stored into it (pointers/slices only)
				switch x.Type().Underlying().(type) {
				case *types.Slice, *types.Pointer, *types.Map, *types.Interface:
					for _, st := range core.CellStores(al) {
						if aliasCfg(st.Val, d+1) {
							return true
						}
					}
				}
				return false
			}
			if fv, ok := x.X.(*ssa.FreeVar); ok {
				if al, ok := core.FreeVarBinding(fv).(*ssa.Alloc); ok {
					switch x.Type().Underlying().(type) {
					case *types.Slice, *types.Pointer, *types.Map, *types.Interface:
						for _, st := range core.CellStores(al) {
							if aliasCfg(st.Val, d+1) {
								return true
							}
						}
					}
				}
				return false
			}
			// a load through an address inside the configuration yields a slice/pointer into it
			switch x.Type().Underlying().(type) {
			case *types.Slice, *types.Pointer, *types.Map, *types.Interface:
				return inCfg(x.X, d+1)
			}
			return false
		case *ssa.Slice:
			return aliasCfg(x.X, d+1)
		case *ssa.Phi:
			for _, e := range x.Edges {
				if aliasCfg(e, d+1) {
					return true
				}
			}
		case *ssa.MakeInterface:
			return aliasCfg(x.X, d+1)
		case *ssa.ChangeType:
			return aliasCfg(x.X, d+1)
		case *ssa.Parameter:
			if pt, ok := x.Type().Underlying().(*types.Pointer); ok && isCfgType(pt.Elem()) {
				return true
			}
		}
		return false
	}
	rooted := func(v ssa.Value, _ int) bool { return inCfg(v, 0) || aliasCfg(v, 0) }
	n := 0
	var bad []string
	for _, rel := range []string{"internal/check", "internal/check/checkgroup", "internal/expand"} {
		for _, fn := range p.KetoFuncs(rel) {
			core.Instrs(fn, func(_ *ssa.BasicBlock, _ int, ins ssa.Instruction) {
				switch x := ins.(type) {
				case *ssa.FieldAddr:
					if isCfgType(x.X.Type()) {
						n++
					}
				case *ssa.Store:
					if inCfg(x.Addr, 0) {
						bad = append(bad, fmt.Sprintf("%s: store into the shared namespace configuration in %s", p.Pos(x.Pos()), core.FuncName(fn)))
					}
				case *ssa.MapUpdate:
					if rooted(x.Map, 0) {
						bad = append(bad, fmt.Sprintf("%s: map update in the shared namespace configuration in %s", p.Pos(x.Pos()), core.FuncName(fn)))
					}
				case ssa.CallInstruction:
					obj := core.CalleeObj(x.Common())
					if obj == nil || obj.Pkg() == nil {
						return
					}
					if pth := obj.Pkg().Path(); pth == "sort" || pth == "slices" {
						switch obj.Name() {
						case "Slice", "SliceStable", "Sort", "Stable", "SortFunc", "SortStableFunc", "Reverse", "Strings", "Ints":
							for _, a := range x.Common().Args {
								if rooted(a, 0) {
									bad = append(bad, fmt.Sprintf("%s: %s.%s reorders a slice of the shared namespace configuration in place in %s (a copied slice header shares its elements)", p.Pos(x.Pos()), pth, obj.Name(), core.FuncName(fn)))
								}
							}
						}
					}
				}
			})
		}
	}
	if n < 5 {
		r.Undecide(rule, "", "reads of the namespace configuration in the engines", "", fmt.Sprintf("%d found (floor 5)", n))
		return
	}
	r.Check(len(bad) == 0, rule, "internal/check, internal/expand", "namespace configuration is only read", "",
		fmt.Sprintf("%d field accesses of namespace/AST values, none of them a write or an in-place reorder", n), strings.Join(dedupe(bad), "; ")+": concurrent requests read this memory while it changes, and the configuration stays changed for every later request")
}

// doneOnEveryPath: every path from the entry of fn to the instruction at passes a receive from
// doneCh (a plain receive, or the select arm that receives from it).
func doneOnEveryPath(fn *ssa.Function, at ssa.Instruction) bool {
	isDoneRecv := func(ins ssa.Instruction) bool {
		if u, ok := ins.(*ssa.UnOp); ok && u.Op == token.ARROW {
			if f, ok := fieldOfLoad(u.X); ok && f == "doneCh" {
				return true
			}
		}
		return false
	}
	armEdge := func(from, to *ssa.BasicBlock) bool {
		if len(from.Instrs) == 0 {
			return false
		}
		ifi, ok := from.Instrs[len(from.Instrs)-1].(*ssa.If)
		if !ok {
			return false
		}
		for k := 0; k < 2; k++ {
			if from.Succs[k] != to || from.Succs[0] == from.Succs[1] {
				continue
			}
			op, x, y, ok := core.Cond{V: ifi.Cond, True: k == 0, At: from}.Holds()
			if !ok || op != token.EQL {
				continue
			}
			ex, ok := x.(*ssa.Extract)
			if !ok {
				continue
			}
			sel, ok := ex.Tuple.(*ssa.Select)
			if !ok {
				continue
			}
			if kk, ok := core.IntConst(y); ok && int(kk) < len(sel.States) {
				if f, ok := fieldOfLoad(sel.States[kk].Chan); ok && f == "doneCh" {
					return true
				}
			}
		}
		return false
	}
	// must[b]: a receive has happened on every path to the entry of b (optimistic start)
	must := make([]bool, len(fn.Blocks))
	for i := range must {
		must[i] = i != 0
	}
	out := func(b *ssa.BasicBlock) bool {
		if must[b.Index] {
			return true
		}
		for _, ins := range b.Instrs {
			if isDoneRecv(ins) {
				return true
			}
		}
		return false
	}
	for changed := true; changed; {
		changed = false
		for _, b := range fn.Blocks {
			if b.Index == 0 || len(b.Preds) == 0 {
				continue
			}
			v := true
			for _, pr := range b.Preds {
				if !(out(pr) || armEdge(pr, b)) {
					v = false
				}
			}
			if v != must[b.Index] {
				must[b.Index] = v
				changed = true
			}
		}
	}
	b := at.Block()
	if must[b.Index] {
		return true
	}
	for _, ins := range b.Instrs {
		if ins == at {
			break
		}
		if isDoneRecv(ins) {
			return true
		}
	}
	return false
}

// startSites counts, over the package of f, the go statements that start f and every other use of f
// (calls, defers, f taken as a value).
func startSites(p *core.Program, f *ssa.Function) (goSites, others int) {
	pk := core.FuncPkg(f)
	if pk == nil {
		return 0, 1
	}
	for _, fn := range p.KetoFuncs(core.RelPath(pk.Path())) {
		core.Instrs(fn, func(_ *ssa.BasicBlock, _ int, ins ssa.Instruction) {
			if mc, ok := ins.(*ssa.MakeClosure); ok && mc.Fn == ssa.Value(f) {
				if mc.Referrers() != nil {
					for _, ref := range *mc.Referrers() {
						if g, isGo := ref.(*ssa.Go); isGo && g.Call.Value == ssa.Value(mc) {
							goSites++
						} else {
							others++
						}
					}
				}
				return
			}
			if ci, ok := ins.(ssa.CallInstruction); ok && ci.Common().StaticCallee() == f {
				if _, isMC := ci.Common().Value.(*ssa.MakeClosure); isMC {
					return // counted at the closure
				}
				if _, isGo := ins.(*ssa.Go); isGo {
					goSites++
				} else {
					others++
				}
				return
			}
			for _, op := range ins.Operands(nil) {
				if op != nil && *op == ssa.Value(f) {
					others++
				}
			}
		})
	}
	return
}
