package rules

import (
	"fmt"
	"go/token"
	"go/types"
	"strings"

	"golang.org/x/tools/go/ssa"

	"ketosa/internal/core"
)

func init() {
	Register(&Property{
		ID: "C03",
		Explanation: "Decides the error discipline of the check and expand engines and the pairing of Membership with Err: (R03.1) every error returned by a storage/mapping call (relationtuple.Manager, Traverser, MappingManager, Mapper, namespace lookups) in packages check and expand escapes on every non-nil path into a returned error, a Result.Err, checkgroup.ErrorFunc or the error writer -- a log call is not an escape; (R03.3) no function produces a Result that is IsMember together with a non-nil Err, for every Result literal, in-place mutation and every combinator's decision table over the six abstract inputs {Unknown,IsMember,NotMember}x{nil,err} (errors are never dropped by or/and/not/the check group, cancellation arms answer with an error); (R03.2) every consumer that derives 'allowed' from Membership either tests Err or is covered by the invariant proved in R03.3; (R03.4) a CheckFunc that obtained an error still delivers a result. " +
			"Not decided: that the answer equals the fault-free answer for transient faults; faults inside the driver that do not surface as a Go error.",
		Assumptions: []string{
			"storage faults surface as the error result of the Manager/Traverser/MappingManager methods",
			"an error constructed by a call (errors.WithStack(ctx.Err())) is non-nil",
		},
		Run: runC03,
	})
}

var herodotPkg = "github.com/ory/herodot"

// storageSource: methods of the storage/mapping interfaces and helpers whose
// errors must not be dropped by the engines.
func storageSource(obj *types.Func) bool {
	sig := obj.Type().(*types.Signature)
	if sig.Recv() == nil {
		// namespace.ASTRelationFor and friends
		return obj.Pkg() != nil && obj.Pkg().Path() == core.KetoMod+"/internal/namespace" && strings.HasPrefix(obj.Name(), "ASTRelationFor")
	}
	n := core.NamedOf(sig.Recv().Type())
	if n == nil || n.Obj().Pkg() == nil {
		return false
	}
	pk, name := n.Obj().Pkg().Path(), n.Obj().Name()
	switch pk {
	case core.KetoMod + "/internal/relationtuple":
		switch name {
		case "Manager", "Traverser", "MappingManager", "Mapper":
			return true
		}
	case core.KetoMod + "/internal/persistence":
		return name == "Persister"
	case core.KetoMod + "/internal/namespace":
		return name == "Manager"
	case core.KetoMod + "/internal/driver/config":
		return name == "Config" && obj.Name() == "NamespaceManager"
	case core.KetoMod + "/internal/check":
		return name == "Engine" && (obj.Name() == "astRelationFor" || obj.Name() == "BatchCheck")
	case core.KetoMod + "/internal/expand":
		return name == "Engine" && (obj.Name() == "BuildTree" || obj.Name() == "buildTreeRecursive")
	}
	return false
}

func engineErrPolicy(p *core.Program) core.ErrPolicy {
	return core.ErrPolicy{
		IsSink: func(obj *types.Func, _ *ssa.CallCommon) bool {
			if obj.Pkg() == nil {
				return false
			}
			switch {
			case obj.Pkg().Path() == checkgroupPkg && obj.Name() == "ErrorFunc":
				return true
			case obj.Pkg().Path() == herodotPkg && strings.HasPrefix(obj.Name(), "WriteError"):
				return true
			}
			return false
		},
		HandledIs: func(target ssa.Value) bool {
			// errors.Is(err, herodot.ErrNotFound): "unknown namespace / no rows"
			v := core.Unwrap(target)
			if u, ok := v.(*ssa.UnOp); ok && u.Op == token.MUL {
				if g, ok := u.X.(*ssa.Global); ok {
					return g.Pkg != nil && g.Pkg.Pkg.Path() == herodotPkg && g.Name() == "ErrNotFound"
				}
			}
			if g, ok := v.(*ssa.Global); ok {
				return g.Pkg != nil && g.Pkg.Pkg.Path() == herodotPkg && g.Name() == "ErrNotFound"
			}
			return false
		},
	}
}

func runC03(c *Ctx) {
	p, r := c.P, c.R
	// R03.1
	var fns []*ssa.Function
	fns = append(fns, p.KetoFuncs("internal/check")...)
	fns = append(fns, p.KetoFuncs("internal/expand")...)
	pol := engineErrPolicy(p)
	for _, site := range core.ErrSites(fns, storageSource) {
		v := p.CheckErrEscape(site, pol)
		name := core.FuncName(site.Fn)
		construct := "error of " + core.ObjName(site.Callee)
		if v.OK {
			r.Discharge("R03.1", name, construct, p.Pos(site.Call.Pos()), v.Detail, dedupe(v.Escapes)...)
		} else {
			r.Violate("R03.1", name, construct, p.Pos(v.BadPos), v.Detail, dedupe(v.Escapes)...)
		}
	}
	r.Floor("R03.1", 12, "4 storage calls in the engine, 1 in expand, mapper/namespace calls in the handlers")

	r035(c)

	// R03.3 via the transformer tables and the producers
	ts, ri, err := Transformers(p)
	if err != nil {
		r.Undecide("R03.3", "", "anchor checkgroup.Result", "", err.Error())
		return
	}
	invariantHolds := true
	for _, t := range ts {
		name := core.FuncName(t.Fn)
		construct := "combinator(" + t.Role + ")"
		if t.Role == "unknown" || len(t.Unknown) > 0 && t.Role != "drain" {
			r.Undecide("R03.3", name, construct, p.Pos(t.Fn.Pos()), "the abstract execution met constructs it cannot interpret: "+strings.Join(t.Unknown, "; "), t.TableString()...)
			invariantHolds = false
			continue
		}
		if t.Role == "drain" {
			continue
		}
		var bad []string
		pos := p.Pos(t.Fn.Pos())
		for _, v := range t.Check() {
			if v.Clause != "err" {
				continue
			}
			bad = append(bad, fmt.Sprintf("input %s: %s (%s)", v.Input, v.Why, v.Out))
			if v.Out.Pos.IsValid() {
				pos = p.Pos(v.Out.Pos)
			}
		}
		if len(bad) > 0 {
			invariantHolds = false
			r.Violate("R03.3", name, construct, pos, strings.Join(bad, "; "), t.TableString()...)
		} else {
			r.Discharge("R03.3", name, construct, pos, "for all six abstract inputs: errors are passed on, never paired with IsMember, never dropped", t.TableString()...)
		}
	}
	r.Floor("R03.3", 6, "or, and, not, check group, WithEdge, CheckRelationTuple")

	cleanTable := map[*ssa.Function]bool{}
	for _, t := range ts {
		if t.Role == "unknown" || t.Role == "drain" || len(t.Unknown) > 0 {
			continue
		}
		ok := true
		for _, v := range t.Check() {
			if v.Clause == "err" {
				ok = false
			}
		}
		if _, seen := cleanTable[t.Fn]; !seen || !ok {
			cleanTable[t.Fn] = ok
		}
	}
	// producers: every store of a non-nil Err / IsMember into a Result
	for _, fn := range append(engineFuncs(p), p.KetoFuncs("internal/expand")...) {
		type cellInfo struct {
			mIs, errNonNil bool
			fromUnknown    bool
			pos            token.Pos
			guardedNil     bool
		}
		cells := map[ssa.Value]*cellInfo{}
		get := func(v ssa.Value) *cellInfo {
			ci := cells[v]
			if ci == nil {
				ci = &cellInfo{}
				cells[v] = ci
			}
			return ci
		}
		core.Instrs(fn, func(b *ssa.BasicBlock, _ int, ins ssa.Instruction) {
			st, ok := ins.(*ssa.Store)
			if !ok {
				return
			}
			if ri.IsResultPtr(st.Addr.Type()) && ri.IsResult(st.Val.Type()) {
				if _, isAlloc := st.Addr.(*ssa.Alloc); isAlloc {
					// whole-value store: the cell may hold an error afterwards unless the value is a constant global
					if u, ok := st.Val.(*ssa.UnOp); ok {
						if g, ok := u.X.(*ssa.Global); ok {
							if a, ok := ri.ConstGlobal[g]; ok && !a.Err {
								return
							}
						}
					}
					get(st.Addr).fromUnknown = true
				}
				return
			}
			fa, ok := st.Addr.(*ssa.FieldAddr)
			if !ok || !ri.IsResultPtr(fa.X.Type()) {
				return
			}
			ci := get(fa.X)
			switch fa.Field {
			case ri.MField:
				if k, ok := core.IntConst(st.Val); ok && k == ri.MemberVals["IsMember"] {
					ci.mIs = true
					ci.pos = st.Pos()
					// is the store dominated by Err == nil of the same cell?
					for _, cd := range core.CondsAt(b) {
						op, x, y, ok := core.BinCmp(cd.V)
						if !ok || !core.IsNilConst(y) {
							continue
						}
						if u, ok := x.(*ssa.UnOp); ok {
							if f2, ok := u.X.(*ssa.FieldAddr); ok && f2.X == fa.X && f2.Field == ri.EField {
								if (op == token.NEQ && !cd.True) || (op == token.EQL && cd.True) {
									ci.guardedNil = true
								}
							}
						}
					}
				}
			case ri.EField:
				if !core.IsNilConst(st.Val) {
					ci.errNonNil = true
				}
			}
		})
		for cell, ci := range cells {
			if !ci.mIs {
				continue
			}
			name := core.FuncName(fn)
			construct := "Result with Membership=IsMember (" + cell.Name() + ")"
			// the two stores may lie on different paths (one variable filled per case and sent
			// once): decide on the paths. A function that receives Results is judged by its
			// decision table above; any other is executed from its entry.
			if ci.errNonNil || (ci.fromUnknown && !ci.guardedNil) {
				if cleanTable[fn] {
					r.Discharge("R03.3", name, construct, p.Pos(ci.pos), "IsMember and a non-nil Err are stored into the same variable, but on no path together (decision table of the function)")
					continue
				}
				// a Result -> Result helper of a combinator: the abstract execution of every caller
				// runs it with the caller's values, so the callers' decision tables cover it
				if fn.Parent() == nil && fn.Signature.Results().Len() == 1 && ri.IsResult(fn.Signature.Results().At(0).Type()) {
					kg := p.KG()
					live, _ := kg.Live()
					nIn, allClean := 0, true
					for _, e := range kg.In[fn] {
						if !live[e.Caller] {
							continue
						}
						nIn++
						if e.Kind != "static" || !cleanTable[e.Caller] {
							allClean = false
						}
					}
					if nIn > 0 && allClean {
						r.Discharge("R03.3", name, construct, p.Pos(ci.pos), "a helper executed within the decision tables of its callers, all of which are clean")
						continue
					}
				}
				if len(ri.Receives(fn)) == 0 && len(fn.Blocks) > 0 {
					oc, unk := ri.Run(core.Receive{Fn: fn, Start: fn.Blocks[0]}, core.AbsRes{})
					both := false
					for _, o := range oc {
						if o.Val.M == core.MI && o.Val.Err {
							both = true
						}
					}
					if !both && len(unk) == 0 {
						r.Discharge("R03.3", name, construct, p.Pos(ci.pos), "IsMember and a non-nil Err are stored into the same variable, but on no path together (executed from the entry)")
						continue
					}
				}
			}
			switch {
			case ci.errNonNil:
				invariantHolds = false
				r.Violate("R03.3", name, construct, p.Pos(ci.pos), "a Result is built with IsMember and a non-nil Err")
			case ci.fromUnknown && !ci.guardedNil:
				invariantHolds = false
				r.Violate("R03.3", name, construct, p.Pos(ci.pos), "a received Result is changed to IsMember in place without a dominating Err == nil test: an error answer becomes 'allowed'")
			default:
				r.Discharge("R03.3", name, construct, p.Pos(ci.pos), "IsMember is only stored where Err is nil")
			}
		}
	}

	// R03.2 consumers
	nCons := 0
	consIn := map[*ssa.Function]bool{}
	var hfns []*ssa.Function
	hfns = append(hfns, p.KetoFuncs("internal/check")...)
	for _, fn := range hfns {
		core.Instrs(fn, func(b *ssa.BasicBlock, _ int, ins ssa.Instruction) {
			bo, ok := ins.(*ssa.BinOp)
			if !ok || (bo.Op != token.EQL && bo.Op != token.NEQ) {
				return
			}
			_, cx, cy, _ := core.BinCmp(bo)
			k, isK := core.IntConst(cy)
			if !isK || k != ri.MemberVals["IsMember"] || !core.IsNamed(cx.Type(), checkgroupPkg, "Membership") {
				return
			}
			// is this a consumer (value flows to a bool result / Allowed field), not a combinator?
			isTransformer := false
			for _, t := range ts {
				if t.Fn == fn && t.Role != "pass" {
					isTransformer = true
				}
			}
			if isTransformer || !flowsToBoolSink(bo) {
				return
			}
			nCons++
			consIn[core.Outermost(fn)] = true
			name := core.FuncName(fn)
			guarded := false
			for _, cd := range core.CondsAt(b) {
				op, x, y, ok := core.BinCmp(cd.V)
				if ok && core.IsNilConst(y) && isErrFieldOf(x, ri) && ((op == token.NEQ && !cd.True) || (op == token.EQL && cd.True)) {
					guarded = true
				}
			}
			switch {
			case guarded:
				r.Discharge("R03.2", name, "allowed := Membership == IsMember", p.Pos(bo.Pos()), "the comparison is dominated by Err == nil of the same result")
			case invariantHolds:
				r.Discharge("R03.2", name, "allowed := Membership == IsMember", p.Pos(bo.Pos()), "Membership is read without testing Err, which is safe because R03.3 shows no producer or combinator ever yields (IsMember, err)")
			default:
				r.Violate("R03.2", name, "allowed := Membership == IsMember", p.Pos(bo.Pos()), "'allowed' is derived from Membership alone while (IsMember, err) can be produced (see the R03.3 findings): an entry that carries an error can say allowed")
			}
		})
	}
	// floor: every function that obtains results from the engine (CheckIsMember, the REST
	// and the gRPC batch handler) derives 'allowed' in a consumer judged above - in its own
	// body or in a helper it calls
	var reaches func(fn *ssa.Function, depth int) bool
	reaches = func(fn *ssa.Function, depth int) bool {
		if consIn[fn] {
			return true
		}
		if depth >= 3 {
			return false
		}
		found := false
		for _, f2 := range core.Closures(fn) {
			core.Instrs(f2, func(_ *ssa.BasicBlock, _ int, ins ssa.Instruction) {
				if c, ok := ins.(ssa.CallInstruction); ok && !found {
					if sc := c.Common().StaticCallee(); sc != nil && sc.Blocks != nil && core.FuncPkg(sc) != nil && core.IsKeto(core.FuncPkg(sc)) && sc != fn {
						found = reaches(core.Outermost(sc), depth+1)
					}
				}
			})
		}
		return found
	}
	nEntries := 0
	for _, fn := range hfns {
		if fn.Parent() != nil {
			continue
		}
		obtains := false
		for _, f2 := range core.Closures(fn) {
			core.Instrs(f2, func(_ *ssa.BasicBlock, _ int, ins ssa.Instruction) {
				if c, ok := ins.(ssa.CallInstruction); ok {
					if sc := c.Common().StaticCallee(); sc != nil && sc.Signature.Recv() != nil && core.IsNamed(sc.Signature.Recv().Type(), core.KetoMod+"/internal/check", "Engine") &&
						(sc.Name() == "CheckRelationTuple" || sc.Name() == "BatchCheck") {
						obtains = true
					}
				}
			})
		}
		if !obtains {
			continue
		}
		if rt := fn.Signature.Results(); rt.Len() > 0 {
			if core.IsNamed(rt.At(0).Type(), checkgroupPkg, "Result") {
				continue // hands the result on as it is
			}
			if sl, ok := rt.At(0).Type().Underlying().(*types.Slice); ok && core.IsNamed(sl.Elem(), checkgroupPkg, "Result") {
				continue
			}
		}
		nEntries++
		if !reaches(fn, 0) {
			r.Undecide("R03.2", core.FuncName(fn), "consumer of the engine's results", p.Pos(fn.Pos()), "this function obtains results from the engine but no place where it (or a helper it calls) derives 'allowed' from Membership was recognised")
		}
	}
	if nCons < 1 || nEntries < 3 {
		r.Undecide("R03.2", "", "consumers", "", fmt.Sprintf("%d consumers of Membership in %d functions that obtain results from the engine (floor: 1 consumer, 3 such functions: CheckIsMember, REST batch, gRPC batch)", nCons, nEntries))
	}
}

func isErrFieldOf(v ssa.Value, ri *core.ResultInfo) bool {
	switch x := v.(type) {
	case *ssa.UnOp:
		if fa, ok := x.X.(*ssa.FieldAddr); ok {
			return fa.Field == ri.EField && ri.IsResultPtr(fa.X.Type())
		}
	case *ssa.Field:
		return x.Field == ri.EField && ri.IsResult(x.X.Type())
	}
	return false
}

// flowsToBoolSink: the comparison's value is returned, stored into a struct
// field, or used as a branch that selects an HTTP status.
func flowsToBoolSink(v ssa.Value) bool {
	if v.Referrers() == nil {
		return false
	}
	for _, r := range *v.Referrers() {
		switch x := r.(type) {
		case *ssa.Return:
			return true
		case *ssa.Store:
			if _, ok := x.Addr.(*ssa.FieldAddr); ok {
				return true
			}
		case *ssa.Phi:
			if flowsToBoolSink(x) {
				return true
			}
		}
	}
	return false
}

func dedupe(in []string) []string {
	seen := map[string]bool{}
	var out []string
	for _, s := range in {
		if !seen[s] {
			seen[s] = true
			out = append(out, s)
		}
	}
	return out
}

// ---- R03.5 the storage layer below a check / expand does not drop an error ----------------------

// r035: in every function of persistence/sql (and of the mapping code) that is
// live below CheckRelationTuple / BuildTree, the error of every call into the
// database libraries or into another keto function escapes, on every non-nil
// path, into the function's returned error.
func r035(c *Ctx) {
	p, r := c.P, c.R
	g := p.KG()
	var roots []*ssa.Function
	for _, nm := range []string{"(*internal/check.Engine).CheckRelationTuple", "(*internal/check.Engine).BatchCheck", "(*internal/expand.Engine).BuildTree"} {
		if f := p.Func(nm); f != nil {
			roots = append(roots, f)
		}
	}
	if len(roots) < 3 {
		r.Undecide("R03.5", "", "anchor engine roots", "", "CheckRelationTuple / BatchCheck / BuildTree not found")
		return
	}
	var fns []*ssa.Function
	for f := range g.ReachLive(roots, nil).Parent {
		rel := core.RelPath(core.FuncPkg(f).Path())
		if rel == "internal/persistence/sql" || rel == "internal/relationtuple" {
			fns = append(fns, f)
		}
	}
	// a source is a call that can fail because of the database: a call into the
	// database libraries, or a keto function from which such a call is reachable
	// (pure conversions and configuration look-ups are not storage faults)
	dbLib := func(obj *types.Func) bool {
		if obj.Pkg() == nil {
			return false
		}
		pp := obj.Pkg().Path()
		switch {
		case strings.HasPrefix(pp, "github.com/gobuffalo/pop"), strings.HasPrefix(pp, "github.com/ory/x/popx"),
			strings.HasPrefix(pp, "github.com/ory/pop"), strings.HasPrefix(pp, "github.com/jmoiron/sqlx"):
			return true
		case pp == "database/sql":
			if rv := obj.Type().(*types.Signature).Recv(); rv != nil {
				if n := core.NamedOf(rv.Type()); n != nil {
					switch n.Obj().Name() {
					case "DB", "Tx", "Conn", "Stmt", "Rows", "Row":
						return true
					}
				}
			}
		}
		return false
	}
	direct := map[*ssa.Function]bool{}
	var allFns []*ssa.Function
	for _, pk := range p.KetoPackages() {
		allFns = append(allFns, p.KetoFuncs(core.RelPath(pk.PkgPath))...)
	}
	for _, f := range allFns {
		core.Instrs(f, func(_ *ssa.BasicBlock, _ int, ins ssa.Instruction) {
			if ci, ok := ins.(ssa.CallInstruction); ok {
				if obj := core.CalleeObj(ci.Common()); obj != nil && dbLib(obj) {
					direct[f] = true
				}
			}
		})
	}
	ioMemo := map[*ssa.Function]bool{}
	mayIO := func(f *ssa.Function) bool {
		if v, ok := ioMemo[f]; ok {
			return v
		}
		res := false
		for x := range g.ReachLive([]*ssa.Function{f}, nil).Parent {
			if direct[x] {
				res = true
				break
			}
		}
		ioMemo[f] = res
		return res
	}
	src := func(obj *types.Func) bool {
		if dbLib(obj) {
			return true
		}
		if obj.Pkg() == nil || !strings.HasPrefix(obj.Pkg().Path(), core.KetoMod) {
			return false
		}
		if sig := obj.Type().(*types.Signature); sig.Recv() != nil {
			if _, isIface := sig.Recv().Type().Underlying().(*types.Interface); isIface {
				for _, impl := range g.Implementers(obj) {
					if mayIO(impl) {
						return true
					}
				}
				return false
			}
		}
		f := p.SSA.FuncValue(obj)
		if f == nil {
			return true
		}
		return mayIO(f)
	}
	pol := core.ErrPolicy{
		IsSink:    func(*types.Func, *ssa.CallCommon) bool { return false },
		HandledIs: func(ssa.Value) bool { return false },
	}
	for _, site := range core.ErrSites(fns, src) {
		v := p.CheckErrEscape(site, pol)
		name := core.FuncName(site.Fn)
		construct := "error of " + core.ObjName(site.Callee)
		if v.OK {
			r.Discharge("R03.5", name, construct, p.Pos(site.Call.Pos()), v.Detail, dedupe(v.Escapes)...)
		} else {
			r.Violate("R03.5", name, construct, p.Pos(v.BadPos), v.Detail+" (storage layer below a check: a dropped error makes the engine see 'no rows')", dedupe(v.Escapes)...)
		}
	}
	r.Floor("R03.5", 8, "traverser queries (3), GetRelationTuples, uuid mapping reads, mapper calls")
}
