package rules

import (
	"fmt"
	"go/ast"
	"go/token"
	"go/types"
	"strings"

	"golang.org/x/tools/go/packages"
	"golang.org/x/tools/go/ssa"

	"ketosa/internal/core"
)

func init() {
	Register(&Property{
		ID: "C16",
		Explanation: "Decides positional agreement in the batched name<->UUID mappers: (R16.1) in Mapper.FromTuple and Mapper.ToTuple every loop iteration appends exactly two values to the batch on every feasible valuation of the subject kind (both-nil is excluded because Validate, which is evaluated, rejects it; a nil internal subject is excluded by R16.4), the tuple index is len(res) taken before the single append to res, and each deferred reader registered after the j-th append reads batch[2*i+j]; (R16.2) the value appended at position j and the field the deferred reader assigns have the same role (subject / object); the single-item mappers (FromQuery, ToQuery, ToTree) index by the position captured at the append or by first/last where that is the position on every path; (R16.3) MapStringsToUUIDsReadOnly derives uuids[i] from ss[i] with the same i, and batchFromUUIDs writes the representation of an id to exactly the result indices that id occupies; (R16.4) ToInternal sets a non-nil Subject on every path that returns a tuple; (R16.5) the storage layer keeps no process-local cache of mappings; (R16.8) the storage-side mapping functions and the helpers they hand their input to never write into the caller's strings; (R16.7) statements on the mapping table are inserts and id-keyed reads only (no row is deleted or rewritten); (R16.6) a chunked loop's stride equals the size of the chunk built inside it (ids between the two would come back unresolved). " +
			"Not decided: injectivity of UUIDv5 (cryptographic), the SQL round trip of the mapping rows.",
		Assumptions: []string{"ketoapi.RelationTuple.Validate is called before the appends (checked) and rejects exactly the tuples it is evaluated to reject"},
		Run:         runC16,
	})
}

type c16Append struct {
	slice string
	val   ast.Expr
	role  string // subject | object | ?
}

type c16Reg struct {
	after   int // number of batch appends made before the registration (1-based position of the append it follows)
	closure *ast.FuncLit
}

type c16Path struct {
	desc          string
	appends       []c16Append
	regs          []c16Reg
	resApp        int
	iDefBeforeRes bool
	validated     bool
	aborted       bool
	unknown       []string
}

// c16Vars: the variables of a batched mapper, identified by what is done with
// them, never by name: batch is the slice handed (variadic) to the mapping
// manager, read is the slice its result is assigned to, res is what the
// function returns, idx every variable assigned from len(res).
type c16Vars struct {
	batch, read, res types.Object
	idx              map[types.Object]bool
	lin              map[types.Object][2]int64 // variables defined as a*len(res)+b (subjectIdx, objectIdx := 2*len(res), 2*len(res)+1)
}

func c16VarsOf(pkg *packages.Package, fd *ast.FuncDecl) c16Vars {
	info := pkg.TypesInfo
	v := c16Vars{idx: map[types.Object]bool{}}
	ast.Inspect(fd.Body, func(n ast.Node) bool {
		switch x := n.(type) {
		case *ast.AssignStmt:
			for i, rhs := range x.Rhs {
				call, ok := unparen(rhs).(*ast.CallExpr)
				if !ok {
					continue
				}
				if len(call.Args) > 0 && isBatchMapCall(pkg, call, 0) {
					v.batch = objOf(info, call.Args[len(call.Args)-1])
					if i < len(x.Lhs) {
						v.read = objOf(info, x.Lhs[0])
					}
				}
			}
		case *ast.ReturnStmt:
			if len(x.Results) >= 1 {
				if o := objOf(info, x.Results[0]); o != nil {
					v.res = o
				}
			}
		}
		return true
	})
	if v.res == nil && fd.Type.Results != nil && len(fd.Type.Results.List) > 0 && len(fd.Type.Results.List[0].Names) > 0 {
		v.res = info.Defs[fd.Type.Results.List[0].Names[0]]
	}
	ast.Inspect(fd.Body, func(n ast.Node) bool {
		as, ok := n.(*ast.AssignStmt)
		if !ok || len(as.Lhs) != 1 || len(as.Rhs) != 1 {
			return true
		}
		if c, ok := unparen(as.Rhs[0]).(*ast.CallExpr); ok && len(c.Args) == 1 {
			if id, ok := unparen(c.Fun).(*ast.Ident); ok && id.Name == "len" && v.res != nil && objOf(info, c.Args[0]) == v.res {
				if o := objOf(info, as.Lhs[0]); o != nil {
					v.idx[o] = true
				}
			}
		}
		return true
	})
	// variables defined once as a linear expression of len(res)
	v.lin = map[types.Object][2]int64{}
	saveU, saveV := linUnit, linVars
	linUnit, linVars = v.res, nil
	nDefs := map[types.Object]int{}
	ast.Inspect(fd.Body, func(n ast.Node) bool {
		as, ok := n.(*ast.AssignStmt)
		if !ok || len(as.Lhs) != len(as.Rhs) {
			return true
		}
		for i, l := range as.Lhs {
			o := objOf(info, l)
			if o == nil || v.idx[o] {
				continue
			}
			nDefs[o]++
			if a, b, ok := linearIn(info, as.Rhs[i], v.idx); ok && a != 0 && as.Tok == token.DEFINE {
				v.lin[o] = [2]int64{a, b}
			}
		}
		return true
	})
	for o := range v.lin {
		if nDefs[o] != 1 {
			delete(v.lin, o)
		}
	}
	linUnit, linVars = saveU, saveV
	if v.res != nil && len(v.lin) > 0 && len(v.idx) == 0 {
		// the index variables are defined directly from len(res): they play the part of i := len(res)
		for o := range v.lin {
			v.idx[o] = false
		}
	}
	return v
}

// baseTypeName: the name of the (pointer to) named type of e.
func baseTypeName(info *types.Info, e ast.Expr) string {
	t := info.TypeOf(e)
	if t == nil {
		return ""
	}
	if n := core.NamedOf(t); n != nil {
		return n.Obj().Name()
	}
	return ""
}

// roleOfAppended classifies the appended expression by the field selected and
// the type it is selected from.
func roleOfAppended(info *types.Info, e ast.Expr) string {
	e = unparen(e)
	if st, ok := e.(*ast.StarExpr); ok {
		e = unparen(st.X)
	}
	sel, ok := e.(*ast.SelectorExpr)
	if !ok {
		return "?"
	}
	owner := baseTypeName(info, sel.X)
	switch {
	case strings.Contains(owner, "SubjectSet") || strings.Contains(owner, "SubjectID"):
		return "subject"
	case strings.Contains(sel.Sel.Name, "Subject"):
		return "subject"
	case sel.Sel.Name == "Object":
		return "object"
	}
	return "?"
}

// walkBody interprets the loop body for one valuation. kind: "id", "set", "both", "none".
func c16Walk(pkg *packages.Package, body []ast.Stmt, kind string, vars c16Vars, p *c16Path) {
	info := pkg.TypesInfo
	errT := types.Universe.Lookup("error").Type()
	evalNil := func(e ast.Expr) (isNil bool, known bool) {
		sel, ok := unparen(e).(*ast.SelectorExpr)
		if !ok {
			return false, false
		}
		switch sel.Sel.Name {
		case "SubjectID":
			return !(kind == "id" || kind == "both"), true
		case "SubjectSet":
			return !(kind == "set" || kind == "both"), true
		}
		return false, false
	}
	var cond func(e ast.Expr) (val bool, known bool)
	cond = func(e ast.Expr) (bool, bool) {
		e = unparen(e)
		if u, ok := e.(*ast.UnaryExpr); ok && u.Op == token.NOT {
			if _, isCmp := unparen(u.X).(*ast.BinaryExpr); !isCmp {
				v, k := cond(u.X)
				return !v, k
			}
		}
		if op, x, y, ok := cmpParts(info, e); ok && (op == token.EQL || op == token.NEQ) && isNilExpr(info, y) {
			if t := info.TypeOf(x); t != nil && types.Identical(t, errT) {
				return op == token.EQL, true // no error on the explored path
			}
			if isNil, ok := evalNil(x); ok {
				return isNil == (op == token.EQL), true
			}
			return false, false
		}
		// negated conjunction / disjunction
		neg := false
		for {
			u, ok := e.(*ast.UnaryExpr)
			if !ok || u.Op != token.NOT {
				break
			}
			neg = !neg
			e = unparen(u.X)
		}
		if x, ok := e.(*ast.BinaryExpr); ok {
			switch x.Op {
			case token.LAND:
				a, ka := cond(x.X)
				b, kb := cond(x.Y)
				if ka && kb {
					return (a && b) != neg, true
				}
			case token.LOR:
				a, ka := cond(x.X)
				b, kb := cond(x.Y)
				if ka && kb {
					return (a || b) != neg, true
				}
			}
		}
		return false, false
	}
	var stmts func(list []ast.Stmt)
	stmts = func(list []ast.Stmt) {
		for _, st := range list {
			if p.aborted {
				return
			}
			switch s := st.(type) {
			case *ast.AssignStmt:
				// subjectIdx, objectIdx := 2*len(res), 2*len(res)+1: index variables defined from
				// len(res) directly; they must be taken before the append to res as well
				for _, l := range s.Lhs {
					if _, isLin := vars.lin[objOf(info, l)]; isLin {
						p.iDefBeforeRes = p.resApp == 0
					}
				}
				if len(s.Lhs) == 1 && len(s.Rhs) == 1 {
					lhs := objOf(info, s.Lhs[0])
					if call, ok := unparen(s.Rhs[0]).(*ast.CallExpr); ok {
						if id, ok := unparen(call.Fun).(*ast.Ident); ok && id.Name == "append" && len(call.Args) >= 2 {
							target := objOf(info, call.Args[0])
							if target != nil && target == vars.batch && lhs == vars.batch {
								for _, a := range call.Args[1:] {
									p.appends = append(p.appends, c16Append{"batch", a, roleOfAppended(info, a)})
								}
							} else if target != nil && lhs == vars.res && target == vars.res {
								p.resApp++
							}
						}
						if id, ok := unparen(call.Fun).(*ast.Ident); ok && id.Name == "len" && len(call.Args) == 1 && vars.idx[lhs] && objOf(info, call.Args[0]) == vars.res {
							p.iDefBeforeRes = p.resApp == 0
						}
					}
				}
			case *ast.ExprStmt:
				if call, ok := s.X.(*ast.CallExpr); ok {
					if sel, ok := call.Fun.(*ast.SelectorExpr); ok && sel.Sel.Name == "do" && len(call.Args) == 1 {
						if fl, ok := unparen(call.Args[0]).(*ast.FuncLit); ok {
							p.regs = append(p.regs, c16Reg{after: len(p.appends), closure: fl})
						}
					}
				}
			case *ast.IfStmt:
				if s.Init != nil {
					if as, ok := s.Init.(*ast.AssignStmt); ok && len(as.Rhs) == 1 {
						if call, ok := as.Rhs[0].(*ast.CallExpr); ok {
							if sel, ok := call.Fun.(*ast.SelectorExpr); ok && sel.Sel.Name == "Validate" {
								p.validated = true
								if kind == "none" && validateRejectsNone(pkg, info, call) {
									p.aborted = true // Validate returns an error: the path leaves the function
									return
								}
							}
						}
					}
					stmts([]ast.Stmt{s.Init})
				}
				v, known := cond(s.Cond)
				if !known {
					// a guard that leaves the function (if x == nil { return ... }): the
					// iteration that goes on is the one where it did not fire
					leavesBody := s.Body != nil && len(s.Body.List) > 0 && isReturn(s.Body.List[len(s.Body.List)-1])
					if leavesBody && s.Else == nil {
						continue
					}
					if eb, ok := s.Else.(*ast.BlockStmt); ok && len(eb.List) > 0 && isReturn(eb.List[len(eb.List)-1]) && !leavesBody {
						stmts(s.Body.List) // the else side leaves, the body goes on
						continue
					}
					if eb, ok := s.Else.(*ast.BlockStmt); ok && leavesBody {
						stmts(eb.List)
						continue
					}
					p.unknown = append(p.unknown, "condition "+types.ExprString(s.Cond))
					return
				}
				if v {
					stmts(s.Body.List)
				} else if s.Else != nil {
					switch el := s.Else.(type) {
					case *ast.BlockStmt:
						stmts(el.List)
					case *ast.IfStmt:
						stmts([]ast.Stmt{el})
					}
				}
			case *ast.TypeSwitchStmt:
				for _, cc := range s.Body.List {
					c := cc.(*ast.CaseClause)
					for _, t := range c.List {
						ts := types.ExprString(t)
						if (kind == "id" && strings.HasSuffix(ts, "SubjectID")) || (kind == "set" && strings.HasSuffix(ts, "SubjectSet")) {
							stmts(c.Body)
						}
					}
				}
			case *ast.ReturnStmt:
				p.aborted = true
				return
			case *ast.BlockStmt:
				stmts(s.List)
			}
		}
	}
	stmts(body)
}

func isReturn(s ast.Stmt) bool {
	_, ok := s.(*ast.ReturnStmt)
	return ok
}

// validateRejectsNone: the Validate method called returns a non-nil error when
// both subject fields are nil (its condition is read from its body).
func validateRejectsNone(pkg *packages.Package, info *types.Info, call *ast.CallExpr) bool {
	sel := call.Fun.(*ast.SelectorExpr)
	fo, ok := info.Uses[sel.Sel].(*types.Func)
	if !ok || fo.Pkg() == nil {
		return false
	}
	// find the declaration in its package
	for _, imp := range append([]*packages.Package{pkg}, importsOf(pkg)...) {
		if imp.Types != fo.Pkg() {
			continue
		}
		for _, f := range imp.Syntax {
			for _, d := range f.Decls {
				fd, ok := d.(*ast.FuncDecl)
				if !ok || imp.TypesInfo.Defs[fd.Name] != fo || fd.Body == nil {
					continue
				}
				rej := false
				ast.Inspect(fd.Body, func(n ast.Node) bool {
					ifs, ok := n.(*ast.IfStmt)
					if !ok {
						return true
					}
					// both subject fields nil (a conjunction of two nil tests, any order/form)
					bothNil := func(e ast.Expr) bool {
						be, ok := unparen(e).(*ast.BinaryExpr)
						if !ok || be.Op != token.LAND {
							return false
						}
						seen := map[string]bool{}
						for _, side := range []ast.Expr{be.X, be.Y} {
							op, x, y, ok := cmpParts(imp.TypesInfo, side)
							if !ok || op != token.EQL || !isNilExpr(imp.TypesInfo, y) {
								return false
							}
							if sel, ok := x.(*ast.SelectorExpr); ok {
								seen[sel.Sel.Name] = true
							}
						}
						return seen["SubjectSet"] && seen["SubjectID"]
					}
					if bothNil(ifs.Cond) {
						for _, st := range ifs.Body.List {
							if ret, ok := st.(*ast.ReturnStmt); ok && len(ret.Results) == 1 {
								if !isNilExpr(imp.TypesInfo, ret.Results[0]) {
									rej = true
								}
							}
						}
					}
					return true
				})
				return rej
			}
		}
	}
	return false
}

func importsOf(pkg *packages.Package) []*packages.Package {
	var out []*packages.Package
	for _, p := range pkg.Imports {
		out = append(out, p)
	}
	return out
}

// linearIn: e == a*i + b for an index variable i of idx (constants folded by the type checker).
// linUnit / linVars: what linearIn treats as the index besides the variables in idx - len(<res>) itself
// and variables with a recorded linear definition (set while a function is analysed).
var (
	linUnit types.Object
	linVars map[types.Object][2]int64
)

func linearIn(info *types.Info, e ast.Expr, idx map[types.Object]bool) (a, b int64, ok bool) {
	e = unparen(e)
	if v, isK := intLit(info, e); isK {
		return 0, v, true
	}
	switch x := e.(type) {
	case *ast.CallExpr:
		if id, isID := unparen(x.Fun).(*ast.Ident); isID && id.Name == "len" && len(x.Args) == 1 && linUnit != nil && objOf(info, x.Args[0]) == linUnit {
			return 1, 0, true
		}
	case *ast.Ident:
		if idx[objOf(info, x)] {
			return 1, 0, true
		}
		if ab, ok := linVars[objOf(info, x)]; ok {
			return ab[0], ab[1], true
		}
	case *ast.BinaryExpr:
		a1, b1, ok1 := linearIn(info, x.X, idx)
		a2, b2, ok2 := linearIn(info, x.Y, idx)
		if !ok1 || !ok2 {
			return 0, 0, false
		}
		switch x.Op {
		case token.ADD:
			return a1 + a2, b1 + b2, true
		case token.SUB:
			return a1 - a2, b1 - b2, true
		case token.MUL:
			if a1 == 0 {
				return b1 * a2, b1 * b2, true
			}
			if a2 == 0 {
				return a1 * b2, b1 * b2, true
			}
		}
	}
	return 0, 0, false
}

// closureIndex extracts, from a deferred reader, the linear index mult*i+offset
// with which it reads the mapped slice, and the field it assigns.
func closureIndex(info *types.Info, fl *ast.FuncLit, vars c16Vars) (offset int, mult int, field string, ok bool) {
	offset, mult = -1, -1
	ast.Inspect(fl.Body, func(n ast.Node) bool {
		switch x := n.(type) {
		case *ast.AssignStmt:
			if len(x.Lhs) == 1 {
				if sel, isSel := unparen(x.Lhs[0]).(*ast.SelectorExpr); isSel {
					field = sel.Sel.Name
				} else {
					field = types.ExprString(x.Lhs[0])
				}
			}
		case *ast.IndexExpr:
			if vars.read == nil || objOf(info, x.X) != vars.read {
				return true
			}
			saveU, saveV := linUnit, linVars
			linUnit, linVars = vars.res, vars.lin
			a, b, lin := linearIn(info, x.Index, vars.idx)
			linUnit, linVars = saveU, saveV
			if lin && a != 0 {
				offset, mult, ok = int(b), int(a), true
			} else {
				offset, mult, ok = -2, -2, true
			}
		}
		return true
	})
	return
}

func roleOfField(f string) string {
	switch {
	case (f == "Object" || strings.HasSuffix(f, ".Object")) && !strings.Contains(f, "SubjectSet"):
		return "object"
	case strings.Contains(f, "Subject"):
		return "subject"
	}
	return "?"
}

func runC16(c *Ctx) {
	p, r := c.P, c.R
	pkg := p.Pkg("internal/relationtuple")
	if pkg == nil {
		r.Undecide("R16.1", "", "anchor package relationtuple", "", "not loaded")
		return
	}
	for _, spec := range []struct {
		name  string
		kinds []string
	}{
		{"Mapper.FromTuple", []string{"id", "set", "both", "none"}},
		{"Mapper.ToTuple", []string{"id", "set"}},
	} {
		fd := core.FuncDecl(pkg, spec.name)
		fname := "internal/relationtuple.(*" + strings.Replace(spec.name, ".", ").", 1)
		if fd == nil {
			r.Undecide("R16.1", fname, "anchor", "", "not found")
			continue
		}
		vars := c16VarsOf(pkg, fd)
		if vars.batch == nil || vars.read == nil || vars.res == nil || len(vars.idx) == 0 {
			r.Undecide("R16.1", fname, "batch variables", p.Pos(fd.Pos()), "cannot identify the batch handed to the mapping manager, the slice its result is read from, the result slice and the tuple index")
			continue
		}
		var loop *ast.RangeStmt
		ast.Inspect(fd.Body, func(n ast.Node) bool {
			if rs, ok := n.(*ast.RangeStmt); ok && loop == nil {
				loop = rs
			}
			return true
		})
		if loop == nil {
			r.Undecide("R16.1", fname, "batch loop", p.Pos(fd.Pos()), "no range loop found")
			continue
		}
		for _, kind := range spec.kinds {
			path := &c16Path{desc: kind}
			c16Walk(pkg, loop.Body.List, kind, vars, path)
			construct := "iteration with subject kind '" + kind + "'"
			if len(path.unknown) > 0 {
				r.Undecide("R16.1", fname, construct, p.Pos(loop.Pos()), "cannot evaluate "+strings.Join(path.unknown, ", "))
				continue
			}
			if path.aborted {
				r.Discharge("R16.1", fname, construct, p.Pos(loop.Pos()), "the iteration leaves the function with an error (rejected by Validate) before anything is appended to the result")
				continue
			}
			var bad []string
			if len(path.appends) != 2 {
				bad = append(bad, fmt.Sprintf("%d values are appended to the batch in this iteration, the readers assume exactly 2 per tuple: every later tuple of the request reads shifted positions", len(path.appends)))
			}
			if path.resApp != 1 {
				bad = append(bad, fmt.Sprintf("the result slice is appended %d times per iteration", path.resApp))
			}
			if !path.iDefBeforeRes {
				bad = append(bad, "the tuple index i is not len(res) taken before the append to res")
			}
			for _, rg := range path.regs {
				off, mult, field, ok := closureIndex(pkg.TypesInfo, rg.closure, vars)
				if !ok {
					continue
				}
				if mult != 2 {
					bad = append(bad, "a deferred reader indexes the batch with something other than 2*i+j")
					continue
				}
				if off != rg.after-1 {
					bad = append(bad, fmt.Sprintf("the reader registered after append #%d reads position 2*i+%d", rg.after, off))
					continue
				}
				if rg.after-1 < len(path.appends) {
					ar, fr := path.appends[rg.after-1].role, roleOfField(field)
					if ar != "?" && fr != "?" && ar != fr {
						r.Violate("R16.2", fname, construct+": role of position "+fmt.Sprint(off), p.Pos(rg.closure.Pos()), fmt.Sprintf("the %s value %s is appended at position %d but the reader assigns it to %s", ar, types.ExprString(path.appends[rg.after-1].val), off, field))
					} else {
						r.Discharge("R16.2", fname, construct+": role of position "+fmt.Sprint(off), p.Pos(rg.closure.Pos()), fmt.Sprintf("%s appended at position %d is assigned to %s", types.ExprString(path.appends[rg.after-1].val), off, field))
					}
				}
			}
			if len(path.regs) != 2 {
				bad = append(bad, fmt.Sprintf("%d deferred readers registered, expected one per appended value", len(path.regs)))
			}
			r.Check(len(bad) == 0, "R16.1", fname, construct, p.Pos(loop.Pos()),
				"exactly 2 values appended (subject, then object), one reader per value at 2*i+j, i = len(res) before the single append to res", strings.Join(bad, "; "))
		}
	}
	r.Floor("R16.1", 6, "4 valuations of FromTuple, 2 of ToTuple")
	r.Floor("R16.2", 8, "2 positions x valuations")

	r162single(c, pkg)
	r163(c)
	r164(c)
	r047(c, "R16.5")
	strideMatchesChunk(c, "R16.6")
	// R16.7 a stored mapping is never removed or changed (the mapping table is shared and append-only)
	c.R.SubRun(func() { runC06(c) }, map[string]string{"R06.4": "R16.7", "R06.2": "R16.7", "R06.3": "R16.7"})
	inputStringsNotWritten(c, "R16.8")
}

// ---- R16.2 single-item mappers ---------------------------------------------------------------------

func r162single(c *Ctx, pkg *packages.Package) {
	p, r := c.P, c.R
	// FromQuery: every registration is func(i int) func(){...}(len(s)-1) right after an append to s
	if fd := core.FuncDecl(pkg, "Mapper.FromQuery"); fd != nil {
		info := pkg.TypesInfo
		vars := c16VarsOf(pkg, fd)
		n, bad := 0, []string{}
		if vars.batch == nil {
			bad = append(bad, "cannot identify the batch handed to the mapping manager")
		}
		ast.Inspect(fd.Body, func(nd ast.Node) bool {
			blk, ok := nd.(*ast.BlockStmt)
			if !ok {
				return true
			}
			appended := false
			posVars := map[types.Object]bool{} // v := len(batch)-1 taken in this block after its append
			for _, st := range blk.List {
				if as, ok := st.(*ast.AssignStmt); ok && len(as.Rhs) == 1 && len(as.Lhs) == 1 {
					if call, ok := unparen(as.Rhs[0]).(*ast.CallExpr); ok {
						if id, ok := unparen(call.Fun).(*ast.Ident); ok && id.Name == "append" && vars.batch != nil && objOf(info, as.Lhs[0]) == vars.batch {
							appended = true
							posVars = map[types.Object]bool{} // a position taken before this append is stale
						}
					}
					if base, k, isMinus := minusConst(info, as.Rhs[0]); isMinus && k == 1 && appended && as.Tok == token.DEFINE {
						if c, isCall := base.(*ast.CallExpr); isCall && len(c.Args) == 1 && vars.batch != nil && objOf(info, c.Args[0]) == vars.batch {
							if id, isID := unparen(c.Fun).(*ast.Ident); isID && id.Name == "len" {
								if o := objOf(info, as.Lhs[0]); o != nil {
									posVars[o] = true
								}
							}
						}
					}
				}
				if es, ok := st.(*ast.ExprStmt); ok {
					if call, ok := es.X.(*ast.CallExpr); ok {
						if sel, ok := call.Fun.(*ast.SelectorExpr); ok && sel.Sel.Name == "do" && len(call.Args) == 1 {
							n++
							inner, ok := unparen(call.Args[0]).(*ast.CallExpr)
							okArg := false
							// do(func() { ... u[v] ... }) with v the position variable of this block
							if fl, isLit := unparen(call.Args[0]).(*ast.FuncLit); isLit && vars.read != nil {
								nIdx, allPos := 0, true
								ast.Inspect(fl.Body, func(n2 ast.Node) bool {
									if ix, isIx := n2.(*ast.IndexExpr); isIx && objOf(info, ix.X) == vars.read {
										nIdx++
										if !posVars[objOf(info, ix.Index)] {
											allPos = false
										}
									}
									return true
								})
								if nIdx > 0 && allPos {
									okArg = true
								}
							}
							if ok && len(inner.Args) == 1 && vars.batch != nil {
								if base, k, isMinus := minusConst(info, inner.Args[0]); isMinus && k == 1 {
									if c, isCall := base.(*ast.CallExpr); isCall && len(c.Args) == 1 && objOf(info, c.Args[0]) == vars.batch {
										if id, isID := unparen(c.Fun).(*ast.Ident); isID && id.Name == "len" {
											okArg = true
										}
									}
								}
							}
							if !okArg || !appended {
								bad = append(bad, fmt.Sprintf("the reader registered at %s does not capture len(batch)-1 right after its append", p.Pos(call.Pos())))
							}
						}
					}
				}
			}
			return true
		})
		r.Check(len(bad) == 0 && n >= 3, "R16.2", "internal/relationtuple.(*Mapper).FromQuery", "readers capture the position of their append", p.Pos(fd.Pos()),
			fmt.Sprintf("all %d readers capture len(s)-1 immediately after appending their value", n), strings.Join(bad, "; "))
	} else {
		r.Undecide("R16.2", "", "anchor Mapper.FromQuery", "", "not found")
	}
	// ToQuery / ToTree: s[0] is used only by the reader of the first append on every path, s[len(s)-1] only by the reader of the last
	for _, name := range []string{"Mapper.ToQuery", "Mapper.ToTree"} {
		fd := core.FuncDecl(pkg, name)
		fname := "internal/relationtuple.(*" + strings.Replace(name, ".", ").", 1)
		if fd == nil {
			r.Undecide("R16.2", fname, "anchor", "", "not found")
			continue
		}
		// order of appends to u in source order (the code is straight-line ifs: object first, then subject)
		type ev struct {
			pos  token.Pos
			kind string // append | first | last
			role string
		}
		var evs []ev
		info := pkg.TypesInfo
		vars := c16VarsOf(pkg, fd)
		ast.Inspect(fd.Body, func(nd ast.Node) bool {
			switch x := nd.(type) {
			case *ast.AssignStmt:
				if len(x.Rhs) == 1 && len(x.Lhs) == 1 {
					if call, ok := unparen(x.Rhs[0]).(*ast.CallExpr); ok {
						if id, ok := unparen(call.Fun).(*ast.Ident); ok && id.Name == "append" && vars.batch != nil && objOf(info, x.Lhs[0]) == vars.batch && len(call.Args) == 2 {
							role := "subject"
							if roleOfAppended(info, call.Args[1]) == "object" {
								role = "object"
							}
							evs = append(evs, ev{x.Pos(), "append", role})
						}
					}
				}
			case *ast.FuncLit:
				role, idx := "", ""
				ast.Inspect(x.Body, func(n2 ast.Node) bool {
					switch y := n2.(type) {
					case *ast.AssignStmt:
						if sel, ok := unparen(y.Lhs[0]).(*ast.SelectorExpr); ok {
							role = roleOfField(sel.Sel.Name)
						} else {
							role = roleOfField(types.ExprString(y.Lhs[0]))
						}
					case *ast.IndexExpr:
						if vars.read != nil && objOf(info, y.X) == vars.read {
							if v, isK := intLit(info, y.Index); isK && v == 0 {
								idx = "0"
							} else if base, k, isMinus := minusConst(info, y.Index); isMinus && k == 1 && isLenOf(info, base, y.X) {
								idx = "last"
							} else {
								idx = canonExpr(y.Index)
							}
						}
					}
					return true
				})
				switch idx {
				case "0":
					evs = append(evs, ev{x.Pos(), "first", role})
				case "last":
					evs = append(evs, ev{x.Pos(), "last", role})
				case "":
				default:
					evs = append(evs, ev{x.Pos(), "other:" + idx, role})
				}
			}
			return true
		})
		var bad []string
		nApp := 0
		var firstRole string
		for _, e := range evs {
			switch {
			case e.kind == "append":
				nApp++
				if nApp == 1 {
					firstRole = e.role
				}
			case e.kind == "first":
				// s[0]: valid when the value it belongs to is the first append on every path; with
				// object-then-subject order that is the object, or the subject only if no object append exists
				if name == "Mapper.ToQuery" && e.role != "object" {
					bad = append(bad, "s[0] is read for the "+e.role+", but the object is appended first when both are present")
				}
			case e.kind == "last":
				if e.role != "subject" {
					bad = append(bad, "s[len(s)-1] is read for the "+e.role+", but the subject is appended last")
				}
			case strings.HasPrefix(e.kind, "other:"):
				bad = append(bad, "a reader uses index "+strings.TrimPrefix(e.kind, "other:"))
			}
		}
		if name == "Mapper.ToQuery" && firstRole != "object" {
			bad = append(bad, "the object is not the first value appended")
		}
		r.Check(len(bad) == 0 && nApp >= 2, "R16.2", fname, "first/last indexing", p.Pos(fd.Pos()),
			"s[0] is read only for the value appended first and s[len(s)-1] only for the value appended last on every path", strings.Join(bad, "; "))
	}
}

// ---- R16.3 storage-side index agreement ---------------------------------------------------------------

func r163(c *Ctx) {
	p, r := c.P, c.R
	ro := p.Func("(*internal/persistence/sql.Persister).MapStringsToUUIDsReadOnly")
	if ro == nil {
		r.Undecide("R16.3", "", "anchor MapStringsToUUIDsReadOnly", "", "not found")
	} else {
		ok := false
		var other []string
		core.Instrs(ro, func(_ *ssa.BasicBlock, _ int, ins ssa.Instruction) {
			st, isSt := ins.(*ssa.Store)
			if !isSt {
				return
			}
			ia, isIA := st.Addr.(*ssa.IndexAddr)
			if !isIA {
				return
			}
			if _, isMk := core.ValueOrigin(ia.X).(*ssa.MakeSlice); !isMk {
				return
			}
			call, isCall := st.Val.(*ssa.Call)
			if !isCall || !core.IsCallTo(call, "NewV5") {
				other = append(other, p.Pos(st.Pos()))
				return
			}
			// the name argument is ss[idx] with the same idx
			name := core.ValueOrigin(call.Common().Args[1])
			if u, isU := name.(*ssa.UnOp); isU {
				if ia2, isIA2 := u.X.(*ssa.IndexAddr); isIA2 && core.ValueOrigin(ia2.Index) == core.ValueOrigin(ia.Index) {
					if par, isPar := core.ValueOrigin(ia2.X).(*ssa.Parameter); isPar && par == ro.Params[len(ro.Params)-1] {
						ok = true
					}
				}
			}
		})
		detail := "the UUID stored at position i is not derived from the string at position i"
		if len(other) > 0 {
			detail = "a result position is also written with something other than NewV5(network, name) (" + strings.Join(other, ", ") + "): two different names can then map to one id, and a name can collide with another name's id"
		}
		r.Check(ok && len(other) == 0, "R16.3", core.FuncName(ro), "uuids[i] = NewV5(nid, ss[i])", p.Pos(ro.Pos()),
			"every result position i is NewV5(network, ss[i]) and nothing else", detail)
	}
	bf := p.Func("(*internal/persistence/sql.Persister).batchFromUUIDs")
	if bf == nil {
		r.Undecide("R16.3", "", "anchor batchFromUUIDs", "", "not found")
		return
	}
	// res = make([]string, len(ids)); idIdx[id] = append(idIdx[id], i) for i, id := range ids; res[idx] = m.StringRepresentation for idx in idIdx[m.ID]
	var bad []string
	lenOK, scatterOK, collectOK := false, false, false
	// the position map may be built by a helper that is handed the ids
	core.Instrs(bf, func(_ *ssa.BasicBlock, _ int, ins ssa.Instruction) {
		call, ok := ins.(*ssa.Call)
		if !ok {
			return
		}
		h := call.Common().StaticCallee()
		if h == nil || h.Blocks == nil || core.FuncPkg(h) != core.FuncPkg(bf) {
			return
		}
		handed := false
		for _, a := range call.Common().Args {
			if par, ok := core.ValueOrigin(a).(*ssa.Parameter); ok && par.Parent() == bf && strings.HasPrefix(par.Name(), "ids") {
				handed = true
			}
		}
		if !handed {
			return
		}
		core.Instrs(h, func(_ *ssa.BasicBlock, _ int, i2 ssa.Instruction) {
			if mu, ok := i2.(*ssa.MapUpdate); ok {
				if keyIdx := rangeIndexOf(mu.Key); keyIdx != nil && valueMentions(mu.Value, keyIdx) {
					collectOK = true
				}
			}
		})
	})
	scan := func(b *ssa.BasicBlock, _ int, ins ssa.Instruction) {
		switch x := ins.(type) {
		case *ssa.MakeSlice:
			if sl, ok := x.Type().Underlying().(*types.Slice); ok && isStringT2(sl.Elem()) {
				if lc, ok := x.Len.(*ssa.Call); ok {
					if bi, ok := lc.Call.Value.(*ssa.Builtin); ok && bi.Name() == "len" {
						if par, ok := core.ValueOrigin(lc.Call.Args[0]).(*ssa.Parameter); ok && strings.HasPrefix(par.Name(), "ids") {
							lenOK = true
						}
					}
				}
			}
		case *ssa.MapUpdate:
			// idIdx[id] = ...i...: the key is ids[i] and the appended/stored index is the same i
			keyIdx := rangeIndexOf(x.Key)
			if keyIdx != nil && valueMentions(x.Value, keyIdx) {
				collectOK = true
			}
		case *ssa.Store:
			ia, ok := x.Addr.(*ssa.IndexAddr)
			if !ok || !isStringT2(x.Val.Type()) {
				return
			}
			// res[idx] = m.StringRepresentation, idx ranged from idIdx[m.ID]
			idxSrc := core.ValueOrigin(ia.Index)
			if u, ok := idxSrc.(*ssa.UnOp); ok {
				if ia2, ok := u.X.(*ssa.IndexAddr); ok {
					if lk, ok := core.ValueOrigin(ia2.X).(*ssa.Lookup); ok {
						// key of the lookup and the stored value come from the same mapping row
						if sameRow(lk.Index, x.Val) {
							scatterOK = true
						}
					}
				}
			}
		}
	}
	// the body of `for chunk := range slices.Chunk(...)` is a function of its own
	for _, g := range core.Closures(bf) {
		core.Instrs(g, scan)
	}
	if !lenOK {
		bad = append(bad, "the result is not made with len(ids) entries")
	}
	if !collectOK {
		bad = append(bad, "the index of an id is not recorded under that id")
	}
	if !scatterOK {
		bad = append(bad, "a representation is not written to the indices recorded for its own id")
	}
	r.Check(len(bad) == 0, "R16.3", core.FuncName(bf), "scatter by id", p.Pos(bf.Pos()),
		"the result has len(ids) slots, every input index is recorded under its id, and each fetched representation is written to the indices of its own id", strings.Join(bad, "; "))
}

func rangeIndexOf(v ssa.Value) ssa.Value {
	v = core.ValueOrigin(v)
	if u, ok := v.(*ssa.UnOp); ok {
		if ia, ok := u.X.(*ssa.IndexAddr); ok {
			return core.ValueOrigin(ia.Index)
		}
	}
	return nil
}

func valueMentions(v ssa.Value, target ssa.Value) bool {
	seen := map[ssa.Value]bool{}
	var walk func(v ssa.Value, d int) bool
	walk = func(v ssa.Value, d int) bool {
		if v == nil || seen[v] || d > 8 {
			return false
		}
		seen[v] = true
		if core.ValueOrigin(v) == target {
			return true
		}
		switch x := v.(type) {
		case *ssa.Call:
			for _, a := range x.Common().Args {
				if walk(a, d+1) {
					return true
				}
			}
		case *ssa.Slice:
			return walk(x.X, d+1)
		case *ssa.Phi:
			for _, e := range x.Edges {
				if walk(e, d+1) {
					return true
				}
			}
		case *ssa.Alloc:
			if x.Referrers() != nil {
				for _, ref := range *x.Referrers() {
					if ia, ok := ref.(*ssa.IndexAddr); ok && ia.Referrers() != nil {
						for _, r2 := range *ia.Referrers() {
							if st, ok := r2.(*ssa.Store); ok && walk(st.Val, d+1) {
								return true
							}
						}
					}
				}
			}
		}
		return false
	}
	return walk(v, 0)
}

// sameRow: key is <row>.ID and val is <row>.StringRepresentation of the same row value.
func sameRow(key, val ssa.Value) bool {
	base := func(v ssa.Value) (ssa.Value, string) {
		v = core.ValueOrigin(v)
		switch x := v.(type) {
		case *ssa.Field:
			st := x.X.Type().Underlying().(*types.Struct)
			return core.ValueOrigin(x.X), st.Field(x.Field).Name()
		case *ssa.UnOp:
			if fa, ok := x.X.(*ssa.FieldAddr); ok {
				if fv := fieldVarOf(fa); fv != nil {
					return core.ValueOrigin(fa.X), fv.Name()
				}
			}
		}
		return nil, ""
	}
	kb, kf := base(key)
	vb, vf := base(val)
	return kb != nil && kb == vb && kf == "ID" && vf == "StringRepresentation"
}

// ---- R16.4 ToInternal always sets a subject -------------------------------------------------------------

func r164(c *Ctx) {
	p, r := c.P, c.R
	fn := p.Func("(*internal/persistence/sql.RelationTuple).ToInternal")
	if fn == nil {
		r.Undecide("R16.4", "", "anchor RelationTuple.ToInternal", "", "not found")
		return
	}
	// every return of a non-nil tuple is preceded on all paths by a store of a non-nil value to its Subject field
	res := core.PathCount(fn, func(ins ssa.Instruction) int {
		if st, ok := ins.(*ssa.Store); ok {
			if fa, ok := st.Addr.(*ssa.FieldAddr); ok && fieldVarOf(fa) != nil && fieldVarOf(fa).Name() == "Subject" && !core.IsNilConst(st.Val) {
				return 1
			}
		}
		return 0
	}, nil, nil)
	ok := len(res) > 0
	for ret, iv := range res {
		if len(ret.Results) > 0 && !core.IsNilConst(ret.Results[0]) && iv.Lo < 1 {
			ok = false
		}
	}
	r.Check(ok, "R16.4", core.FuncName(fn), "Subject set on every path", p.Pos(fn.Pos()),
		"every path that returns a tuple assigns a non-nil Subject", "a path returns a tuple without a Subject: the mapper appends one value fewer for it and shifts every later tuple")
}

// ---- stride of a chunked loop equals the size of the chunk it consumes ---------------------------

// strideMatchesChunk: in persistence/sql a loop that advances its index by a
// stride S other than 1 processes S elements per iteration. The loop that fills
// (or the slice that cuts) the chunk inside it must be bounded by the same S:
// with a smaller fill the elements between fill and stride are never processed
// (ids come back unresolved), with a larger one they are processed twice.
func strideMatchesChunk(c *Ctx, rule string) {
	p, r := c.P, c.R
	n := 0
	sameVal := func(a, b ssa.Value) bool {
		if ka, ok := core.IntConst(a); ok {
			kb, ok2 := core.IntConst(b)
			return ok2 && ka == kb
		}
		return core.ValueOrigin(a) == core.ValueOrigin(b)
	}
	for _, fn := range p.KetoFuncs(sqlPkgRel) {
		if isMigrationOrTestHelper(fn) {
			continue
		}
		// outer loops: phi i with increment i + S, S not the constant 1
		for _, b := range fn.Blocks {
			for _, ins := range b.Instrs {
				ph, ok := ins.(*ssa.Phi)
				if !ok {
					continue
				}
				var stride ssa.Value
				for _, e := range ph.Edges {
					if bo, ok := e.(*ssa.BinOp); ok && bo.Op == token.ADD && bo.X == ssa.Value(ph) {
						if k, isK := core.IntConst(bo.Y); isK && k == 1 {
							continue
						}
						stride = bo.Y
					}
				}
				if stride == nil {
					continue
				}
				n++
				// inner bounds: counting loops k < N (k a unit-stride phi) inside the outer loop, and slices [i : i+N]
				var bounds []ssa.Value
				for _, b2 := range fn.Blocks {
					if !sameCycle(b2, b) || len(b2.Instrs) == 0 {
						continue
					}
					for _, i2 := range b2.Instrs {
						switch x := i2.(type) {
						case *ssa.If:
							op, cx, cy, ok := core.BinCmp(x.Cond)
							if !ok {
								continue
							}
							if op == token.GTR {
								op, cx, cy = token.LSS, cy, cx
							}
							if op != token.LSS {
								continue
							}
							// rotated loops compare the incremented value: (k+1) < N
							if inc, ok := cx.(*ssa.BinOp); ok && inc.Op == token.ADD {
								if kk, isK := core.IntConst(inc.Y); isK && kk == 1 {
									cx = inc.X
								}
							}
							k, isPhi := cx.(*ssa.Phi)
							if !isPhi || k == ph {
								continue
							}
							unit := false
							for _, e := range k.Edges {
								if bo, ok := e.(*ssa.BinOp); ok && bo.Op == token.ADD && bo.X == ssa.Value(k) {
									if kk, isK := core.IntConst(bo.Y); isK && kk == 1 {
										unit = true
									}
								}
							}
							if unit {
								bounds = append(bounds, cy)
							}
						case *ssa.Slice:
							if x.Low != nil && core.ValueOrigin(x.Low) == ssa.Value(ph) && x.High != nil {
								highs := []ssa.Value{x.High}
								// i : min(i+N, len(xs)) - the window is cut at the end of the list
								if mc, ok := x.High.(*ssa.Call); ok {
									if bi, ok := mc.Call.Value.(*ssa.Builtin); ok && bi.Name() == "min" {
										highs = mc.Call.Args
									}
								}
								for _, h := range highs {
									if bo, ok := h.(*ssa.BinOp); ok && bo.Op == token.ADD {
										switch {
										case core.ValueOrigin(bo.X) == ssa.Value(ph):
											bounds = append(bounds, bo.Y)
										case core.ValueOrigin(bo.Y) == ssa.Value(ph):
											bounds = append(bounds, bo.X)
										}
									}
								}
							}
						}
					}
				}
				// the loop's own bound: i < len(M) -- M must not be modified inside the loop
				boundMut := ""
				for _, i2 := range b.Instrs {
					ifi, ok := i2.(*ssa.If)
					if !ok {
						continue
					}
					_, cx, cy, ok := core.BinCmp(ifi.Cond)
					if !ok {
						continue
					}
					for _, side := range []ssa.Value{cx, cy} {
						lc, ok := side.(*ssa.Call)
						if !ok {
							continue
						}
						bi, ok := lc.Call.Value.(*ssa.Builtin)
						if !ok || bi.Name() != "len" {
							continue
						}
						m := core.ValueOrigin(lc.Call.Args[0])
						for _, b2 := range fn.Blocks {
							if !sameCycle(b2, b) {
								continue
							}
							for _, i3 := range b2.Instrs {
								switch y := i3.(type) {
								case *ssa.MapUpdate:
									if core.ValueOrigin(y.Map) == m {
										boundMut = p.Pos(y.Pos())
									}
								case *ssa.Call:
									if b3, ok := y.Call.Value.(*ssa.Builtin); ok && b3.Name() == "delete" && core.ValueOrigin(y.Call.Args[0]) == m {
										boundMut = p.Pos(y.Pos())
									}
								}
							}
						}
					}
				}
				if boundMut != "" {
					r.Violate(rule, core.FuncName(fn), "chunk loop bound", boundMut,
						"the collection whose length bounds the chunked loop is modified inside the loop: the bound moves while the index advances by a fixed stride, so the last chunks are never processed")
				}
				okB := false
				for _, bd := range bounds {
					if sameVal(bd, stride) {
						okB = true // the loop/slice that builds the chunk (other inner loops iterate over results)
					}
				}
				detail := "the index advances by a stride that is not the size of the chunk built inside the loop"
				if len(bounds) == 0 {
					detail = "the index advances by a stride, but no inner loop or slice bounded by that stride builds the chunk"
				}
				r.Check(okB, rule, core.FuncName(fn), "chunk stride", p.Pos(ph.Pos()),
					"the loop's stride is the bound of the loop/slice that builds each chunk", detail+": elements between the chunk size and the stride are skipped (or processed twice)")
			}
		}
	}
	// a round-trip count obtained by dividing a length by the chunk size must round up: with
	// len/size (truncating) iterations the last partial chunk is never fetched
	for _, fn := range p.KetoFuncs(sqlPkgRel) {
		if isMigrationOrTestHelper(fn) {
			continue
		}
		core.Instrs(fn, func(_ *ssa.BasicBlock, _ int, ins ssa.Instruction) {
			q, ok := ins.(*ssa.BinOp)
			if !ok || q.Op != token.QUO {
				return
			}
			// numerator: len(x) itself (not len(x)+size-1)
			lc, ok := q.X.(*ssa.Call)
			if !ok {
				return
			}
			if bi, ok := lc.Call.Value.(*ssa.Builtin); !ok || bi.Name() != "len" {
				return
			}
			// does the quotient bound a loop? follow it through min/max/phi/conversions to a
			// comparison that guards a loop back edge, or to the limit of a counting loop
			seen := map[ssa.Value]bool{}
			bounds := false
			var follow func(v ssa.Value, depth int)
			follow = func(v ssa.Value, depth int) {
				if v == nil || seen[v] || depth > 6 || v.Referrers() == nil {
					return
				}
				seen[v] = true
				for _, ref := range *v.Referrers() {
					switch x := ref.(type) {
					case *ssa.Call:
						if bi, ok := x.Call.Value.(*ssa.Builtin); ok && (bi.Name() == "max" || bi.Name() == "min") {
							follow(x, depth+1)
						}
					case *ssa.Phi, *ssa.Convert, *ssa.ChangeType:
						follow(ref.(ssa.Value), depth+1)
					case *ssa.BinOp:
						switch x.Op {
						case token.LSS, token.LEQ, token.GTR, token.GEQ:
							if core.InLoop(x.Block()) && x.Referrers() != nil {
								for _, r2 := range *x.Referrers() {
									if _, isIf := r2.(*ssa.If); isIf {
										bounds = true
									}
								}
							}
						}
					}
				}
			}
			follow(q, 0)
			if !bounds {
				return
			}
			n++
			r.Violate(rule, core.FuncName(fn), "chunk count", p.Pos(q.Pos()),
				"the number of iterations of a chunked loop is len(...)/size with truncating division: when the length is not a multiple of the chunk size the last partial chunk is never processed (ids come back unresolved)")
		})
	}
	if n < 1 {
		// no loop of the package advances by a stride: nothing can be skipped between a chunk and
		// the next (the chunks come from slices.Chunk or there are none)
		r.Discharge(rule, "", "strided loops in persistence/sql", "", "no loop advances its index by a stride other than 1")
	}
}

// ---- R16.8 the strings handed to the mapping layer are stored as handed ------------------------------

// inputStringsNotWritten: the storage-side mapping functions derive the UUID
// from a string and store (uuid, string). Nothing between the two may write
// into the caller's slice of strings -- also not a helper that receives it
// (a log abbreviation, a normalisation): the row would hold a string that the
// UUID was not derived from.
func inputStringsNotWritten(c *Ctx, rule string) {
	p, r := c.P, c.R
	n := 0
	// summary: does a keto function store through an index of its i-th (string slice) parameter?
	var writesParam func(fn *ssa.Function, idx int, depth int) (bool, string)
	writesParam = func(fn *ssa.Function, idx int, depth int) (bool, string) {
		if fn == nil || fn.Blocks == nil || idx >= len(fn.Params) || depth > 3 {
			return false, ""
		}
		par := fn.Params[idx]
		found, where := false, ""
		core.Instrs(fn, func(_ *ssa.BasicBlock, _ int, ins ssa.Instruction) {
			switch x := ins.(type) {
			case *ssa.Store:
				if ia, ok := x.Addr.(*ssa.IndexAddr); ok && core.ValueOrigin(ia.X) == ssa.Value(par) {
					found, where = true, p.Pos(x.Pos())
				}
			case ssa.CallInstruction:
				if sc := x.Common().StaticCallee(); sc != nil && core.FuncPkg(sc) != nil && core.IsKeto(core.FuncPkg(sc)) {
					for i, a := range x.Common().Args {
						if core.ValueOrigin(a) == ssa.Value(par) {
							if w, at := writesParam(sc, i, depth+1); w {
								found, where = true, at
							}
						}
					}
				}
			}
		})
		return found, where
	}
	for _, fn := range p.KetoFuncs(sqlPkgRel) {
		if fn.Parent() != nil || !strings.HasPrefix(fn.Name(), "MapStringsToUUIDs") {
			continue
		}
		for i, par := range fn.Params {
			sl, ok := par.Type().Underlying().(*types.Slice)
			if !ok || !isStringT2(sl.Elem()) {
				continue
			}
			n++
			w, at := writesParam(fn, i, 0)
			r.Check(!w, rule, core.FuncName(fn), "input strings are not written", p.Pos(fn.Pos()),
				"neither the function nor a helper it hands the slice to stores into the caller's strings",
				"the slice of names handed in is written at "+at+" before the mapping rows are built from it: the stored string is no longer the one the UUID was derived from")
		}
	}
	if n < 2 {
		r.Undecide(rule, "", "storage-side string-to-UUID functions", "", fmt.Sprintf("%d found (floor 2)", n))
	}
}

// isBatchMapCall: the call hands a batch to the mapping manager: MapStringsToUUIDs[ReadOnly] /
// MapUUIDsToStrings, or a function of the package that only forwards its variadic parameter to
// such a call and returns what that returns (the ReadOnly choice extracted into a helper).
func isBatchMapCall(pkg *packages.Package, call *ast.CallExpr, depth int) bool {
	info := pkg.TypesInfo
	var id *ast.Ident
	switch f := unparen(call.Fun).(type) {
	case *ast.SelectorExpr:
		id = f.Sel
	case *ast.Ident:
		id = f
	}
	if id == nil {
		return false
	}
	if strings.HasPrefix(id.Name, "MapStringsToUUIDs") || id.Name == "MapUUIDsToStrings" {
		return call.Ellipsis.IsValid()
	}
	fo, ok := info.Uses[id].(*types.Func)
	if !ok || depth >= 2 || fo.Pkg() != pkg.Types {
		return false
	}
	sig := fo.Type().(*types.Signature)
	if sig.Params().Len() == 0 {
		return false
	}
	// the batch is the last parameter: variadic (handed over with ...) or a plain slice
	bpar := sig.Params().At(sig.Params().Len() - 1)
	if _, isSlice := bpar.Type().Underlying().(*types.Slice); !isSlice {
		return false
	}
	if sig.Variadic() != call.Ellipsis.IsValid() {
		return false
	}
	var fd *ast.FuncDecl
	for _, f := range pkg.Syntax {
		for _, d := range f.Decls {
			if x, ok := d.(*ast.FuncDecl); ok && info.Defs[x.Name] == fo {
				fd = x
			}
		}
	}
	if fd == nil || fd.Body == nil {
		return false
	}
	// local variables that only ever hold the mapping manager's batch methods
	// (resolve := mm.MapStringsToUUIDs; if ro { resolve = mm.MapStringsToUUIDsReadOnly })
	batchVars := map[types.Object]bool{}
	notBatch := map[types.Object]bool{}
	ast.Inspect(fd.Body, func(nd ast.Node) bool {
		as, ok := nd.(*ast.AssignStmt)
		if !ok || len(as.Lhs) != len(as.Rhs) {
			return true
		}
		for i, l := range as.Lhs {
			o := objOf(info, l)
			if o == nil {
				continue
			}
			if _, isFn := o.Type().Underlying().(*types.Signature); !isFn {
				continue
			}
			if sel, ok := unparen(as.Rhs[i]).(*ast.SelectorExpr); ok && (strings.HasPrefix(sel.Sel.Name, "MapStringsToUUIDs") || sel.Sel.Name == "MapUUIDsToStrings") {
				batchVars[o] = true
			} else {
				notBatch[o] = true
			}
		}
		return true
	})
	n, all := 0, true
	ast.Inspect(fd.Body, func(nd ast.Node) bool {
		switch x := nd.(type) {
		case *ast.FuncLit:
			return false
		case *ast.ReturnStmt:
			n++
			if len(x.Results) != 1 {
				all = false
				return true
			}
			c2, ok := unparen(x.Results[0]).(*ast.CallExpr)
			if !ok || !c2.Ellipsis.IsValid() || len(c2.Args) == 0 || objOf(info, c2.Args[len(c2.Args)-1]) != types.Object(bpar) {
				all = false
				return true
			}
			if fid, ok := unparen(c2.Fun).(*ast.Ident); ok {
				if o := objOf(info, fid); o != nil && batchVars[o] && !notBatch[o] {
					return true
				}
			}
			if !isBatchMapCall(pkg, c2, depth+1) {
				all = false
			}
		}
		return true
	})
	return n > 0 && all
}
