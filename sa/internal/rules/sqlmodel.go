package rules

import (
	"fmt"
	"go/ast"
	"go/token"
	"go/types"
	"os"
	"path/filepath"
	"reflect"
	"regexp"
	"sort"
	"strings"

	"golang.org/x/tools/go/packages"
	"golang.org/x/tools/go/ssa"

	"ketosa/internal/core"
)

const sqlPkgRel = "internal/persistence/sql"
const sqlPkgPath = core.KetoMod + "/" + sqlPkgRel

const tupleTable = "keto_relation_tuples"
const mappingTable = "keto_uuid_mappings"

// SQLModel is everything the SQL rules need, extracted once per run.
type SQLModel struct {
	Pkg *packages.Package
	// column <-> struct field of sql.RelationTuple
	ColOfField map[string]string // Go field -> column
	FieldOfCol map[string]string
	// write map: column -> internal field ("tuple.Namespace", "SubjectID.ID", ...)
	WriteMap map[string]string
	// per subject kind: columns set and columns cleared by insertSubject
	SetBy   map[string][]string
	Cleared map[string][]string
	// read map: internal field -> column
	ReadMap map[string]string
	// raw statements
	Raw []*RawStmt
	// pop-chain fragments
	Wheres []*WhereFrag
	Errs   []string
}

type RawStmt struct {
	Fn      string // enclosing function decl name (the caller, when a helper handed the pieces executes it)
	Helper  string // the helper that executes the statement, if any
	Site    token.Pos
	Builder string // builder function name, "" if built at the call site
	Samples []core.SQLSample
	Parsed  []*core.SQLStmt
	Errs    []string
	// for builder functions: call sites (argument expressions per parameter name)
	BuilderCalls []BuilderCall
}

type BuilderCall struct {
	Fn   string
	Pos  token.Pos
	Args map[string]ast.Expr
	Decl *ast.FuncDecl
}

type WhereFrag struct {
	Fn   *ast.FuncDecl
	Call *ast.CallExpr
	Text string
	Expr *core.SQLExpr
	Args []ast.Expr
	// the guard: enclosing `if x != nil` / case clause
	Case string
	Err  string
	// NonNil: the query fields (selector names) known to be non-nil at the call
	// (enclosing if conditions, either polarity / operand order)
	NonNil map[string]bool
	// ExtraGuards: enclosing conditions that are not non-nil tests
	ExtraGuards []string
}

func typeNameOf(info *types.Info, e ast.Expr) string {
	t := info.TypeOf(e)
	if t == nil {
		return ""
	}
	if n := core.NamedOf(t); n != nil {
		return n.Obj().Name()
	}
	return t.String()
}

// internalFieldOf renders an expression such as rt.Namespace, st.ID,
// rq.Namespace, s.Object as "<kind>.<Field>" where kind is tuple, SubjectID or
// SubjectSet.
func internalFieldOf(info *types.Info, e ast.Expr) string {
	e = ast.Unparen(e)
	if u, ok := e.(*ast.UnaryExpr); ok && u.Op == token.AND {
		e = u.X
	}
	if st, ok := e.(*ast.StarExpr); ok {
		e = st.X
	}
	sel, ok := e.(*ast.SelectorExpr)
	if !ok {
		return ""
	}
	owner := typeNameOf(info, sel.X)
	switch owner {
	case "RelationTuple", "RelationQuery":
		// only the internal (relationtuple) types, not sql.RelationTuple
		if n := core.NamedOf(info.TypeOf(sel.X)); n != nil && n.Obj().Pkg() != nil && n.Obj().Pkg().Path() == relPkg {
			return "tuple." + sel.Sel.Name
		}
	case "SubjectID", "SubjectSet":
		return owner + "." + sel.Sel.Name
	}
	return ""
}

// sqlFieldOf: r.SubjectSetNamespace -> "SubjectSetNamespace" when r is *sql.RelationTuple
func sqlFieldOf(info *types.Info, e ast.Expr) string {
	e = ast.Unparen(e)
	sel, ok := e.(*ast.SelectorExpr)
	if !ok {
		return ""
	}
	if n := core.NamedOf(info.TypeOf(sel.X)); n != nil && n.Obj().Name() == "RelationTuple" && n.Obj().Pkg() != nil && n.Obj().Pkg().Path() == sqlPkgPath {
		return sel.Sel.Name
	}
	// r.SubjectID.UUID -> SubjectID
	if inner := sqlFieldOf(info, sel.X); inner != "" {
		return inner
	}
	return ""
}

func BuildSQLModel(p *core.Program) *SQLModel {
	m := &SQLModel{ColOfField: map[string]string{}, FieldOfCol: map[string]string{}, WriteMap: map[string]string{}, SetBy: map[string][]string{}, Cleared: map[string][]string{}, ReadMap: map[string]string{}}
	pkg := p.Pkg(sqlPkgRel)
	if pkg == nil {
		m.Errs = append(m.Errs, "package "+sqlPkgRel+" not loaded")
		return m
	}
	m.Pkg = pkg
	info := pkg.TypesInfo
	// struct tags
	if t := p.LookupType(sqlPkgPath, "RelationTuple"); t != nil {
		st := t.Underlying().(*types.Struct)
		for i := 0; i < st.NumFields(); i++ {
			if col := reflect.StructTag(st.Tag(i)).Get("db"); col != "" && col != "-" {
				m.ColOfField[st.Field(i).Name()] = col
				m.FieldOfCol[col] = st.Field(i).Name()
			}
		}
	} else {
		m.Errs = append(m.Errs, "type sql.RelationTuple not found")
	}
	// write map
	for _, name := range []string{"RelationTuple.FromInternal", "RelationTuple.insertSubject"} {
		fd := core.FuncDecl(pkg, name)
		if fd == nil {
			m.Errs = append(m.Errs, "function "+name+" not found")
			continue
		}
		var walk func(list []ast.Stmt, kind string)
		walk = func(list []ast.Stmt, kind string) {
			for _, st := range list {
				switch s := st.(type) {
				case *ast.AssignStmt:
					for i := range s.Lhs {
						if i >= len(s.Rhs) {
							break
						}
						f := sqlFieldOf(info, s.Lhs[i])
						if f == "" {
							// _ = r.X.Scan(st.Y)
							if c, ok := s.Rhs[i].(*ast.CallExpr); ok {
								if sel, ok := c.Fun.(*ast.SelectorExpr); ok && sel.Sel.Name == "Scan" && len(c.Args) == 1 {
									if f2 := sqlFieldOf(info, sel.X); f2 != "" {
										if src := internalFieldOf(info, c.Args[0]); src != "" {
											m.WriteMap[m.ColOfField[f2]] = src
											m.SetBy[kind] = append(m.SetBy[kind], m.ColOfField[f2])
										}
									}
								}
							}
							continue
						}
						col := m.ColOfField[f]
						if src := internalFieldOf(info, s.Rhs[i]); src != "" {
							m.WriteMap[col] = src
							m.SetBy[kind] = append(m.SetBy[kind], col)
							continue
						}
						if cl, ok := s.Rhs[i].(*ast.CompositeLit); ok {
							src := ""
							for _, el := range cl.Elts {
								if kv, ok := el.(*ast.KeyValueExpr); ok {
									if s2 := internalFieldOf(info, kv.Value); s2 != "" {
										src = s2
									}
								}
							}
							if src != "" {
								m.WriteMap[col] = src
								m.SetBy[kind] = append(m.SetBy[kind], col)
							} else if len(cl.Elts) == 0 {
								m.Cleared[kind] = append(m.Cleared[kind], col)
							}
						}
					}
				case *ast.ExprStmt:
					if c, ok := s.X.(*ast.CallExpr); ok {
						if sel, ok := c.Fun.(*ast.SelectorExpr); ok && sel.Sel.Name == "Scan" && len(c.Args) == 1 {
							if f2 := sqlFieldOf(info, sel.X); f2 != "" {
								if src := internalFieldOf(info, c.Args[0]); src != "" {
									m.WriteMap[m.ColOfField[f2]] = src
									m.SetBy[kind] = append(m.SetBy[kind], m.ColOfField[f2])
								}
							}
						}
					}
				case *ast.TypeSwitchStmt:
					for _, cc := range s.Body.List {
						c := cc.(*ast.CaseClause)
						k := ""
						for _, t := range c.List {
							k = typeNameOf(info, t)
						}
						walk(c.Body, k)
					}
				case *ast.IfStmt:
					walk(s.Body.List, kind)
				}
			}
		}
		walk(fd.Body.List, "tuple")
	}
	// read map: ToInternal
	if fd := core.FuncDecl(pkg, "RelationTuple.ToInternal"); fd != nil {
		ast.Inspect(fd.Body, func(n ast.Node) bool {
			cl, ok := n.(*ast.CompositeLit)
			if !ok {
				return true
			}
			owner := typeNameOf(info, cl)
			kind := owner
			if owner == "RelationTuple" {
				kind = "tuple"
			}
			for _, el := range cl.Elts {
				kv, ok := el.(*ast.KeyValueExpr)
				if !ok {
					continue
				}
				key, ok := kv.Key.(*ast.Ident)
				if !ok {
					continue
				}
				if f := sqlFieldOf(info, kv.Value); f != "" {
					m.ReadMap[kind+"."+key.Name] = m.ColOfField[f]
				}
			}
			return true
		})
	} else {
		m.Errs = append(m.Errs, "function RelationTuple.ToInternal not found")
	}
	m.collectWheres(p)
	m.collectRaw(p)
	return m
}

// collectWheres finds every pop Where("frag", args...) in the package.
func (m *SQLModel) collectWheres(p *core.Program) {
	info := m.Pkg.TypesInfo
	for _, f := range m.Pkg.Syntax {
		if p.IsTestFile(f.Pos()) {
			continue
		}
		for _, d := range f.Decls {
			fd, ok := d.(*ast.FuncDecl)
			if !ok || fd.Body == nil {
				continue
			}
			var stack []ast.Node
			ast.Inspect(fd.Body, func(n ast.Node) bool {
				if n == nil {
					stack = stack[:len(stack)-1]
					return true
				}
				stack = append(stack, n)
				c, ok := n.(*ast.CallExpr)
				if !ok {
					return true
				}
				sel, ok := c.Fun.(*ast.SelectorExpr)
				if !ok || sel.Sel.Name != "Where" || len(c.Args) == 0 {
					return true
				}
				fo, ok := info.Uses[sel.Sel].(*types.Func)
				if !ok || fo.Pkg() == nil || fo.Pkg().Path() != "github.com/gobuffalo/pop/v6" {
					return true
				}
				wf := &WhereFrag{Fn: fd, Call: c, Args: c.Args[1:]}
				txt, ok := core.ConstString(info, c.Args[0])
				if !ok {
					wf.Err = "Where fragment is not a constant string"
				} else {
					wf.Text = txt
					e, nq, err := core.ParseSQLCondition(txt)
					if err != nil {
						wf.Err = err.Error()
					} else {
						wf.Expr = e
						if nq != len(wf.Args) {
							wf.Err = fmt.Sprintf("fragment has %d placeholders but %d arguments", nq, len(wf.Args))
						}
					}
				}
				// nearest enclosing case clause / if condition
				for i := len(stack) - 1; i >= 0; i-- {
					switch x := stack[i].(type) {
					case *ast.CaseClause:
						for _, t := range x.List {
							wf.Case = typeNameOf(info, t)
						}
						if wf.Case != "" {
							i = -1
						}
					case *ast.IfStmt:
						if wf.Case == "" {
							wf.Case = "if " + types.ExprString(x.Cond)
						}
						i = -1
					}
				}
				wf.NonNil = map[string]bool{}
				for _, g := range guardsOf(fd.Body, c) {
					// on the true side of a conjunction every conjunct holds
					conj := []ast.Expr{g.Cond}
					if g.True {
						conj = nil
						var split func(e ast.Expr)
						split = func(e ast.Expr) {
							if be, ok := unparen(e).(*ast.BinaryExpr); ok && be.Op == token.LAND {
								split(be.X)
								split(be.Y)
								return
							}
							conj = append(conj, e)
						}
						split(g.Cond)
					}
					for _, cj := range conj {
						op, x, y, ok := cmpParts(info, cj)
						if ok && !g.True {
							op, _ = negTok(op)
						}
						if !ok || !isNilExpr(info, y) || op != token.NEQ {
							if t := info.TypeOf(x); ok && t != nil && types.Identical(t, types.Universe.Lookup("error").Type()) {
								continue // err == nil on the way: not a filter on the query
							}
							wf.ExtraGuards = append(wf.ExtraGuards, types.ExprString(cj))
							continue
						}
						switch v := x.(type) {
						case *ast.SelectorExpr:
							wf.NonNil[v.Sel.Name] = true
						case *ast.Ident:
							wf.NonNil[v.Name] = true
						}
					}
				}
				m.Wheres = append(m.Wheres, wf)
				return true
			})
		}
	}
}

// collectRaw evaluates every RawQuery call.
func (m *SQLModel) collectRaw(p *core.Program) {
	info := m.Pkg.TypesInfo
	builders := map[string]*RawStmt{}
	for _, f := range m.Pkg.Syntax {
		if p.IsTestFile(f.Pos()) {
			continue
		}
		for _, d := range f.Decls {
			fd, ok := d.(*ast.FuncDecl)
			if !ok || fd.Body == nil {
				continue
			}
			ast.Inspect(fd.Body, func(n ast.Node) bool {
				c, ok := n.(*ast.CallExpr)
				if !ok {
					return true
				}
				sel, ok := c.Fun.(*ast.SelectorExpr)
				if !ok || sel.Sel.Name != "RawQuery" || len(c.Args) == 0 {
					return true
				}
				fo, ok := info.Uses[sel.Sel].(*types.Func)
				if !ok || fo.Pkg() == nil || fo.Pkg().Path() != "github.com/gobuffalo/pop/v6" {
					return true
				}
				rs := &RawStmt{Fn: core.DeclName(fd), Site: c.Pos()}
				// query produced by a builder handed in as a function value:
				//   q, args, err := build(nid, chunk)   with build a parameter of fd
				if id, ok := c.Args[0].(*ast.Ident); ok {
					if m.rawThroughBuilderParam(p, fd, c, id, builders) {
						return true
					}
				}
				// the statement is executed by a helper that is handed the query text by several
				// callers (p.execRaw(ctx, q, args)): one statement per caller, built where the caller
				// built it
				if id, ok := c.Args[0].(*ast.Ident); ok {
					if m.rawThroughExecHelper(p, fd, c, id, builders) {
						return true
					}
				}
				// query produced by a builder function: q, args, err := buildX(...)
				if id, ok := c.Args[0].(*ast.Ident); ok {
					if bcall, bdecl := definingBuilderCall(m.Pkg, fd, id); bcall != nil {
						rs.Builder = bdecl.Name.Name
						bc := BuilderCall{Fn: core.DeclName(fd), Pos: bcall.Pos(), Args: map[string]ast.Expr{}, Decl: fd}
						i := 0
						for _, fl := range bdecl.Type.Params.List {
							for _, nm := range fl.Names {
								if i < len(bcall.Args) {
									bc.Args[nm.Name] = bcall.Args[i]
								}
								i++
							}
						}
						if prev, ok := builders[rs.Builder]; ok {
							prev.BuilderCalls = append(prev.BuilderCalls, bc)
							return true
						}
						rs.BuilderCalls = append(rs.BuilderCalls, bc)
						ts, errs := core.EvalBuilder(m.Pkg, bdecl)
						rs.Errs = append(rs.Errs, errs...)
						if len(ts) == 0 {
							rs.Errs = append(rs.Errs, "builder "+rs.Builder+" yields no template")
						}
						for _, t := range ts {
							ss, err := t.Samples()
							if err != nil {
								rs.Errs = append(rs.Errs, err.Error())
							}
							for i := range ss {
								if t.Variant != "" {
									ss[i].Desc += " [" + t.Variant + "]"
								}
							}
							rs.Samples = append(rs.Samples, ss...)
						}
						builders[rs.Builder] = rs
						m.Raw = append(m.Raw, rs)
						return true
					}
				}
				ts, errs, owner := core.EvalCallSite(m.Pkg, fd, c)
				if owner != fd {
					// the statement is executed by a helper of its only caller: it belongs to the caller
					rs.Helper = rs.Fn
					rs.Fn = core.DeclName(owner)
				}
				rs.Errs = append(rs.Errs, errs...)
				for _, t := range ts {
					ss, err := t.Samples()
					if err != nil {
						rs.Errs = append(rs.Errs, err.Error())
					}
					rs.Samples = append(rs.Samples, ss...)
				}
				m.Raw = append(m.Raw, rs)
				return true
			})
		}
	}
	for _, rs := range m.Raw {
		for _, s := range rs.Samples {
			st, err := core.ParseSQL(s.SQL)
			if err != nil {
				rs.Errs = append(rs.Errs, err.Error())
				rs.Parsed = append(rs.Parsed, nil)
				continue
			}
			if st.NumQ != len(s.Args) {
				rs.Errs = append(rs.Errs, fmt.Sprintf("%d placeholders but %d arguments for instantiation %q", st.NumQ, len(s.Args), s.Desc))
			}
			rs.Parsed = append(rs.Parsed, st)
		}
	}
	sort.Slice(m.Raw, func(i, j int) bool { return m.Raw[i].Site < m.Raw[j].Site })
}

// rawThroughBuilderParam: the query text id is defined by a call of a function-typed parameter of
// fd. Every call of fd in the package is looked at: the argument for that parameter is a builder
// function, or a closure that only forwards to one (binding some of its arguments). One RawStmt
// per builder is recorded, owned by the function that calls fd.
func (m *SQLModel) rawThroughBuilderParam(p *core.Program, fd *ast.FuncDecl, site *ast.CallExpr, id *ast.Ident, builders map[string]*RawStmt) bool {
	info := m.Pkg.TypesInfo
	obj := info.Uses[id]
	var dyn *ast.CallExpr
	ast.Inspect(fd.Body, func(n ast.Node) bool {
		as, ok := n.(*ast.AssignStmt)
		if !ok || len(as.Rhs) != 1 {
			return true
		}
		c, ok := as.Rhs[0].(*ast.CallExpr)
		if !ok {
			return true
		}
		for _, l := range as.Lhs {
			if li, ok := l.(*ast.Ident); ok && obj != nil && (info.Defs[li] == obj || info.Uses[li] == obj) {
				dyn = c
			}
		}
		return true
	})
	if dyn == nil {
		return false
	}
	fid, ok := dyn.Fun.(*ast.Ident)
	if !ok {
		return false
	}
	pobj, ok := info.Uses[fid].(*types.Var)
	if !ok {
		return false
	}
	pidx, i := -1, 0
	for _, fl := range fd.Type.Params.List {
		for _, nm := range fl.Names {
			if info.Defs[nm] == types.Object(pobj) {
				pidx = i
			}
			i++
		}
	}
	if pidx < 0 {
		return false
	}
	fobj := info.Defs[fd.Name]
	found := false
	declOf := func(o types.Object) *ast.FuncDecl {
		for _, f := range m.Pkg.Syntax {
			for _, d := range f.Decls {
				if bd, ok := d.(*ast.FuncDecl); ok && info.Defs[bd.Name] == o && bd.Body != nil {
					return bd
				}
			}
		}
		return nil
	}
	for _, f := range m.Pkg.Syntax {
		if p.IsTestFile(f.Pos()) {
			continue
		}
		for _, d := range f.Decls {
			cfd, ok := d.(*ast.FuncDecl)
			if !ok || cfd.Body == nil || cfd == fd {
				continue
			}
			ast.Inspect(cfd.Body, func(n ast.Node) bool {
				c, ok := n.(*ast.CallExpr)
				if !ok || pidx >= len(c.Args) {
					return true
				}
				var cid *ast.Ident
				switch f := c.Fun.(type) {
				case *ast.Ident:
					cid = f
				case *ast.SelectorExpr:
					cid = f.Sel
				}
				if cid == nil || info.Uses[cid] != fobj || fobj == nil {
					return true
				}
				// the builder handed over, and how the arguments of the dynamic call reach it
				arg := c.Args[pidx]
				var bdecl *ast.FuncDecl
				argFor := map[string]ast.Expr{} // builder parameter name -> expression
				bindPositional := func(bd *ast.FuncDecl, actual []ast.Expr) {
					k := 0
					for _, fl := range bd.Type.Params.List {
						for _, nm := range fl.Names {
							if k < len(actual) {
								argFor[nm.Name] = actual[k]
							}
							k++
						}
					}
				}
				if aid, ok := arg.(*ast.Ident); ok {
					if bd := declOf(info.Uses[aid]); bd != nil {
						bdecl = bd
						bindPositional(bd, dyn.Args)
					} else if lit := closureDefinedAs(info, cfd, info.Uses[aid]); lit != nil {
						arg = lit
					}
				}
				if lit, ok := arg.(*ast.FuncLit); ok && bdecl == nil && len(lit.Body.List) == 1 {
					if ret, ok := lit.Body.List[0].(*ast.ReturnStmt); ok && len(ret.Results) == 1 {
						if inner, ok := ret.Results[0].(*ast.CallExpr); ok {
							if iid, ok := inner.Fun.(*ast.Ident); ok {
								if bd := declOf(info.Uses[iid]); bd != nil {
									bdecl = bd
									// closure parameters stand for the arguments of the dynamic call
									cl := map[types.Object]ast.Expr{}
									k := 0
									for _, fl := range lit.Type.Params.List {
										for _, nm := range fl.Names {
											if k < len(dyn.Args) {
												cl[info.Defs[nm]] = dyn.Args[k]
											}
											k++
										}
									}
									var actual []ast.Expr
									for _, a := range inner.Args {
										if ai, ok := a.(*ast.Ident); ok {
											if e, ok := cl[info.Uses[ai]]; ok {
												actual = append(actual, e)
												continue
											}
										}
										actual = append(actual, a)
									}
									bindPositional(bd, actual)
								}
							}
						}
					}
				}
				if bdecl == nil || bdecl.Type.Results == nil || len(bdecl.Type.Results.List) < 2 {
					return true
				}
				found = true
				// the nid argument is evaluated inside fd (the helper), the rest where the builder was chosen
				bc := BuilderCall{Fn: core.DeclName(fd), Pos: dyn.Pos(), Args: argFor, Decl: fd}
				name := bdecl.Name.Name
				if prev, ok := builders[name]; ok {
					prev.BuilderCalls = append(prev.BuilderCalls, bc)
					return true
				}
				rs := &RawStmt{Fn: core.DeclName(cfd), Helper: core.DeclName(fd), Site: site.Pos(), Builder: name}
				rs.BuilderCalls = append(rs.BuilderCalls, bc)
				ts, errs := core.EvalBuilder(m.Pkg, bdecl)
				rs.Errs = append(rs.Errs, errs...)
				if len(ts) == 0 {
					rs.Errs = append(rs.Errs, "builder "+name+" yields no template")
				}
				for _, t := range ts {
					ss, err := t.Samples()
					if err != nil {
						rs.Errs = append(rs.Errs, err.Error())
					}
					for i := range ss {
						if t.Variant != "" {
							ss[i].Desc += " [" + t.Variant + "]"
						}
					}
					rs.Samples = append(rs.Samples, ss...)
				}
				builders[name] = rs
				m.Raw = append(m.Raw, rs)
				return true
			})
		}
	}
	return found
}

// rawThroughExecHelper: the query text id of the RawQuery call is a string parameter of fd and fd
// is called from more than one place in the package. For each caller whose argument is the result
// of a builder function (q, args, err := buildX(...)) a RawStmt owned by the caller is recorded.
func (m *SQLModel) rawThroughExecHelper(p *core.Program, fd *ast.FuncDecl, site *ast.CallExpr, id *ast.Ident, builders map[string]*RawStmt) bool {
	info := m.Pkg.TypesInfo
	pobj := info.Uses[id]
	pidx, i := -1, 0
	for _, fl := range fd.Type.Params.List {
		for _, nm := range fl.Names {
			if info.Defs[nm] == pobj && pobj != nil {
				pidx = i
			}
			i++
		}
	}
	if pidx < 0 {
		return false
	}
	fobj := info.Defs[fd.Name]
	type callerSite struct {
		decl *ast.FuncDecl
		call *ast.CallExpr
	}
	var sites []callerSite
	for _, f := range m.Pkg.Syntax {
		if p.IsTestFile(f.Pos()) {
			continue
		}
		for _, d := range f.Decls {
			cfd, ok := d.(*ast.FuncDecl)
			if !ok || cfd.Body == nil || cfd == fd {
				continue
			}
			ast.Inspect(cfd.Body, func(n ast.Node) bool {
				c, ok := n.(*ast.CallExpr)
				if !ok || pidx >= len(c.Args) {
					return true
				}
				var cid *ast.Ident
				switch f := c.Fun.(type) {
				case *ast.Ident:
					cid = f
				case *ast.SelectorExpr:
					cid = f.Sel
				}
				if cid != nil && fobj != nil && info.Uses[cid] == fobj {
					sites = append(sites, callerSite{cfd, c})
				}
				return true
			})
		}
	}
	if len(sites) < 2 {
		return false // a single caller is handled by EvalCallSite
	}
	found := false
	for _, cs := range sites {
		qid, ok := cs.call.Args[pidx].(*ast.Ident)
		if !ok {
			continue
		}
		bcall, bdecl := definingBuilderCall(m.Pkg, cs.decl, qid)
		if bcall == nil {
			continue
		}
		found = true
		name := bdecl.Name.Name
		bc := BuilderCall{Fn: core.DeclName(cs.decl), Pos: bcall.Pos(), Args: map[string]ast.Expr{}, Decl: cs.decl}
		k := 0
		for _, fl := range bdecl.Type.Params.List {
			for _, nm := range fl.Names {
				if k < len(bcall.Args) {
					bc.Args[nm.Name] = bcall.Args[k]
				}
				k++
			}
		}
		if prev, ok := builders[name]; ok {
			prev.BuilderCalls = append(prev.BuilderCalls, bc)
			continue
		}
		rs := &RawStmt{Fn: core.DeclName(cs.decl), Helper: core.DeclName(fd), Site: cs.call.Pos(), Builder: name}
		rs.BuilderCalls = append(rs.BuilderCalls, bc)
		ts, errs := core.EvalBuilder(m.Pkg, bdecl)
		rs.Errs = append(rs.Errs, errs...)
		if len(ts) == 0 {
			rs.Errs = append(rs.Errs, "builder "+name+" yields no template")
		}
		for _, t := range ts {
			ss, err := t.Samples()
			if err != nil {
				rs.Errs = append(rs.Errs, err.Error())
			}
			for i := range ss {
				if t.Variant != "" {
					ss[i].Desc += " [" + t.Variant + "]"
				}
			}
			rs.Samples = append(rs.Samples, ss...)
		}
		builders[name] = rs
		m.Raw = append(m.Raw, rs)
	}
	return found
}

// closureDefinedAs: the function literal assigned (once) to the local variable o in fd.
func closureDefinedAs(info *types.Info, fd *ast.FuncDecl, o types.Object) *ast.FuncLit {
	var lit *ast.FuncLit
	n := 0
	ast.Inspect(fd.Body, func(nd ast.Node) bool {
		as, ok := nd.(*ast.AssignStmt)
		if !ok || len(as.Lhs) != len(as.Rhs) {
			return true
		}
		for i, l := range as.Lhs {
			if li, ok := l.(*ast.Ident); ok && o != nil && (info.Defs[li] == o || info.Uses[li] == o) {
				n++
				if fl, ok := as.Rhs[i].(*ast.FuncLit); ok {
					lit = fl
				}
			}
		}
		return true
	})
	if n != 1 {
		return nil
	}
	return lit
}

// definingBuilderCall: `q, args, err := buildX(...)` that defines id within fd.
func definingBuilderCall(pkg *packages.Package, fd *ast.FuncDecl, id *ast.Ident) (*ast.CallExpr, *ast.FuncDecl) {
	obj := pkg.TypesInfo.Uses[id]
	var call *ast.CallExpr
	ast.Inspect(fd.Body, func(n ast.Node) bool {
		as, ok := n.(*ast.AssignStmt)
		if !ok || len(as.Rhs) != 1 {
			return true
		}
		c, ok := as.Rhs[0].(*ast.CallExpr)
		if !ok {
			return true
		}
		for _, l := range as.Lhs {
			if li, ok := l.(*ast.Ident); ok && (pkg.TypesInfo.Defs[li] == obj || pkg.TypesInfo.Uses[li] == obj) && obj != nil {
				call = c
			}
		}
		return true
	})
	if call == nil {
		return nil, nil
	}
	fid, ok := call.Fun.(*ast.Ident)
	if !ok {
		return nil, nil
	}
	for _, f := range pkg.Syntax {
		for _, d := range f.Decls {
			if bd, ok := d.(*ast.FuncDecl); ok && bd.Recv == nil && bd.Name.Name == fid.Name && bd.Body != nil {
				if bd.Type.Results != nil && len(bd.Type.Results.List) >= 2 {
					return call, bd
				}
			}
		}
	}
	return nil, nil
}

// isNetworkIDCall: expression is <x>.NetworkID(<ctx>) ; returns the ctx ident object.
func isNetworkIDCall(info *types.Info, e ast.Expr) (types.Object, bool) {
	c, ok := ast.Unparen(e).(*ast.CallExpr)
	if !ok || len(c.Args) != 1 {
		return nil, false
	}
	sel, ok := c.Fun.(*ast.SelectorExpr)
	if !ok || sel.Sel.Name != "NetworkID" {
		return nil, false
	}
	fo, ok := info.Uses[sel.Sel].(*types.Func)
	if !ok || fo.Pkg() == nil || fo.Pkg().Path() != sqlPkgPath {
		return nil, false
	}
	if id, ok := c.Args[0].(*ast.Ident); ok {
		return info.Uses[id], true
	}
	return nil, true
}

// innermostCtx: the context object that is in scope at pos: the ctx parameter
// of the innermost enclosing function literal (or of fd).
func innermostCtx(info *types.Info, fd *ast.FuncDecl, pos token.Pos) types.Object {
	var best types.Object
	pick := func(ft *ast.FuncType) {
		for _, fl := range ft.Params.List {
			if core.IsNamed(info.TypeOf(fl.Type), "context", "Context") {
				for _, nm := range fl.Names {
					best = info.Defs[nm]
				}
			}
		}
	}
	pick(fd.Type)
	ast.Inspect(fd.Body, func(n ast.Node) bool {
		if fl, ok := n.(*ast.FuncLit); ok && fl.Pos() <= pos && pos <= fl.End() {
			pick(fl.Type)
		}
		// a redefinition `ctx, span := ...Start(ctx, ...)` before pos in the same scope
		if as, ok := n.(*ast.AssignStmt); ok && as.Tok == token.DEFINE && as.End() < pos {
			for _, l := range as.Lhs {
				if id, ok := l.(*ast.Ident); ok && core.IsNamed(info.TypeOf(id), "context", "Context") {
					if o := info.Defs[id]; o != nil && o.Parent() != nil && o.Parent().Contains(pos) {
						best = o
					}
				}
			}
		}
		return true
	})
	return best
}

// createTableColumns reads the column lists of the tuple table from the migrations.
func createTableColumns(repo string) (map[string][]string, error) {
	dir := filepath.Join(repo, sqlPkgRel, "migrations", "sql")
	ents, err := os.ReadDir(dir)
	if err != nil {
		return nil, err
	}
	out := map[string][]string{}
	re := regexp.MustCompile(`(?is)CREATE TABLE\s+(?:IF NOT EXISTS\s+)?"?(keto_relation_tuples|keto_uuid_mappings)"?\s*\((.*?)\);`)
	for _, e := range ents {
		if !strings.HasSuffix(e.Name(), ".up.sql") {
			continue
		}
		b, err := os.ReadFile(filepath.Join(dir, e.Name()))
		if err != nil {
			continue
		}
		for _, mm := range re.FindAllStringSubmatch(string(b), -1) {
			var cols []string
			depth := 0
			cur := ""
			for _, ch := range mm[2] {
				switch ch {
				case '(':
					depth++
				case ')':
					depth--
				}
				if ch == ',' && depth == 0 {
					cols = append(cols, strings.TrimSpace(cur))
					cur = ""
					continue
				}
				cur += string(ch)
			}
			cols = append(cols, strings.TrimSpace(cur))
			var names []string
			for _, c := range cols {
				f := strings.Fields(c)
				if len(f) == 0 {
					continue
				}
				w := strings.Trim(f[0], "\"`")
				switch strings.ToUpper(w) {
				case "PRIMARY", "CONSTRAINT", "CHECK", "FOREIGN", "UNIQUE", "INDEX", "KEY":
					continue
				}
				names = append(names, w)
			}
			out[e.Name()+":"+mm[1]] = names
		}
	}
	return out, nil
}

// ssaFuncOfDecl maps a declaration name to its SSA function.
func ssaFuncOfDecl(p *core.Program, rel, declName string) *ssa.Function {
	for _, fn := range p.KetoFuncs(rel) {
		if fn.Parent() == nil && strings.HasSuffix(core.FuncName(fn), "."+strings.TrimPrefix(declName, "(")) {
			return fn
		}
	}
	return nil
}

// resolveSingleDef: when e is a local variable of fd that is defined exactly
// once (`x := <expr>`, never assigned again, address never taken), returns the
// defining expression and its position; otherwise e itself.
func resolveSingleDef(info *types.Info, fd *ast.FuncDecl, e ast.Expr, pos token.Pos) (ast.Expr, token.Pos) {
	for i := 0; i < 4; i++ {
		id, ok := ast.Unparen(e).(*ast.Ident)
		if !ok || fd == nil || fd.Body == nil {
			return e, pos
		}
		obj, ok := info.Uses[id].(*types.Var)
		if !ok || obj.IsField() {
			return e, pos
		}
		var def ast.Expr
		var defPos token.Pos
		n, other := 0, false
		ast.Inspect(fd.Body, func(nd ast.Node) bool {
			switch x := nd.(type) {
			case *ast.AssignStmt:
				for j, l := range x.Lhs {
					li, ok := l.(*ast.Ident)
					if !ok {
						continue
					}
					if info.Defs[li] == obj && len(x.Lhs) == len(x.Rhs) {
						def, defPos = x.Rhs[j], x.Pos()
						n++
					} else if info.Uses[li] == obj || info.Defs[li] == obj {
						other = true
					}
				}
			case *ast.ValueSpec:
				for j, nm := range x.Names {
					if info.Defs[nm] == obj {
						if j < len(x.Values) {
							def, defPos = x.Values[j], x.Pos()
							n++
						} else {
							other = true
						}
					}
				}
			case *ast.UnaryExpr:
				if x.Op == token.AND {
					if ui, ok := ast.Unparen(x.X).(*ast.Ident); ok && info.Uses[ui] == obj {
						other = true
					}
				}
			case *ast.IncDecStmt:
				if ui, ok := ast.Unparen(x.X).(*ast.Ident); ok && info.Uses[ui] == obj {
					other = true
				}
			}
			return true
		})
		if n != 1 || other || def == nil {
			return e, pos
		}
		e, pos = def, defPos
	}
	return e, pos
}
