package rules

import (
	"go/ast"
	"go/constant"
	"go/token"
	"go/types"
)

// Structural matching on the typed syntax tree. Rules that read source shapes
// (SQL builders, pagination arithmetic, batch indices) compare expressions with
// these helpers, never as text: parentheses, the order of commutative operands,
// the direction of a comparison, a negated condition with swapped branches and
// the names of local variables do not matter.

func unparen(e ast.Expr) ast.Expr {
	for {
		p, ok := e.(*ast.ParenExpr)
		if !ok {
			return e
		}
		e = p.X
	}
}

func objOf(info *types.Info, e ast.Expr) types.Object {
	id, ok := unparen(e).(*ast.Ident)
	if !ok {
		return nil
	}
	if o := info.Uses[id]; o != nil {
		return o
	}
	return info.Defs[id]
}

func intLit(info *types.Info, e ast.Expr) (int64, bool) {
	if tv, ok := info.Types[unparen(e)]; ok && tv.Value != nil && tv.Value.Kind() == constant.Int {
		return constant.Int64Val(tv.Value)
	}
	return 0, false
}

func isNilExpr(info *types.Info, e ast.Expr) bool {
	if tv, ok := info.Types[unparen(e)]; ok && tv.IsNil() {
		return true
	}
	id, ok := unparen(e).(*ast.Ident)
	return ok && id.Name == "nil" && (info.Uses[id] == nil || info.Uses[id] == types.Universe.Lookup("nil"))
}

func flipTok(op token.Token) token.Token {
	switch op {
	case token.LSS:
		return token.GTR
	case token.GTR:
		return token.LSS
	case token.LEQ:
		return token.GEQ
	case token.GEQ:
		return token.LEQ
	}
	return op
}

func negTok(op token.Token) (token.Token, bool) {
	switch op {
	case token.EQL:
		return token.NEQ, true
	case token.NEQ:
		return token.EQL, true
	case token.LSS:
		return token.GEQ, true
	case token.GEQ:
		return token.LSS, true
	case token.GTR:
		return token.LEQ, true
	case token.LEQ:
		return token.GTR, true
	}
	return op, false
}

// cmpParts decodes a comparison, looking through parentheses and leading
// negations: !(a == b) is a != b. A constant or nil on the left is moved to
// the right (b < a for a > b).
func cmpParts(info *types.Info, e ast.Expr) (op token.Token, x, y ast.Expr, ok bool) {
	neg := false
	e = unparen(e)
	for {
		u, isU := e.(*ast.UnaryExpr)
		if !isU || u.Op != token.NOT {
			break
		}
		neg = !neg
		e = unparen(u.X)
	}
	be, isB := e.(*ast.BinaryExpr)
	if !isB {
		return
	}
	switch be.Op {
	case token.EQL, token.NEQ, token.LSS, token.LEQ, token.GTR, token.GEQ:
	default:
		return
	}
	op, x, y = be.Op, unparen(be.X), unparen(be.Y)
	isConst := func(e ast.Expr) bool {
		if isNilExpr(info, e) {
			return true
		}
		tv, ok := info.Types[e]
		return ok && tv.Value != nil
	}
	if isConst(x) && !isConst(y) {
		x, y, op = y, x, flipTok(op)
	}
	if neg {
		op, _ = negTok(op)
	}
	return op, x, y, true
}

// sameExpr: structural equality modulo parentheses, order of commutative
// operands and direction of comparisons; identifiers by object.
func sameExpr(info *types.Info, a, b ast.Expr) bool {
	a, b = unparen(a), unparen(b)
	if a == nil || b == nil {
		return a == nil && b == nil
	}
	if va, ok := info.Types[a]; ok && va.Value != nil {
		if vb, ok := info.Types[b]; ok && vb.Value != nil {
			return constant.Compare(va.Value, token.EQL, vb.Value)
		}
	}
	switch x := a.(type) {
	case *ast.Ident:
		y, ok := b.(*ast.Ident)
		if !ok {
			return false
		}
		oa, ob := objOf(info, x), objOf(info, y)
		if oa != nil || ob != nil {
			return oa == ob
		}
		return x.Name == y.Name
	case *ast.BasicLit:
		y, ok := b.(*ast.BasicLit)
		return ok && x.Kind == y.Kind && x.Value == y.Value
	case *ast.SelectorExpr:
		y, ok := b.(*ast.SelectorExpr)
		return ok && x.Sel.Name == y.Sel.Name && sameExpr(info, x.X, y.X)
	case *ast.StarExpr:
		y, ok := b.(*ast.StarExpr)
		return ok && sameExpr(info, x.X, y.X)
	case *ast.UnaryExpr:
		y, ok := b.(*ast.UnaryExpr)
		return ok && x.Op == y.Op && sameExpr(info, x.X, y.X)
	case *ast.IndexExpr:
		y, ok := b.(*ast.IndexExpr)
		return ok && sameExpr(info, x.X, y.X) && sameExpr(info, x.Index, y.Index)
	case *ast.SliceExpr:
		y, ok := b.(*ast.SliceExpr)
		return ok && sameExpr(info, x.X, y.X) && sameExpr(info, x.Low, y.Low) && sameExpr(info, x.High, y.High) && sameExpr(info, x.Max, y.Max)
	case *ast.CallExpr:
		y, ok := b.(*ast.CallExpr)
		if !ok || len(x.Args) != len(y.Args) || !sameExpr(info, x.Fun, y.Fun) {
			return false
		}
		for i := range x.Args {
			if !sameExpr(info, x.Args[i], y.Args[i]) {
				return false
			}
		}
		return true
	case *ast.BinaryExpr:
		y, ok := b.(*ast.BinaryExpr)
		if !ok {
			return false
		}
		if x.Op == y.Op && sameExpr(info, x.X, y.X) && sameExpr(info, x.Y, y.Y) {
			return true
		}
		switch x.Op {
		case token.ADD, token.MUL, token.EQL, token.NEQ, token.LAND, token.LOR, token.AND, token.OR, token.XOR:
			return x.Op == y.Op && sameExpr(info, x.X, y.Y) && sameExpr(info, x.Y, y.X)
		case token.LSS, token.GTR, token.LEQ, token.GEQ:
			return flipTok(x.Op) == y.Op && sameExpr(info, x.X, y.Y) && sameExpr(info, x.Y, y.X)
		}
		return false
	}
	return false
}

// isLenOf: len(v) of the given expression v.
func isLenOf(info *types.Info, e, v ast.Expr) bool {
	c, ok := unparen(e).(*ast.CallExpr)
	if !ok || len(c.Args) != 1 {
		return false
	}
	id, ok := unparen(c.Fun).(*ast.Ident)
	if !ok || id.Name != "len" {
		return false
	}
	if _, isBuiltin := info.Uses[id].(*types.Builtin); !isBuiltin {
		return false
	}
	return sameExpr(info, c.Args[0], v)
}

// minusConst: e == base - k (k a constant >= 0); also base + (-k).
func minusConst(info *types.Info, e ast.Expr) (base ast.Expr, k int64, ok bool) {
	be, isB := unparen(e).(*ast.BinaryExpr)
	if !isB {
		return nil, 0, false
	}
	if be.Op == token.SUB {
		if v, ok := intLit(info, be.Y); ok {
			return unparen(be.X), v, true
		}
	}
	if be.Op == token.ADD {
		if v, ok := intLit(info, be.Y); ok && v <= 0 {
			return unparen(be.X), -v, true
		}
		if v, ok := intLit(info, be.X); ok && v <= 0 {
			return unparen(be.Y), -v, true
		}
	}
	return nil, 0, false
}

// plusConst: e == base + k.
func plusConst(info *types.Info, e ast.Expr) (base ast.Expr, k int64, ok bool) {
	be, isB := unparen(e).(*ast.BinaryExpr)
	if !isB || be.Op != token.ADD {
		return nil, 0, false
	}
	if v, ok := intLit(info, be.Y); ok {
		return unparen(be.X), v, true
	}
	if v, ok := intLit(info, be.X); ok {
		return unparen(be.Y), v, true
	}
	return nil, 0, false
}

// branchOf: for a statement nested in an if/else, the condition it is control
// dependent on and whether it sits on the condition's true side. Walks the
// path from root to the statement; returns the innermost enclosing if first.
type guardAt struct {
	Cond ast.Expr
	True bool
}

func guardsOf(root ast.Node, target ast.Node) []guardAt {
	var out []guardAt
	var path []ast.Node
	found := false
	ast.Inspect(root, func(n ast.Node) bool {
		if found {
			return false
		}
		if n == nil {
			path = path[:len(path)-1]
			return true
		}
		path = append(path, n)
		if n == target {
			found = true
			for i := len(path) - 2; i >= 0; i-- {
				// statements that follow `if c { ...; return }` run only when c is false
				var list []ast.Stmt
				switch l := path[i].(type) {
				case *ast.BlockStmt:
					list = l.List
				case *ast.CaseClause:
					list = l.Body
				case *ast.CommClause:
					list = l.Body
				}
				for _, sib := range list {
					if ast.Node(sib) == path[i+1] {
						break
					}
					if is, ok := sib.(*ast.IfStmt); ok && is.Else == nil && leavesBlock(is.Body) {
						out = append(out, guardAt{is.Cond, false})
					}
				}
				ifs, ok := path[i].(*ast.IfStmt)
				if !ok {
					continue
				}
				child := path[i+1]
				switch {
				case child == ast.Node(ifs.Body):
					out = append(out, guardAt{ifs.Cond, true})
				case ifs.Else != nil && child == ast.Node(ifs.Else):
					out = append(out, guardAt{ifs.Cond, false})
				}
			}
			return false
		}
		return true
	})
	return out
}

// leavesBlock: control does not fall out of the end of b (it ends in return, break, continue,
// goto or panic).
func leavesBlock(b *ast.BlockStmt) bool {
	if b == nil || len(b.List) == 0 {
		return false
	}
	switch x := b.List[len(b.List)-1].(type) {
	case *ast.ReturnStmt:
		return true
	case *ast.BranchStmt:
		return x.Tok == token.BREAK || x.Tok == token.CONTINUE || x.Tok == token.GOTO
	case *ast.ExprStmt:
		if c, ok := x.X.(*ast.CallExpr); ok {
			if id, ok := c.Fun.(*ast.Ident); ok && id.Name == "panic" {
				return true
			}
		}
	}
	return false
}
