package rules

import (
	"fmt"
	"go/token"
	"go/types"
	"strings"

	"golang.org/x/tools/go/ssa"

	"ketosa/internal/core"
)

func init() {
	Register(&Property{
		ID: "C17",
		Explanation: "Decides who-may-call: with the call edges that are guarded by Mapper.ReadOnly==false removed (sound because R17.2/R17.3 show every Mapper a read path can hold was built with ReadOnly:true), no function that executes a write statement (INSERT/DELETE/pop write verbs) is reachable in the VTA call graph from any REST route registered on the read or syntax router or any gRPC method registered by RegisterReadGRPC/RegisterSyntaxGRPC. " +
			"Not decided: side effects inside the database driver, tracing or caches; that the read router is served on the read port.",
		Assumptions: []string{
			"go/ssa + VTA call graph are sound for this code (no unsafe, reflection only for DeepEqual)",
			"a statement changes state only if issued through pop's write verbs or database/sql Exec*",
			"entry points are exactly those registered in Register{Read,Write,Syntax}{Routes,GRPC}",
		},
		Run: runC17,
	})
}

const relPkg = core.KetoMod + "/internal/relationtuple"

// mapperGuardedEdges finds, in methods of relationtuple.Mapper, the call sites
// of MappingManager.MapStringsToUUIDs that are dominated by the false branch of
// a load of the receiver's ReadOnly field.
func mapperGuardedSites(c *Ctx) (guarded map[ssa.Instruction]bool, all []ssa.CallInstruction) {
	guarded = map[ssa.Instruction]bool{}
	for _, fn := range c.P.KetoFuncs("internal/relationtuple") {
		core.Instrs(fn, func(b *ssa.BasicBlock, _ int, ins ssa.Instruction) {
			call, ok := ins.(ssa.CallInstruction)
			if !ok {
				return
			}
			obj := core.CalleeObj(call.Common())
			if obj == nil {
				// resolve := manager.MapStringsToUUIDs; if m.ReadOnly { resolve = manager.MapStringsToUUIDsReadOnly };
				// resolve(ctx, s...): the writing method may only flow in over an edge on which
				// ReadOnly is false
				ph, isPhi := call.Common().Value.(*ssa.Phi)
				if !isPhi {
					return
				}
				writes := func(v ssa.Value) bool {
					mc, ok := v.(*ssa.MakeClosure)
					if !ok {
						return false
					}
					f, ok := mc.Fn.(*ssa.Function)
					return ok && strings.Contains(f.Name(), "MapStringsToUUIDs") && !strings.Contains(f.Name(), "ReadOnly")
				}
				nW, okAll := 0, true
				for i, e := range ph.Edges {
					if !writes(e) {
						continue
					}
					nW++
					edgeOK := false
					for _, cd := range core.CondsOnEdge(ph.Block().Preds[i], ph.Block()) {
						if !cd.True && isReadOnlyLoad(cd.V, fn) {
							edgeOK = true
						}
					}
					if !edgeOK {
						okAll = false
					}
				}
				if nW == 0 {
					return
				}
				all = append(all, call)
				if okAll {
					guarded[ins] = true
					// taking the method value is the reference the call graph records: it is used
					// only through this guarded edge
					// (the call graph attaches the reference to the instruction that uses the
					// method value: this phi)
					onlyHere := true
					for _, e := range ph.Edges {
						if mc, ok := e.(*ssa.MakeClosure); ok && writes(e) && (mc.Referrers() == nil || len(*mc.Referrers()) != 1) {
							onlyHere = false
						}
					}
					if onlyHere {
						guarded[ph] = true
					}
				}
				return
			}
			if obj.Name() != "MapStringsToUUIDs" {
				return
			}
			all = append(all, call)
			for _, cd := range core.CondsAt(b) {
				if cd.True {
					continue
				}
				if isReadOnlyLoad(cd.V, fn) {
					guarded[ins] = true
				}
			}
		})
	}
	return
}

// isReadOnlyLoad: v is *(&recv.ReadOnly) where recv is the method receiver (or
// the receiver captured by a closure).
func isReadOnlyLoad(v ssa.Value, fn *ssa.Function) bool {
	u, ok := v.(*ssa.UnOp)
	if !ok || u.Op != token.MUL {
		return false
	}
	fa, ok := u.X.(*ssa.FieldAddr)
	if !ok {
		return false
	}
	st, ok := fa.X.Type().Underlying().(*types.Pointer)
	if !ok || !core.IsNamed(st.Elem(), relPkg, "Mapper") {
		return false
	}
	s := st.Elem().Underlying().(*types.Struct)
	if s.Field(fa.Field).Name() != "ReadOnly" {
		return false
	}
	// receiver identity: first parameter of the outermost method
	top := core.Outermost(fn)
	if top.Signature.Recv() == nil || len(top.Params) == 0 {
		return false
	}
	x := fa.X
	if fv, ok := x.(*ssa.FreeVar); ok {
		_ = fv
		return true // captured receiver of a Mapper method closure
	}
	return x == top.Params[0]
}

func runC17(c *Ctx) {
	p, r := c.P, c.R
	entries, problems := p.Entries()
	for _, pr := range problems {
		r.Undecide("R17.5", "", "entry-table: "+pr, "", pr)
	}
	for _, bad := range core.CheckEntryFloors(entries) {
		r.Undecide("R17.5", "", "entry-floor "+bad, "", bad)
	}
	var es []string
	for _, e := range entries {
		es = append(es, e.String())
	}
	r.Note("entry_points", es)

	// R17.1 write set
	writeFns := map[*ssa.Function][]core.StmtSite{}
	nWrite := 0
	var wdesc []string
	for _, s := range p.StmtSites() {
		if !s.Write {
			continue
		}
		nWrite++
		writeFns[s.Fn] = append(writeFns[s.Fn], s)
		wdesc = append(wdesc, fmt.Sprintf("%s: %s at %s", core.FuncName(s.Fn), core.ObjName(s.Callee), p.Pos(s.Call.Pos())))
	}
	r.Note("write_statement_sites", wdesc)
	if nWrite < 3 {
		r.Undecide("R17.1", "", "write-set", "", fmt.Sprintf("only %d write statement sites found in keto code (floor 3: tuple INSERT, tuple DELETE, mapping INSERT)", nWrite))
	} else {
		r.Discharge("R17.1", "", "write-set", "", fmt.Sprintf("%d write statement sites in %d functions", nWrite, len(writeFns)))
	}

	// R17.3 ReadOnly field: stores and Mapper literals
	roStores := 0
	roParam := map[*ssa.Function]int{} // constructor -> index of the parameter stored into ReadOnly
	for _, pk := range p.KetoPackages() {
		for _, fn := range p.KetoFuncs(core.RelPath(pk.PkgPath)) {
			core.Instrs(fn, func(_ *ssa.BasicBlock, _ int, ins ssa.Instruction) {
				st, ok := ins.(*ssa.Store)
				if !ok {
					return
				}
				fa, ok := st.Addr.(*ssa.FieldAddr)
				if !ok {
					return
				}
				pt, ok := fa.X.Type().Underlying().(*types.Pointer)
				if !ok || !core.IsNamed(pt.Elem(), relPkg, "Mapper") {
					return
				}
				if pt.Elem().Underlying().(*types.Struct).Field(fa.Field).Name() != "ReadOnly" {
					return
				}
				roStores++
				name := core.FuncName(fn)
				k, isConst := st.Val.(*ssa.Const)
				okStore := isConst && k.Value != nil && k.Value.String() == "true" && strings.HasSuffix(name, ".ReadOnlyMapper")
				_, fresh := fa.X.(*ssa.Alloc)
				// a constructor shared by the two providers: the flag is a parameter of it, and what
				// each caller on a read path passes is judged under R17.5
				if par, isPar := st.Val.(*ssa.Parameter); isPar && fresh && fn.Parent() == nil {
					for i, q := range fn.Params {
						if q == par {
							roParam[fn] = i
							okStore = true
						}
					}
				}
				r.Check(okStore && fresh, "R17.3", name, "store Mapper.ReadOnly", p.Pos(ins.Pos()),
					"ReadOnly is set on a fresh Mapper to the constant true inside ReadOnlyMapper, or to a parameter of a constructor whose callers are judged under R17.5",
					"Mapper.ReadOnly is written outside ReadOnlyMapper's literal (or with a non-constant): the read-only guarantee of R17.4 no longer follows from construction")
			})
		}
	}
	if roStores == 0 {
		r.Undecide("R17.3", "", "store Mapper.ReadOnly", "", "no store to Mapper.ReadOnly found: ReadOnlyMapper no longer builds a read-only mapper, or the field moved")
	}

	// R17.4 guarded sites
	guarded, all := mapperGuardedSites(c)
	judgedTop := map[*ssa.Function]bool{}
	for _, call := range all {
		fn := call.Parent()
		if core.FuncPkg(fn).Path() != relPkg || p.IsTestFile(call.Pos()) {
			continue
		}
		top := core.Outermost(fn)
		if top.Signature.Recv() == nil || !core.IsNamed(top.Signature.Recv().Type(), relPkg, "Mapper") {
			continue
		}
		judgedTop[top] = true
		r.Check(guarded[call.(ssa.Instruction)], "R17.4", core.FuncName(fn), "call MapStringsToUUIDs", p.Pos(call.Pos()),
			"the writing mapping call is on the false branch of m.ReadOnly",
			"Mapper method calls the writing MapStringsToUUIDs without being on the false branch of m.ReadOnly: a read-only mapper would insert name mappings")
	}
	// floor: each of the three mapping directions that take strings does its string-to-UUID
	// mapping through a call judged above (its own, or that of a helper the three share)
	r.Floor("R17.4", 1, "the writing mapping call of the Mapper")
	for _, mn := range []string{"FromQuery", "FromTuple", "FromSubjectSet"} {
		fn := p.Func("(*internal/relationtuple.Mapper)." + mn)
		if fn == nil {
			r.Undecide("R17.4", "", "anchor Mapper."+mn, "", "not found")
			continue
		}
		hit := judgedTop[fn]
		for _, g := range core.Closures(fn) {
			core.Instrs(g, func(_ *ssa.BasicBlock, _ int, ins ssa.Instruction) {
				if ci, ok := ins.(ssa.CallInstruction); ok {
					if sc := ci.Common().StaticCallee(); sc != nil && judgedTop[core.Outermost(sc)] {
						hit = true
					}
				}
			})
		}
		if !hit {
			r.Undecide("R17.4", core.FuncName(fn), "writing mapping call", p.Pos(fn.Pos()), "no call of MapStringsToUUIDs (direct or through a Mapper helper) was recognised in this mapping direction")
		}
	}

	// R17.2 / R17.5 reachability
	var roots []*ssa.Function
	for _, e := range entries {
		if e.Kind == "read" || e.Kind == "syntax" {
			roots = append(roots, e.Fn)
		}
	}
	g := p.KG()
	skip := func(e *core.KEdge) bool {
		return e.Site != nil && guarded[e.Site]
	}
	reach := g.Reach(roots, skip)
	r.Note("reachable_functions_from_read_and_syntax", len(reach.Parent))
	r.Sites += len(reach.Parent)
	r.Note("dynamic_calls_resolved_by_signature_only", g.Fallbacks)

	mapperObj := func(f *ssa.Function) bool {
		return f.Name() == "Mapper" && f.Signature.Recv() != nil && f.Signature.Params().Len() == 0 &&
			f.Signature.Results().Len() == 1 && core.IsNamed(f.Signature.Results().At(0).Type(), relPkg, "Mapper")
	}
	for _, e := range entries {
		if e.Kind != "read" && e.Kind != "syntax" {
			continue
		}
		er := g.Reach([]*ssa.Function{e.Fn}, skip)
		var bad []string
		for f := range er.Parent {
			if mapperObj(f) {
				bad = append(bad, "R17.2 calls the writing mapper provider: "+er.Path(f))
			}
			if ws, ok := writeFns[f]; ok {
				bad = append(bad, fmt.Sprintf("reaches write statement %s (%s): %s", core.ObjName(ws[0].Callee), p.Pos(ws[0].Call.Pos()), er.Path(f)))
			}
			// a Mapper literal on a read path other than ReadOnlyMapper's
			if pi, isCtor := roParam[f]; isCtor {
				// every call of the shared constructor that a read path can take passes the constant true
				for _, in := range g.In[f] {
					if _, reached := er.Parent[in.Caller]; !reached && in.Caller != e.Fn {
						continue
					}
					if skip(in) {
						continue
					}
					okCall := false
					if ci, isCall := in.Site.(ssa.CallInstruction); isCall && in.Kind == "static" && ci.Common().StaticCallee() == f {
						args := ci.Common().Args
						if pi < len(args) {
							if k, isK := args[pi].(*ssa.Const); isK && k.Value != nil && k.Value.String() == "true" {
								okCall = true
							}
						}
					}
					if !okCall {
						bad = append(bad, "R17.3 builds a Mapper that is not read-only (the constructor "+core.FuncName(f)+" is not called with the constant true from "+core.FuncName(in.Caller)+"): "+er.Path(f))
					}
				}
			} else if core.IsKeto(core.FuncPkg(f)) && !strings.HasSuffix(core.FuncName(f), ".ReadOnlyMapper") {
				core.Instrs(f, func(_ *ssa.BasicBlock, _ int, ins ssa.Instruction) {
					if a, ok := ins.(*ssa.Alloc); ok {
						if pt, ok := a.Type().(*types.Pointer); ok && core.IsNamed(pt.Elem(), relPkg, "Mapper") {
							if _, isPtr := pt.Elem().(*types.Pointer); !isPtr {
								bad = append(bad, "R17.3 builds a Mapper outside ReadOnlyMapper: "+er.Path(f))
							}
						}
					}
				})
			}
		}
		if len(bad) == 0 {
			r.Discharge("R17.5", core.FuncName(e.Fn), "entry "+e.Kind+"/"+e.Transport+" "+e.Verb+" "+e.Path, e.Pos,
				fmt.Sprintf("%d functions reachable, none executes a write statement, calls Mapper(), or builds a writable Mapper", len(er.Parent)))
		} else {
			for _, b := range bad {
				r.Violate("R17.5", core.FuncName(e.Fn), "entry "+e.Kind+"/"+e.Transport+" "+e.Verb+" "+e.Path, e.Pos, b)
			}
		}
	}
	r.Floor("R17.5", 15, "8+1 REST routes, 5+1 gRPC methods on the read and syntax APIs")

	// positive self-test: the write entry points must reach the write set,
	// otherwise the graph is too coarse/too thin to mean anything
	for _, e := range entries {
		if e.Kind != "write" {
			continue
		}
		er := g.Reach([]*ssa.Function{e.Fn}, nil)
		hit := false
		for f := range er.Parent {
			if _, ok := writeFns[f]; ok {
				hit = true
			}
		}
		if hit {
			r.Discharge("R17.0", core.FuncName(e.Fn), "self-test write entry "+e.Verb+" "+e.Path, e.Pos, "write entry point reaches the write set (the reachability is not vacuous)")
		} else {
			r.Undecide("R17.0", core.FuncName(e.Fn), "self-test write entry "+e.Verb+" "+e.Path, e.Pos, "a write entry point does not reach any write statement: the call graph misses the storage layer, read-side verdicts are not to be believed")
		}
	}
	r.Floor("R17.0", 5, "3 REST + 2 gRPC write entry points")
}
