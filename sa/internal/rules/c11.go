package rules

import (
	"fmt"
	"go/token"
	"go/types"
	"strings"

	"golang.org/x/tools/go/ssa"

	"ketosa/internal/core"
)

func init() {
	Register(&Property{
		ID: "C11",
		Explanation: "Decides the two structural halves of 'a configuration that type-checks cannot fail at check time': (R11.1) every AST node kind and operator the parser can construct has a case in every dispatch of the check engine (no 'not implemented' for parsed configurations); (R11.2) every AST field that the engine later consumes as a relation or namespace name has its deferred type check registered where the node is built, on the token the field was taken from (computed subject set and traverse relation -> relation exists in the current namespace; traverse target relation -> every type of the traversed relation has it; subject types -> namespace exists / namespace has relation); (R11.3) parse runs the deferred checks whenever no syntax error occurred and runs every registered check; (R11.4) the deferred checks that quantify over all types of a relation have no early exit on success (every type is checked); (R11.11) a class name that repeats is reported (the type checks resolve a name to its first declaration, the namespace manager to its last); (R11.10) no case-folding function is called in the parser, the type checks, the namespace look-ups or the engine (names are compared exactly in every layer); (R11.9) the exhausted side of every depth-budget comparison in package schema records an error; (R11.8) the expression-parsing functions return nil only after an error was recorded (by them, by a failed match, or by the function of the family whose nil result they pass on), so no permission is dropped silently; (R11.7) the parser never wraps a possibly-nil pointer into an AST interface (a typed nil passes every '== nil' test and is dereferenced by the engine at check time); (R11.6) a deferred check reads no parser field that parsing overwrites as it goes (the current namespace, the look-ahead) and writes nothing but the error list, so its outcome depends only on the finished parse; (R11.5) the relations collected for a class are only ever appended to, so no declared relation or permission is lost from the AST the engine evaluates. " +
			"Not decided: that the type checker's rule for SubjectSet<T,R>-typed traversals equals what the engine evaluates (a semantic comparison of two algorithms; known to differ, see DESIGN.md F14).",
		Assumptions: []string{"the slot table field -> required check constructor (DESIGN.md R11.2) is the specification of which check guards which field"},
		Run:         runC11,
	})
}

func runC11(c *Ctx) {
	r011(c, "R11.1")
	r112(c)
	r113(c)
	r114(c)
	r115(c)
	r116(c)
	r117(c)
	r118(c)
	r119(c)
	r1111(c)
	noCaseFolding(c, "R11.10", []string{schemaRel, "internal/namespace", "internal/check", "internal/driver/config"})
}

// itemOfVal: v is <item>.Val ; returns the origin of the item value.
func itemOfVal(v ssa.Value) ssa.Value {
	switch x := v.(type) {
	case *ssa.Field:
		if core.IsNamed(x.X.Type(), schemaPkg, "item") {
			return itemCell(x.X)
		}
	case *ssa.UnOp:
		if x.Op == token.MUL {
			if fa, ok := x.X.(*ssa.FieldAddr); ok && core.IsNamed(fa.X.Type(), schemaPkg, "item") {
				if fv := fieldVarOf(fa); fv != nil && fv.Name() == "Val" {
					return itemCell(fa.X)
				}
			}
		}
	}
	return nil
}

// itemCell normalises an item variable: a load of a local cell, the cell
// itself, or a parameter spilled into a cell all denote the cell.
func itemCell(v ssa.Value) ssa.Value {
	for i := 0; i < 4; i++ {
		switch x := v.(type) {
		case *ssa.UnOp:
			if x.Op == token.MUL {
				v = x.X
				continue
			}
		case *ssa.Parameter:
			if x.Referrers() != nil {
				for _, ref := range *x.Referrers() {
					if st, ok := ref.(*ssa.Store); ok && st.Val == v {
						if a, ok := st.Addr.(*ssa.Alloc); ok {
							return a
						}
					}
				}
			}
		case *ssa.FreeVar:
			if b := core.FreeVarBinding(x); b != nil {
				v = b
				continue
			}
		}
		break
	}
	return v
}

func sameItem(a, b ssa.Value) bool {
	if a == nil || b == nil {
		return false
	}
	return itemCell(a) == itemCell(b)
}

// addedChecks lists the check constructors registered through p.addCheck in fn.
type addedCheck struct {
	ctor string
	args []ssa.Value
	ins  ssa.Instruction
}

func addedChecksIn(fn *ssa.Function) []addedCheck {
	var out []addedCheck
	core.Instrs(fn, func(_ *ssa.BasicBlock, _ int, ins ssa.Instruction) {
		ci, ok := ins.(*ssa.Call)
		if !ok {
			return
		}
		sc := ci.Common().StaticCallee()
		if sc == nil || sc.Name() != "addCheck" {
			return
		}
		if ctor, ok := ci.Common().Args[1].(*ssa.Call); ok {
			if cs := ctor.Common().StaticCallee(); cs != nil {
				out = append(out, addedCheck{cs.Name(), ctor.Common().Args, ins})
			}
		}
	})
	return out
}

func r112(c *Ctx) {
	p, r := c.P, c.R
	// required check per (node type, field)
	type req struct {
		ctor string
	}
	n := 0
	for _, fn := range p.KetoFuncs(schemaRel) {
		checks := addedChecksIn(fn)
		core.Instrs(fn, func(_ *ssa.BasicBlock, _ int, ins ssa.Instruction) {
			al, ok := ins.(*ssa.Alloc)
			if !ok {
				return
			}
			nt := core.NamedOf(al.Type())
			if nt == nil || nt.Obj().Pkg() == nil || nt.Obj().Pkg().Path() != astPkg {
				return
			}
			typ := nt.Obj().Name()
			if typ != "ComputedSubjectSet" && typ != "TupleToSubjectSet" && typ != "RelationType" {
				return
			}
			// field stores of this literal
			fields := map[string]ssa.Value{}
			if al.Referrers() != nil {
				for _, ref := range *al.Referrers() {
					fa, ok := ref.(*ssa.FieldAddr)
					if !ok || fa.Referrers() == nil {
						continue
					}
					for _, r2 := range *fa.Referrers() {
						if st, ok := r2.(*ssa.Store); ok && st.Addr == fa {
							fields[fieldVarOf(fa).Name()] = st.Val
						}
					}
				}
			}
			name := core.FuncName(fn)
			has := func(ctor string, match func(args []ssa.Value) bool) bool {
				for _, ck := range checks {
					if ck.ctor == ctor && match(ck.args) && ck.ins.Block().Dominates(al.Block()) || ck.ctor == ctor && match(ck.args) && core.InstrDominates(ck.ins, al) {
						return true
					}
				}
				// registered after the literal but before the function returns it: same block chain
				for _, ck := range checks {
					if ck.ctor == ctor && match(ck.args) && (al.Block().Dominates(ck.ins.Block()) || ck.ins.Block().Dominates(al.Block())) {
						return true
					}
				}
				// registered in each of several branches: every path to the return of the
				// literal passes one
				isEv := map[ssa.Instruction]bool{}
				for _, ck := range checks {
					if ck.ctor == ctor && match(ck.args) {
						isEv[ck.ins] = true
					}
				}
				if len(isEv) == 0 {
					return false
				}
				res := core.PathCount(fn, func(i ssa.Instruction) int {
					if isEv[i] {
						return 1
					}
					return 0
				}, nil, nil)
				okAll, any := true, false
				for ret, iv := range res {
					if al.Block().Dominates(ret.Block()) {
						any = true
						if iv.Lo < 1 {
							okAll = false
						}
					}
				}
				return any && okAll
			}
			switch typ {
			case "ComputedSubjectSet":
				n++
				it := itemOfVal(fields["Relation"])
				ok := it != nil && has("checkCurrentNamespaceHasRelation", func(a []ssa.Value) bool { return len(a) == 2 && sameItem(a[1], it) })
				r.Check(ok, "R11.2", name, "ComputedSubjectSet.Relation", p.Pos(al.Pos()),
					"the relation name comes from a token for which checkCurrentNamespaceHasRelation is registered",
					"a computed subject set is built without registering checkCurrentNamespaceHasRelation on the token its Relation comes from: an undeclared relation is accepted and fails at check time")
			case "TupleToSubjectSet":
				n++
				it := itemOfVal(fields["Relation"])
				okRel := it != nil && has("checkCurrentNamespaceHasRelation", func(a []ssa.Value) bool { return len(a) == 2 && sameItem(a[1], it) })
				css := core.ValueOrigin(fields["ComputedSubjectSetRelation"])
				okCss := has("checkAllRelationsTypesHaveRelation", func(a []ssa.Value) bool {
					return len(a) == 3 && sameItem(a[1], it) && (core.ValueOrigin(a[2]) == css || sameCellLoad(a[2], fields["ComputedSubjectSetRelation"]))
				})
				r.Check(okRel, "R11.2", name, "TupleToSubjectSet.Relation", p.Pos(al.Pos()),
					"checkCurrentNamespaceHasRelation is registered on the traversed relation's token",
					"a traverse node is built without checking that the traversed relation exists in the current namespace")
				r.Check(okCss, "R11.2", name, "TupleToSubjectSet.ComputedSubjectSetRelation", p.Pos(al.Pos()),
					"checkAllRelationsTypesHaveRelation is registered for the traversed relation and the target relation",
					"a traverse node is built without checking that every type of the traversed relation declares the target relation")
			case "RelationType":
				nsV, relV := fields["Namespace"], fields["Relation"]
				if nsV == nil {
					return
				}
				n++
				nsIt := itemOfVal(nsV)
				if relV == nil {
					ok := nsIt != nil && has("checkNamespaceExists", func(a []ssa.Value) bool { return len(a) == 1 && sameItem(a[0], nsIt) })
					r.Check(ok, "R11.2", name, "RelationType{Namespace}", p.Pos(al.Pos()),
						"checkNamespaceExists is registered on the namespace token", "a subject type is recorded without checking that the namespace exists")
				} else {
					relIt := itemOfVal(relV)
					ok := nsIt != nil && relIt != nil && has("checkNamespaceHasRelation", func(a []ssa.Value) bool { return len(a) == 2 && sameItem(a[0], nsIt) && sameItem(a[1], relIt) })
					r.Check(ok, "R11.2", name, "RelationType{Namespace,Relation}", p.Pos(al.Pos()),
						"checkNamespaceHasRelation is registered on the namespace and relation tokens", "a SubjectSet<N,R> type is recorded without checking that N declares R")
				}
			}
		})
	}
	if n < 3 {
		r.Undecide("R11.2", "", "AST literals with name fields", "", fmt.Sprintf("%d found, floor 3", n))
	}
}

func sameCellLoad(a, b ssa.Value) bool {
	ua, ok1 := a.(*ssa.UnOp)
	ub, ok2 := b.(*ssa.UnOp)
	return ok1 && ok2 && ua.X == ub.X
}

func r113(c *Ctx) {
	p, r := c.P, c.R
	parse := p.Func("(*internal/schema.parser).parse")
	tc := p.Func("(*internal/schema.parser).typeCheck")
	if parse == nil || tc == nil {
		r.Undecide("R11.3", "", "anchor parse/typeCheck", "", "not found")
		return
	}
	// typeCheck called on the branch len(p.errors) == 0, and every return passes that test
	var call *ssa.Call
	core.Instrs(parse, func(_ *ssa.BasicBlock, _ int, ins ssa.Instruction) {
		if ci, ok := ins.(*ssa.Call); ok && ci.Common().StaticCallee() == tc {
			call = ci
		}
	})
	ok, extra := false, false
	if call != nil {
		for _, cd := range core.CondsAt(call.Block()) {
			if op, x, y, isCmp := core.BinCmp(cd.V); isCmp {
				if k, isK := core.IntConst(y); isK && k == 0 {
					if lc, isLen := x.(*ssa.Call); isLen {
						if bi, ok2 := lc.Call.Value.(*ssa.Builtin); ok2 && bi.Name() == "len" {
							if (op == token.EQL && cd.True) || (op == token.NEQ && !cd.True) {
								// and nothing else decides: the call sits directly on that edge
								if call.Block().Idom() == cd.At {
									ok = true
								} else {
									extra = true
								}
							}
						}
					}
				}
			}
		}
		// the guarded call must be on every path to the return: the If block dominates the return and the other edge skips only when errors exist
	}
	r.Check(ok, "R11.3", core.FuncName(parse), "typeCheck when no syntax error", p.Pos(parse.Pos()),
		"parse runs the deferred type checks exactly when no error was recorded", badR113(extra))
	// typeCheck runs every check: a range loop with a dynamic call and no early exit
	loopCall, earlyExit := false, false
	core.Instrs(tc, func(b *ssa.BasicBlock, _ int, ins ssa.Instruction) {
		if ci, ok := ins.(*ssa.Call); ok && ci.Common().StaticCallee() == nil && !ci.Common().IsInvoke() && core.InLoop(b) {
			if _, isB := ci.Common().Value.(*ssa.Builtin); !isB {
				loopCall = true
			}
		}
		if _, ok := ins.(*ssa.Return); ok && core.InLoop(b) {
			earlyExit = true
		}
	})
	r.Check(loopCall && !earlyExit && countReturns(tc) == 1, "R11.3", core.FuncName(tc), "runs every registered check", p.Pos(tc.Pos()),
		"typeCheck calls every registered check in a loop without early exit", "typeCheck does not run all registered checks")
}

func countReturns(fn *ssa.Function) int {
	n := 0
	core.Instrs(fn, func(_ *ssa.BasicBlock, _ int, ins ssa.Instruction) {
		if _, ok := ins.(*ssa.Return); ok {
			n++
		}
	})
	return n
}

// deferredTypeCheckCode: closures with the typeCheck signature, and their static callees in
// the schema package that take the parser.
func deferredTypeCheckCode(p *core.Program, parserT types.Type, tcSig *types.Signature) map[*ssa.Function]bool {
	isParserPtr := func(t types.Type) bool {
		pt, ok := t.Underlying().(*types.Pointer)
		return ok && types.Identical(pt.Elem(), parserT)
	}
	// deferred code: closures with the typeCheck signature, and their static callees that take the parser
	deferred := map[*ssa.Function]bool{}
	var work []*ssa.Function
	for _, fn := range p.KetoFuncs(schemaRel) {
		if fn.Parent() != nil && tcSig != nil && core.SigIdentical(fn.Signature, tcSig) {
			deferred[fn] = true
			work = append(work, fn)
		}
	}
	for len(work) > 0 {
		fn := work[0]
		work = work[1:]
		core.Instrs(fn, func(_ *ssa.BasicBlock, _ int, ins ssa.Instruction) {
			if ci, ok := ins.(ssa.CallInstruction); ok {
				if sc := ci.Common().StaticCallee(); sc != nil && !deferred[sc] && core.FuncPkg(sc) != nil && core.RelPath(core.FuncPkg(sc).Path()) == schemaRel {
					takes := false
					for _, par := range sc.Params {
						if isParserPtr(par.Type()) {
							takes = true
						}
					}
					if takes {
						deferred[sc] = true
						work = append(work, sc)
					}
				}
			}
		})
	}
	return deferred
}

// r114: loops over a relation's types in the type checks have no early exit
// that is not an error report.
func r114(c *Ctx) {
	p, r := c.P, c.R
	n := 0
	parserT := p.LookupType(core.KetoMod+"/"+schemaRel, "parser")
	tcT := p.LookupType(core.KetoMod+"/"+schemaRel, "typeCheck")
	if parserT == nil || tcT == nil {
		r.Undecide("R11.4", "", "anchor parser/typeCheck types", "", "not found")
		return
	}
	tcSig, _ := tcT.Underlying().(*types.Signature)
	deferred := deferredTypeCheckCode(p, parserT, tcSig)
	for _, fn := range p.KetoFuncs(schemaRel) {
		if !deferred[fn] {
			continue
		}
		// loops ranging over a []ast.RelationType
		core.Instrs(fn, func(b *ssa.BasicBlock, _ int, ins ssa.Instruction) {
			ia, ok := ins.(*ssa.IndexAddr)
			if !ok || !core.InLoop(b) {
				return
			}
			if !strings.Contains(ia.X.Type().String(), "RelationType") {
				return
			}
			n++
			// any Return inside the loop body (blocks on a common cycle with b)
			bad := ""
			for _, lb := range fn.Blocks {
				if !sameCycle(lb, b) && lb != b {
					// blocks dominated by the loop body but leaving the function
				}
				for _, i2 := range lb.Instrs {
					if _, isRet := i2.(*ssa.Return); isRet && b.Dominates(lb) && lb != b {
						// leaving from inside the iteration: allowed only after an error report in that block
						reported := false
						for _, i3 := range lb.Instrs {
							if ci, ok := i3.(*ssa.Call); ok {
								if sc := ci.Common().StaticCallee(); sc != nil && (sc.Name() == "addErr" || sc.Name() == "addFatal") {
									reported = true
								}
							}
						}
						if !reported {
							bad = p.Pos(lastPosIn(lb))
						}
					}
				}
			}
			r.Check(bad == "", "R11.4", core.FuncName(fn), "for-all loop over relation types", p.Pos(ia.Pos()),
				"the loop over the relation's types has no exit without an error report: every type is checked",
				"the loop over the relation's types returns from inside an iteration without reporting an error (at "+bad+"): later types are not checked, so a union type whose other members lack the relation is accepted")
		})
	}
	if n < 1 {
		r.Undecide("R11.4", "", "for-all loops over relation types", "", "none found")
	}
}

// r115: p.namespace.Relations is only appended to (or reset with the namespace).
func r115(c *Ctx) {
	p, r := c.P, c.R
	n := 0
	for _, fn := range p.KetoFuncs(schemaRel) {
		core.Instrs(fn, func(_ *ssa.BasicBlock, _ int, ins ssa.Instruction) {
			st, ok := ins.(*ssa.Store)
			if !ok {
				return
			}
			fa, ok := st.Addr.(*ssa.FieldAddr)
			if !ok || fieldVarOf(fa) == nil || fieldVarOf(fa).Name() != "Relations" {
				return
			}
			// the field of the parser's current namespace
			inner, ok := fa.X.(*ssa.FieldAddr)
			if !ok || !core.IsNamed(inner.X.Type(), schemaPkg, "parser") {
				return
			}
			n++
			okAppend := false
			if call, ok := st.Val.(*ssa.Call); ok {
				if bi, ok := call.Call.Value.(*ssa.Builtin); ok && bi.Name() == "append" {
					if u, ok := call.Call.Args[0].(*ssa.UnOp); ok {
						if f2, ok := u.X.(*ssa.FieldAddr); ok && fieldVarOf(f2) != nil && fieldVarOf(f2).Name() == "Relations" {
							okAppend = true
						}
					}
				}
			}
			r.Check(okAppend, "R11.5", core.FuncName(fn), "store to namespace.Relations", p.Pos(st.Pos()),
				"the class's relations are extended by append",
				"the relations collected so far for the class are replaced instead of appended to: relations or permissions declared earlier in the class vanish from the AST, and checks on them fail with 'relation does not exist'")
		})
	}
	if n < 2 {
		r.Undecide("R11.5", "", "stores to namespace.Relations", "", fmt.Sprintf("%d found, floor 2 (related, permits)", n))
	}
}

func badR113(extra bool) string {
	if extra {
		return "the deferred type checks run only under a further condition besides 'no syntax error': documents for which that condition is false are accepted unchecked"
	}
	return "parse does not run the deferred type checks on the error-free path: undeclared names are accepted"
}

// ---- R11.6 deferred checks depend only on the finished parse -------------------------------------

// r116: the deferred type checks run after the whole document was parsed. A
// check (a closure of type typeCheck and what it calls with the parser) may
// read the accumulated result, but (a) not a field that parsing overwrites as
// it goes (the "current namespace", the look-ahead): at check time it holds
// the value of the last class, not of the class the check was registered in;
// (b) it writes nothing but the error list: a check whose outcome depends on
// what another check stored is order dependent and can skip a look-up.
func r116(c *Ctx) {
	p, r := c.P, c.R
	parserT := p.LookupType(core.KetoMod+"/"+schemaRel, "parser")
	tcT := p.LookupType(core.KetoMod+"/"+schemaRel, "typeCheck")
	if parserT == nil || tcT == nil {
		r.Undecide("R11.6", "", "anchor parser/typeCheck types", "", "not found")
		return
	}
	tcSig, _ := tcT.Underlying().(*types.Signature)
	isParserPtr := func(t types.Type) bool {
		pt, ok := t.Underlying().(*types.Pointer)
		return ok && types.Identical(pt.Elem(), parserT)
	}
	deferred := deferredTypeCheckCode(p, parserT, tcSig)
	// fields overwritten during parsing: a Store to the field (outside the deferred code and constructors)
	// whose value is not an append to the field itself
	overwritten := map[*types.Var]bool{}
	for _, fn := range p.KetoFuncs(schemaRel) {
		if deferred[fn] || strings.HasPrefix(core.Outermost(fn).Name(), "Parse") || strings.HasPrefix(core.Outermost(fn).Name(), "new") {
			continue
		}
		core.Instrs(fn, func(_ *ssa.BasicBlock, _ int, ins ssa.Instruction) {
			st, ok := ins.(*ssa.Store)
			if !ok {
				return
			}
			fa, ok := st.Addr.(*ssa.FieldAddr)
			if !ok || !isParserPtr(fa.X.Type()) {
				return
			}
			fv := fieldVarOf(fa)
			if fv == nil {
				return
			}
			if call, ok := st.Val.(*ssa.Call); ok {
				if bi, ok := call.Call.Value.(*ssa.Builtin); ok && bi.Name() == "append" {
					return // accumulated, not overwritten
				}
			}
			overwritten[fv] = true
		})
	}
	n := 0
	for fn := range deferred {
		var bad []string
		core.Instrs(fn, func(_ *ssa.BasicBlock, _ int, ins ssa.Instruction) {
			fa, ok := ins.(*ssa.FieldAddr)
			if !ok || !isParserPtr(fa.X.Type()) || fa.Referrers() == nil {
				return
			}
			fv := fieldVarOf(fa)
			if fv == nil {
				return
			}
			for _, ref := range *fa.Referrers() {
				switch x := ref.(type) {
				case *ssa.Store:
					if x.Addr == ssa.Value(fa) && fv.Name() != "errors" {
						bad = append(bad, fmt.Sprintf("writes parser.%s at %s", fv.Name(), p.Pos(x.Pos())))
					}
				case *ssa.FieldAddr:
					if overwritten[fv] {
						bad = append(bad, fmt.Sprintf("reads parser.%s at %s, which parsing overwrites as it goes: at check time it holds the value of the last class parsed", fv.Name(), p.Pos(x.Pos())))
					}
				case *ssa.UnOp:
					if overwritten[fv] {
						bad = append(bad, fmt.Sprintf("reads parser.%s at %s, which parsing overwrites as it goes: at check time it holds the value of the last class parsed", fv.Name(), p.Pos(x.Pos())))
					}
					if x.Referrers() != nil {
						for _, r2 := range *x.Referrers() {
							if mu, ok := r2.(*ssa.MapUpdate); ok && mu.Map == ssa.Value(x) {
								bad = append(bad, fmt.Sprintf("updates the map parser.%s at %s", fv.Name(), p.Pos(mu.Pos())))
							}
						}
					}
				}
			}
		})
		n++
		r.Check(len(bad) == 0, "R11.6", core.FuncName(fn), "deferred check reads only the finished parse", p.Pos(fn.Pos()),
			"reads no field that parsing overwrites and writes nothing but the error list", strings.Join(dedupe(bad), "; ")+": the outcome of the check depends on where parsing ended or on what another check stored")
	}
	if n < 4 {
		r.Undecide("R11.6", "", "deferred checks", "", fmt.Sprintf("%d found (floor 4)", n))
	}
}

// ---- R11.7 no nil pointer is wrapped into an AST interface ------------------------------------------

// r117: an ast.Child that holds a nil *T is not == nil, so every "nothing was
// parsed" test on the interface passes it on, and the engine's type switch then
// dereferences it at check time. Every conversion of a pointer to an AST
// interface in the parser converts a pointer that cannot be nil: a fresh
// allocation, or a value tested against nil on the way.
func r117(c *Ctx) {
	p, r := c.P, c.R
	n := 0
	isASTIface := func(t types.Type) bool {
		nn := core.NamedOf(t)
		if nn == nil || nn.Obj().Pkg() == nil || nn.Obj().Pkg().Path() != astPkg {
			return false
		}
		_, ok := nn.Underlying().(*types.Interface)
		return ok
	}
	for _, fn := range p.KetoFuncs(schemaRel) {
		core.Instrs(fn, func(b *ssa.BasicBlock, _ int, ins ssa.Instruction) {
			mi, ok := ins.(*ssa.MakeInterface)
			if !ok || !isASTIface(mi.Type()) {
				return
			}
			if _, isPtr := mi.X.Type().Underlying().(*types.Pointer); !isPtr {
				return
			}
			n++
			var nonNilAt func(v ssa.Value, d int, b *ssa.BasicBlock, fn *ssa.Function, at ssa.Instruction) bool
			nonNil := func(v ssa.Value, d int) bool { return nonNilAt(v, d, b, fn, mi) }
			nonNilAt = func(v ssa.Value, d int, b *ssa.BasicBlock, fn *ssa.Function, at ssa.Instruction) bool {
				nonNil := func(v ssa.Value, d int) bool { return nonNilAt(v, d, b, fn, at) }
				if d > 5 {
					return false
				}
				switch x := v.(type) {
				case *ssa.Parameter:
					// a helper's parameter: non-nil when the argument is, at every live (direct) call
					hf := x.Parent()
					idx := -1
					for i, q := range hf.Params {
						if q == x {
							idx = i
						}
					}
					if idx < 0 || (hf.Object() != nil && hf.Object().Exported()) {
						return false
					}
					kg := p.KG()
					live, _ := kg.Live()
					nCalls := 0
					for _, e := range kg.In[hf] {
						if !live[e.Caller] {
							continue
						}
						ci, isCall := e.Site.(ssa.CallInstruction)
						if e.Kind != "static" || !isCall || idx >= len(ci.Common().Args) {
							return false
						}
						nCalls++
						if !nonNilAt(ci.Common().Args[idx], d+1, e.Site.Block(), e.Caller, e.Site) {
							return false
						}
					}
					return nCalls > 0
				case *ssa.Alloc, *ssa.FieldAddr, *ssa.IndexAddr, *ssa.MakeInterface:
					return true
				case *ssa.Phi:
					for _, e := range x.Edges {
						if !nonNil(e, d+1) {
							return false
						}
					}
					return true
				case *ssa.Call:
					// a constructor that only returns fresh allocations
					if sc := x.Call.StaticCallee(); sc != nil && sc.Blocks != nil {
						all := true
						for _, bb := range sc.Blocks {
							if ret, ok := bb.Instrs[len(bb.Instrs)-1].(*ssa.Return); ok && len(ret.Results) > 0 {
								if _, fresh := ret.Results[0].(*ssa.Alloc); !fresh {
									all = false
								}
							}
						}
						if all {
							return true
						}
					}
				}
				// tested against nil on every path to the conversion (the same value, or another
				// load of the same local variable with no store to it in between)
				cellOf := func(x ssa.Value) *ssa.Alloc {
					if u, ok := x.(*ssa.UnOp); ok && u.Op == token.MUL {
						if al, ok := u.X.(*ssa.Alloc); ok {
							return al
						}
					}
					return nil
				}
				for _, cd := range core.CondsAt(b) {
					op, cx, cy, ok := core.BinCmp(cd.V)
					if !ok || !core.IsNilConst(cy) || !((op == token.NEQ && cd.True) || (op == token.EQL && !cd.True)) {
						continue
					}
					if cx == v {
						return true
					}
					if al := cellOf(v); al != nil && cellOf(cx) == al {
						stored := false
						for _, st := range core.CellStores(al) {
							sb := st.Block()
							if st.Parent() != fn || sb == cd.At || !cd.At.Dominates(sb) || !sb.Dominates(b) {
								continue
							}
							if sb == b {
								// only a store before the conversion matters
								before := false
								for _, i2 := range b.Instrs {
									if i2 == ssa.Instruction(st) {
										before = true
										break
									}
									if i2 == at {
										break
									}
								}
								if !before {
									continue
								}
							}
							stored = true
						}
						if !stored {
							return true
						}
					}
				}
				return false
			}
			r.Check(nonNil(mi.X, 0), "R11.7", core.FuncName(fn), "pointer converted to "+types.TypeString(mi.Type(), func(*types.Package) string { return "ast" }), p.Pos(mi.Pos()),
				"the pointer wrapped into the interface is a fresh allocation or was tested against nil",
				"a pointer that can be nil is converted to an AST interface without a nil test: the interface is then not == nil, the 'nothing parsed' checks let it through, and the engine dereferences the nil node when a check reaches it (e.g. '!()')")
		})
	}
	if n < 3 {
		r.Undecide("R11.7", "", "pointer-to-AST-interface conversions in the parser", "", fmt.Sprintf("%d found (floor 3)", n))
	}
}

// ---- R11.8 the expression parser gives up only with an error -----------------------------------------

// r118: a nil result of the expression-parsing functions makes the caller stop
// parsing the permission (and the rest of the class). If no error was recorded
// the document is accepted with that permission silently missing. Every
// `return nil` of these functions is therefore (a) preceded in its block, or in
// the blocks that lead only to it, by a call that records an error, or (b)
// control dependent on the failure of something that records one itself: a
// nil result of another function of the family, a false result of
// match/matchIf, the parser's fatal flag, or the nesting-depth guard.
func r118(c *Ctx) {
	p, r := c.P, c.R
	pkgPath := core.KetoMod + "/" + schemaRel
	isFamilyResult := func(t types.Type) bool {
		if pt, ok := t.Underlying().(*types.Pointer); ok && core.IsNamed(pt.Elem(), astPkg, "SubjectSetRewrite") {
			return true
		}
		return core.IsNamed(t, astPkg, "Child")
	}
	family := map[*ssa.Function]bool{}
	for _, fn := range p.KetoFuncs(schemaRel) {
		if fn.Parent() != nil || fn.Signature.Recv() == nil {
			continue
		}
		res := fn.Signature.Results()
		if res.Len() == 1 && isFamilyResult(res.At(0).Type()) && core.NamedOf(fn.Signature.Recv().Type()) != nil && core.NamedOf(fn.Signature.Recv().Type()).Obj().Name() == "parser" {
			family[fn] = true
		}
	}
	recordsError := func(ins ssa.Instruction) bool {
		ci, ok := ins.(ssa.CallInstruction)
		if !ok {
			return false
		}
		if obj := core.CalleeObj(ci.Common()); obj != nil && obj.Pkg() != nil && obj.Pkg().Path() == pkgPath {
			switch obj.Name() {
			case "addFatal", "addErr":
				return true
			}
		}
		return false
	}
	n := 0
	for fn := range family {
		for _, b := range fn.Blocks {
			if len(b.Instrs) == 0 {
				continue
			}
			ret, ok := b.Instrs[len(b.Instrs)-1].(*ssa.Return)
			if !ok || len(ret.Results) != 1 {
				continue
			}
			// which predecessor edges deliver nil?
			var nilFrom []*ssa.BasicBlock
			switch x := ret.Results[0].(type) {
			case *ssa.Const:
				if x.IsNil() {
					nilFrom = append(nilFrom, b)
				}
			case *ssa.Phi:
				for i, e := range x.Edges {
					if k, ok := e.(*ssa.Const); ok && k.IsNil() {
						nilFrom = append(nilFrom, b.Preds[i])
					}
				}
			case *ssa.UnOp:
				// a load of the named result / a variable: judged where nil is stored -- not followed
			}
			for _, from := range nilFrom {
				n++
				okErr := false
				// (a) an error-recording call in the block or in single-predecessor blocks leading to it
				for cur, steps := from, 0; cur != nil && steps < 6; steps++ {
					for _, ins := range cur.Instrs {
						if recordsError(ins) {
							okErr = true
						}
					}
					if len(cur.Preds) != 1 {
						break
					}
					cur = cur.Preds[0]
				}
				// (b) control dependence on a failure that records its own error
				for _, cd := range core.CondsAt(from) {
					v := cd.V
					truth := cd.True
					for i := 0; i < 3; i++ {
						if u, ok := v.(*ssa.UnOp); ok && u.Op == token.NOT {
							v, truth = u.X, !truth
						} else {
							break
						}
					}
					if op, x, y, ok := core.BinCmp(v); ok {
						// callee result == nil
						if core.IsNilConst(y) && ((op == token.EQL && truth) || (op == token.NEQ && !truth)) {
							var fromFamily func(v ssa.Value, d int) bool
							fromFamily = func(v ssa.Value, d int) bool {
								if d > 5 {
									return false
								}
								switch z := v.(type) {
								case *ssa.Call:
									sc := z.Call.StaticCallee()
									return sc != nil && family[sc]
								case *ssa.MakeInterface:
									return fromFamily(z.X, d+1)
								case *ssa.ChangeInterface:
									return fromFamily(z.X, d+1)
								case *ssa.Phi:
									for _, e := range z.Edges {
										if !fromFamily(e, d+1) {
											return false
										}
									}
									return len(z.Edges) > 0
								}
								return false
							}
							if fromFamily(core.ValueOrigin(x), 0) || fromFamily(x, 0) {
								okErr = true
							}
						}
						// depth guard: depth <= 0 together with an addFatal is case (a); nothing here
					}
					if call, ok := v.(*ssa.Call); ok && !truth {
						if obj := core.CalleeObj(&call.Call); obj != nil && (obj.Name() == "match" || obj.Name() == "matchIf" || obj.Name() == "matchPropertyAccess") {
							okErr = true // a failed match has recorded the error
						}
					}
					// a predicate of the parser that records the error itself whenever it answers this
					// way (the nesting guard extracted into `if p.nestingExhausted(depth) { return nil }`)
					if call, ok := v.(*ssa.Call); ok && !okErr {
						if h := call.Call.StaticCallee(); h != nil && h.Blocks != nil && core.FuncPkg(h) != nil && core.FuncPkg(h).Path() == pkgPath && core.BoolType(call.Type()) {
							res := core.PathCount(h, func(ins ssa.Instruction) int {
								if recordsError(ins) {
									return 1
								}
								return 0
							}, nil, nil)
							all, nRet := true, 0
							for ret, iv := range res {
								if len(ret.Results) != 1 {
									all = false
									continue
								}
								k, isK := ret.Results[0].(*ssa.Const)
								if !isK || k.Value == nil {
									all = false // not a constant answer: cannot tell which paths give it
									continue
								}
								if (k.Value.String() == "true") == truth {
									nRet++
									if iv.Lo < 1 {
										all = false
									}
								}
							}
							if all && nRet > 0 {
								okErr = true
							}
						}
					}
					if u, ok := v.(*ssa.UnOp); ok && u.Op == token.MUL && truth {
						if fa, ok := u.X.(*ssa.FieldAddr); ok {
							if fv := fieldVarOf(fa); fv != nil && fv.Name() == "fatal" {
								okErr = true
							}
						}
					}
				}
				// the loop `for !p.fatal { ... }; return nil`: the return block is reached only when fatal is set
				if !okErr {
					for _, pr := range from.Preds {
						if len(pr.Instrs) > 0 {
							if ifi, ok := pr.Instrs[len(pr.Instrs)-1].(*ssa.If); ok {
								if u, ok := ifi.Cond.(*ssa.UnOp); ok && u.Op == token.MUL {
									if fa, ok := u.X.(*ssa.FieldAddr); ok {
										if fv := fieldVarOf(fa); fv != nil && fv.Name() == "fatal" && pr.Succs[0] == from {
											okErr = true
										}
									}
								}
							}
						}
					}
				}
				pos := p.Pos(ret.Pos())
				if lp := lastPos(from); lp.IsValid() {
					pos = p.Pos(lp)
				}
				r.Check(okErr, "R11.8", core.FuncName(fn), "nil result only with an error", pos,
					"the nil result follows an error-recording call, a failed match, a nil result of the same family, or the fatal flag",
					"the function returns nil on a path that records no error: the caller stops parsing the permission (and the rest of the class) and the document is accepted with the permission silently missing")
			}
		}
	}
	if n < 3 {
		r.Undecide("R11.8", "", "nil returns of the expression parser", "", fmt.Sprintf("%d found (floor 3)", n))
	}
}

// ---- R11.9 an exhausted nesting budget is an error, never an acceptance ------------------------------

// r119: the recursive type check and the expression parser carry a depth
// budget. When it is exhausted the rest of the structure has not been checked;
// the exhausted side of every comparison of that budget must record an error.
// A side that just stops accepts what it did not look at.
func r119(c *Ctx) {
	p, r := c.P, c.R
	pkgPath := core.KetoMod + "/" + schemaRel
	n := 0
	for _, fn := range p.KetoFuncs(schemaRel) {
		if fn.Parent() != nil {
			continue
		}
		// a self- or mutually recursive function with exactly one int parameter named like a budget
		var dp *ssa.Parameter
		for _, par := range fn.Params {
			if b, ok := par.Type().Underlying().(*types.Basic); ok && b.Kind() == types.Int && strings.Contains(strings.ToLower(par.Name()), "depth") {
				dp = par
			}
		}
		if dp == nil {
			continue
		}
		for _, b := range fn.Blocks {
			if len(b.Instrs) == 0 {
				continue
			}
			ifi, ok := b.Instrs[len(b.Instrs)-1].(*ssa.If)
			if !ok {
				continue
			}
			op, x, y, ok := core.BinCmp(ifi.Cond)
			if !ok || core.ValueOrigin(x) != ssa.Value(dp) {
				continue
			}
			if _, isK := core.IntConst(y); !isK {
				continue
			}
			exhausted := -1
			switch op {
			case token.LEQ, token.LSS, token.EQL:
				exhausted = 0
			case token.GTR, token.GEQ, token.NEQ:
				exhausted = 1
			}
			if exhausted < 0 {
				continue
			}
			n++
			// every path from the exhausted side to a return passes an error-recording call
			seen := map[*ssa.BasicBlock]bool{}
			leak := false
			var walk func(blk *ssa.BasicBlock)
			walk = func(blk *ssa.BasicBlock) {
				if seen[blk] || leak {
					return
				}
				seen[blk] = true
				for _, ins := range blk.Instrs {
					if ci, ok := ins.(ssa.CallInstruction); ok {
						if obj := core.CalleeObj(ci.Common()); obj != nil && obj.Pkg() != nil && obj.Pkg().Path() == pkgPath && (obj.Name() == "addErr" || obj.Name() == "addFatal") {
							return
						}
					}
				}
				if len(blk.Succs) == 0 {
					leak = true
					return
				}
				for _, sc := range blk.Succs {
					walk(sc)
				}
			}
			walk(b.Succs[exhausted])
			r.Check(!leak, "R11.9", core.FuncName(fn), "exhausted depth budget", p.Pos(ifi.Cond.Pos()),
				"the exhausted side of the depth comparison records an error",
				"when the nesting budget is used up the function goes on to return without recording an error: whatever lies deeper is accepted unchecked")
		}
	}
	if n < 2 {
		r.Undecide("R11.9", "", "depth comparisons in package schema", "", fmt.Sprintf("%d found (floor 2: expression nesting, recursive type check)", n))
	}
}

// ---- R11.10 names are compared exactly in every layer ------------------------------------------------

// noCaseFolding: relation and namespace names are case sensitive in the store,
// the engine and the namespace manager. A layer that folds case (EqualFold,
// ToLower, ToUpper) accepts what the others reject. No keto function on a
// configuration or request path calls a case-folding function.
func noCaseFolding(c *Ctx, rule string, rels []string) {
	p, r := c.P, c.R
	var bad []string
	nFns := 0
	for _, rel := range rels {
		for _, fn := range p.KetoFuncs(rel) {
			nFns++
			core.Instrs(fn, func(_ *ssa.BasicBlock, _ int, ins ssa.Instruction) {
				ci, ok := ins.(ssa.CallInstruction)
				if !ok {
					return
				}
				obj := core.CalleeObj(ci.Common())
				if obj == nil || obj.Pkg() == nil {
					return
				}
				if pth := obj.Pkg().Path(); pth == "strings" || pth == "bytes" || pth == "unicode" || strings.HasPrefix(pth, "golang.org/x/text/cases") {
					switch obj.Name() {
					case "EqualFold", "ToLower", "ToUpper", "Title", "ToTitle", "Fold", "SimpleFold":
						bad = append(bad, fmt.Sprintf("%s calls %s.%s at %s", core.FuncName(fn), pth, obj.Name(), p.Pos(ins.Pos())))
					}
				}
			})
		}
	}
	r.Check(len(bad) == 0, rule, strings.Join(rels, ", "), "no case folding of names", "",
		fmt.Sprintf("no case-folding call in %d functions", nFns),
		strings.Join(bad, "; ")+": names, relations and actions are compared exactly everywhere else, so the layer that folds case accepts (or selects) what the others do not")
}

// ---- R11.11 a namespace is declared once -----------------------------------------------------------------

// r1111: the type checks resolve a namespace name to its first declaration,
// the namespace manager (a map by name) to its last. A document that declares
// a class twice type-checks against one declaration and is evaluated against
// the other. The function that adds a parsed class to the parser's namespaces
// looks the name up among those already parsed and records an error when it
// is there.
func r1111(c *Ctx) {
	p, r := c.P, c.R
	pkgPath := core.KetoMod + "/" + schemaRel
	var adder *ssa.Function
	for _, fn := range p.KetoFuncs(schemaRel) {
		core.Instrs(fn, func(_ *ssa.BasicBlock, _ int, ins ssa.Instruction) {
			st, ok := ins.(*ssa.Store)
			if !ok {
				return
			}
			fa, ok := st.Addr.(*ssa.FieldAddr)
			if !ok {
				return
			}
			if fv := fieldVarOf(fa); fv != nil && fv.Name() == "namespaces" {
				if call, ok := st.Val.(*ssa.Call); ok {
					if bi, ok := call.Call.Value.(*ssa.Builtin); ok && bi.Name() == "append" {
						adder = fn
					}
				}
			}
		})
	}
	if adder == nil {
		r.Undecide("R11.11", "", "anchor: append to parser.namespaces", "", "not found")
		return
	}
	// an error-recording call on the found==true side of a look-up among p.namespaces
	okDup := false
	for _, b := range adder.Blocks {
		records := false
		for _, ins := range b.Instrs {
			if ci, ok := ins.(ssa.CallInstruction); ok {
				if obj := core.CalleeObj(ci.Common()); obj != nil && obj.Pkg() != nil && obj.Pkg().Path() == pkgPath && (obj.Name() == "addErr" || obj.Name() == "addFatal") {
					records = true
				}
			}
		}
		if !records {
			continue
		}
		for _, cd := range core.CondsAt(b) {
			ex, ok := cd.V.(*ssa.Extract)
			if !ok || !cd.True {
				continue
			}
			call, ok := ex.Tuple.(*ssa.Call)
			if !ok {
				continue
			}
			// the look-up runs over the namespaces parsed so far
			for _, a := range call.Call.Args {
				v := core.ValueOrigin(a)
				if ct, ok := v.(*ssa.ChangeType); ok {
					v = core.ValueOrigin(ct.X)
				}
				if u, ok := v.(*ssa.UnOp); ok {
					if fa, ok := u.X.(*ssa.FieldAddr); ok {
						if fv := fieldVarOf(fa); fv != nil && fv.Name() == "namespaces" {
							okDup = true
						}
					}
				}
			}
		}
	}
	r.Check(okDup, "R11.11", core.FuncName(adder), "duplicate class names are rejected", p.Pos(adder.Pos()),
		"the name of a parsed class is looked up among the namespaces parsed so far and a repeat is reported",
		"a class name is added to the parsed namespaces without checking that it is new: the type checks use the first declaration of the name, the namespace manager the last, so a document with a repeated class is accepted and its checks fail with 'relation does not exist'")
}
